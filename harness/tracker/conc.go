//go:build verif

package main

import (
	"encoding/json"
	"fmt"
	"os"
	"sort"
	"strconv"
	"strings"
	"sync"
	"time"

	"github.com/metal-toolbox/audito-maldito/internal/common"
	"github.com/metal-toolbox/audito-maldito/internal/verifharness/hutil"
	"github.com/metal-toolbox/audito-maldito/processors/auditd/sessiontracker"
)

// A concurrent case: a few threads, each a short program of correlator calls; one victim
// thread is paused just before its k-th lock acquisition (hook point) while the other threads
// run (as far as they can), then it is resumed.
type concCase struct {
	Threads [][]HOp `json:"threads"`
	Pre     []int   `json:"run_before_victim"` // threads run to completion before the victim starts
	Victim  int     `json:"victim"`
	K       int     `json:"pause_before_lock_index"`
	Order   []int   `json:"order_of_others"` // threads run while the victim is paused
}

type concOutcome struct {
	PerSession map[string][]string `json:"emitted_per_session"` // session -> ["login/event", ...] in order
	Sessions   map[string]string   `json:"sessions"`            // session -> "login|held ids"
	Parked     map[string]int      `json:"parked"`
	Results    string              `json:"results"`
}

func (o concOutcome) key() string {
	b, _ := json.Marshal(o)
	return string(b)
}

type concRunner struct {
	r      *runner
	mu     sync.Mutex
	bounds []time.Time
}

func newConcRunner(threads [][]HOp) *concRunner {
	h := History{Budget: -1, Plans: map[string]SessPlan{}}
	for _, t := range threads {
		h.Ops = append(h.Ops, t...)
	}
	rn := newRunner(h)
	rn.bounds = []time.Time{tick()}
	return &concRunner{r: rn}
}

// the tracker reads time.Now() itself; cut-offs used in concurrent cases are fixed: index 0 =
// before everything (keeps all), index 1 = far future (discards every pending half)
func (c *concRunner) cut(i int) time.Time {
	if i == 0 {
		return c.r.bounds[0]
	}
	return c.r.bounds[0].Add(24 * time.Hour)
}

func (c *concRunner) do(o HOp) string {
	switch o.Kind {
	case "login":
		c.mu.Lock()
		l := *o.Login
		l.AtIdx = 0
		rul := c.r.mkLogin(&l)
		c.mu.Unlock()
		return classify(c.r.tr.RemoteLogin(rul))
	case "audit":
		c.mu.Lock()
		ev := c.r.mkEvent(o.Event)
		c.mu.Unlock()
		return classify(c.r.tr.AuditdEvent(ev))
	case "clean_sess":
		c.r.tr.DeleteUsersWithoutLoginsBefore(c.cut(o.Cut))
	case "clean_logins":
		c.r.tr.DeleteRemoteUserLoginsBefore(c.cut(o.Cut))
	}
	return "ok"
}

func (c *concRunner) outcome(results [][]string) (concOutcome, error) {
	out := concOutcome{PerSession: map[string][]string{}, Sessions: map[string]string{}, Parked: map[string]int{}}
	for _, m := range c.r.enc.out {
		e, err := decodeEmitted(m, 0)
		if err != nil {
			return out, err
		}
		out.PerSession[e.Ses] = append(out.PerSession[e.Ses], fmt.Sprintf("%d/%d", e.LoginID, e.EventID))
	}
	ss, pk := sessiontracker.VerifDump(c.r.tr)
	for id, u := range ss {
		lg := -1
		if u.HasRUL {
			lg = c.r.logins[u.Login.Source]
		}
		var held []string
		for _, ev := range u.Cached {
			held = append(held, strconv.Itoa(c.r.events[ev]))
		}
		out.Sessions[id] = fmt.Sprintf("%d|%s", lg, strings.Join(held, ","))
	}
	for pid, l := range pk {
		out.Parked[strconv.Itoa(pid)] = c.r.logins[l.Source]
	}
	var rs []string
	for _, r := range results {
		rs = append(rs, strings.Join(r, ","))
	}
	out.Results = strings.Join(rs, ";")
	return out, nil
}

// all interleavings of the threads' programs (as sequences of thread indices)
func interleavings(lens []int) [][]int {
	var res [][]int
	var rec func(rem []int, cur []int)
	rec = func(rem []int, cur []int) {
		done := true
		for i, n := range rem {
			if n > 0 {
				done = false
				rem[i]--
				rec(rem, append(cur, i))
				rem[i]++
			}
		}
		if done {
			res = append(res, append([]int{}, cur...))
		}
	}
	rec(append([]int{}, lens...), nil)
	return res
}

func sequentialOutcomes(threads [][]HOp) (map[string]bool, error) {
	lens := make([]int, len(threads))
	for i, t := range threads {
		lens[i] = len(t)
	}
	set := map[string]bool{}
	for _, il := range interleavings(lens) {
		c := newConcRunner(threads)
		idx := make([]int, len(threads))
		results := make([][]string, len(threads))
		for _, t := range il {
			results[t] = append(results[t], c.do(threads[t][idx[t]]))
			idx[t]++
		}
		o, err := c.outcome(results)
		if err != nil {
			return nil, err
		}
		set[o.key()] = true
	}
	return set, nil
}

type concResult struct {
	Outcome        concOutcome `json:"outcome"`
	Paused         bool        `json:"paused"`
	OthersFinished []bool      `json:"others_finished_while_victim_paused"`
	Trace          []string    `json:"victim_lock_trace"`
	Hung           bool        `json:"hung"`
}

func runConc(cc concCase) (concResult, error) {
	var res concResult
	c := newConcRunner(cc.Threads)
	ctl := hutil.NewCtl()
	sm, pm := sessiontracker.VerifMaps(c.r.tr)
	ctl.Name(sm, "sessions")
	ctl.Name(pm, "parked")
	common.VerifHook = ctl.Hook
	defer func() { common.VerifHook = nil }()
	results := make([][]string, len(cc.Threads))
	runThread := func(t int) {
		for _, o := range cc.Threads[t] {
			results[t] = append(results[t], c.do(o))
		}
	}
	for _, t := range cc.Pre {
		runThread(t)
	}
	ctl.ResetTrace()
	res.Paused = ctl.StartVictim(func() { runThread(cc.Victim) }, cc.K)
	var waits []func()
	if res.Paused {
		for _, t := range cc.Order {
			t := t
			done, wait := hutil.RunTimeout(func() { runThread(t) }, 25*time.Millisecond)
			res.OthersFinished = append(res.OthersFinished, done)
			waits = append(waits, wait)
		}
		ctl.Resume()
	}
	fin := make(chan struct{})
	go func() {
		ctl.WaitVictim()
		for _, w := range waits {
			w()
		}
		if !res.Paused {
			for _, t := range cc.Order {
				runThread(t)
			}
		}
		close(fin)
	}()
	select {
	case <-fin:
	case <-time.After(5 * time.Second):
		res.Hung = true
		return res, nil
	}
	for _, e := range ctl.ResetTrace() {
		res.Trace = append(res.Trace, e.Obj+"."+e.Op)
	}
	common.VerifHook = nil
	o, err := c.outcome(results)
	res.Outcome = o
	return res, err
}

// small concurrent programs over one or two sessions
func genConcPrograms(r *hutil.Rand) [][]HOp {
	g := &genState{r: r, nextSid: 1, nextPid: 70}
	pid := 70 + r.Intn(5)
	sid := strconv.Itoa(1 + r.Intn(3))
	login := g.login(pid, "")
	audit := []HOp{g.ev(sid, "LOGIN", strconv.Itoa(pid)), g.ev(sid, hutil.Pick(r, otherTypes), strconv.Itoa(pid+1000))}
	if r.Chance(1, 3) {
		audit = append(audit, g.ev(sid, "CRED_DISP", strconv.Itoa(pid)))
	}
	threads := [][]HOp{{login}, audit}
	switch r.Intn(5) {
	case 0: // another session with its own login, events on a third thread
		pid2, sid2 := pid+7, strconv.Itoa(9)
		threads[0] = append(threads[0], g.login(pid2, ""))
		threads = append(threads, []HOp{g.ev(sid2, "LOGIN", strconv.Itoa(pid2)), g.ev(sid2, hutil.Pick(r, otherTypes), "5")})
	case 1, 3: // cleanup thread
		cl := []HOp{{Kind: "clean_sess", Cut: r.Intn(2)}, {Kind: "clean_logins", Cut: r.Intn(2)}}
		switch r.Intn(4) {
		case 0:
			cl = []HOp{cl[1], cl[0]}
		case 1:
			cl = cl[1:]
		case 2:
			cl = cl[:1]
		}
		threads = append(threads, cl)
	case 2: // events of another (uncorrelated) session
		threads = append(threads, []HOp{g.ev("8", "LOGIN", "999"), g.ev("8", hutil.Pick(r, otherTypes), "5")})
	}
	return threads
}

func opsString(threads [][]HOp) string {
	var ts []string
	for i, t := range threads {
		var os []string
		for _, o := range t {
			os = append(os, o.String())
		}
		ts = append(ts, fmt.Sprintf("T%d: %s", i, strings.Join(os, "; ")))
	}
	return strings.Join(ts, " || ")
}

func concMain(out string, n int, seed uint64) {
	r := hutil.NewRand(seed ^ 0xC03)
	sum := hutil.NewSummary("C03", seed,
		"small concurrent programs (login || LOGIN record + follow-up events || events of another session or cleanup), 2-3 threads, <= 7 calls; "+
			"for every victim thread and every lock-acquisition index k of its run the victim is paused there while the other threads run in each order, then resumed "+
			"(all single-preemption schedules at hook granularity on the REAL correlator); the outcome (events per session in order, with identities; final state; results) must equal "+
			"the outcome of some sequential interleaving executed on the same implementation; non-trivial = the victim was paused inside a call; distinct by (program, victim, k, order)")
	progs := 0
	for progs < n {
		threads := genConcPrograms(r)
		progs++
		seqSet, err := sequentialOutcomes(threads)
		if err != nil {
			sum.Fail("harness", "cannot interpret sequential run: "+err.Error(), threads)
			continue
		}
		sum.Dist(fmt.Sprintf("threads_%d", len(threads)))
		sum.Dist(fmt.Sprintf("sequential_outcomes_%d", len(seqSet)))
		for victim := range threads {
			var others []int
			for t := range threads {
				if t != victim {
					others = append(others, t)
				}
			}
			orders := [][]int{others}
			if len(others) == 2 {
				orders = append(orders, []int{others[1], others[0]})
			}
			for _, full := range orders {
				for split := 0; split <= len(full); split++ {
					if split == len(full) && len(full) > 0 {
						continue // nobody left to run at the pause: plain sequential
					}
					pre, ord := full[:split], full[split:]
					for k := 0; k < 10; k++ {
						cc := concCase{Threads: threads, Pre: pre, Victim: victim, K: k, Order: ord}
						res, err := runConc(cc)
						if err != nil {
							sum.Fail("harness", "cannot interpret concurrent run: "+err.Error(), map[string]any{"conc": cc})
							continue
						}
						if res.Hung {
							sum.FailKey("oracle", "conc:deadlock", "deliveries did not complete within 5 s (deadlock): "+opsString(threads),
								map[string]any{"conc": cc})
							continue
						}
						if !res.Paused {
							break
						}
						sum.Count(fmt.Sprint(opsString(threads), pre, victim, k, ord), true)
						sum.Dist(fmt.Sprintf("pause_index_%d", k))
						sum.Dist(fmt.Sprintf("threads_before_victim_%d", len(pre)))
						if !seqSet[res.Outcome.key()] {
							sum.FailKey("oracle", "conc:not-linearizable",
								fmt.Sprintf("%s — T%v run first, then victim T%d paused before lock acquisition %d (%v) while T%v run: outcome %s equals no sequential ordering's outcome",
									opsString(threads), pre, victim, k, res.Trace, ord, res.Outcome.key()),
								map[string]any{"conc": cc, "observed": res})
						}
						for i, f := range res.OthersFinished {
							if f {
								// another thread completed a whole program while the victim was inside a call:
								// the call is not a critical section of one correlator-wide mutex (model: locked = true)
								sum.FailKey("harness", "conc:call-not-atomic",
									fmt.Sprintf("T%d ran to completion while T%d was paused inside a correlator call (before %v): calls are not critical sections of one mutex, as the model assumes",
										ord[i], victim, lastOf(res.Trace)), map[string]any{"conc": cc})
							}
						}
						if len(sum.Samples) < 3 {
							sum.Sample(map[string]any{"program": opsString(threads), "run_before_victim": pre, "victim": victim, "pause_before_lock_index": k, "victim_lock_trace": res.Trace})
						}
					}
				}
			}
		}
	}
	sum.CaseFiles = nil
	sum.Write(out)
}

func lastOf(t []string) string {
	if len(t) == 0 {
		return "?"
	}
	return t[len(t)-1]
}

func replayConc(cc concCase) int {
	seqSet, err := sequentialOutcomes(cc.Threads)
	if err != nil {
		fmt.Println("harness error:", err)
		return 2
	}
	res, err := runConc(cc)
	if err != nil {
		fmt.Println("harness error:", err)
		return 2
	}
	if res.Hung {
		fmt.Println("REPRODUCED conc:deadlock")
		return 1
	}
	if !seqSet[res.Outcome.key()] {
		fmt.Printf("REPRODUCED conc:not-linearizable: %s: outcome %s equals no sequential ordering's outcome\n", opsString(cc.Threads), res.Outcome.key())
		return 1
	}
	fmt.Println("not reproduced")
	return 0
}

var _ = sort.Strings
var _ = os.Exit
