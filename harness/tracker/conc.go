//go:build verif

package main

import (
	"bytes"
	"encoding/json"
	"fmt"
	"os"
	"os/exec"
	"sort"
	"strconv"
	"strings"
	"sync"
	"sync/atomic"
	"time"

	"github.com/metal-toolbox/audito-maldito/internal/common"
	"github.com/metal-toolbox/audito-maldito/internal/verifharness/hutil"
	"github.com/metal-toolbox/audito-maldito/processors/auditd/sessiontracker"
)

// A concurrent case: a few threads, each a short program of correlator calls; one victim
// thread is paused just before its k-th lock acquisition (hook point) while the other threads
// run (as far as they can), then it is resumed.
type concCase struct {
	Threads [][]HOp `json:"threads"`
	Pre     []int   `json:"run_before_victim"` // threads run to completion before the victim starts
	Victim  int     `json:"victim"`
	K       int     `json:"pause_before_lock_index"`
	Order   []int   `json:"order_of_others"` // threads run while the victim is paused
	Debug   bool    `json:"debug_logging,omitempty"`
	Chain   []int   `json:"chain,omitempty"` // [a, b]: thread b is the continuation of thread a (same goroutine in the daemon): b's calls come after all of a's
	// Seq, when present, makes the case a plain SEQUENTIAL execution: one goroutine performs the threads' calls in this
	// order (thread index per call).  Used as the replay of a reference run that did not return.
	Seq []int `json:"sequential_order,omitempty"`
	// Vol, when present: the correlator's tables are filled first (volume family: that many logins waiting, that many
	// login-less sessions open), by one goroutine, before any thread starts
	Vol *VolPrelude `json:"volume_prelude,omitempty"`
}

// VolPrelude: what the correlator already holds when a concurrent program starts (pids and session ids from 100000 on,
// login / event ids from 1000 on: disjoint from every program's).
type VolPrelude struct {
	Parked   int `json:"parked_logins"`
	Sessions int `json:"open_sessions"`
	HeldEach int `json:"held_per_open_session"`
}

func (v *VolPrelude) String() string {
	if v == nil {
		return "empty correlator"
	}
	return fmt.Sprintf("correlator already holding %d waiting logins and %d login-less sessions (%d events each)", v.Parked, v.Sessions, v.HeldEach+1)
}

func (v *VolPrelude) ops() []HOp {
	if v == nil {
		return nil
	}
	g := &genState{nextEv: 1000, nextLog: 1000}
	var ops []HOp
	n := v.Parked
	if v.Sessions > n {
		n = v.Sessions
	}
	for k := 0; k < n; k++ {
		if k < v.Parked {
			ops = append(ops, g.login(100000+k, ""))
		}
		if k < v.Sessions {
			sid, pid := strconv.Itoa(100000+k), 200000+k
			ops = append(ops, g.ev(sid, "LOGIN", strconv.Itoa(pid)))
			for j := 0; j < v.HeldEach; j++ {
				ops = append(ops, g.ev(sid, otherTypes[(k+j)%len(otherTypes)], strconv.Itoa(pid+1000)))
			}
		}
	}
	return ops
}

// concBound: how long a concurrent case may take after the last intended pause before it counts as stuck
func concBound() time.Duration { return hutil.CallBound() }

// the watchdog of the sequential reference runs (driven by one goroutine); set by concMain / replayConc
var concSeqWatchdog *hutil.Watchdog

type seqRunCtx struct {
	threads [][]HOp
	order   []int
	debug   bool
	vol     *VolPrelude
}

func describeSeqHang(ctx any, call int, waited time.Duration) (concCase, string) {
	x, _ := ctx.(*seqRunCtx)
	if x == nil {
		return concCase{}, fmt.Sprintf("deadlock: a correlator call did not return within %v", waited.Round(time.Second))
	}
	cc := concCase{Threads: x.threads, Seq: x.order, Debug: x.debug, Vol: x.vol}
	which := fmt.Sprintf("call %d", call)
	if call < 0 {
		which = "a call of the filling phase (before the program's first call)"
	}
	return cc, fmt.Sprintf("deadlock: call did not return within %v: %s of the SEQUENTIAL execution %v (thread index per call) of %s, %s; log level %s",
		waited.Round(time.Second), which, x.order, opsString(x.threads), x.vol.String(), logLevelOf(x.debug))
}

type concOutcome struct {
	PerSession map[string][]string `json:"emitted_per_session"` // session -> ["login/event", ...] in order
	Sessions   map[string]string   `json:"sessions"`            // session -> "login|held ids"
	Parked     map[string]int      `json:"parked"`
	Results    string              `json:"results"`
	Untouched  string              `json:"untouched_since_filling,omitempty"` // sessions/waiting logins exactly as the filling phase left them (counted)
}

func (o concOutcome) key() string {
	b, _ := json.Marshal(o)
	return string(b)
}

type concRunner struct {
	r      *runner
	mu     sync.Mutex
	bounds []time.Time
	// state right after the filling phase (entries still in that state are counted, not listed, in the outcome)
	preSess   map[string]string
	preParked map[string]int
}

// fill: the volume prelude, by the calling goroutine
func (c *concRunner) fill(v *VolPrelude) error {
	if v == nil {
		return nil
	}
	for _, o := range v.ops() {
		if r := c.do(o); r != "ok" {
			return fmt.Errorf("filling phase: %s returned %s", o.String(), r)
		}
	}
	o, err := c.outcome(nil)
	c.preSess, c.preParked = o.Sessions, o.Parked
	return err
}

func newConcRunner(threads [][]HOp, debug ...bool) *concRunner {
	h := History{Budget: -1, Plans: map[string]SessPlan{}, Debug: len(debug) > 0 && debug[0]}
	for _, t := range threads {
		h.Ops = append(h.Ops, t...)
	}
	rn := newRunner(h)
	rn.bounds = []time.Time{tick()}
	return &concRunner{r: rn}
}

// the tracker reads time.Now() itself; cut-offs used in concurrent cases are fixed: index 0 =
// before everything (keeps all), index 1 = far future (discards every pending half)
func (c *concRunner) cut(i int) time.Time {
	if i == 0 {
		return c.r.bounds[0]
	}
	return c.r.bounds[0].Add(24 * time.Hour)
}

func (c *concRunner) do(o HOp) string {
	switch o.Kind {
	case "login":
		c.mu.Lock()
		l := *o.Login
		l.AtIdx = 0
		rul := c.r.mkLogin(&l)
		c.mu.Unlock()
		return classify(c.r.tr.RemoteLogin(rul))
	case "audit":
		c.mu.Lock()
		ev := c.r.mkEvent(o.Event)
		c.mu.Unlock()
		return classify(c.r.tr.AuditdEvent(ev))
	case "clean_sess":
		c.r.tr.DeleteUsersWithoutLoginsBefore(c.cut(o.Cut))
	case "clean_logins":
		c.r.tr.DeleteRemoteUserLoginsBefore(c.cut(o.Cut))
	}
	return "ok"
}

func (c *concRunner) outcome(results [][]string) (concOutcome, error) {
	out := concOutcome{PerSession: map[string][]string{}, Sessions: map[string]string{}, Parked: map[string]int{}}
	for _, m := range c.r.enc.out {
		e, err := decodeEmitted(m, 0)
		if err != nil {
			return out, err
		}
		out.PerSession[e.Ses] = append(out.PerSession[e.Ses], fmt.Sprintf("%d/%d", e.LoginID, e.EventID))
	}
	ss, pk := sessiontracker.VerifDump(c.r.tr)
	for id, u := range ss {
		lg := -1
		if u.HasRUL {
			lg = c.r.logins[u.Login.Source]
		}
		var held []string
		for _, ev := range u.Cached {
			held = append(held, strconv.Itoa(c.r.events[ev]))
		}
		out.Sessions[id] = fmt.Sprintf("%d|%s", lg, strings.Join(held, ","))
	}
	for pid, l := range pk {
		out.Parked[strconv.Itoa(pid)] = c.r.logins[l.Source]
	}
	if c.preSess != nil {
		ns, np := 0, 0
		for id, v := range c.preSess {
			if out.Sessions[id] == v {
				delete(out.Sessions, id)
				ns++
			}
		}
		for pid, l := range c.preParked {
			if got, ok := out.Parked[pid]; ok && got == l {
				delete(out.Parked, pid)
				np++
			}
		}
		out.Untouched = fmt.Sprintf("%d sessions, %d waiting logins", ns, np)
	}
	var rs []string
	for _, r := range results {
		rs = append(rs, strings.Join(r, ","))
	}
	out.Results = strings.Join(rs, ";")
	return out, nil
}

// all interleavings of the threads' programs (as sequences of thread indices)
func interleavings(lens []int) [][]int {
	var res [][]int
	var rec func(rem []int, cur []int)
	rec = func(rem []int, cur []int) {
		done := true
		for i, n := range rem {
			if n > 0 {
				done = false
				rem[i]--
				rec(rem, append(cur, i))
				rem[i]++
			}
		}
		if done {
			res = append(res, append([]int{}, cur...))
		}
	}
	rec(append([]int{}, lens...), nil)
	return res
}

// respectsChain: no call of thread chain[1] before the last call of thread chain[0]
func respectsChain(il []int, chain []int, lens []int) bool {
	if len(chain) != 2 {
		return true
	}
	seenA := 0
	for _, t := range il {
		if t == chain[0] {
			seenA++
		}
		if t == chain[1] && seenA < lens[chain[0]] {
			return false
		}
	}
	return true
}

// sequentialOutcomes: the outcomes of the sequential executions that are valid linearizations of a schedule in
// which the threads [pre] ran to completion, one after the other in that order, BEFORE any other thread started
// (real-time order: their calls precede everything else), the remaining threads interleaved arbitrarily (each in
// program order, a continuation thread after its first part).
func sequentialOutcomes(vol *VolPrelude, threads [][]HOp, chain []int, pre ...int) (map[string]bool, error) {
	lens := make([]int, len(threads))
	isPre := map[int]bool{}
	for i, t := range threads {
		lens[i] = len(t)
	}
	var prefix []int
	for _, t := range pre {
		isPre[t] = true
		for k := 0; k < lens[t]; k++ {
			prefix = append(prefix, t)
		}
	}
	restLens := make([]int, len(threads))
	for i := range threads {
		if !isPre[i] {
			restLens[i] = lens[i]
		}
	}
	set := map[string]bool{}
	for _, rest := range interleavings(restLens) {
		il := append(append([]int{}, prefix...), rest...)
		if !respectsChain(il, chain, lens) {
			continue
		}
		c := newConcRunner(threads)
		idx := make([]int, len(threads))
		results := make([][]string, len(threads))
		concSeqWatchdog.Context(&seqRunCtx{threads: threads, order: il, vol: vol})
		concSeqWatchdog.Enter(-1, &phaseCall)
		ferr := c.fill(vol)
		concSeqWatchdog.Leave()
		if ferr != nil {
			return nil, ferr
		}
		for k, t := range il {
			concSeqWatchdog.Enter(k, &phaseCall)
			r := c.do(threads[t][idx[t]])
			concSeqWatchdog.Leave()
			results[t] = append(results[t], r)
			idx[t]++
		}
		concSeqWatchdog.Enter(len(il), &phaseDump)
		o, err := c.outcome(results)
		concSeqWatchdog.Leave()
		if err != nil {
			return nil, err
		}
		set[o.key()] = true
	}
	return set, nil
}

type concResult struct {
	Outcome        concOutcome `json:"outcome"`
	Paused         bool        `json:"paused"`
	OthersFinished []bool      `json:"others_finished_while_victim_paused"`
	Units          []int       `json:"units_first_thread"`
	Trace          []string    `json:"victim_lock_trace"`
	Hung           bool        `json:"hung"`
	HungWhat       string      `json:"hung_what,omitempty"`
}

func runConc(cc concCase) (concResult, error) {
	c := newConcRunner(cc.Threads, cc.Debug)
	ctl := hutil.NewCtl()
	sm, pm := sessiontracker.VerifMaps(c.r.tr)
	ctl.Name(sm, "sessions")
	ctl.Name(pm, "parked")
	ctl.Name(c.r.enc, "writer")
	defer func() { common.VerifHook = nil }()
	results := make([][]string, len(cc.Threads))
	// per thread: 1 + index of the call in flight, 0 = not started, -1 = finished (read by the watchdog below)
	inCall := make([]atomic.Int64, len(cc.Threads))
	runThread := func(t int) {
		for i, o := range cc.Threads[t] {
			inCall[t].Store(int64(i) + 1)
			results[t] = append(results[t], c.do(o))
		}
		inCall[t].Store(-1)
	}
	// the whole case runs in a goroutine of its own, under a watchdog: the only intended waits are the 25 ms the
	// other threads get while the victim is paused ("paused on purpose": they are expected to block on the
	// correlator's mutex); everything else is in-memory work.  A case that has not completed a generous bound after
	// that is stuck: some call does not return.
	var res concResult
	var fillErr error
	filling := atomic.Bool{}
	body := func() {
		filling.Store(true)
		fillErr = c.fill(cc.Vol) // no schedule points while the tables are filled (one goroutine)
		filling.Store(false)
		if fillErr != nil {
			return
		}
		common.VerifHook = ctl.Hook
		if len(cc.Seq) > 0 {
			idx := make([]int, len(cc.Threads))
			for _, t := range cc.Seq {
				if t < 0 || t >= len(cc.Threads) || idx[t] >= len(cc.Threads[t]) {
					continue
				}
				inCall[t].Store(int64(idx[t]) + 1)
				results[t] = append(results[t], c.do(cc.Threads[t][idx[t]]))
				idx[t]++
				inCall[t].Store(0)
			}
			return
		}
		for _, t := range cc.Pre {
			runThread(t)
		}
		ctl.ResetTrace()
		res.Paused = ctl.StartVictim(func() { runThread(cc.Victim) }, cc.K)
		var waits []func()
		// a continuation thread runs in the goroutine of its first part when both run during the pause
		inOrder := func(x int) bool {
			for _, t := range cc.Order {
				if t == x {
					return true
				}
			}
			return false
		}
		var units [][]int
		for _, t := range cc.Order {
			if len(cc.Chain) == 2 && t == cc.Chain[1] && inOrder(cc.Chain[0]) {
				continue
			}
			u := []int{t}
			if len(cc.Chain) == 2 && t == cc.Chain[0] && inOrder(cc.Chain[1]) {
				u = append(u, cc.Chain[1])
			}
			units = append(units, u)
		}
		if res.Paused {
			for _, u := range units {
				u := u
				done, wait := hutil.RunTimeout(func() {
					for _, t := range u {
						runThread(t)
					}
				}, 25*time.Millisecond)
				res.OthersFinished = append(res.OthersFinished, done)
				res.Units = append(res.Units, u[0])
				waits = append(waits, wait)
			}
			ctl.Resume()
		}
		ctl.WaitVictim()
		for _, w := range waits {
			w()
		}
		if !res.Paused {
			for _, t := range cc.Order {
				runThread(t)
			}
		}
	}
	fin := make(chan struct{})
	go func() {
		defer close(fin)
		body()
	}()
	bound := concBound() + time.Duration(len(cc.Order))*25*time.Millisecond
	select {
	case <-fin:
	case <-time.After(bound):
		// nothing written by the case's goroutines is read here (they are still running): only the atomics
		var stuck []string
		if filling.Load() {
			stuck = append(stuck, "the filling phase ("+cc.Vol.String()+")")
		}
		for t := range cc.Threads {
			if k := inCall[t].Load(); k > 0 && int(k) <= len(cc.Threads[t]) {
				stuck = append(stuck, fmt.Sprintf("T%d in its call %d, %s", t, k-1, cc.Threads[t][k-1].String()))
			}
		}
		var tr []string
		for _, e := range ctl.ResetTrace() {
			tr = append(tr, e.Obj+"."+e.Op)
		}
		if len(tr) > 12 {
			tr = tr[len(tr)-12:]
		}
		return concResult{Hung: true, HungWhat: fmt.Sprintf("deadlock: call did not return within %v: %s (last lock points reached: %v); log level %s",
			bound.Round(time.Second), strings.Join(stuck, "; "), tr, logLevelOf(cc.Debug))}, nil
	}
	for _, e := range ctl.ResetTrace() {
		res.Trace = append(res.Trace, e.Obj+"."+e.Op)
	}
	common.VerifHook = nil
	if fillErr != nil {
		return res, fillErr
	}
	o, err := c.outcome(results)
	res.Outcome = o
	return res, err
}

// describeConc: the schedule in words
func describeConc(cc concCase) string {
	if len(cc.Seq) > 0 {
		return fmt.Sprintf("%s - %s, executed sequentially in the order %v (thread index per call)", opsString(cc.Threads), cc.Vol.String(), cc.Seq)
	}
	if cc.Vol != nil {
		return fmt.Sprintf("%s - %s, then T%v run first, then victim T%d is paused before its hook %d while T%v run, then resumed", opsString(cc.Threads), cc.Vol.String(), cc.Pre, cc.Victim, cc.K, cc.Order)
	}
	return fmt.Sprintf("%s - T%v run first, then victim T%d is paused before its hook %d while T%v run, then resumed", opsString(cc.Threads), cc.Pre, cc.Victim, cc.K, cc.Order)
}

// small concurrent programs over one or two sessions
func genConcPrograms(r *hutil.Rand) ([][]HOp, []int) {
	g := &genState{r: r, nextSid: 1, nextPid: 70}
	pid := 70 + r.Intn(5)
	sid := strconv.Itoa(1 + r.Intn(3))
	login := g.login(pid, "")
	audit := []HOp{g.ev(sid, "LOGIN", strconv.Itoa(pid)), g.ev(sid, hutil.Pick(r, otherTypes), strconv.Itoa(pid+1000))}
	if r.Chance(1, 3) {
		audit = append(audit, g.ev(sid, "CRED_DISP", strconv.Itoa(pid)))
	}
	threads := [][]HOp{{login}, audit}
	if r.Chance(1, 4) {
		// the audit goroutine's later deliveries for the SAME session as a continuation thread: lets a
		// schedule run the first part before the login starts and the rest while the login is paused
		var cont []HOp
		ended := audit[len(audit)-1].Event.Type == "CRED_DISP"
		for i := 0; i < 1+r.Intn(2); i++ {
			cont = append(cont, g.ev(sid, hutil.Pick(r, otherTypes), strconv.Itoa(pid+1000)))
		}
		if !ended && r.Bool() {
			cont = append(cont, g.ev(sid, "CRED_DISP", strconv.Itoa(pid)))
		}
		threads = append(threads, cont)
		return threads, []int{1, 2}
	}
	if r.Chance(1, 5) {
		// the processor's main loop delivers a cleanup tick and then a login, in that order, on ONE thread, while the
		// audit goroutine is inside a call of another session: the sweep (cut-off in the far future: it discards every
		// pending half) must have happened before the login is looked at, whatever the contention
		threads[0] = []HOp{{Kind: hutil.Pick(r, []string{"clean_sess", "clean_sess", "clean_logins"}), Cut: 1}, login}
		threads = append(threads, []HOp{g.ev("8", "LOGIN", "999"), g.ev("8", hutil.Pick(r, otherTypes), "5")})
		return threads, nil
	}
	switch r.Intn(5) {
	case 0: // another session with its own login, events on a third thread
		pid2, sid2 := pid+7, strconv.Itoa(9)
		threads[0] = append(threads[0], g.login(pid2, ""))
		threads = append(threads, []HOp{g.ev(sid2, "LOGIN", strconv.Itoa(pid2)), g.ev(sid2, hutil.Pick(r, otherTypes), "5")})
	case 1, 3: // cleanup thread
		cl := []HOp{{Kind: "clean_sess", Cut: r.Intn(2)}, {Kind: "clean_logins", Cut: r.Intn(2)}}
		switch r.Intn(4) {
		case 0:
			cl = []HOp{cl[1], cl[0]}
		case 1:
			cl = cl[1:]
		case 2:
			cl = cl[:1]
		}
		threads = append(threads, cl)
	case 2: // events of another (uncorrelated) session
		threads = append(threads, []HOp{g.ev("8", "LOGIN", "999"), g.ev("8", hutil.Pick(r, otherTypes), "5")})
	}
	return threads, nil
}

// decorateThreads gives the records of a concurrent program serials, timestamps and related fields (fields.go), from a
// generator of its own; the serial policy runs along the threads one after the other (any assignment is as good as
// another: the order in which the records are processed is what the schedule decides).
func decorateThreads(r *hutil.Rand, threads [][]HOp) {
	var flat []HOp
	plans := map[string]SessPlan{}
	for _, t := range threads {
		for _, o := range t {
			if o.Kind == "audit" && o.Event.Type == "LOGIN" {
				if p, err := strconv.Atoi(o.Event.PIDText); err == nil {
					plans[o.Event.Ses] = SessPlan{Sid: o.Event.Ses, PID: p}
				}
			}
		}
		flat = append(flat, t...)
	}
	decorate(r, flat, plans)
	k := 0
	for i := range threads {
		for j := range threads[i] {
			threads[i][j] = flat[k]
			k++
		}
	}
}

func opsString(threads [][]HOp) string {
	var ts []string
	for i, t := range threads {
		var os []string
		for _, o := range t {
			os = append(os, o.String())
		}
		ts = append(ts, fmt.Sprintf("T%d: %s", i, strings.Join(os, "; ")))
	}
	return strings.Join(ts, " || ")
}

// ---------- property oracles on the final outcome of a concurrent run (independent of the sequential comparison) ----------

type concFail struct{ key, what string }

func concPropertyOracles(threads [][]HOp, chain []int, o concOutcome) []concFail {
	var fs []concFail
	loginPid := map[int]int{}      // login id -> pid
	loginsOfPid := map[int][]int{} // pid -> login ids
	discard := false
	type sess struct {
		loginRecPid string
		nLoginRec   int
		events      []int // ids in delivery order (thread order; chain: a then b)
		disp        int   // index in events of CRED_DISP, -1
		firstLogin  int   // index in events of the LOGIN record, -1
	}
	ss := map[string]*sess{}
	evSession := map[int]string{}
	order := []int{}
	for t := range threads {
		if len(chain) == 2 && t == chain[1] {
			continue
		}
		order = append(order, t)
		if len(chain) == 2 && t == chain[0] {
			order = append(order, chain[1])
		}
	}
	for _, t := range order {
		for _, op := range threads[t] {
			switch op.Kind {
			case "login":
				loginPid[op.Login.ID] = op.Login.PID
				loginsOfPid[op.Login.PID] = append(loginsOfPid[op.Login.PID], op.Login.ID)
			case "audit":
				e := op.Event
				if _, err := strconv.Atoi(e.Ses); err != nil {
					continue
				}
				x := ss[e.Ses]
				if x == nil {
					x = &sess{disp: -1, firstLogin: -1}
					ss[e.Ses] = x
				}
				evSession[e.ID] = e.Ses
				if e.Type == "LOGIN" {
					x.nLoginRec++
					if x.firstLogin < 0 {
						x.firstLogin = len(x.events)
						x.loginRecPid = e.PIDText
					}
				}
				if e.Type == "CRED_DISP" && x.disp < 0 && x.firstLogin >= 0 {
					x.disp = len(x.events)
				}
				x.events = append(x.events, e.ID)
			case "clean_sess", "clean_logins":
				if op.Cut != 0 {
					discard = true
				}
			}
		}
	}
	for sid, em := range o.PerSession {
		x := ss[sid]
		for _, le := range em {
			var l, e int
			fmt.Sscanf(le, "%d/%d", &l, &e)
			if x == nil || x.firstLogin < 0 {
				fs = append(fs, concFail{"conc:silence", fmt.Sprintf("event %d of session %q was emitted although the session has no LOGIN record", e, sid)})
				continue
			}
			p, err := strconv.Atoi(x.loginRecPid)
			if pid, ok := loginPid[l]; !ok || err != nil || pid != p {
				fs = append(fs, concFail{"conc:identity", fmt.Sprintf("event %d of session %s (opened by pid %s) carries the identity of login %d (pid %d)", e, sid, x.loginRecPid, l, loginPid[l])})
			}
		}
	}
	for sid, x := range ss {
		if x.firstLogin < 0 || x.nLoginRec != 1 {
			continue
		}
		p, err := strconv.Atoi(x.loginRecPid)
		if err != nil || len(loginsOfPid[p]) != 1 {
			continue
		}
		// other sessions opened by the same pid make the history ill-formed for C02
		same := 0
		for _, y := range ss {
			if y.firstLogin >= 0 && y.loginRecPid == x.loginRecPid {
				same++
			}
		}
		if same != 1 || discard {
			continue
		}
		// both halves were delivered: every event from the LOGIN record to the disposal record exactly once, in order
		want := x.events[x.firstLogin:]
		must := len(want)
		if x.disp >= 0 {
			must = x.disp - x.firstLogin + 1
		}
		var got []int
		for _, le := range o.PerSession[sid] {
			var l, e int
			fmt.Sscanf(le, "%d/%d", &l, &e)
			got = append(got, e)
		}
		ok := len(got) >= must && len(got) <= len(want)
		for i := 0; ok && i < len(got); i++ {
			ok = got[i] == want[i]
		}
		if !ok {
			fs = append(fs, concFail{"conc:once-in-order", fmt.Sprintf("session %s: login (pid %d) and LOGIN record were both delivered, events from the LOGIN record on are %v (at least the first %d must be emitted, once, in order) but the emitted ones are %v; final state: sessions %v, parked %v",
				sid, p, want, must, got, o.Sessions, o.Parked)})
		}
	}
	return fs
}

// which keys a property's concurrent stage reports
func concKeyWanted(prop, key string) bool {
	switch prop {
	case "C01":
		return key == "conc:identity" || key == "conc:deadlock"
	case "C02":
		return key == "conc:once-in-order" || key == "conc:crash" || key == "conc:deadlock"
	case "C04":
		return key == "conc:silence" || key == "conc:deadlock"
	}
	return true // C03: everything
}

func inflightPath(out string) string { return out + "/inflight.json" }

var concVolSizes = []int{255, 256, 257, 1000, 1023, 1024, 1025, 2047, 2048, 2049}

func concMain(out string, n int, seed uint64, prop string, nVol int, volBig bool) {
	if volBig {
		// every schedule of a program fills the tables anew (under the race detector): sizes stay moderate
		concVolSizes = append(concVolSizes, 4096, 4097)
	}
	r := hutil.NewRand(seed ^ 0xC03)
	sum := hutil.NewSummary(prop, seed,
		"small concurrent programs (login || LOGIN record + follow-up events || later events of the same session, events of another session, or cleanup), 2-3 threads, <= 8 calls; "+
			"for every victim thread and every hook index k of its run (just before each lock acquisition of the shared maps, and just before each event write) the victim is paused there while the other threads run in each order, "+
			"some of them before the victim starts, then it is resumed (all single-preemption schedules at hook granularity on the REAL correlator, under the race detector, one child process so that a crash is attributed to its schedule); "+
			"C03: the outcome (events per session in order, with identities; final state; results) must equal the outcome of some sequential interleaving executed on the same implementation; "+
			"C01/C02/C04 stages: identity / once-in-order / silence oracles on the final outcome, computed from the program alone; non-trivial = the victim was paused inside a call; distinct by (program, victim, k, order)")
	os.MkdirAll(out, 0o755)
	// a call that does not return ends the exploration: the failure is recorded with the schedule as replay, the
	// summary written, and this (poisoned) child process exits
	stopAfterHang := func(what string, cc concCase) {
		sum.FailKey("oracle", "conc:deadlock", what, map[string]any{"conc": cc})
		sum.Notes = append(sum.Notes, "the exploration was cut short: a correlator call did not return (process poisoned)")
		os.Remove(inflightPath(out))
		sum.CaseFiles = nil
		sum.Write(out)
		os.Exit(0)
	}
	concSeqWatchdog = hutil.NewWatchdog(func(ctx any, call int, phase string, waited time.Duration) {
		cc, what := describeSeqHang(ctx, call, waited)
		stopAfterHang(what, cc)
	})
	progs := 0
	// the last nVol programs start on a correlator whose tables are already large (volume family): the first of them
	// with the largest size, the others drawn from sizes around powers of two and ten
	vr := hutil.NewRand(seed ^ 0xC03 ^ hashStr("family:volume"))
	for progs < n+nVol {
		threads, chain := genConcPrograms(r)
		progs++
		var vol *VolPrelude
		if progs > n {
			sizes := concVolSizes
			sz := sizes[len(sizes)-1]
			if progs > n+1 {
				sz = hutil.Pick(vr, sizes)
			}
			vol = &VolPrelude{}
			switch k := (progs - n - 1) % 3; k {
			case 0:
				vol.Parked = sz
			case 1:
				vol.Sessions, vol.HeldEach = sz, vr.Intn(3)
			default:
				vol.Parked, vol.Sessions = sz, hutil.Pick(vr, sizes)
			}
			sum.Dist("programs_on_a_filled_correlator")
			sum.Dist(fmt.Sprintf("filled_waiting_logins_%s", magnitude(vol.Parked)))
			sum.Dist(fmt.Sprintf("filled_open_sessions_%s", magnitude(vol.Sessions)))
		}
		decorateThreads(hutil.NewRand(seed^0xC03F1E1D^uint64(progs)*0x9E3779B97F4A7C15), threads)
		seqSet, err := sequentialOutcomes(vol, threads, chain)
		if err != nil {
			sum.Fail("harness", "cannot interpret sequential run: "+err.Error(), threads)
			continue
		}
		seqCache := map[string]map[string]bool{}
		seqFor := func(pre []int) map[string]bool {
			k := fmt.Sprint(pre)
			if m, ok := seqCache[k]; ok {
				return m
			}
			m, err := sequentialOutcomes(vol, threads, chain, pre...)
			if err != nil {
				m = seqSet
			}
			seqCache[k] = m
			return m
		}
		sum.Dist(fmt.Sprintf("threads_%d", len(threads)))
		if len(chain) == 2 {
			sum.Dist("programs_with_continuation_thread")
		}
		sum.Dist(fmt.Sprintf("sequential_outcomes_%d", len(seqSet)))
		lens := make([]int, len(threads))
		for i, t := range threads {
			lens[i] = len(t)
		}
		for victim := range threads {
			var others []int
			for t := range threads {
				if t != victim {
					others = append(others, t)
				}
			}
			orders := [][]int{others}
			if len(others) == 2 {
				orders = append(orders, []int{others[1], others[0]})
			}
			for _, full := range orders {
				for split := 0; split <= len(full); split++ {
					if split == len(full) && len(full) > 0 {
						continue // nobody left to run at the pause: plain sequential
					}
					pre, ord := full[:split], full[split:]
					if len(chain) == 2 {
						// the continuation never starts before its first part has finished
						pos := map[int]int{}
						for i, t := range full {
							pos[t] = i
						}
						pos[victim] = split // the victim's calls start here (and finish after the others)
						if victim == chain[0] || pos[chain[1]] < pos[chain[0]] {
							continue
						}
						if victim == chain[1] && pos[chain[0]] >= split {
							continue
						}
					}
					for k := 0; k < 12; k++ {
						cc := concCase{Threads: threads, Pre: pre, Victim: victim, K: k, Order: ord, Chain: chain, Debug: progs%3 == 0, Vol: vol}
						if b, err := json.Marshal(map[string]any{"conc": cc}); err == nil {
							_ = os.WriteFile(inflightPath(out), b, 0o644)
						}
						res, err := runConc(cc)
						if err != nil {
							sum.Fail("harness", "cannot interpret concurrent run: "+err.Error(), map[string]any{"conc": cc})
							continue
						}
						if res.Hung {
							stopAfterHang(res.HungWhat+" - schedule: "+describeConc(cc), cc)
						}
						if !res.Paused {
							break
						}
						sum.Count(fmt.Sprint(opsString(threads), pre, victim, k, ord), true)
						sum.Dist(fmt.Sprintf("pause_index_%d", k))
						if len(res.Trace) > 0 {
							sum.Dist("paused_before_" + lastOf(res.Trace))
						}
						sum.Dist(fmt.Sprintf("threads_before_victim_%d", len(pre)))
						where := fmt.Sprintf("%s — T%v run first, then victim T%d paused before hook %d (%v) while T%v run", opsString(threads), pre, victim, k, res.Trace, ord)
						if !seqFor(pre)[res.Outcome.key()] && concKeyWanted(prop, "conc:not-linearizable") {
							sum.FailKey("oracle", "conc:not-linearizable",
								fmt.Sprintf("%s: outcome %s equals the outcome of no sequential ordering in which the calls of T%v come first", where, res.Outcome.key(), pre),
								map[string]any{"conc": cc, "observed": res})
						}
						for _, f := range concPropertyOracles(threads, chain, res.Outcome) {
							if concKeyWanted(prop, f.key) {
								sum.FailKey("oracle", f.key, where+": "+f.what, map[string]any{"conc": cc, "observed": res})
							}
						}
						for i, f := range res.OthersFinished {
							if f && prop == "C03" {
								// another thread completed a whole program while the victim was inside a call:
								// the call is not a critical section of one correlator-wide mutex (model: locked = true)
								sum.FailKey("harness", "conc:call-not-atomic",
									fmt.Sprintf("T%d ran to completion while T%d was paused inside a correlator call (before %v): calls are not critical sections of one mutex, as the model assumes",
										res.Units[i], victim, lastOf(res.Trace)), map[string]any{"conc": cc})
							}
						}
						if len(sum.Samples) < 3 {
							sum.Sample(map[string]any{"program": opsString(threads), "run_before_victim": pre, "victim": victim, "pause_before_hook_index": k, "victim_hook_trace": res.Trace})
						}
					}
				}
			}
		}
	}
	os.Remove(inflightPath(out))
	sum.CaseFiles = nil
	sum.Write(out)
}

func lastOf(t []string) string {
	if len(t) == 0 {
		return "?"
	}
	return t[len(t)-1]
}

// concParent runs the exploration in a child process (GORACE halt_on_error): a panic, a fatal runtime
// error or a data race kills the child; the schedule in flight is then reported as the failing input.
func concParent(out, prop string, seed uint64) int {
	os.MkdirAll(out, 0o755)
	os.Remove(out + "/summary.json")
	cmd := exec.Command(os.Args[0], os.Args[1:]...)
	cmd.Env = append(os.Environ(), "VERIF_CONC_CHILD=1", "GORACE=halt_on_error=1")
	var buf bytes.Buffer
	cmd.Stdout = &buf
	cmd.Stderr = &buf
	err := cmd.Run()
	if _, serr := os.Stat(out + "/summary.json"); err == nil && serr == nil {
		os.Stdout.Write(buf.Bytes())
		return 0
	}
	tail := buf.String()
	if len(tail) > 3000 {
		tail = tail[:1500] + "\n...\n" + tail[len(tail)-1500:]
	}
	sum := hutil.NewSummary(prop, seed, "the exploring child process died; the schedule in flight is reported")
	raw, rerr := os.ReadFile(inflightPath(out))
	var infl map[string]any
	if rerr != nil || json.Unmarshal(raw, &infl) != nil {
		sum.FailKey("harness", "conc:child-died", fmt.Sprintf("the exploring child process ended (%v) without a summary and without a schedule in flight: %s", err, tail), nil)
		sum.Write(out)
		return 0
	}
	kind := "the correlator crashed"
	switch {
	case strings.Contains(tail, "DATA RACE"):
		kind = "the race detector reported a data race"
	case strings.Contains(tail, "fatal error:"):
		kind = "fatal runtime error"
	case strings.Contains(tail, "panic:"):
		kind = "panic"
	}
	sum.Count("crash", true)
	// a crash ends the exploration; look for a deterministic failing schedule as well: same exploration
	// without halting at the first data race (a panic still ends it)
	cmd2 := exec.Command(os.Args[0], os.Args[1:]...)
	cmd2.Env = append(os.Environ(), "VERIF_CONC_CHILD=2", "GORACE=halt_on_error=0")
	var buf2 bytes.Buffer
	cmd2.Stdout = &buf2
	cmd2.Stderr = &buf2
	_ = cmd2.Run()
	if raw2, err2 := os.ReadFile(out + "/summary.json"); err2 == nil {
		var s2 hutil.Summary
		if json.Unmarshal(raw2, &s2) == nil {
			for _, f := range s2.Failures {
				if f.Kind == "oracle" {
					sum.Failures = append(sum.Failures, f)
				}
			}
			sum.Evaluations += s2.Evaluations
			sum.DistinctNontrivial += s2.DistinctNontrivial
			sum.Distribution = s2.Distribution
			sum.Samples = s2.Samples
			sum.Rule = s2.Rule
		}
	}
	sum.FailKey("oracle", "conc:crash", fmt.Sprintf("%s during the schedule in flight (child ended: %v): %s", kind, err, tail), infl)
	sum.CaseFiles = nil
	sum.Write(out)
	return 0
}

func replayConcParent() int {
	var err error
	var outp string
	// a crash may depend on timing beyond the forced pause: a few attempts
	for try := 0; try < 6; try++ {
		cmd := exec.Command(os.Args[0], os.Args[1:]...)
		cmd.Env = append(os.Environ(), "VERIF_CONC_CHILD=1", "GORACE=halt_on_error=1")
		var buf bytes.Buffer
		cmd.Stdout = &buf
		cmd.Stderr = &buf
		err = cmd.Run()
		outp = buf.String()
		if strings.Contains(outp, "DATA RACE") || strings.Contains(outp, "fatal error:") || strings.Contains(outp, "panic:") {
			if len(outp) > 2500 {
				outp = outp[:2500]
			}
			fmt.Println("REPRODUCED conc:crash:", outp)
			return 1
		}
		if strings.Contains(outp, "REPRODUCED") {
			break
		}
	}
	fmt.Print(outp)
	if ee, ok := err.(*exec.ExitError); ok {
		return ee.ExitCode()
	}
	if err != nil {
		return 2
	}
	return 0
}

func replayConc(cc concCase, prop string) int {
	concSeqWatchdog = hutil.NewWatchdog(func(ctx any, call int, phase string, waited time.Duration) {
		_, what := describeSeqHang(ctx, call, waited)
		fmt.Println("REPRODUCED conc:deadlock:", what)
		os.Exit(1)
	})
	if len(cc.Seq) > 0 {
		// a sequential execution that did not return
		res, err := runConc(cc)
		if err != nil {
			fmt.Println("harness error:", err)
			return 2
		}
		if res.Hung {
			fmt.Println("REPRODUCED conc:deadlock:", res.HungWhat)
			return 1
		}
		fmt.Println("not reproduced")
		return 0
	}
	seqSet, err := sequentialOutcomes(cc.Vol, cc.Threads, cc.Chain, cc.Pre...)
	if err != nil {
		fmt.Println("harness error:", err)
		return 2
	}
	rc := 0
	// a schedule-dependent failure may need more than one run (the pause is exact, the others' progress is timed)
	for try := 0; try < 3 && rc == 0; try++ {
		res, err := runConc(cc)
		if err != nil {
			fmt.Println("harness error:", err)
			return 2
		}
		if res.Hung {
			fmt.Println("REPRODUCED conc:deadlock:", res.HungWhat)
			return 1
		}
		if !seqSet[res.Outcome.key()] && concKeyWanted(prop, "conc:not-linearizable") {
			fmt.Printf("REPRODUCED conc:not-linearizable: %s: outcome %s equals no sequential ordering's outcome\n", opsString(cc.Threads), res.Outcome.key())
			rc = 1
		}
		for _, f := range concPropertyOracles(cc.Threads, cc.Chain, res.Outcome) {
			if concKeyWanted(prop, f.key) {
				fmt.Printf("REPRODUCED %s: %s\n", f.key, f.what)
				rc = 1
			}
		}
	}
	if rc == 0 {
		fmt.Println("not reproduced")
	}
	return rc
}

var _ = sort.Strings
var _ = os.Exit
