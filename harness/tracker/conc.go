//go:build verif

package main

import "fmt"

type concCase struct{}

func concMain(out string, n int, seed uint64) { fmt.Println("conc mode not built yet") }

func replayConc(c concCase) int { return 2 }
