//go:build verif

package main

import (
	"fmt"
	"strconv"
	"time"

	"github.com/metal-toolbox/audito-maldito/internal/common"
	"github.com/metal-toolbox/audito-maldito/internal/verifharness/hutil"
)

// ---------- the VOLUME family ----------
//
// The other families keep the correlator's tables small (a handful of sessions, a dozen held events).  What a
// correlator does once a table is LARGE, or once it has been running for a LONG TIME, is behaviour of its own: bounds,
// budgets, eviction, counters that are given back on one path and not on another.  A volume history therefore has
//
//   - a LIFETIME part: rounds of cron-like sessions (LOGIN record + held events, never a login) thrown away by the
//     session sweep, and rounds of logins nobody claims thrown away by the login sweep - cumulative counts of
//     thousands to 10^5 while never more than a few hundred are pending at one time;
//   - a TABLE part: hundreds to thousands of logins waiting at the same time, of login-less sessions open at the same
//     time, of events held by one session;
//   - PROBES all along: ordinary sessions (both halves, in either order) started and completed while the tables
//     grow and between the sweeps;
//   - a TAIL: an ordinary small history (families pending / overtake, modes reuse / cleanup) plus the other halves of
//     some of the waiting logins and of some of the open sessions.
//
// Everything is judged by the properties' oracles from the history alone (identity, once-in-order, ended sessions);
// every call runs under the watchdog.  No Coq cases (the state is not dumped after every step: a dump is linear in
// the tables).  The failing input is the compact description below: the history is regenerated from it.
type VolCase struct {
	Parked     int    `json:"parked_logins"`              // logins waiting at the same time when the tail starts
	Sessions   int    `json:"open_sessions"`              // login-less sessions open at the same time
	HeldEach   int    `json:"held_per_open_session"`      // events each of them holds besides its LOGIN record
	Held       int    `json:"held_by_one_session"`        // one more session holding this many; its login comes in the tail
	Lifetime   int    `json:"lifetime_held_discarded"`    // at least this many held events are thrown away by session sweeps first
	LoginLife  int    `json:"lifetime_logins_discarded"`  // at least this many waiting logins are thrown away by login sweeps first
	PerRound   int    `json:"lifetime_entries_per_sweep"` // sessions (logins) per sweep round
	RoundHeld  int    `json:"lifetime_held_per_session"`  // events held by each swept session besides its LOGIN record
	ProbeEvery int    `json:"probe_every"`                // on average one probe session per this many entries
	PickUps    int    `json:"pick_ups"`                   // waiting logins / open sessions whose other half arrives in the tail
	Tail       string `json:"tail"`                       // pending | overtake | reuse | cleanup
	Seed       uint64 `json:"seed"`
	Debug      bool   `json:"debug_logging,omitempty"`
	IdentPool  int    `json:"ident_pool,omitempty"` // as History.IdentPool
}

func (v VolCase) String() string {
	return fmt.Sprintf("volume{lifetime: %d held events swept (%d sessions x %d per round), %d logins swept; tables: %d logins waiting, %d login-less sessions x %d held, one session holding %d; %d pick-ups; tail %s; seed %d}",
		v.Lifetime, v.PerRound, v.RoundHeld+1, v.LoginLife, v.Parked, v.Sessions, v.HeldEach+1, v.Held, v.PickUps, v.Tail, v.Seed)
}

var volSizesQuick = []int{255, 256, 257, 1000, 1023, 1024, 1025, 2047, 2048, 2049, 4096}
var volSizesThorough = []int{255, 256, 257, 1000, 1023, 1024, 1025, 2047, 2048, 2049, 4096, 4097, 8191, 8192, 10000, 10001, 16384}
var volLifeQuick = []int{1000, 1024, 2048, 10000, 10001, 12000, 16384}
var volLifeThorough = []int{1000, 1024, 10000, 10001, 16384, 32768, 65536, 100000, 100001, 131072}

// genVolCase: case i of a run.  The dimension cycles with i (waiting logins, open sessions, held by one session,
// lifetime of swept sessions, lifetime of swept logins); the FIRST case of every dimension takes the tier's largest
// size (growing a table to N passes through every smaller size on the way; probes are judged all along), later ones
// draw from the size lists; a second dimension is added to a third of the cases.
func genVolCase(r *hutil.Rand, i int, big bool) VolCase {
	sizes, lifes := volSizesQuick, volLifeQuick
	if big {
		sizes, lifes = volSizesThorough, volLifeThorough
	}
	pick := func(xs []int) int {
		if i < 5 {
			return xs[len(xs)-1]
		}
		return hutil.Pick(r, xs)
	}
	v := VolCase{Seed: r.U64(), PerRound: hutil.Pick(r, []int{1, 8, 50, 200}), RoundHeld: hutil.Pick(r, []int{0, 1, 3, 9, 40}),
		ProbeEvery: hutil.Pick(r, []int{40, 150, 600}), PickUps: 1 + r.Intn(6),
		Tail: []string{"pending", "overtake", "reuse", "cleanup"}[r.Intn(4)], Debug: r.Chance(1, 6)}
	set := func(dim int) {
		switch dim {
		case 0:
			v.Parked = pick(sizes)
		case 1:
			v.Sessions = pick(sizes)
			v.HeldEach = hutil.Pick(r, []int{0, 0, 1, 2, 5})
			if v.Sessions*(v.HeldEach+1) > 40000 {
				v.HeldEach = 1
			}
		case 2:
			v.Held = pick(sizes)
		case 3:
			v.Lifetime = pick(lifes)
			if v.PerRound == 1 && v.RoundHeld < 9 {
				v.RoundHeld = 9
			}
			v.Tail = "pending" // sessions that hold events before their login arrives
		case 4:
			v.LoginLife = pick(lifes)
			if v.LoginLife > 40000 {
				v.LoginLife = 40000
			}
			if v.PerRound == 1 {
				v.PerRound = 50
			}
		}
	}
	v.IdentPool = hutil.Pick(r, []int{0, 0, 1, 2, 3})
	set(i % 5)
	if i >= 5 && r.Chance(1, 3) {
		set(r.Intn(5))
	}
	return v
}

// volHistory expands a case into its history; a function of the case alone (no map iteration, no clock).
func volHistory(v VolCase) History {
	r := hutil.NewRand(v.Seed)
	g := &genState{r: r, nextSid: 100000, nextPid: 100000}
	h := History{Budget: -1, Plans: map[string]SessPlan{}, Mode: "volume", Debug: v.Debug, IdentPool: v.IdentPool}
	vc := v
	h.Vol = &vc
	var ops []HOp
	newSid := func() string { s := strconv.Itoa(g.nextSid); g.nextSid++; return s }
	newPid := func() int { p := g.nextPid; g.nextPid++; return p }

	// probes: ordinary sessions started and completed along the way, in two chunks a few entries apart
	type later struct {
		after int // entries still to go before the chunk is due
		ops   []HOp
	}
	var due []later
	entry := func() {
		// one more table / round entry has been appended: release what is due, perhaps start a probe
		for k := 0; k < len(due); {
			due[k].after--
			if due[k].after <= 0 {
				ops = append(ops, due[k].ops...)
				due = append(due[:k], due[k+1:]...)
				continue
			}
			k++
		}
		if v.ProbeEvery > 0 && r.Chance(1, v.ProbeEvery) {
			sid, pid := newSid(), newPid()
			s, lid := g.sessionScript(sid, pid, true, true, r.Chance(2, 3), r.Intn(5), 0, -1)
			h.Plans[sid] = SessPlan{Sid: sid, PID: pid, HasLoginRec: true, LoginID: lid, WF: true}
			cut := r.Intn(len(s) + 1)
			ops = append(ops, s[:cut]...)
			if cut < len(s) {
				due = append(due, later{after: 1 + r.Intn(30), ops: s[cut:]})
			}
		}
	}
	flushDue := func() {
		for _, d := range due {
			ops = append(ops, d.ops...)
		}
		due = nil
	}

	// ---- lifetime: cron-like sessions swept by the session cleanup
	per := v.PerRound
	if per < 1 {
		per = 1
	}
	for swept := 0; swept < v.Lifetime; {
		start := len(ops)
		for k := 0; k < per; k++ {
			sid, pid := newSid(), newPid()
			ops = append(ops, g.ev(sid, "LOGIN", strconv.Itoa(pid)))
			for j := 0; j < v.RoundHeld; j++ {
				ops = append(ops, g.ev(sid, hutil.Pick(r, otherTypes), strconv.Itoa(pid+1000)))
			}
			if r.Chance(1, 5) {
				ops = append(ops, g.ev(sid, "CRED_DISP", strconv.Itoa(pid)))
				swept++
			}
			h.Plans[sid] = SessPlan{Sid: sid, PID: pid, HasLoginRec: true, LoginID: -1, WF: true}
			swept += 1 + v.RoundHeld
			entry()
		}
		// the sweep: everything opened before this call is old - or (one time in three) everything opened before
		// this round, so that the round's own sessions live until the next sweep
		c := HOp{Kind: "clean_sess", Cut: len(ops)}
		if r.Chance(1, 3) {
			c.Cut = start
		}
		ops = append(ops, c)
	}
	if v.Lifetime > 0 {
		ops = append(ops, HOp{Kind: "clean_sess", Cut: len(ops)})
	}
	// ---- lifetime: logins nobody claims, swept by the login cleanup
	for swept := 0; swept < v.LoginLife; {
		start := len(ops)
		for k := 0; k < per; k++ {
			ops = append(ops, g.login(newPid(), ""))
			swept++
			entry()
		}
		c := HOp{Kind: "clean_logins", Cut: len(ops)}
		if r.Chance(1, 3) {
			c.Cut = start
		}
		ops = append(ops, c)
	}
	if v.LoginLife > 0 {
		ops = append(ops, HOp{Kind: "clean_logins", Cut: len(ops)})
	}
	flushDue()

	// ---- tables: three streams merged in bursts
	type openSess struct {
		sid string
		pid int
	}
	var parked []HOp // the waiting logins
	var open []openSess
	var streams [][][]HOp // per stream: entries (each a few ops)
	if v.Parked > 0 {
		var es [][]HOp
		for k := 0; k < v.Parked; k++ {
			l := g.login(newPid(), "")
			parked = append(parked, l)
			es = append(es, []HOp{l})
		}
		streams = append(streams, es)
	}
	if v.Sessions > 0 {
		var es [][]HOp
		for k := 0; k < v.Sessions; k++ {
			sid, pid := newSid(), newPid()
			e := []HOp{g.ev(sid, "LOGIN", strconv.Itoa(pid))}
			for j := 0; j < v.HeldEach; j++ {
				e = append(e, g.ev(sid, hutil.Pick(r, otherTypes), strconv.Itoa(pid+1000)))
			}
			open = append(open, openSess{sid, pid})
			h.Plans[sid] = SessPlan{Sid: sid, PID: pid, HasLoginRec: true, LoginID: -1, WF: true}
			es = append(es, e)
		}
		streams = append(streams, es)
	}
	var heldSid string
	var heldPid int
	if v.Held > 0 {
		heldSid, heldPid = newSid(), newPid()
		es := [][]HOp{{g.ev(heldSid, "LOGIN", strconv.Itoa(heldPid))}}
		for j := 0; j < v.Held-1; j++ {
			es = append(es, []HOp{g.ev(heldSid, hutil.Pick(r, otherTypes), strconv.Itoa(heldPid+1000))})
		}
		streams = append(streams, es)
	}
	idx := make([]int, len(streams))
	for {
		var live []int
		for i := range streams {
			if idx[i] < len(streams[i]) {
				live = append(live, i)
			}
		}
		if len(live) == 0 {
			break
		}
		i := hutil.Pick(r, live)
		for n := 1 + r.Intn(16); n > 0 && idx[i] < len(streams[i]); n-- {
			ops = append(ops, streams[i][idx[i]]...)
			idx[i]++
			entry()
		}
	}
	flushDue()

	// ---- tail
	var scriptsBefore, scriptsAfter [][]HOp
	put := func(s []HOp) {
		if r.Bool() {
			scriptsBefore = append(scriptsBefore, s)
		} else {
			scriptsAfter = append(scriptsAfter, s)
		}
	}
	for k := 0; k < v.PickUps && len(parked) > 0; k++ {
		// the session of a waiting login shows up
		j := r.Intn(len(parked))
		l := parked[j]
		parked = append(parked[:j], parked[j+1:]...)
		sid := newSid()
		s, _ := g.sessionScript(sid, l.Login.PID, false, true, r.Chance(2, 3), r.Intn(5), 0, -1)
		h.Plans[sid] = SessPlan{Sid: sid, PID: l.Login.PID, HasLoginRec: true, LoginID: l.Login.ID, WF: true}
		put(s)
	}
	for k := 0; k < v.PickUps && len(open) > 0; k++ {
		// the login of an open session shows up
		j := r.Intn(len(open))
		o := open[j]
		open = append(open[:j], open[j+1:]...)
		l := g.login(o.pid, "")
		s := []HOp{l}
		for n := r.Intn(4); n > 0; n-- {
			s = append(s, g.ev(o.sid, hutil.Pick(r, otherTypes), strconv.Itoa(o.pid+1000)))
		}
		if r.Chance(2, 3) {
			s = append(s, g.ev(o.sid, "CRED_DISP", strconv.Itoa(o.pid)))
		}
		h.Plans[o.sid] = SessPlan{Sid: o.sid, PID: o.pid, HasLoginRec: true, LoginID: l.Login.ID, WF: true}
		put(s)
	}
	if v.Held > 0 {
		l := g.login(heldPid, "")
		s := []HOp{l}
		for n := r.Intn(4); n > 0; n-- {
			s = append(s, g.ev(heldSid, hutil.Pick(r, otherTypes), strconv.Itoa(heldPid+1000)))
		}
		if r.Bool() {
			s = append(s, g.ev(heldSid, "CRED_DISP", strconv.Itoa(heldPid)))
		}
		h.Plans[heldSid] = SessPlan{Sid: heldSid, PID: heldPid, HasLoginRec: true, LoginID: l.Login.ID, WF: true}
		put(s)
	}
	ops = append(ops, interleave(r, scriptsBefore)...)
	// an ordinary small history on top (its own small pids and session ids; ids of logins / events shifted behind ours)
	var base History
	switch v.Tail {
	case "overtake":
		base = genOvertake(r)
	case "reuse":
		base = genHistory(r, "reuse", 4)
	case "cleanup":
		base = genHistory(r, "cleanup", 4)
	default:
		base = genPending(r, r.Bool())
	}
	off, evOff, logOff := len(ops), g.nextEv, g.nextLog
	maxEv, maxLog := -1, -1
	for _, o := range base.Ops {
		switch o.Kind {
		case "login":
			l := *o.Login
			if l.ID > maxLog {
				maxLog = l.ID
			}
			l.ID += logOff
			l.AtIdx += off
			o.Login = &l
		case "audit":
			e := *o.Event
			if e.ID > maxEv {
				maxEv = e.ID
			}
			e.ID += evOff
			o.Event = &e
		default:
			if o.Cut != 0 {
				o.Cut += off // a cut-off "before everything" stays before everything
			}
		}
		ops = append(ops, o)
	}
	g.nextEv, g.nextLog = evOff+maxEv+1, logOff+maxLog+1
	for sid, p := range base.Plans {
		if p.LoginID >= 0 {
			p.LoginID += logOff
		}
		h.Plans[sid] = p
	}
	ops = append(ops, interleave(r, scriptsAfter)...)
	// log times: at delivery (the base history keeps its own)
	for i := range ops {
		if ops[i].Kind == "login" && (i < off || i >= off+len(base.Ops)) {
			l := *ops[i].Login
			l.AtIdx = i
			ops[i].Login = &l
		}
	}
	h.Ops = ops
	return h
}

// runLight: the history on the real correlator, every call under the watchdog, NO state dump after the steps (one
// at the end); what was emitted is attributed to the operation during which it was written.
func (r *runner) runLight() (runResult, stateDump) {
	var res runResult
	r.wd.Context(&r.h)
	r.bounds = make([]time.Time, 0, len(r.h.Ops)+1)
	r.bounds = append(r.bounds, tick())
	for i, o := range r.h.Ops {
		var e error
		nOut := len(r.enc.out)
		var rul common.RemoteUserLogin
		switch o.Kind {
		case "login":
			rul = r.mkLogin(o.Login)
			r.wd.Enter(i, &phaseCall)
			e = r.tr.RemoteLogin(rul)
		case "audit":
			aev := r.mkEvent(o.Event)
			r.wd.Enter(i, &phaseCall)
			e = r.tr.AuditdEvent(aev)
		case "clean_sess":
			r.wd.Enter(i, &phaseCall)
			r.tr.DeleteUsersWithoutLoginsBefore(r.bounds[o.Cut])
		case "clean_logins":
			r.wd.Enter(i, &phaseCall)
			r.tr.DeleteRemoteUserLoginsBefore(r.bounds[o.Cut])
		}
		r.wd.Leave()
		r.bounds = append(r.bounds, tick())
		if c := classify(e); c != "ok" {
			res.Err = fmt.Sprintf("op %d (%s) returned %s although the writer never fails and every login is valid", i, o.String(), c)
			return res, stateDump{}
		}
		for _, m := range r.enc.out[nOut:] {
			em, derr := decodeEmitted(m, i)
			if derr != nil {
				res.Err = derr.Error()
				return res, stateDump{}
			}
			res.Emitted = append(res.Emitted, em)
		}
		r.enc.out = r.enc.out[:0] // nothing reads the decoded events again
	}
	r.wd.Enter(len(r.h.Ops)-1, &phaseDump)
	final, err := r.dump()
	r.wd.Leave()
	if err != nil {
		res.Err = err.Error()
	}
	return res, final
}

// ---------- oracles (linear in the history) ----------

// oracleOnceFast: oracleOnceInOrder's verdicts, computed incrementally (the completeness part looks only at the
// operations at which what is needed can change: the moment both halves are known, and the session's own records).
func oracleOnceFast(h History, res runResult) []failure {
	if h.Budget >= 0 {
		return nil
	}
	var fs []failure
	evs, recAt := eventsOf(h)
	loginAt := map[int]int{}
	var cleans []int
	for i, o := range h.Ops {
		switch o.Kind {
		case "login":
			loginAt[o.Login.ID] = i
		case "clean_sess", "clean_logins":
			cleans = append(cleans, i)
		}
	}
	emittedBy := map[string][]emittedAt{}
	for _, e := range res.Emitted {
		emittedBy[e.Ses] = append(emittedBy[e.Ses], emittedAt{e.EventID, e.OpIdx})
	}
	for sid, p := range h.Plans {
		if !p.WF || !p.HasLoginRec || p.LoginID < 0 {
			continue
		}
		i, ok1 := recAt[sid]
		j, ok2 := loginAt[p.LoginID]
		if !ok1 || !ok2 {
			continue
		}
		lo, hi := i, j
		if j < i {
			lo, hi = j, i
		}
		discarded := false
		for _, k := range cleans {
			if k <= lo || k >= hi {
				continue
			}
			o := h.Ops[k]
			if i < j && o.Kind == "clean_sess" && o.Cut > i {
				discarded = true
			}
			if j < i && o.Kind == "clean_logins" && o.Cut > h.Ops[j].Login.AtIdx {
				discarded = true
			}
		}
		emitted := emittedBy[sid]
		if discarded {
			if len(emitted) > 0 {
				fs = append(fs, failure{"once:discarded-half-emitted-late",
					fmt.Sprintf("session %s: its first half was discarded by cleanup, yet %d events were emitted later", sid, len(emitted)), map[string]any{"session": sid}})
			}
			continue
		}
		idxs := evs[sid]
		short := func(xs []int) string {
			if len(xs) > 24 {
				return fmt.Sprintf("%v ... (%d in all)", xs[:24], len(xs))
			}
			return fmt.Sprint(xs)
		}
		bad := false
		for k, e := range emitted {
			if k >= len(idxs) || h.Ops[idxs[k]].Event.ID != e.id {
				var want []int
				for _, ix := range idxs {
					want = append(want, h.Ops[ix].Event.ID)
				}
				fs = append(fs, failure{"once:not-a-prefix-in-order",
					fmt.Sprintf("session %s: emitted event ids %s are not a prefix of its events in processing order %s (lost, duplicated or reordered; first difference at position %d)", sid, short(ids(emitted)), short(want), k),
					map[string]any{"session": sid}})
				bad = true
				break
			}
			if e.op < hi {
				fs = append(fs, failure{"once:emitted-before-login-known",
					fmt.Sprintf("session %s: event %d emitted at op %d, before both halves were known (op %d)", sid, e.id, e.op, hi), map[string]any{"session": sid}})
				bad = true
				break
			}
		}
		_ = bad
		// completeness at the check points n = hi and every later record of the session
		need, have, k, ended := 0, 0, 0, false
		check := func(n int) bool {
			for k < len(idxs) && idxs[k] <= n && !ended {
				need++
				if h.Ops[idxs[k]].Event.Type == "CRED_DISP" {
					ended = true
				}
				k++
			}
			for have < len(emitted) && emitted[have].op <= n {
				have++
			}
			if have < need {
				fs = append(fs, failure{"once:event-lost-or-held",
					fmt.Sprintf("session %s: after op %d only %d of the %d events processed so far (up to the credential-disposal record) have been emitted", sid, n, have, need),
					map[string]any{"session": sid, "after_op": n}})
				return false
			}
			return true
		}
		if check(hi) {
			for _, ix := range idxs {
				if ix > hi && !check(ix) {
					break
				}
			}
		}
	}
	return fs
}

// volEnded (C09): a session whose credential-disposal record was emitted is gone at the end.
func volEnded(h History, res runResult, final stateDump) []failure {
	var fs []failure
	typ := map[int]string{}
	for _, o := range h.Ops {
		if o.Kind == "audit" {
			typ[o.Event.ID] = o.Event.Type
		}
	}
	seen := map[string]bool{}
	for _, e := range res.Emitted {
		if typ[e.EventID] == "CRED_DISP" && !seen[e.Ses] {
			seen[e.Ses] = true
			if _, still := final.Sess[e.Ses]; still {
				fs = append(fs, failure{"ended:session-kept-after-disposal",
					fmt.Sprintf("session %s: its credential-disposal record was emitted at op %d but the correlator still tracks the session at the end of the history", e.Ses, e.OpIdx),
					map[string]any{"session": e.Ses, "ended_at": e.OpIdx}})
			}
		}
	}
	return fs
}

func judgeVolume(prop string, h History, res runResult, final stateDump) []failure {
	keep := func(fs []failure, keys ...string) []failure {
		var out []failure
		for _, f := range fs {
			for _, k := range keys {
				if f.key == k {
					out = append(out, f)
				}
			}
		}
		return out
	}
	switch prop {
	case "C01", "C04":
		return oracleIdentity(h, res, false)
	case "C02":
		return oracleOnceFast(h, res)
	case "C09":
		fs := append(volEnded(h, res, final), oracleIdentity(h, res, false)...)
		reused := reusedPIDs(h)
		for _, f := range keep(oracleOnceFast(h, res), "once:event-lost-or-held") {
			if reused[h.Plans[f.sessionOf()].PID] {
				fs = append(fs, f)
			}
		}
		return fs
	case "C16":
		return keep(oracleOnceFast(h, res), "once:event-lost-or-held", "once:discarded-half-emitted-late")
	}
	fs := append(oracleIdentity(h, res, false), oracleOnceFast(h, res)...)
	return append(fs, volEnded(h, res, final)...)
}

// runVolume: one case, start to verdicts.
func runVolume(prop string, v VolCase) (History, runResult, []failure) {
	h := volHistory(v)
	h.Serials, h.Stamps = decorate(hutil.NewRand(v.Seed^0xF1E1D5), h.Ops, h.Plans)
	rn := newRunner(h)
	res, final := rn.runLight()
	if res.Err != "" {
		return h, res, nil
	}
	return h, res, judgeVolume(prop, h, res, final)
}
