//go:build verif

package main

import (
	"fmt"
	"strconv"
)

type failure struct {
	key    string
	what   string
	detail any
}

// sessionOf: the session a once-in-order verdict is about
func (f failure) sessionOf() string {
	if m, ok := f.detail.(map[string]any); ok {
		s, _ := m["session"].(string)
		return s
	}
	return ""
}

// judge evaluates the oracle of one property on one executed history. Everything it
// uses comes from the generated history (plans, op order) and from what the
// implementation emitted / held; the Coq model is not consulted.
func judge(prop string, h History, res runResult) []failure {
	switch prop {
	case "C01":
		return oracleIdentity(h, res, false)
	case "C02":
		return oracleOnceInOrder(h, res)
	case "C04":
		return append(oracleSilence(h, res), oracleIdentity(h, res, true)...)
	case "C09":
		// "... is bound to the next session opened by that PID, whose events are then emitted with the new identity":
		// the sessions of a re-used pid must also be emitted (a new session that stays silent carries no wrong identity,
		// yet is not what C09 states); order and duplicates are C02's business, not asked here
		fs := append(oracleEnded(h, res), oracleIdentity(h, res, false)...)
		reused := reusedPIDs(h)
		for _, f := range oracleOnceInOrder(h, res) {
			if f.key == "once:event-lost-or-held" && reused[h.Plans[f.sessionOf()].PID] {
				fs = append(fs, f)
			}
		}
		return fs
	case "C16":
		// "two halves arriving within [the window] are always correlated ... the held events are dropped, not emitted
		// late": of the once-in-order oracle the two verdicts that say exactly this
		fs := oracleCleanup(h, res)
		for _, f := range oracleOnceInOrder(h, res) {
			if f.key == "once:event-lost-or-held" || f.key == "once:discarded-half-emitted-late" {
				fs = append(fs, f)
			}
		}
		return fs
	}
	var all []failure
	all = append(all, oracleIdentity(h, res, false)...)
	all = append(all, oracleOnceInOrder(h, res)...)
	all = append(all, oracleSilence(h, res)...)
	all = append(all, oracleEnded(h, res)...)
	all = append(all, oracleCleanup(h, res)...)
	return all
}

// C01 / C09 / C04(identity part): every emitted event carries the identity of the login
// that belongs to its session by construction, and sessions without an SSH login emit nothing.
func oracleIdentity(h History, res runResult, onlyAfterEnd bool) []failure {
	var fs []failure
	for _, e := range res.Emitted {
		p, ok := h.Plans[e.Ses]
		if !ok {
			fs = append(fs, failure{"identity:unknown-session", fmt.Sprintf("event %d emitted for session %q which no generated session has", e.EventID, e.Ses), e})
			continue
		}
		if !p.WF {
			continue
		}
		if p.LoginID < 0 {
			fs = append(fs, failure{"identity:uncorrelated-session-emitted",
				fmt.Sprintf("event %d of session %s emitted as login %d, but no SSH login belongs to that session", e.EventID, e.Ses, e.LoginID), e})
			continue
		}
		if e.LoginID != p.LoginID {
			fs = append(fs, failure{"identity:wrong-login",
				fmt.Sprintf("event %d of session %s (opened by pid %d) carries the identity of login %d, expected login %d", e.EventID, e.Ses, p.PID, e.LoginID, p.LoginID), e})
		}
	}
	return fs
}

// eventsOf returns, per session, the op indices of its audit events from its first LOGIN-type record on.
func eventsOf(h History) (evs map[string][]int, loginRecAt map[string]int) {
	evs = map[string][]int{}
	loginRecAt = map[string]int{}
	for i, o := range h.Ops {
		if o.Kind != "audit" {
			continue
		}
		s := o.Event.Ses
		if s == "" || s == "unset" {
			continue
		}
		if _, open := loginRecAt[s]; !open {
			if o.Event.Type != "LOGIN" {
				continue
			}
			if _, err := strconv.Atoi(o.Event.PIDText); err != nil {
				continue
			}
			loginRecAt[s] = i
		}
		evs[s] = append(evs[s], i)
	}
	return
}

// C02: for every correlated session whose halves are not separated by a discarding cleanup and
// with a writer that never fails: at every prefix, what has been emitted for the session is a
// prefix of its events in processing order, empty until both halves are known, and afterwards
// covering everything processed so far up to and including the credential-disposal record.
func oracleOnceInOrder(h History, res runResult) []failure {
	if h.Budget >= 0 {
		return nil
	}
	var fs []failure
	evs, recAt := eventsOf(h)
	loginAt := map[int]int{}
	for i, o := range h.Ops {
		if o.Kind == "login" {
			loginAt[o.Login.ID] = i
		}
	}
	for sid, p := range h.Plans {
		if !p.WF || !p.HasLoginRec || p.LoginID < 0 {
			continue
		}
		i, ok1 := recAt[sid]
		j, ok2 := loginAt[p.LoginID]
		if !ok1 || !ok2 {
			continue
		}
		lo, hi := i, j
		if j < i {
			lo, hi = j, i
		}
		discarded := false
		for k := lo + 1; k < hi; k++ {
			o := h.Ops[k]
			if i < j && o.Kind == "clean_sess" && o.Cut > i {
				discarded = true
			}
			if j < i && o.Kind == "clean_logins" && o.Cut > h.Ops[j].Login.AtIdx {
				discarded = true
			}
		}
		// emitted sequence of this session, by op index of emission
		var emitted []emittedAt
		for _, e := range res.Emitted {
			if e.Ses == sid {
				emitted = append(emitted, emittedAt{e.EventID, e.OpIdx})
			}
		}
		if discarded {
			if len(emitted) > 0 {
				fs = append(fs, failure{"once:discarded-half-emitted-late",
					fmt.Sprintf("session %s: its first half was discarded by cleanup, yet %d events were emitted later", sid, len(emitted)), map[string]any{"session": sid}})
			}
			continue
		}
		// expected order
		var want []int
		for _, idx := range evs[sid] {
			want = append(want, h.Ops[idx].Event.ID)
		}
		// prefix property at the end
		for k, e := range emitted {
			if k >= len(want) || want[k] != e.id {
				fs = append(fs, failure{"once:not-a-prefix-in-order",
					fmt.Sprintf("session %s: emitted event ids %v are not a prefix of its events in processing order %v (lost, duplicated or reordered)", sid, ids(emitted), want),
					map[string]any{"session": sid}})
				break
			}
			if e.op < hi {
				fs = append(fs, failure{"once:emitted-before-login-known",
					fmt.Sprintf("session %s: event %d emitted at op %d, before both halves were known (op %d)", sid, e.id, e.op, hi), map[string]any{"session": sid}})
				break
			}
		}
		// completeness at every prefix n > hi: all events processed by n, up to and including the disposal record
		for n := hi; n < len(h.Ops); n++ {
			need := 0
			for _, idx := range evs[sid] {
				if idx > n {
					break
				}
				need++
				if h.Ops[idx].Event.Type == "CRED_DISP" {
					break
				}
			}
			have := 0
			for _, e := range emitted {
				if e.op <= n {
					have++
				}
			}
			if have < need {
				fs = append(fs, failure{"once:event-lost-or-held",
					fmt.Sprintf("session %s: after op %d only %d of the %d events processed so far (up to the credential-disposal record) have been emitted", sid, n, have, need),
					map[string]any{"session": sid, "after_op": n}})
				break
			}
		}
	}
	return fs
}

type emittedAt struct{ id, op int }

// reusedPIDs: the pids for which more than one valid login is delivered in the history.
func reusedPIDs(h History) map[int]bool {
	n := map[int]int{}
	for _, o := range h.Ops {
		if o.Kind == "login" && o.Login.Invalid == "" && o.Login.PID > 0 {
			n[o.Login.PID]++
		}
	}
	r := map[int]bool{}
	for p, k := range n {
		if k > 1 {
			r[p] = true
		}
	}
	return r
}

func ids(es []emittedAt) []int {
	var r []int
	for _, e := range es {
		r = append(r, e.id)
	}
	return r
}

// C04: at every prefix, an emitted event has a numeric session, a LOGIN-type record of that session
// was processed at or before that point, and a login with that record's PID was delivered at or before it.
func oracleSilence(h History, res runResult) []failure {
	var fs []failure
	for _, e := range res.Emitted {
		if e.Ses == "" || e.Ses == "unset" {
			fs = append(fs, failure{"silence:no-session", fmt.Sprintf("event %d without a session was emitted", e.EventID), e})
			continue
		}
		okRec, okLogin := false, false
		pids := map[int]bool{}
		for i := 0; i <= e.OpIdx && i < len(h.Ops); i++ {
			o := h.Ops[i]
			if o.Kind == "audit" && o.Event.Ses == e.Ses && o.Event.Type == "LOGIN" {
				if p, err := strconv.Atoi(o.Event.PIDText); err == nil {
					okRec = true
					pids[p] = true
				}
			}
		}
		for i := 0; i <= e.OpIdx && i < len(h.Ops); i++ {
			o := h.Ops[i]
			if o.Kind == "login" && pids[o.Login.PID] && o.Login.ID == e.LoginID {
				okLogin = true
			}
		}
		if !okRec {
			fs = append(fs, failure{"silence:no-login-record", fmt.Sprintf("event %d of session %s emitted although no LOGIN record of that session had been seen", e.EventID, e.Ses), e})
		} else if !okLogin {
			fs = append(fs, failure{"silence:no-matching-login", fmt.Sprintf("event %d of session %s emitted as login %d, which is not a delivered login with the PID of the session's LOGIN record", e.EventID, e.Ses, e.LoginID), e})
		}
	}
	return fs
}

// C09: once the credential-disposal record of a session has been emitted the session is gone
// from the correlator and never comes back (no LOGIN-type record re-opens it in generated histories).
func oracleEnded(h History, res runResult) []failure {
	var fs []failure
	ended := map[string]int{}
	evType := map[int]string{}
	reopen := map[string]bool{}
	seenLogin := map[string]int{}
	for _, o := range h.Ops {
		if o.Kind == "audit" {
			evType[o.Event.ID] = o.Event.Type
			if o.Event.Type == "LOGIN" {
				seenLogin[o.Event.Ses]++
				if seenLogin[o.Event.Ses] > 1 {
					reopen[o.Event.Ses] = true
				}
			}
		}
	}
	for i, st := range res.Steps {
		if st.Res != "ok" {
			// a failed write stops the audit processor (fail-stop, C15); nothing is required afterwards
			break
		}
		for _, e := range st.Out {
			if evType[e.EventID] == "CRED_DISP" {
				if _, done := ended[e.Ses]; !done {
					ended[e.Ses] = i
				}
			}
		}
		for sid, at := range ended {
			if reopen[sid] || i < at {
				continue
			}
			if _, still := st.Post.Sess[sid]; still {
				fs = append(fs, failure{"ended:session-kept-after-disposal",
					fmt.Sprintf("session %s: its credential-disposal record was emitted at op %d but the correlator still tracks the session after op %d", sid, at, i),
					map[string]any{"session": sid, "ended_at": at, "seen_at": i}})
				delete(ended, sid)
			}
		}
	}
	return fs
}

// C16: a cleanup call keeps exactly the bound sessions and the pending halves not older than its cut-off.
func oracleCleanup(h History, res runResult) []failure {
	var fs []failure
	openedAt := map[string]int{} // session -> op index at which it appeared in the correlator
	for i, st := range res.Steps {
		for sid := range st.Post.Sess {
			if _, was := st.Pre.Sess[sid]; !was {
				openedAt[sid] = i
			}
		}
		o := h.Ops[i]
		switch o.Kind {
		case "clean_sess":
			for sid, u := range st.Pre.Sess {
				_, kept := st.Post.Sess[sid]
				// the session arrived during op openedAt[sid]; the cut-off is the boundary before op o.Cut
				old := openedAt[sid] < o.Cut
				switch {
				case u.LoginID >= 0 && !kept:
					fs = append(fs, failure{"cleanup:correlated-session-discarded", fmt.Sprintf("op %d: cleanup discarded correlated session %s", i, sid), map[string]any{"op": i}})
				case u.LoginID < 0 && !old && !kept:
					fs = append(fs, failure{"cleanup:young-session-discarded", fmt.Sprintf("op %d: cleanup discarded uncorrelated session %s younger than the cut-off", i, sid), map[string]any{"op": i}})
				case u.LoginID < 0 && old && kept:
					fs = append(fs, failure{"cleanup:old-session-kept", fmt.Sprintf("op %d: cleanup kept uncorrelated session %s older than the cut-off", i, sid), map[string]any{"op": i}})
				}
			}
			if len(st.Post.Parked) != len(st.Pre.Parked) || len(st.Out) > 0 {
				fs = append(fs, failure{"cleanup:side-effect", fmt.Sprintf("op %d: session cleanup changed waiting logins or emitted events", i), map[string]any{"op": i}})
			}
		case "clean_logins":
			for pid, lid := range st.Pre.Parked {
				_, kept := st.Post.Parked[pid]
				old := false
				for _, oo := range h.Ops {
					if oo.Kind == "login" && oo.Login.ID == lid {
						old = oo.Login.AtIdx < o.Cut
					}
				}
				if old && kept {
					fs = append(fs, failure{"cleanup:old-login-kept", fmt.Sprintf("op %d: cleanup kept waiting login %d older than the cut-off", i, lid), map[string]any{"op": i}})
				}
				if !old && !kept {
					fs = append(fs, failure{"cleanup:young-login-discarded", fmt.Sprintf("op %d: cleanup discarded waiting login %d younger than the cut-off", i, lid), map[string]any{"op": i}})
				}
			}
			if len(st.Post.Sess) != len(st.Pre.Sess) || len(st.Out) > 0 {
				fs = append(fs, failure{"cleanup:side-effect", fmt.Sprintf("op %d: login cleanup changed sessions or emitted events", i), map[string]any{"op": i}})
			}
			// ... and WHICH logins are waiting is taken from the history too, not only from the implementation's own map:
			// a login that was delivered, that nothing can have taken, and that is younger than the cut-off
			for pid, l := range surelyWaiting(h, i) {
				if _, kept := st.Post.Parked[pid]; !kept && !(l.AtIdx < o.Cut) {
					fs = append(fs, failure{"cleanup:young-login-discarded",
						fmt.Sprintf("op %d: login %d (pid %d, logged at boundary %d) was delivered at op %d, no LOGIN record of that pid has been processed and no cleanup since had a later cut-off; it is younger than this cut-off (boundary %d), yet no login of that pid is waiting after the cleanup",
							i, l.ID, pid, l.AtIdx, loginOpIndex(h, l.ID), o.Cut), map[string]any{"op": i, "login": l.ID}})
				}
			}
		}
	}
	return fs
}

func loginOpIndex(h History, id int) int {
	for i, o := range h.Ops {
		if o.Kind == "login" && o.Login.ID == id {
			return i
		}
	}
	return -1
}

// surelyWaiting: the logins that, by the history alone, must be waiting for their session just before op n: per pid the
// LATEST valid login delivered before n (a later login supersedes an earlier one that still waits), provided that no
// LOGIN record carrying that pid has been processed before n (nothing can have taken it, and it cannot have been bound
// on arrival) and that no login cleanup since its delivery had a cut-off later than its log time.  Deliberately
// partial: where this does not follow from the history, nothing is claimed.
func surelyWaiting(h History, n int) map[int]*HLogin {
	w := map[int]*HLogin{}
	if h.Budget >= 0 {
		return w
	}
	at := map[int]int{}
	for k := 0; k < n && k < len(h.Ops); k++ {
		if o := h.Ops[k]; o.Kind == "login" && o.Login.Invalid == "" && o.Login.PID > 0 {
			w[o.Login.PID] = o.Login
			at[o.Login.PID] = k
		}
	}
	for pid, l := range w {
		sure := true
		for k := 0; k < n && k < len(h.Ops) && sure; k++ {
			o := h.Ops[k]
			switch {
			case o.Kind == "audit" && o.Event.Type == "LOGIN":
				if p, err := strconv.Atoi(o.Event.PIDText); err == nil && p == pid {
					sure = false
				}
			case o.Kind == "clean_logins" && k > at[pid] && o.Cut > l.AtIdx:
				sure = false
			}
		}
		if !sure {
			delete(w, pid)
		}
	}
	return w
}
