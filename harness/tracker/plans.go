//go:build verif

package main

import "strconv"

// derivePlans: which login each session of a history belongs to, from the history alone, for histories in which ONE
// pid logs in several times and opens several sessions (the exhaustive one-pid scope), where "by construction" has no
// meaning.  The rules are those the property texts give: a LOGIN record opens a session and takes the login waiting
// under its process id (C01 mechanism; the latest one, when a later login of the pid superseded a waiting one); a login
// is bound to the open, login-less session opened by its pid, else waits; a bound session ends with its
// credential-disposal record, a login-less one holding that record ends when its login arrives (C09); cleanup drops
// login-less sessions and waiting logins older than its cut-off (C16).  Where the texts leave the outcome open the
// sessions concerned are marked not well-formed and no oracle judges them: a login arriving while TWO login-less
// sessions of its pid are open (Go's map order decides), and a session id that comes back.
func derivePlans(ops []HOp) map[string]SessPlan {
	type sess struct {
		pid, login, openedAt int
		disp                 bool
	}
	plans := map[string]SessPlan{}
	open := map[string]*sess{}
	waiting := map[int]*HLogin{}
	ever := map[string]bool{}
	pidOpen := map[int]bool{} // pids for which the outcome is open from some point on
	for i, o := range ops {
		switch o.Kind {
		case "login":
			l := o.Login
			if l.Invalid != "" || l.PID <= 0 {
				continue
			}
			var cands []string
			for sid, s := range open {
				if s.login < 0 && s.pid == l.PID {
					cands = append(cands, sid)
				}
			}
			switch len(cands) {
			case 0:
				waiting[l.PID] = l
			case 1:
				s := open[cands[0]]
				s.login = l.ID
				p := plans[cands[0]]
				p.LoginID = l.ID
				plans[cands[0]] = p
				if s.disp {
					delete(open, cands[0])
				}
			default:
				pidOpen[l.PID] = true
				for sid, s := range open {
					if s.pid == l.PID {
						p := plans[sid]
						p.WF = false
						plans[sid] = p
					}
				}
			}
		case "audit":
			e := o.Event
			if _, err := strconv.Atoi(e.Ses); err != nil {
				continue
			}
			if s, isOpen := open[e.Ses]; isOpen {
				if e.Type == "CRED_DISP" {
					if s.login >= 0 {
						delete(open, e.Ses)
					} else {
						s.disp = true
					}
				}
				continue
			}
			pid, err := strconv.Atoi(e.PIDText)
			if e.Type != "LOGIN" || err != nil {
				if _, ok := plans[e.Ses]; !ok {
					plans[e.Ses] = SessPlan{Sid: e.Ses, LoginID: -1, WF: true} // never opened: stays silent
				}
				continue
			}
			p := SessPlan{Sid: e.Ses, PID: pid, HasLoginRec: true, LoginID: -1, WF: !ever[e.Ses] && !pidOpen[pid]}
			ever[e.Ses] = true
			ns := &sess{pid: pid, login: -1, openedAt: i}
			if l, ok := waiting[pid]; ok {
				ns.login, p.LoginID = l.ID, l.ID
				delete(waiting, pid)
			}
			open[e.Ses] = ns
			plans[e.Ses] = p
		case "clean_sess":
			for sid, s := range open {
				if s.login < 0 && s.openedAt < o.Cut {
					delete(open, sid)
				}
			}
		case "clean_logins":
			for pid, l := range waiting {
				if l.AtIdx < o.Cut {
					delete(waiting, pid)
				}
			}
		}
	}
	return plans
}
