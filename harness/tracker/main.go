//go:build verif

// Harness for the correlator properties (C01 C02 C04 C09 C16 and, in -mode conc, C03):
// drives the real sessiontracker with generated histories, dumps its state after every
// call, writes the observed steps as Coq case files for the model, and evaluates each
// property's oracle (computed from the generated history alone) on what was emitted.
package main

import (
	"encoding/json"
	"errors"
	"flag"
	"fmt"
	"go.uber.org/zap"
	"os"
	"sort"
	"strconv"
	"strings"
	"sync"
	"time"

	"github.com/elastic/go-libaudit/v2/aucoalesce"
	"github.com/elastic/go-libaudit/v2/auparse"
	"github.com/metal-toolbox/auditevent"

	"github.com/metal-toolbox/audito-maldito/internal/common"
	"github.com/metal-toolbox/audito-maldito/internal/verifharness/hutil"
	"github.com/metal-toolbox/audito-maldito/processors/auditd/sessiontracker"
)

// ---------- recording encoder with a failure budget ----------

type recEnc struct {
	mu     sync.Mutex
	budget int // -1: never fails
	out    []map[string]any
}

var errInjected = errors.New("injected write failure")

func (e *recEnc) Encode(v any) error {
	// a schedule point for the concurrent mode: the write itself (inside the correlator call)
	if h := common.VerifHook; h != nil {
		h(e, "Encode")
	}
	e.mu.Lock()
	defer e.mu.Unlock()
	if e.budget == 0 {
		return errInjected
	}
	if e.budget > 0 {
		e.budget--
	}
	raw, err := json.Marshal(v)
	if err != nil {
		return err
	}
	var m map[string]any
	if err := json.Unmarshal(raw, &m); err != nil {
		return err
	}
	e.out = append(e.out, m)
	return nil
}

// ---------- running a history on the real correlator ----------

type emitted struct {
	LoginID int    `json:"login"`
	EventID int    `json:"event"`
	Ses     string `json:"ses"`
	OpIdx   int    `json:"op"`
}

type stateDump struct {
	Sess   map[string]sessDump
	Parked map[int]int // pid -> login id
}

type sessDump struct {
	Added   int // model time
	PID     int
	LoginID int // -1 = none
	Cached  []int
}

type stepObs struct {
	Pre, Post stateDump
	PreB      int
	PostB     int
	Out       []emitted
	Res       string // ok | validate | write | pid | other
}

type runResult struct {
	Steps   []stepObs
	Emitted []emitted
	Err     string // harness-level problem (cannot interpret the implementation's state)
}

var typeMap = map[string]auparse.AuditMessageType{"LOGIN": auparse.AUDIT_LOGIN, "CRED_DISP": auparse.AUDIT_CRED_DISP}

func msgType(name string) auparse.AuditMessageType {
	if t, ok := typeMap[name]; ok {
		return t
	}
	var t auparse.AuditMessageType
	if err := t.UnmarshalText([]byte(name)); err != nil {
		panic("unknown audit type " + name)
	}
	return t
}

func classify(err error) string {
	if err == nil {
		return "ok"
	}
	var te *sessiontracker.SessionTrackerError
	if errors.As(err, &te) {
		switch {
		case te.RemoteLoginFailed():
			return "validate"
		case te.ParsePIDFailed():
			return "pid"
		case te.AuditEventWriteFailed():
			return "write"
		}
	}
	if errors.Is(err, errInjected) {
		return "write"
	}
	return "other:" + err.Error()
}

type tracker interface {
	RemoteLogin(common.RemoteUserLogin) error
	AuditdEvent(*aucoalesce.Event) error
	DeleteUsersWithoutLoginsBefore(time.Time)
	DeleteRemoteUserLoginsBefore(time.Time)
}

type runner struct {
	h       History
	enc     *recEnc
	tr      tracker
	bounds  []time.Time // bounds[i] taken before op i; one more after the last op
	logins  map[*auditevent.AuditEvent]int
	events  map[*aucoalesce.Event]int
	evByID  map[int]*HEvent
	logByID map[int]*HLogin
	wd      *hutil.Watchdog // supervises every call into the correlator (nil: unsupervised)
}

// the process-wide watchdog of the sequential / exhaustive / replay drivers (one driving goroutine)
var seqWatchdog *hutil.Watchdog

var phaseCall, phaseDump = "call", "state dump"

func tick() time.Time {
	prev := time.Now()
	for {
		t := time.Now()
		if t.After(prev) {
			return t
		}
	}
}

func newRunner(h History) *runner {
	r := &runner{h: h, enc: &recEnc{budget: h.Budget}, logins: map[*auditevent.AuditEvent]int{},
		events: map[*aucoalesce.Event]int{}, evByID: map[int]*HEvent{}, logByID: map[int]*HLogin{}, wd: seqWatchdog}
	var lg *zap.SugaredLogger
	if h.Debug {
		lg = hutil.Logger(true)
	}
	r.tr = sessiontracker.NewSessionTracker(auditevent.NewAuditEventWriter(r.enc), lg)
	return r
}

// identOf: which identity of a pool of k a login uses (a fixed scrambling of its id: neighbours may or may not agree)
func identOf(id, k int) int {
	if k <= 1 {
		return 0
	}
	return int((uint64(id+1)*0x9E3779B97F4A7C15)>>33) % k
}

func (r *runner) mkLogin(l *HLogin) common.RemoteUserLogin {
	r.logByID[l.ID] = l
	// the login's id is carried by the client port (decodeEmitted reads it back from there); account, credential and
	// address are the login's own, or come from a small pool (History.IdentPool)
	who, addr := l.ID, fmt.Sprintf("10.0.%d.%d", l.ID/250, l.ID%250)
	if k := r.h.IdentPool; k > 0 {
		who = identOf(l.ID, k)
		addr = fmt.Sprintf("10.9.0.%d", who)
	}
	src := auditevent.NewAuditEvent(common.ActionLoginIdentifier,
		auditevent.EventSource{Type: "IP", Value: addr, Extra: map[string]any{"port": strconv.Itoa(40000 + l.ID)}},
		auditevent.OutcomeSucceeded,
		map[string]string{"loggedAs": fmt.Sprintf("user-%d", who), "userID": fmt.Sprintf("cert-%d", who), "pid": strconv.Itoa(l.PID)},
		"sshd").WithTarget(map[string]string{"host": "node", "machine-id": "mid"})
	src.LoggedAt = r.bounds[l.AtIdx]
	r.logins[src] = l.ID
	rul := common.RemoteUserLogin{Source: src, PID: l.PID, CredUserID: fmt.Sprintf("cert-%d", who)}
	switch l.Invalid {
	case "nosource":
		rul.Source = nil
	case "nocred":
		rul.CredUserID = ""
	}
	return rul
}

func (r *runner) mkEvent(e *HEvent) *aucoalesce.Event {
	r.evByID[e.ID] = e
	ev := &aucoalesce.Event{
		Timestamp: time.Unix(1700000000+int64(e.ID), 0).UTC(),
		Session:   e.Ses,
		Type:      msgType(e.Type),
		Result:    "success",
	}
	ev.Process.PID = e.PIDText
	ev.Summary.Action = "did-" + e.Type
	ev.Summary.Object.Primary = fmt.Sprintf("ev-%d", e.ID)
	applyFields(ev, e)
	r.events[ev] = e.ID
	return ev
}

func (r *runner) modelTime(t time.Time) (int, error) {
	// bounds[i] <= t < bounds[i+1]  ->  2i+1  (time.Now() read inside op i)
	for i := len(r.bounds) - 1; i >= 0; i-- {
		if !t.Before(r.bounds[i]) {
			return 2*i + 1, nil
		}
	}
	return 0, fmt.Errorf("time %v precedes the first boundary", t)
}

func (r *runner) dump() (stateDump, error) {
	ss, pk := sessiontracker.VerifDump(r.tr)
	d := stateDump{Sess: map[string]sessDump{}, Parked: map[int]int{}}
	for id, u := range ss {
		mt, err := r.modelTime(u.Added)
		if err != nil {
			return d, err
		}
		sd := sessDump{Added: mt, PID: u.SrcPID, LoginID: -1}
		if u.HasRUL {
			lid, ok := r.logins[u.Login.Source]
			if !ok {
				return d, fmt.Errorf("session %s is bound to a login the harness never delivered", id)
			}
			sd.LoginID = lid
		}
		for _, c := range u.Cached {
			eid, ok := r.events[c]
			if !ok {
				return d, fmt.Errorf("session %s holds an event the harness never delivered", id)
			}
			sd.Cached = append(sd.Cached, eid)
		}
		d.Sess[id] = sd
	}
	for pid, l := range pk {
		lid, ok := r.logins[l.Source]
		if !ok {
			return d, fmt.Errorf("parked login for pid %d was never delivered", pid)
		}
		d.Parked[pid] = lid
	}
	return d, nil
}

func decodeEmitted(m map[string]any, opIdx int) (emitted, error) {
	e := emitted{LoginID: -1, EventID: -1, OpIdx: opIdx}
	if src, ok := m["source"].(map[string]any); ok {
		if ex, ok := src["extra"].(map[string]any); ok {
			if s, ok := ex["port"].(string); ok {
				if p, err := strconv.Atoi(s); err == nil && p >= 40000 {
					e.LoginID = p - 40000
				}
			}
		}
	}
	if md, ok := m["metadata"].(map[string]any); ok {
		e.Ses, _ = md["auditId"].(string)
		if ex, ok := md["extra"].(map[string]any); ok {
			if obj, ok := ex["object"].(map[string]any); ok {
				if s, ok := obj["primary"].(string); ok {
					fmt.Sscanf(s, "ev-%d", &e.EventID)
				}
			}
		}
	}
	if e.LoginID < 0 || e.EventID < 0 {
		raw, _ := json.Marshal(m)
		return e, fmt.Errorf("cannot identify login/event of written event %s", raw)
	}
	return e, nil
}

// cutoff is the time handed to a cleanup call.  When the history asks for the boundary right before this very call
// (everything that has arrived so far is older than the cut-off), every later instant is an equivalent cut-off for what
// the properties state - nothing else can be younger - so half of those calls get a cut-off 13 hours in the future
// instead: the cleanup the daemon would make after half a day without traffic.  Model and oracle see the same history
// (cut = own index); a correlator that also ages CORRELATED sessions, or anything else, by wall-clock distance does not.
func (r *runner) cutoff(i int, o HOp) time.Time {
	t := r.bounds[o.Cut]
	if o.Cut == i && (i+len(r.h.Ops))%2 == 0 {
		t = t.Add(13 * time.Hour)
	}
	return t
}

func (r *runner) run() runResult {
	var res runResult
	// every call into the correlator, and every dump of its state (which takes the maps' locks), runs under the
	// watchdog: one that does not return is reported with this history as the failing input (see seqHang)
	r.wd.Context(&r.h)
	r.bounds = append(r.bounds, tick())
	r.wd.Enter(-1, &phaseDump)
	pre, err := r.dump()
	r.wd.Leave()
	if err != nil {
		res.Err = err.Error()
		return res
	}
	for i, o := range r.h.Ops {
		var e error
		preB := r.enc.budget
		nOut := len(r.enc.out)
		var rul common.RemoteUserLogin
		var aev *aucoalesce.Event
		switch o.Kind {
		case "login":
			rul = r.mkLogin(o.Login)
		case "audit":
			aev = r.mkEvent(o.Event)
		}
		r.wd.Enter(i, &phaseCall)
		switch o.Kind {
		case "login":
			e = r.tr.RemoteLogin(rul)
		case "audit":
			e = r.tr.AuditdEvent(aev)
		case "clean_sess":
			r.tr.DeleteUsersWithoutLoginsBefore(r.cutoff(i, o))
		case "clean_logins":
			r.tr.DeleteRemoteUserLoginsBefore(r.cutoff(i, o))
		}
		r.wd.Leave()
		r.bounds = append(r.bounds, tick())
		r.wd.Enter(i, &phaseDump)
		post, derr := r.dump()
		r.wd.Leave()
		if derr != nil {
			res.Err = fmt.Sprintf("after op %d: %v", i, derr)
			return res
		}
		st := stepObs{Pre: pre, Post: post, PreB: preB, PostB: r.enc.budget, Res: classify(e)}
		for _, m := range r.enc.out[nOut:] {
			em, derr := decodeEmitted(m, i)
			if derr != nil {
				res.Err = derr.Error()
				return res
			}
			st.Out = append(st.Out, em)
			res.Emitted = append(res.Emitted, em)
		}
		res.Steps = append(res.Steps, st)
		pre = post
	}
	return res
}

// ---------- a call that does not return ----------

const keyDeadlock = "deadlock:call-did-not-return"

func logLevelOf(debug bool) string {
	if debug {
		return "DEBUG"
	}
	return "default (INFO)"
}

// describeHang: what the watchdog saw, in words; the failing input is the history (incl. its log level).
func describeHang(ctx any, call int, phase string, waited time.Duration) (*History, string) {
	h, _ := ctx.(*History)
	if h == nil {
		return nil, fmt.Sprintf("deadlock: a correlator call did not return within %v", waited.Round(time.Second))
	}
	op := "the initial state dump"
	if call >= 0 && call < len(h.Ops) {
		op = fmt.Sprintf("op %d of %d, %s", call, len(h.Ops), h.Ops[call].String())
	}
	what := "call did not return"
	if phase == phaseDump {
		what = "the call returned but reading the correlator's maps afterwards did not (a lock is still held)"
	}
	return h, fmt.Sprintf("deadlock: %s within %v: %s; log level %s; the delivering goroutine is stuck inside the correlator, nothing after this operation is processed",
		what, waited.Round(time.Second), op, logLevelOf(h.Debug))
}

// seqHangReporter: the watchdog handler of the generating drivers (random and exhaustive histories): the hang is an
// oracle failure with the history as replay; what was gathered so far is written and the process ends (it is
// poisoned: a goroutine sits inside the correlator holding its locks).
func seqHangReporter(sum *hutil.Summary, cases *hutil.CaseFile, out string) func(any, int, string, time.Duration) {
	return func(ctx any, call int, phase string, waited time.Duration) {
		h, what := describeHang(ctx, call, phase, waited)
		rp := map[string]any{"history": h, "detail": map[string]any{"op": call, "phase": phase}}
		if h != nil && h.Vol != nil {
			rp = map[string]any{"volume": h.Vol, "detail": map[string]any{"op": call, "phase": phase, "ops": len(h.Ops)}}
		}
		sum.FailKey("oracle", keyDeadlock, what, rp)
		sum.Notes = append(sum.Notes, "the run was cut short: a correlator call did not return (process poisoned, exploration stopped)")
		cases.Flush()
		sum.CaseFiles = cases.Files
		sum.Write(out)
		os.Exit(0)
	}
}

// ---------- Coq rendering (compact format of Model/TrackerCheck.v) ----------

func z(n int) string {
	if n < 0 {
		return fmt.Sprintf("(%d)", n)
	}
	return strconv.Itoa(n)
}

func encWb(b int) string {
	if b < 0 {
		return "0%nat"
	}
	return fmt.Sprintf("%d%%nat", b+1)
}

func natList(xs []int) string {
	ss := make([]string, len(xs))
	for i, x := range xs {
		ss[i] = strconv.Itoa(x)
	}
	return "[" + strings.Join(ss, ";") + "]%nat"
}

func sesCode(s string) string {
	switch s {
	case "":
		return "(-1)"
	case "unset":
		return "(-2)"
	}
	return s
}

func typeCode(t string) int {
	switch t {
	case "LOGIN":
		return 0
	case "CRED_DISP":
		return 1
	}
	return int(msgType(t)) + 2
}

func optPid(s string) string {
	n, err := strconv.Atoi(s)
	if err != nil {
		return "None"
	}
	return "(Some " + z(n) + ")"
}

func (r *runner) coqState(d stateDump) (string, string) {
	sids := make([]string, 0, len(d.Sess))
	for s := range d.Sess {
		sids = append(sids, s)
	}
	sort.Strings(sids)
	var ss []string
	for _, s := range sids {
		u := d.Sess[s]
		ss = append(ss, fmt.Sprintf("(%s%%N,%s,%s,%d%%nat,%s)", s, z(u.Added), z(u.PID), u.LoginID+1, natList(u.Cached)))
	}
	pids := make([]int, 0, len(d.Parked))
	for p := range d.Parked {
		pids = append(pids, p)
	}
	sort.Ints(pids)
	var ps []string
	for _, p := range pids {
		ps = append(ps, fmt.Sprintf("(%s,%d%%nat)", z(p), d.Parked[p]))
	}
	return "[" + strings.Join(ss, ";") + "]", "[" + strings.Join(ps, ";") + "]"
}

func (r *runner) coqOp(i int, o HOp) string {
	switch o.Kind {
	case "login":
		return fmt.Sprintf("(CL %d)", o.Login.ID)
	case "audit":
		return fmt.Sprintf("(CA %d %d)", o.Event.ID, 2*i+1)
	case "clean_sess":
		return fmt.Sprintf("(CS %d)", 2*o.Cut)
	default:
		return fmt.Sprintf("(CG %d)", 2*o.Cut)
	}
}

func resCode(s string) (int, bool) {
	switch s {
	case "ok":
		return 0, true
	case "validate":
		return 1, true
	case "write":
		return 2, true
	case "pid":
		return 3, true
	}
	return 0, false
}

func (r *runner) coqCase(res runResult) (string, error) {
	// tables: index = id (ids are dense, assigned by the generator)
	nl, ne := 0, 0
	for _, o := range r.h.Ops {
		if o.Login != nil && o.Login.ID >= nl {
			nl = o.Login.ID + 1
		}
		if o.Event != nil && o.Event.ID >= ne {
			ne = o.Event.ID + 1
		}
	}
	lrows := make([]string, nl)
	erows := make([]string, ne)
	for i := range lrows {
		lrows[i] = "(0,0,false)"
	}
	for i := range erows {
		erows[i] = "((-1),0%nat,None)"
	}
	for _, o := range r.h.Ops {
		if l := o.Login; l != nil {
			lrows[l.ID] = fmt.Sprintf("(%s,%d,%s)", z(l.PID), 2*l.AtIdx, hutil.CoqBool(l.Invalid == ""))
		}
		if e := o.Event; e != nil {
			erows[e.ID] = fmt.Sprintf("(%s,%d%%nat,%s)", sesCode(e.Ses), typeCode(e.Type), optPid(e.PIDText))
		}
	}
	var steps []string
	for i, st := range res.Steps {
		var outs []string
		for _, e := range st.Out {
			outs = append(outs, fmt.Sprintf("(%d,%d)", e.LoginID, e.EventID))
		}
		rc, ok := resCode(st.Res)
		if !ok {
			return "", fmt.Errorf("op %d returned an error of unknown class: %s", i, st.Res)
		}
		ss, ps := r.coqState(st.Post)
		steps = append(steps, fmt.Sprintf("CStep %s %s %s %s [%s]%%nat %d%%nat",
			r.coqOp(i, r.h.Ops[i]), ss, ps, encWb(st.PostB), strings.Join(outs, ";"), rc))
	}
	return fmt.Sprintf("CCase %s [%s] [%s] [\n %s]", encWb(r.h.Budget), strings.Join(lrows, ";"), strings.Join(erows, ";"), strings.Join(steps, ";\n ")), nil
}

// ---------- main ----------

func main() {
	out := flag.String("out", "", "output directory")
	n := flag.Int("n", 300, "number of histories")
	prop := flag.String("prop", "C01", "property whose generator mix and oracle are used")
	mode := flag.String("mode", "seq", "seq | conc")
	replay := flag.String("replay", "", "replay file")
	maxSess := flag.Int("sessions", 6, "max sessions per history")
	exhLen := flag.Int("len", 4, "mode exh: maximal history length")
	exhXLen := flag.Int("xlen", 0, "mode exh: maximal history length of the one-pid scope (0 = len+1)")
	exhCoq := flag.Int("coq", 1500, "mode exh: at most this many histories are replayed against the Coq model")
	nVol := flag.Int("vol", 10, "histories of the volume family (large tables, long lifetimes; oracle only)")
	nVolConc := flag.Int("cvol", 3, "mode conc: further programs that start on a correlator whose tables are already large")
	volBig := flag.Bool("volbig", false, "volume family: the thorough tier's sizes (tables up to 16384, lifetimes up to 131072)")
	flag.Parse()
	seed := hutil.SeedFromEnv()
	if *replay != "" {
		os.Exit(doReplay(*replay, *prop))
	}
	if *mode == "exh" {
		exhMain(*out, *prop, *exhLen, *exhXLen, *exhCoq, seed)
		return
	}
	if *mode == "conc" {
		if os.Getenv("VERIF_CONC_CHILD") == "" {
			os.Exit(concParent(*out, *prop, seed))
		}
		concMain(*out, *n, seed, *prop, *nVolConc, *volBig)
		return
	}
	r := hutil.NewRand(seed ^ hashStr(*prop))
	sum := hutil.NewSummary(*prop, seed, ruleText(*prop))
	cases := &hutil.CaseFile{Dir: *out, Stem: "cases_tracker", PerFile: 25,
		Header: "From Coq Require Import List Bool Arith ZArith NArith.\nImport ListNotations.\nFrom AM Require Import Model.Tracker Model.TrackerCheck.\nOpen Scope Z_scope.\n",
		Footer: func(int) string {
			return "Definition M := Eval vm_compute in mismatches cases.\nPrint M.\nDefinition B := Eval vm_compute in first_bad cases.\nPrint B.\n"
		}}
	seqWatchdog = hutil.NewWatchdog(seqHangReporter(sum, cases, *out))
	samples := 0
	process := func(m string, h History, withCoq bool) {
		rn := newRunner(h)
		res := rn.run()
		if res.Err != "" {
			sum.Fail("harness", "cannot interpret the implementation's state: "+res.Err, h)
			return
		}
		if withCoq {
			c, err := rn.coqCase(res)
			if err != nil {
				sum.Fail("harness", err.Error(), h)
				return
			}
			cases.AddDesc(c, h)
		}
		for _, f := range judge(*prop, h, res) {
			sum.FailKey("oracle", f.key, f.what, map[string]any{"history": h, "detail": f.detail})
		}
		st := stats(h, res)
		sum.Count(fmt.Sprint(h.Ops, h.Budget), st.nontrivial)
		sum.Dist("mode_" + m)
		if h.Debug {
			sum.Dist("debug_logging_on")
		}
		sum.Dist(fmt.Sprintf("identity_pool_%d", h.IdentPool))
		if !withCoq {
			sum.Dist("judged_by_the_oracle_only_(no_Coq_case)")
		}
		sum.Dist("serials_" + h.Serials)
		sum.Dist("record_timestamps_" + h.Stamps)
		if st.oldSesOpen {
			sum.Dist("a_waiting_LOGIN_record_names_an_open_correlated_session_in_old-ses")
		}
		sum.Dist(fmt.Sprintf("sessions_%d", len(h.Plans)))
		sum.Dist(fmt.Sprintf("ops_%02d-%02d", len(h.Ops)/10*10, len(h.Ops)/10*10+9))
		sum.Dist(fmt.Sprintf("max_open_%d", st.maxOpen))
		sum.Dist(fmt.Sprintf("max_pending_at_once_%d", st.maxPending))
		sum.Dist(fmt.Sprintf("max_held_by_one_session_%02d-%02d", st.maxHeld/8*8, st.maxHeld/8*8+7))
		sum.Dist(fmt.Sprintf("flushes_%d", st.flushes))
		sum.Dist(fmt.Sprintf("emitted_%02d-%02d", len(res.Emitted)/10*10, len(res.Emitted)/10*10+9))
		if samples < 3 {
			samples++
			var ops []string
			for _, o := range h.Ops {
				ops = append(ops, o.String())
			}
			sum.Sample(map[string]any{"mode": m, "ops": strings.Join(ops, " ; "), "emitted": len(res.Emitted)})
		}
	}
	modes := modesFor(*prop)
	// serials, timestamps and the records' other fields: from a generator of their own (fields.go)
	dr := hutil.NewRand(seed ^ hashStr(*prop) ^ hashStr("fields"))
	// whose identity a login carries: its own, or one of a small pool (generator of its own again)
	ir := hutil.NewRand(seed ^ hashStr(*prop) ^ hashStr("identities"))
	identPools := []int{0, 0, 1, 2, 3}
	for i := 0; i < *n; i++ {
		m := modes[i%len(modes)]
		h := genHistory(r, m, *maxSess)
		h.Serials, h.Stamps = decorate(dr, h.Ops, h.Plans)
		h.IdentPool = hutil.Pick(ir, identPools)
		process(m, h, true)
	}
	// further families, each from a generator of its own (the histories above stay what they were)
	for _, fam := range familiesFor(*prop) {
		fr := hutil.NewRand(seed ^ hashStr(*prop) ^ hashStr("family:"+fam.name))
		cnt := *n * fam.num / fam.den
		if cnt < 1 {
			cnt = 1
		}
		for i := 0; i < cnt; i++ {
			h := fam.gen(fr)
			h.Serials, h.Stamps = decorate(fr, h.Ops, h.Plans)
			h.IdentPool = hutil.Pick(ir, identPools)
			process(fam.name, h, fam.coq)
		}
	}
	// the volume family last (a call that does not return ends the run): large tables, long lifetimes, oracle only
	vr := hutil.NewRand(seed ^ hashStr(*prop) ^ hashStr("family:volume"))
	for i := 0; i < *nVol; i++ {
		v := genVolCase(vr, i, *volBig)
		h, res, fs := runVolume(*prop, v)
		if res.Err != "" {
			sum.Fail("harness", "volume history: "+res.Err, map[string]any{"volume": v})
			continue
		}
		for _, f := range fs {
			sum.FailKey("oracle", f.key, v.String()+": "+f.what, map[string]any{"volume": v, "detail": f.detail})
		}
		sum.Count(fmt.Sprint("volume", v), true)
		sum.Dist("mode_volume")
		sum.Dist("judged_by_the_oracle_only_(no_Coq_case)")
		sum.Dist(fmt.Sprintf("volume_ops_%s", magnitude(len(h.Ops))))
		sum.Dist(fmt.Sprintf("volume_emitted_%s", magnitude(len(res.Emitted))))
		for _, d := range []struct {
			n    string
			size int
		}{{"waiting_logins", v.Parked}, {"open_sessions", v.Sessions}, {"held_by_one_session", v.Held}, {"lifetime_swept_held_events", v.Lifetime}, {"lifetime_swept_logins", v.LoginLife}} {
			if d.size > 0 {
				sum.Dist(fmt.Sprintf("volume_%s_%s", d.n, magnitude(d.size)))
			}
		}
	}
	cases.Flush()
	sum.CaseFiles = cases.Files
	sum.Write(*out)
}

func magnitude(n int) string {
	switch {
	case n < 100:
		return "<100"
	case n < 1000:
		return "100-999"
	case n < 10000:
		return "1000-9999"
	case n < 100000:
		return "10000-99999"
	}
	return ">=100000"
}

func hashStr(s string) uint64 {
	var h uint64 = 1469598103934665603
	for i := 0; i < len(s); i++ {
		h = (h ^ uint64(s[i])) * 1099511628211
	}
	return h
}

func modesFor(prop string) []string {
	switch prop {
	case "C01":
		return []string{"wf", "wf", "cleanup", "mixed"}
	case "C02":
		return []string{"wf", "cleanup", "wf", "reuse"}
	case "C04":
		return []string{"mixed", "mixed", "faults", "wf"}
	case "C09":
		return []string{"reuse", "reuse", "reuse", "mixed"}
	case "C16":
		return []string{"cleanup", "cleanup", "mixed", "wf"}
	case "C14":
		return []string{"wf", "mixed"}
	}
	return []string{"wf", "reuse", "mixed", "cleanup", "faults"}
}

// family: a further kind of history, generated in addition to the basic modes; num/den of -n histories of it are run;
// coq: also replayed step by step against the Coq model (long histories are judged by the oracle only: the observed
// state is printed after every step, and Coq reads literals slowly)
type family struct {
	name     string
	gen      func(r *hutil.Rand) History
	num, den int
	coq      bool
}

func familiesFor(prop string) []family {
	pending := family{"pending", func(r *hutil.Rand) History { return genPending(r, false) }, 1, 5, true}
	pendingBig := family{"pending-big", func(r *hutil.Rand) History { return genPending(r, true) }, 1, 2, false}
	relogin := family{"relogin", genRelogin, 1, 4, true}
	overtake := family{"overtake", genOvertake, 1, 3, true}
	switch prop {
	case "C01", "C02":
		return []family{pending, pendingBig}
	case "C04", "C14":
		return []family{pending}
	case "C09":
		return []family{pending, overtake}
	case "C16":
		return []family{pending, relogin}
	}
	return []family{pending, pendingBig, relogin, overtake}
}

func ruleText(prop string) string {
	return "histories generated per mode (wf: unique pids/sessions; reuse: chains of sessions sharing a PID; mixed: plus cron/console/su-like sessions and records without session; " +
		"cleanup: cleanup calls with cut-offs at earlier time boundaries; faults: invalid logins, unparsable PIDs, write budget), 1-6 sessions interleaved in bursts, login at a random split point of its session; " +
		"logins carry identities of their own or (3 of 5 histories: a pool of 1, 2 or 3) accounts, credentials and client addresses drawn from a small pool, so that different sshd processes - also successive ones of a re-used pid - log in with equal credentials from the same address; only the client port and the log time tell such logins apart; " +
		"every record carries a kernel serial (per history: all zero, increasing, all equal, decreasing, wrapping through 2^32, late lower-numbered records, arbitrary), a timestamp of its own (2023, around / before / after the wall clock, descending) and the other fields the coalescer delivers (old-ses, old-auid, auid, tty, terminal, ppid, exe, addr, acct) with values naming OTHER sessions, pids and users of the history - none of which the properties mention; " +
		"family relogin (C16): a pid logs in 2-3 times before its LOGIN record, cleanup cut-offs between the log times of an earlier and the last login (the last must stay waiting; its session is correlated); " +
		"family overtake (C09): chains of sessions opened by one re-used pid, the new login anywhere after the previous login and LOGIN record - before, between and after the ended session's last records; " +
		"family volume (oracle only): thousands to 10^5 operations - cron-like sessions with held events and unclaimed logins thrown away by the sweeps round after round (lifetime), then hundreds to thousands of logins waiting / login-less sessions open / events held by one session at the same time (sizes around powers of two and ten), ordinary probe sessions completed all along, an ordinary small history and the other halves of some waiting entries at the end; " +
		"family pending: 2-4 sessions waiting for their logins at the same time, each holding 0-12 events (pending-big: up to 40 and the sizes at which a slice grows; judged by the oracle only), opened in any order, filled in turns or one after the other, logins in any order; " +
		"every call is followed by a dump of the correlator state (per-step simulation against the model) and the " + prop + " oracle runs on the emitted events; " +
		"non-trivial = at least 2 sessions open at once and at least one hold-queue flush; distinct by op sequence"
}

type hstats struct {
	maxOpen    int
	maxPending int // sessions waiting for their login at the same time
	maxHeld    int // events held by one session
	flushes    int
	nontrivial bool
	oldSesOpen bool // a LOGIN record that had to wait for its login named, in old-ses, a session that was open and correlated
}

func stats(h History, res runResult) hstats {
	var s hstats
	for i, st := range res.Steps {
		if o := h.Ops[i]; o.Kind == "audit" && o.Event.Type == "LOGIN" {
			if u, ok := st.Pre.Sess[o.Event.Fields["old-ses"]]; ok && u.LoginID >= 0 {
				if _, was := st.Pre.Sess[o.Event.Ses]; !was {
					if nu, now := st.Post.Sess[o.Event.Ses]; now && nu.LoginID < 0 {
						s.oldSesOpen = true
					}
				}
			}
		}
		if len(st.Post.Sess) > s.maxOpen {
			s.maxOpen = len(st.Post.Sess)
		}
		pend := 0
		for _, u := range st.Post.Sess {
			if u.LoginID < 0 {
				pend++
			}
			if len(u.Cached) > s.maxHeld {
				s.maxHeld = len(u.Cached)
			}
		}
		if pend > s.maxPending {
			s.maxPending = pend
		}
		if len(st.Out) >= 2 {
			s.flushes++
		}
	}
	s.nontrivial = s.maxOpen >= 2 && s.flushes >= 1
	return s
}

func doReplay(path, prop string) int {
	raw, err := os.ReadFile(path)
	if err != nil {
		fmt.Println("cannot read replay:", err)
		return 2
	}
	var rp struct {
		Property string `json:"property"`
		Replay   struct {
			History *History  `json:"history"`
			Conc    *concCase `json:"conc"`
			Volume  *VolCase  `json:"volume"`
		} `json:"replay"`
	}
	if err := json.Unmarshal(raw, &rp); err != nil {
		fmt.Println("bad replay:", err)
		return 2
	}
	if rp.Property != "" {
		prop = rp.Property
	}
	if rp.Replay.Conc != nil {
		if os.Getenv("VERIF_CONC_CHILD") == "" {
			return replayConcParent()
		}
		return replayConc(*rp.Replay.Conc, prop)
	}
	if v := rp.Replay.Volume; v != nil {
		// a volume history: regenerated from its description, run once more under the same watchdog and oracles
		seqWatchdog = hutil.NewWatchdog(func(ctx any, call int, phase string, waited time.Duration) {
			_, what := describeHang(ctx, call, phase, waited)
			fmt.Printf("REPRODUCED %s: %s: %s\n", keyDeadlock, v.String(), what)
			os.Exit(1)
		})
		for k := 1; k <= 5; k++ {
			_, res, fs := runVolume(prop, *v)
			if res.Err != "" {
				fmt.Println("harness error:", res.Err)
				return 2
			}
			for i, f := range fs {
				if i < 5 {
					fmt.Printf("REPRODUCED %s (run %d): %s: %s\n", f.key, k, v.String(), f.what)
				}
			}
			if len(fs) > 0 {
				return 1
			}
		}
		fmt.Println("not reproduced in 5 runs")
		return 0
	}
	if rp.Replay.History == nil {
		fmt.Println("replay file carries no history (no failing input was found)")
		return 2
	}
	h := *rp.Replay.History
	// the same watchdog as in the generating run: a call that still does not return reproduces the failure
	seqWatchdog = hutil.NewWatchdog(func(ctx any, call int, phase string, waited time.Duration) {
		_, what := describeHang(ctx, call, phase, waited)
		fmt.Printf("REPRODUCED %s: %s\n", keyDeadlock, what)
		os.Exit(1)
	})
	// a sequential history is deterministic except for Go's map iteration order (the scan of RemoteLogin, the sweeps of
	// the cleanups): a failure that needs a particular order recurs within a few runs
	const runs = 300
	for k := 1; k <= runs; k++ {
		rn := newRunner(h)
		res := rn.run()
		if res.Err != "" {
			fmt.Println("harness error:", res.Err)
			return 2
		}
		fs := judge(prop, h, res)
		for _, f := range fs {
			fmt.Printf("REPRODUCED %s (run %d of at most %d): %s\n", f.key, k, runs, f.what)
		}
		if len(fs) > 0 {
			return 1
		}
	}
	fmt.Printf("not reproduced in %d runs\n", runs)
	return 0
}
