//go:build verif

package main

import (
	"fmt"
	"os"
	"strconv"
	"strings"

	"github.com/metal-toolbox/audito-maldito/internal/verifharness/hutil"
)

// Exhaustive small-scope mode: EVERY history up to a length bound over a small alphabet
// (two sessions with their own sshd PIDs: login, LOGIN record, another record, disposal record of each;
// one cron-like session without login; both cleanups with the cut-off "now"), subject only to: a login
// and a LOGIN record occur at most once each (the uniqueness discipline of C01/C02).  Every history runs
// on the real correlator and is judged by the property's oracle; every k-th one is also written as a Coq
// case for the per-step simulation against the model (all of them when there are few).
type exhSym struct {
	name string
	mk   func(g *exhGen) HOp
	once bool
	key  int // symbols with the same key exclude each other (0 = the symbol's own index + 1)
	// needs: 1 + index of a symbol that must have occurred earlier (0 = none); prev: cleanup whose cut-off is the boundary
	// one operation earlier (what arrived in the previous operation is younger than it)
	needs int
	prev  bool
}

// exhScope: an alphabet with its own length bound and plan rule; props: the properties whose checks run it (nil = all)
type exhScope struct {
	name   string
	syms   []exhSym
	extra  bool // its length bound is -xlen instead of -len
	derive bool // plans derived from the history (plans.go) instead of "the login with the LOGIN record's pid"
	props  map[string]bool
}

// scope "onepid": ONE sshd pid: its login, a SECOND login of that pid (after the first: they come through one pipe),
// the records of session 1, the LOGIN record and a record of session 4 opened by the same pid (after session 1's
// disposal record: audit records come through one pipe too), both cleanups with the cut-off "now" and with the cut-off
// one operation earlier (so that a cut-off can fall between two arrivals).  The second login may arrive while the first
// still waits, while session 1 is open, before or after session 1's disposal record.
var exhOnePid = []exhSym{
	{name: "login1", mk: func(g *exhGen) HOp { return g.login(71) }, once: true},
	{name: "login1'", mk: func(g *exhGen) HOp { return g.login(71) }, once: true, needs: 1},
	{name: "LOGIN1", mk: func(g *exhGen) HOp { return g.audit("1", "LOGIN", "71") }, once: true},
	{name: "ev1", mk: func(g *exhGen) HOp { return g.audit("1", "USER_START", "1071") }},
	{name: "disp1", mk: func(g *exhGen) HOp { return g.audit("1", "CRED_DISP", "71") }},
	{name: "LOGIN4", mk: func(g *exhGen) HOp { return g.audit("4", "LOGIN", "71", "auid", "1001") }, once: true, needs: 5},
	{name: "ev4", mk: func(g *exhGen) HOp { return g.audit("4", "USER_START", "1071", "auid", "1001") }},
	{name: "clean_sess", mk: func(g *exhGen) HOp { return HOp{Kind: "clean_sess"} }},
	{name: "clean_logins", mk: func(g *exhGen) HOp { return HOp{Kind: "clean_logins"} }},
	{name: "clean_sess/prev", mk: func(g *exhGen) HOp { return HOp{Kind: "clean_sess"} }, prev: true},
	{name: "clean_logins/prev", mk: func(g *exhGen) HOp { return HOp{Kind: "clean_logins"} }, prev: true},
}

var exhScopes = []exhScope{
	{name: "two", syms: exhAlphabet},
	{name: "onepid", syms: exhOnePid, extra: true, derive: true, props: map[string]bool{"C09": true, "C16": true}},
}

func (sc exhScope) runsFor(prop string) bool { return sc.props == nil || sc.props[prop] }

func (sc exhScope) bound(maxLen, xLen int) int {
	if sc.extra {
		return xLen
	}
	return maxLen
}

// exhWalk enumerates the histories of a scope in a fixed order.
func exhWalk(sc exhScope, maxLen int, visit func(word []int)) {
	word := []int{}
	var rec func(used, seen uint64)
	rec = func(used, seen uint64) {
		if len(word) > 0 {
			visit(word)
		}
		if len(word) == maxLen {
			return
		}
		for i, s := range sc.syms {
			if s.once && used&s.bit(i) != 0 {
				continue
			}
			if s.needs > 0 && seen&(1<<uint(s.needs-1)) == 0 {
				continue
			}
			u := used
			if s.once {
				u |= s.bit(i)
			}
			word = append(word, i)
			rec(u, seen|1<<uint(i))
			word = word[:len(word)-1]
		}
	}
	rec(0, 0)
}

type exhGen struct {
	ev, lg int
}

func (g *exhGen) audit(ses, typ, pid string, kv ...string) HOp {
	e := &HEvent{ID: g.ev, Ses: ses, Type: typ, PIDText: pid}
	if typ == "LOGIN" {
		e.Fields = map[string]string{"old-ses": unsetID, "old-auid": "unset", "auid": "1000", "uid": "0", "tty": "(none)"}
	} else {
		e.Fields = map[string]string{"auid": "1000", "uid": "0", "terminal": "ssh", "ppid": "71"}
	}
	for i := 0; i+1 < len(kv); i += 2 {
		e.Fields[kv[i]] = kv[i+1]
	}
	g.ev++
	return HOp{Kind: "audit", Event: e}
}

func (g *exhGen) login(pid int) HOp {
	l := &HLogin{ID: g.lg, PID: pid}
	g.lg++
	return HOp{Kind: "login", Login: l}
}

var exhAlphabet = []exhSym{
	{name: "login1", mk: func(g *exhGen) HOp { return g.login(71) }, once: true},
	{name: "login2", mk: func(g *exhGen) HOp { return g.login(72) }, once: true},
	{name: "LOGIN1", mk: func(g *exhGen) HOp { return g.audit("1", "LOGIN", "71") }, once: true},
	{name: "LOGIN2", mk: func(g *exhGen) HOp { return g.audit("2", "LOGIN", "72") }, once: true},
	{name: "ev1", mk: func(g *exhGen) HOp { return g.audit("1", "USER_START", "1071") }},
	{name: "ev2", mk: func(g *exhGen) HOp { return g.audit("2", "USER_CMD", "1072") }},
	{name: "disp1", mk: func(g *exhGen) HOp { return g.audit("1", "CRED_DISP", "71") }},
	{name: "disp2", mk: func(g *exhGen) HOp { return g.audit("2", "CRED_DISP", "72") }},
	{name: "LOGIN3", mk: func(g *exhGen) HOp { return g.audit("3", "LOGIN", "99") }, once: true}, // cron-like: no login
	{name: "ev3", mk: func(g *exhGen) HOp { return g.audit("3", "USER_ACCT", "1099") }},
	{name: "clean_sess", mk: func(g *exhGen) HOp { return HOp{Kind: "clean_sess"} }},
	{name: "clean_logins", mk: func(g *exhGen) HOp { return HOp{Kind: "clean_logins"} }},
	// the LOGIN record of session 2 as it looks when its process was started from inside session 1 (instead of LOGIN2)
	{name: "LOGIN2/old-ses=1", mk: func(g *exhGen) HOp {
		return g.audit("2", "LOGIN", "72", "old-ses", "1", "old-auid", "1000", "tty", "pts0")
	}, once: true, key: 4},
}

func (s exhSym) bit(i int) uint64 {
	if s.key > 0 {
		return 1 << uint(s.key-1)
	}
	return 1 << uint(i)
}

// exhSerials: the records' serials along the history, by a policy that rotates with the history's number: all zero,
// running down from 2^32-1, running up through 2^32, running down from a small number, all equal.
func exhSerials(h *History, n int) {
	pol := n % 5
	h.Serials = []string{"zero", "decreasing", "wrap", "decreasing-small", "equal"}[pol]
	j := uint32(0)
	for i := range h.Ops {
		if h.Ops[i].Kind != "audit" {
			continue
		}
		e := h.Ops[i].Event
		switch pol {
		case 1:
			e.Seq = 1<<32 - 1 - j
		case 2:
			e.Seq = 1<<32 - 2 + j
		case 3:
			e.Seq = 9 - j
		case 4:
			e.Seq = 77
		}
		if n%3 == 1 {
			e.TSms = procStart.UnixMilli() + int64(j)
		}
		j++
	}
}

func exhHistory(sc exhScope, word []int) History {
	g := &exhGen{}
	h := History{Budget: -1, Mode: "exhaustive", Plans: map[string]SessPlan{}}
	if sc.name != "two" {
		h.Mode = "exhaustive-" + sc.name
	}
	loginOf := map[int]int{}
	for _, w := range word {
		op := sc.syms[w].mk(g)
		h.Ops = append(h.Ops, op)
		if op.Kind == "login" {
			loginOf[op.Login.PID] = op.Login.ID
		}
	}
	for i := range h.Ops {
		switch h.Ops[i].Kind {
		case "login":
			l := *h.Ops[i].Login
			l.AtIdx = i
			h.Ops[i].Login = &l
		case "clean_sess", "clean_logins":
			h.Ops[i].Cut = i // cut-off = the boundary just before the call: everything pending is older
			if sc.syms[word[i]].prev && i > 0 {
				h.Ops[i].Cut = i - 1
			}
		}
	}
	if sc.derive {
		h.Plans = derivePlans(h.Ops)
		return h
	}
	for _, op := range h.Ops {
		if op.Kind == "audit" && op.Event.Type == "LOGIN" {
			pid, _ := strconv.Atoi(op.Event.PIDText)
			lid, ok := loginOf[pid]
			if !ok {
				lid = -1
			}
			h.Plans[op.Event.Ses] = SessPlan{Sid: op.Event.Ses, PID: pid, HasLoginRec: true, LoginID: lid, WF: true}
		}
	}
	// sessions whose records appear without a LOGIN record
	for _, op := range h.Ops {
		if op.Kind == "audit" {
			if _, ok := h.Plans[op.Event.Ses]; !ok {
				h.Plans[op.Event.Ses] = SessPlan{Sid: op.Event.Ses, PID: 0, HasLoginRec: false, LoginID: -1, WF: true}
			}
		}
	}
	return h
}

func exhMain(out, prop string, maxLen, xLen, coqBudget int, seed uint64) {
	if xLen <= 0 {
		xLen = maxLen + 1
	}
	os.MkdirAll(out, 0o755)
	var scopes []exhScope
	for _, sc := range exhScopes {
		if sc.runsFor(prop) {
			scopes = append(scopes, sc)
		}
	}
	sum := hutil.NewSummary(prop, seed,
		fmt.Sprintf("EXHAUSTIVE: every history up to a length bound over %s; in each, a login / LOGIN record occurs at most once (LOGIN2 in one of its two variants: old-ses unset, or naming session 1); "+
			"cleanup cut-offs = the instant of the call (\"/prev\": one operation earlier); "+
			"the records' serials rotate with the history's number (all zero, down from 2^32-1, up through 2^32, down from 9, all equal), and so does whose identity the logins carry (each its own; all the same account, credential and address; a pool of two); "+
			"each history runs on the real correlator, is judged by the %s oracle (scope onepid: the sessions' logins derived from the history alone; outcomes the property texts leave open are not judged), "+
			"and (all of them, or an evenly spaced subset of at most %d) is replayed step by step against the Coq model; "+
			"non-trivial = at least one event emitted; distinct by construction", exhNames(scopes, maxLen, xLen), prop, coqBudget))
	cases := &hutil.CaseFile{Dir: out, Stem: "cases_tracker_exh", PerFile: 60,
		Header: "From Coq Require Import List Bool Arith ZArith NArith.\nImport ListNotations.\nFrom AM Require Import Model.Tracker Model.TrackerCheck.\nOpen Scope Z_scope.\n",
		Footer: func(int) string {
			return "Definition M := Eval vm_compute in mismatches cases.\nPrint M.\nDefinition B := Eval vm_compute in first_bad cases.\nPrint B.\n"
		}}
	seqWatchdog = hutil.NewWatchdog(seqHangReporter(sum, cases, out))
	// count first, to space the Coq subset evenly
	total := 0
	for _, sc := range scopes {
		exhWalk(sc, sc.bound(maxLen, xLen), func([]int) { total++ })
	}
	every := 1
	if total > coqBudget {
		every = (total + coqBudget - 1) / coqBudget
	}
	n := 0
	for _, sc := range scopes {
		sc := sc
		samples := 0
		bound := sc.bound(maxLen, xLen)
		exhWalk(sc, bound, func(word []int) {
			h := exhHistory(sc, word)
			h.Debug = n%3 == 2
			exhSerials(&h, n)
			h.IdentPool = []int{0, 1, 0, 2}[(n/5)%4] // every login its own identity / all logins one identity / a pool of two
			rn := newRunner(h)
			res := rn.run()
			n++
			if res.Err != "" {
				sum.Fail("harness", "cannot interpret the implementation's state: "+res.Err, h)
				return
			}
			for _, f := range judge(prop, h, res) {
				sum.FailKey("oracle", f.key, f.what, map[string]any{"history": h, "detail": f.detail})
			}
			nt := len(res.Emitted) > 0
			sum.Count(sc.name+fmt.Sprint(word), nt)
			sum.Dist(fmt.Sprintf("scope_%s_length_%d", sc.name, len(word)))
			sum.Dist(fmt.Sprintf("emitted_%d", len(res.Emitted)))
			if n%every == 0 {
				if c, err := rn.coqCase(res); err != nil {
					sum.Fail("harness", err.Error(), h)
				} else {
					cases.AddDesc(c, h)
				}
			}
			if samples < 2 && len(word) == bound && nt {
				samples++
				var names []string
				for _, w := range word {
					names = append(names, sc.syms[w].name)
				}
				sum.Sample(map[string]any{"scope": sc.name, "history": strings.Join(names, " ; "), "emitted": len(res.Emitted)})
			}
		})
	}
	sum.Notes = append(sum.Notes, fmt.Sprintf("exhaustive: %d histories, every %d-th replayed against the Coq model", total, every))
	cases.Flush()
	sum.CaseFiles = cases.Files
	sum.Write(out)
}

func exhNames(scopes []exhScope, maxLen, xLen int) string {
	var out []string
	for _, sc := range scopes {
		var ns []string
		for _, s := range sc.syms {
			n := s.name
			if s.needs > 0 {
				n += " (after " + sc.syms[s.needs-1].name + ")"
			}
			ns = append(ns, n)
		}
		out = append(out, fmt.Sprintf("scope %q (length <= %d) {%s}", sc.name, sc.bound(maxLen, xLen), strings.Join(ns, ", ")))
	}
	return strings.Join(out, "; ")
}
