//go:build verif

package main

import (
	"fmt"
	"os"
	"strconv"
	"strings"

	"github.com/metal-toolbox/audito-maldito/internal/verifharness/hutil"
)

// Exhaustive small-scope mode: EVERY history up to a length bound over a small alphabet
// (two sessions with their own sshd PIDs: login, LOGIN record, another record, disposal record of each;
// one cron-like session without login; both cleanups with the cut-off "now"), subject only to: a login
// and a LOGIN record occur at most once each (the uniqueness discipline of C01/C02).  Every history runs
// on the real correlator and is judged by the property's oracle; every k-th one is also written as a Coq
// case for the per-step simulation against the model (all of them when there are few).
type exhSym struct {
	name string
	mk   func(g *exhGen) HOp
	once bool
	key  int // symbols with the same key exclude each other (0 = the symbol's own index + 1)
}

type exhGen struct {
	ev, lg int
}

func (g *exhGen) audit(ses, typ, pid string, kv ...string) HOp {
	e := &HEvent{ID: g.ev, Ses: ses, Type: typ, PIDText: pid}
	if typ == "LOGIN" {
		e.Fields = map[string]string{"old-ses": unsetID, "old-auid": "unset", "auid": "1000", "uid": "0", "tty": "(none)"}
	} else {
		e.Fields = map[string]string{"auid": "1000", "uid": "0", "terminal": "ssh", "ppid": "71"}
	}
	for i := 0; i+1 < len(kv); i += 2 {
		e.Fields[kv[i]] = kv[i+1]
	}
	g.ev++
	return HOp{Kind: "audit", Event: e}
}

func (g *exhGen) login(pid int) HOp {
	l := &HLogin{ID: g.lg, PID: pid}
	g.lg++
	return HOp{Kind: "login", Login: l}
}

var exhAlphabet = []exhSym{
	{"login1", func(g *exhGen) HOp { return g.login(71) }, true, 0},
	{"login2", func(g *exhGen) HOp { return g.login(72) }, true, 0},
	{"LOGIN1", func(g *exhGen) HOp { return g.audit("1", "LOGIN", "71") }, true, 0},
	{"LOGIN2", func(g *exhGen) HOp { return g.audit("2", "LOGIN", "72") }, true, 0},
	{"ev1", func(g *exhGen) HOp { return g.audit("1", "USER_START", "1071") }, false, 0},
	{"ev2", func(g *exhGen) HOp { return g.audit("2", "USER_CMD", "1072") }, false, 0},
	{"disp1", func(g *exhGen) HOp { return g.audit("1", "CRED_DISP", "71") }, false, 0},
	{"disp2", func(g *exhGen) HOp { return g.audit("2", "CRED_DISP", "72") }, false, 0},
	{"LOGIN3", func(g *exhGen) HOp { return g.audit("3", "LOGIN", "99") }, true, 0}, // cron-like: no login
	{"ev3", func(g *exhGen) HOp { return g.audit("3", "USER_ACCT", "1099") }, false, 0},
	{"clean_sess", func(g *exhGen) HOp { return HOp{Kind: "clean_sess"} }, false, 0},
	{"clean_logins", func(g *exhGen) HOp { return HOp{Kind: "clean_logins"} }, false, 0},
	// the LOGIN record of session 2 as it looks when its process was started from inside session 1 (instead of LOGIN2)
	{"LOGIN2/old-ses=1", func(g *exhGen) HOp {
		return g.audit("2", "LOGIN", "72", "old-ses", "1", "old-auid", "1000", "tty", "pts0")
	}, true, 4},
}

func (s exhSym) bit(i int) uint64 {
	if s.key > 0 {
		return 1 << uint(s.key-1)
	}
	return 1 << uint(i)
}

// exhSerials: the records' serials along the history, by a policy that rotates with the history's number: all zero,
// running down from 2^32-1, running up through 2^32, running down from a small number, all equal.
func exhSerials(h *History, n int) {
	pol := n % 5
	h.Serials = []string{"zero", "decreasing", "wrap", "decreasing-small", "equal"}[pol]
	j := uint32(0)
	for i := range h.Ops {
		if h.Ops[i].Kind != "audit" {
			continue
		}
		e := h.Ops[i].Event
		switch pol {
		case 1:
			e.Seq = 1<<32 - 1 - j
		case 2:
			e.Seq = 1<<32 - 2 + j
		case 3:
			e.Seq = 9 - j
		case 4:
			e.Seq = 77
		}
		if n%3 == 1 {
			e.TSms = procStart.UnixMilli() + int64(j)
		}
		j++
	}
}

func exhHistory(word []int) History {
	g := &exhGen{}
	h := History{Budget: -1, Mode: "exhaustive", Plans: map[string]SessPlan{}}
	loginOf := map[int]int{}
	for _, w := range word {
		op := exhAlphabet[w].mk(g)
		h.Ops = append(h.Ops, op)
		if op.Kind == "login" {
			loginOf[op.Login.PID] = op.Login.ID
		}
	}
	for i := range h.Ops {
		switch h.Ops[i].Kind {
		case "login":
			l := *h.Ops[i].Login
			l.AtIdx = i
			h.Ops[i].Login = &l
		case "clean_sess", "clean_logins":
			h.Ops[i].Cut = i // cut-off = the boundary just before the call: everything pending is older
		}
	}
	for _, op := range h.Ops {
		if op.Kind == "audit" && op.Event.Type == "LOGIN" {
			pid, _ := strconv.Atoi(op.Event.PIDText)
			lid, ok := loginOf[pid]
			if !ok {
				lid = -1
			}
			h.Plans[op.Event.Ses] = SessPlan{Sid: op.Event.Ses, PID: pid, HasLoginRec: true, LoginID: lid, WF: true}
		}
	}
	// sessions whose records appear without a LOGIN record
	for _, op := range h.Ops {
		if op.Kind == "audit" {
			if _, ok := h.Plans[op.Event.Ses]; !ok {
				h.Plans[op.Event.Ses] = SessPlan{Sid: op.Event.Ses, PID: 0, HasLoginRec: false, LoginID: -1, WF: true}
			}
		}
	}
	return h
}

func exhMain(out, prop string, maxLen, coqBudget int, seed uint64) {
	os.MkdirAll(out, 0o755)
	sum := hutil.NewSummary(prop, seed,
		fmt.Sprintf("EXHAUSTIVE: every history of length 1..%d over the alphabet {%s} in which each login and each LOGIN record occurs at most once (LOGIN2 in one of its two variants: old-ses unset, or naming session 1); cleanup cut-offs = the instant of the call; "+
			"the records' serials rotate with the history's number (all zero, down from 2^32-1, up through 2^32, down from 9, all equal); "+
			"each history runs on the real correlator, is judged by the %s oracle, and (all of them, or an evenly spaced subset of at most %d) is replayed step by step against the Coq model; "+
			"non-trivial = at least one event emitted; distinct by construction", maxLen, exhNames(), prop, coqBudget))
	cases := &hutil.CaseFile{Dir: out, Stem: "cases_tracker_exh", PerFile: 60,
		Header: "From Coq Require Import List Bool Arith ZArith NArith.\nImport ListNotations.\nFrom AM Require Import Model.Tracker Model.TrackerCheck.\nOpen Scope Z_scope.\n",
		Footer: func(int) string {
			return "Definition M := Eval vm_compute in mismatches cases.\nPrint M.\nDefinition B := Eval vm_compute in first_bad cases.\nPrint B.\n"
		}}
	seqWatchdog = hutil.NewWatchdog(seqHangReporter(sum, cases, out))
	// count first, to space the Coq subset evenly
	total := 0
	var count func(depth int, used uint64)
	count = func(depth int, used uint64) {
		if depth > 0 {
			total++
		}
		if depth == maxLen {
			return
		}
		for i, s := range exhAlphabet {
			if s.once && used&s.bit(i) != 0 {
				continue
			}
			u := used
			if s.once {
				u |= s.bit(i)
			}
			count(depth+1, u)
		}
	}
	count(0, 0)
	every := 1
	if total > coqBudget {
		every = (total + coqBudget - 1) / coqBudget
	}
	n := 0
	word := []int{}
	var rec func(used uint64)
	rec = func(used uint64) {
		if len(word) > 0 {
			h := exhHistory(word)
			h.Debug = n%3 == 2
			exhSerials(&h, n)
			rn := newRunner(h)
			res := rn.run()
			n++
			if res.Err != "" {
				sum.Fail("harness", "cannot interpret the implementation's state: "+res.Err, h)
			} else {
				for _, f := range judge(prop, h, res) {
					sum.FailKey("oracle", f.key, f.what, map[string]any{"history": h, "detail": f.detail})
				}
				nt := len(res.Emitted) > 0
				sum.Count(fmt.Sprint(word), nt)
				sum.Dist(fmt.Sprintf("length_%d", len(word)))
				sum.Dist(fmt.Sprintf("emitted_%d", len(res.Emitted)))
				if n%every == 0 {
					if c, err := rn.coqCase(res); err != nil {
						sum.Fail("harness", err.Error(), h)
					} else {
						cases.AddDesc(c, h)
					}
				}
				if len(sum.Samples) < 3 && len(word) == maxLen && nt {
					var names []string
					for _, w := range word {
						names = append(names, exhAlphabet[w].name)
					}
					sum.Sample(map[string]any{"history": strings.Join(names, " ; "), "emitted": len(res.Emitted)})
				}
			}
		}
		if len(word) == maxLen {
			return
		}
		for i, s := range exhAlphabet {
			if s.once && used&s.bit(i) != 0 {
				continue
			}
			u := used
			if s.once {
				u |= s.bit(i)
			}
			word = append(word, i)
			rec(u)
			word = word[:len(word)-1]
		}
	}
	rec(0)
	sum.Notes = append(sum.Notes, fmt.Sprintf("exhaustive: %d histories, every %d-th replayed against the Coq model", total, every))
	cases.Flush()
	sum.CaseFiles = cases.Files
	sum.Write(out)
}

func exhNames() string {
	var ns []string
	for _, s := range exhAlphabet {
		ns = append(ns, s.name)
	}
	return strings.Join(ns, ", ")
}
