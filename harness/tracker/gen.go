//go:build verif

package main

import (
	"fmt"
	"strconv"

	"github.com/metal-toolbox/audito-maldito/internal/verifharness/hutil"
)

// ---------- history description (JSON-able, replayable) ----------

type HLogin struct {
	ID      int    `json:"id"`
	PID     int    `json:"pid"`
	AtIdx   int    `json:"at_idx"`  // LoggedAt = time boundary taken before op AtIdx
	Invalid string `json:"invalid"` // "", "nosource", "nocred"  (pid<=0 is expressed by PID)
}

type HEvent struct {
	ID      int    `json:"id"`
	Ses     string `json:"ses"`  // "", "unset" or decimal
	Type    string `json:"type"` // LOGIN, CRED_DISP, or the name of another record type
	PIDText string `json:"pid_text"`
	// what the record carries beyond that (fields.go); none of it may lead the correlator
	Seq    uint32            `json:"seq,omitempty"`   // kernel serial (aucoalesce.Event.Sequence)
	TSms   int64             `json:"ts_ms,omitempty"` // the record's own timestamp, unix ms (0: 1700000000 s + id)
	Fields map[string]string `json:"fields,omitempty"`
}

type HOp struct {
	Kind  string  `json:"kind"` // login | audit | clean_sess | clean_logins
	Login *HLogin `json:"login,omitempty"`
	Event *HEvent `json:"event,omitempty"`
	Cut   int     `json:"cut,omitempty"` // cut-off = time boundary taken before op Cut (Cut <= own index)
}

// Plan of one audit session, used by the oracles (expected identity is known by construction).
type SessPlan struct {
	Sid         string `json:"sid"`
	PID         int    `json:"pid"`
	HasLoginRec bool   `json:"has_login_rec"`
	LoginID     int    `json:"login_id"` // -1: no SSH login for this session (cron, console, su)
	WF          bool   `json:"wf"`       // satisfies the uniqueness / reuse discipline of C01/C02/C09
}

type History struct {
	Ops    []HOp               `json:"ops"`
	Budget int                 `json:"budget"` // -1 = writer never fails; k = fails after k writes
	Plans  map[string]SessPlan `json:"plans"`
	Mode   string              `json:"mode"`
	Debug  bool                `json:"debug_logging,omitempty"` // the correlator gets a logger with DEBUG enabled
	// how the serials / timestamps of the records were generated (fields.go); informational, the values are in the events
	Serials string `json:"serials,omitempty"`
	Stamps  string `json:"stamps,omitempty"`
	// IdentPool: 0 = every login has an identity of its own (account, credential, client address all derived from its
	// id); k > 0 = accounts, credentials and client addresses are drawn from a pool of k, so that different sshd
	// processes log in with EQUAL credentials / from the same address (the same person or automation reconnecting);
	// what still tells two logins apart is what tells two connections apart: the client port (and the log time)
	IdentPool int `json:"ident_pool,omitempty"`
	// a history of the volume family is a function of its compact description (volume.go); replays carry that
	Vol *VolCase `json:"-"`
}

var otherTypes = []string{"USER_START", "USER_END", "SYSCALL", "USER_ACCT", "CRED_ACQ", "USER_CMD", "EXECVE", "USER_LOGIN", "CRED_REFR", "USER_AUTH"}

type genState struct {
	r       *hutil.Rand
	nextEv  int
	nextLog int
	nextSid int
	nextPid int
}

func (g *genState) ev(ses, typ, pid string) HOp {
	e := &HEvent{ID: g.nextEv, Ses: ses, Type: typ, PIDText: pid}
	g.nextEv++
	return HOp{Kind: "audit", Event: e}
}

func (g *genState) login(pid int, invalid string) HOp {
	l := &HLogin{ID: g.nextLog, PID: pid, Invalid: invalid}
	g.nextLog++
	return HOp{Kind: "login", Login: l}
}

// sessionScript returns the ops of one session (its records, and its login at a random split point).
func (g *genState) sessionScript(sid string, pid int, withLogin, withLoginRec, withDisp bool, nEv, nStray int, loginPos int) ([]HOp, int) {
	var evs []HOp
	if withLoginRec {
		evs = append(evs, g.ev(sid, "LOGIN", strconv.Itoa(pid)))
	}
	for i := 0; i < nEv; i++ {
		evs = append(evs, g.ev(sid, hutil.Pick(g.r, otherTypes), strconv.Itoa(pid+1000+g.r.Intn(50))))
	}
	if withDisp {
		evs = append(evs, g.ev(sid, "CRED_DISP", strconv.Itoa(pid)))
	}
	for i := 0; i < nStray; i++ {
		evs = append(evs, g.ev(sid, hutil.Pick(g.r, otherTypes), strconv.Itoa(pid+1000)))
	}
	lid := -1
	if withLogin {
		l := g.login(pid, "")
		lid = l.Login.ID
		if loginPos < 0 || loginPos > len(evs) {
			loginPos = g.r.Intn(len(evs) + 1)
		}
		out := append([]HOp{}, evs[:loginPos]...)
		out = append(out, l)
		out = append(out, evs[loginPos:]...)
		evs = out
	}
	return evs, lid
}

// interleave merges scripts preserving each script's order.
func interleave(r *hutil.Rand, scripts [][]HOp) []HOp {
	var out []HOp
	idx := make([]int, len(scripts))
	for {
		live := []int{}
		for i := range scripts {
			if idx[i] < len(scripts[i]) {
				live = append(live, i)
			}
		}
		if len(live) == 0 {
			return out
		}
		// bursts: keep taking from the same script with some probability
		i := hutil.Pick(r, live)
		n := 1 + r.Intn(3)
		for k := 0; k < n && idx[i] < len(scripts[i]); k++ {
			out = append(out, scripts[i][idx[i]])
			idx[i]++
		}
	}
}

// genHistory builds one history. mode: wf | reuse | mixed | cleanup | faults
func genHistory(r *hutil.Rand, mode string, maxSessions int) History {
	g := &genState{r: r, nextSid: 1 + r.Intn(50), nextPid: 100 + r.Intn(1000)}
	h := History{Budget: -1, Plans: map[string]SessPlan{}, Mode: mode}
	var scripts [][]HOp
	nSess := 1 + r.Intn(maxSessions)
	for k := 0; k < nSess; k++ {
		sid := strconv.Itoa(g.nextSid)
		g.nextSid += 1 + r.Intn(3)
		pid := g.nextPid
		g.nextPid += 1 + r.Intn(5)
		switch {
		case mode == "reuse" && r.Chance(2, 3):
			// a chain of 2-3 sessions of the same sshd PID, each started after the previous one ended
			// and after the previous login was delivered
			n := 2 + r.Intn(2)
			var chain []HOp
			for c := 0; c < n; c++ {
				last := c == n-1
				s, lid := g.sessionScript(sid, pid, true, true, !last || r.Bool(), r.Intn(4), 0, -1)
				chain = append(chain, s...)
				h.Plans[sid] = SessPlan{Sid: sid, PID: pid, HasLoginRec: true, LoginID: lid, WF: true}
				if !last {
					// stray events of the ended session may arrive later, anywhere
					if r.Chance(1, 2) {
						scripts = append(scripts, []HOp{g.ev(sid, hutil.Pick(r, otherTypes), strconv.Itoa(pid+1000))})
					}
					sid = strconv.Itoa(g.nextSid)
					g.nextSid += 1 + r.Intn(3)
				}
			}
			scripts = append(scripts, chain)
		case (mode == "mixed" || mode == "faults") && r.Chance(1, 3):
			// uncorrelated activity
			switch r.Intn(3) {
			case 0: // cron-like: LOGIN record, no SSH login
				s, _ := g.sessionScript(sid, pid, false, true, r.Bool(), r.Intn(4), 0, -1)
				scripts = append(scripts, s)
				h.Plans[sid] = SessPlan{Sid: sid, PID: pid, HasLoginRec: true, LoginID: -1, WF: true}
			case 1: // console-like: no LOGIN record; an SSH login with that pid exists but must not bind
				s, _ := g.sessionScript(sid, pid, r.Bool(), false, r.Bool(), 1+r.Intn(3), 0, -1)
				scripts = append(scripts, s)
				h.Plans[sid] = SessPlan{Sid: sid, PID: pid, HasLoginRec: false, LoginID: -1, WF: true}
			default: // su-like: a second LOGIN-type record (other pid) inside an existing correlated session
				s, lid := g.sessionScript(sid, pid, true, true, false, 1+r.Intn(3), 0, -1)
				s = append(s, g.ev(sid, "LOGIN", strconv.Itoa(pid+7)))
				s = append(s, g.ev(sid, hutil.Pick(r, otherTypes), strconv.Itoa(pid+8)))
				scripts = append(scripts, s)
				h.Plans[sid] = SessPlan{Sid: sid, PID: pid, HasLoginRec: true, LoginID: lid, WF: false}
			}
		default:
			withDisp := r.Chance(2, 3)
			nStray := 0
			if withDisp && r.Chance(1, 4) {
				nStray = 1 + r.Intn(2)
			}
			s, lid := g.sessionScript(sid, pid, true, true, withDisp, r.Intn(5), nStray, -1)
			scripts = append(scripts, s)
			h.Plans[sid] = SessPlan{Sid: sid, PID: pid, HasLoginRec: true, LoginID: lid, WF: true}
		}
	}
	if mode == "mixed" || mode == "faults" {
		// noise: records without a session, logins without a session
		n := r.Intn(4)
		var noise []HOp
		for i := 0; i < n; i++ {
			switch r.Intn(4) {
			case 0:
				noise = append(noise, g.ev("", hutil.Pick(r, otherTypes), strconv.Itoa(g.nextPid+i)))
			case 1:
				noise = append(noise, g.ev("unset", hutil.Pick(r, append(otherTypes, "LOGIN")), strconv.Itoa(g.nextPid+i)))
			case 2:
				noise = append(noise, g.login(g.nextPid+50+i, ""))
			default:
				noise = append(noise, g.ev("", "LOGIN", strconv.Itoa(g.nextPid+i)))
			}
		}
		scripts = append(scripts, noise)
	}
	if (mode == "mixed" || mode == "faults" || mode == "wf") && r.Chance(1, 3) {
		// a LOGIN-type record WITHOUT a session id (or with the unset one) that carries the pid of one of the
		// sshd logins of this history, plus follow-up records without session: never to be emitted
		var pids []int
		for _, pl := range h.Plans {
			if pl.LoginID >= 0 {
				pids = append(pids, pl.PID)
			}
		}
		if len(pids) > 0 {
			p := pids[r.Intn(len(pids))]
			ses := hutil.Pick(r, []string{"", "", "unset"})
			noSes := []HOp{g.ev(ses, "LOGIN", strconv.Itoa(p))}
			for i := 0; i < 1+r.Intn(2); i++ {
				noSes = append(noSes, g.ev(ses, hutil.Pick(r, otherTypes), strconv.Itoa(p+1000)))
			}
			scripts = append(scripts, noSes)
		}
	}
	if mode == "faults" {
		var f []HOp
		switch r.Intn(4) {
		case 0:
			f = append(f, g.login(0, ""))
		case 1:
			f = append(f, g.login(-5, ""))
		case 2:
			f = append(f, g.login(g.nextPid+77, hutil.Pick(r, []string{"nosource", "nocred"})))
		default:
			sid := strconv.Itoa(g.nextSid + 100)
			f = append(f, g.ev(sid, "LOGIN", hutil.Pick(r, []string{"", "abc", "12x", "99999999999999999999"})))
			h.Plans[sid] = SessPlan{Sid: sid, PID: 0, HasLoginRec: false, LoginID: -1, WF: true}
		}
		scripts = append(scripts, f)
		if r.Chance(1, 2) {
			h.Budget = r.Intn(6)
		}
	}
	ops := interleave(r, scripts)
	// cleanup calls at random places with cut-offs at random earlier boundaries
	if mode == "cleanup" || mode == "mixed" || (mode != "reuse" && r.Chance(1, 4)) {
		n := 1 + r.Intn(3)
		if mode == "cleanup" {
			n = 2 + r.Intn(4)
		}
		for i := 0; i < n; i++ {
			pos := r.Intn(len(ops) + 1)
			kind := "clean_sess"
			if r.Bool() {
				kind = "clean_logins"
			}
			c := HOp{Kind: kind}
			out := append([]HOp{}, ops[:pos]...)
			out = append(out, c)
			out = append(out, ops[pos:]...)
			ops = out
		}
	}
	if r.Chance(1, 2) {
		// cleanup calls whose cut-off lies before everything: they must discard nothing, whatever is pending
		// (ended sessions still waiting for their login included)
		n := 1 + r.Intn(2)
		for i := 0; i < n; i++ {
			pos := r.Intn(len(ops) + 1)
			kind := "clean_sess"
			if r.Chance(1, 3) {
				kind = "clean_logins"
			}
			c := HOp{Kind: kind, Cut: -1}
			out := append([]HOp{}, ops[:pos]...)
			out = append(out, c)
			out = append(out, ops[pos:]...)
			ops = out
		}
	}
	// fix up time references now that positions are known
	for i := range ops {
		switch ops[i].Kind {
		case "login":
			// the sshd line was logged at or before delivery; sometimes well before
			l := *ops[i].Login
			l.AtIdx = i
			if i > 0 && r.Chance(1, 3) {
				l.AtIdx = r.Intn(i + 1)
			}
			ops[i].Login = &l
		case "clean_sess", "clean_logins":
			if ops[i].Cut == -1 {
				ops[i].Cut = 0 // the boundary before the first operation
			} else {
				ops[i].Cut = r.Intn(i + 1)
			}
		}
	}
	h.Ops = ops
	h.Debug = r.Chance(1, 3)
	return h
}

func (o HOp) String() string {
	switch o.Kind {
	case "login":
		return fmt.Sprintf("login#%d(pid %d,at %d%s)", o.Login.ID, o.Login.PID, o.Login.AtIdx, o.Login.Invalid)
	case "audit":
		extra := ""
		if o.Event.Seq != 0 {
			extra += fmt.Sprintf(",serial %d", o.Event.Seq)
		}
		if v, ok := o.Event.Fields["old-ses"]; ok && v != unsetID {
			extra += ",old-ses " + v
		}
		return fmt.Sprintf("ev#%d(ses %q,%s,pid %q%s)", o.Event.ID, o.Event.Ses, o.Event.Type, o.Event.PIDText, extra)
	default:
		return fmt.Sprintf("%s(cut %d)", o.Kind, o.Cut)
	}
}

// ---------- further history families (each drawn from a generator of its own, so that adding one leaves the
// histories of the basic modes what they were) ----------

// genPending: 2-4 sessions waiting for their sshd logins AT THE SAME TIME, each holding its own number of events
// (0-12; with big: up to 40 and around the sizes at which a Go slice grows) before its login arrives; the logins
// arrive in any order.  Varied independently: the order in which the sessions are OPENED, which of them holds
// many events, which login comes first, and whether the sessions fill up one after the other or in turns.  What one
// session holds must never show up under another session's identity (C01), and every session's events come out
// once, in order (C02) - whatever the neighbours hold.
func genPending(r *hutil.Rand, big bool) History {
	g := &genState{r: r, nextSid: 1 + r.Intn(50), nextPid: 100 + r.Intn(1000)}
	h := History{Budget: -1, Plans: map[string]SessPlan{}, Mode: "pending"}
	if big {
		h.Mode = "pending-big"
	}
	type sess struct {
		open  HOp
		held  []HOp
		login HOp
		tail  []HOp
	}
	growth := []int{1, 2, 3, 4, 5, 7, 8, 9, 15, 16, 17, 31, 32, 33, 40}
	k := 2 + r.Intn(3)
	ss := make([]*sess, k)
	for i := range ss {
		sid := strconv.Itoa(g.nextSid)
		g.nextSid += 1 + r.Intn(3)
		pid := g.nextPid
		g.nextPid += 1 + r.Intn(5)
		n := 0
		switch r.Intn(3) {
		case 0:
			n = r.Intn(4)
		case 1:
			n = 4 + r.Intn(9)
		default:
			n = 9 + r.Intn(4)
			if big {
				n = hutil.Pick(r, growth)
				if r.Bool() {
					n = 9 + r.Intn(32)
				}
			}
		}
		s := &sess{open: g.ev(sid, "LOGIN", strconv.Itoa(pid))}
		for j := 0; j < n; j++ {
			s.held = append(s.held, g.ev(sid, hutil.Pick(r, otherTypes), strconv.Itoa(pid+1000+r.Intn(50))))
		}
		s.login = g.login(pid, "")
		for j := r.Intn(4); j > 0; j-- {
			s.tail = append(s.tail, g.ev(sid, hutil.Pick(r, otherTypes), strconv.Itoa(pid+1000+r.Intn(50))))
		}
		if r.Bool() {
			s.tail = append(s.tail, g.ev(sid, "CRED_DISP", strconv.Itoa(pid)))
			if r.Chance(1, 4) {
				s.tail = append(s.tail, g.ev(sid, hutil.Pick(r, otherTypes), strconv.Itoa(pid+1000)))
			}
		}
		ss[i] = s
		h.Plans[sid] = SessPlan{Sid: sid, PID: pid, HasLoginRec: true, LoginID: s.login.Login.ID, WF: true}
	}
	// the order in which the sessions are opened is independent of their ids, pids and sizes
	for i := len(ss) - 1; i > 0; i-- {
		j := r.Intn(i + 1)
		ss[i], ss[j] = ss[j], ss[i]
	}
	bursts := func(scripts [][]HOp, maxBurst int) []HOp {
		var out []HOp
		idx := make([]int, len(scripts))
		for {
			var live []int
			for i := range scripts {
				if idx[i] < len(scripts[i]) {
					live = append(live, i)
				}
			}
			if len(live) == 0 {
				return out
			}
			i := hutil.Pick(r, live)
			for n := 1 + r.Intn(maxBurst); n > 0 && idx[i] < len(scripts[i]); n-- {
				out = append(out, scripts[i][idx[i]])
				idx[i]++
			}
		}
	}
	maxBurst := hutil.Pick(r, []int{1, 3, 12, 45})
	var ops []HOp
	switch r.Intn(3) {
	case 0: // every session a script of its own, merged
		var scripts [][]HOp
		for _, s := range ss {
			sc := append([]HOp{s.open}, s.held...)
			sc = append(append(sc, s.login), s.tail...)
			scripts = append(scripts, sc)
		}
		ops = bursts(scripts, maxBurst)
	case 1: // all sessions opened first, then merged
		var scripts [][]HOp
		for _, s := range ss {
			ops = append(ops, s.open)
			sc := append(append([]HOp{}, s.held...), s.login)
			scripts = append(scripts, append(sc, s.tail...))
		}
		ops = append(ops, bursts(scripts, maxBurst)...)
	default: // all opened, then everything that is held, then the logins (in an order of their own) with the rest
		var held, rest [][]HOp
		for _, s := range ss {
			ops = append(ops, s.open)
			held = append(held, s.held)
		}
		ops = append(ops, bursts(held, maxBurst)...)
		for _, i := range permOf(r, len(ss)) {
			rest = append(rest, append([]HOp{ss[i].login}, ss[i].tail...))
		}
		if r.Bool() {
			ops = append(ops, bursts(rest, 2)...)
		} else {
			for _, sc := range rest {
				ops = append(ops, sc...)
			}
		}
	}
	if r.Chance(1, 3) {
		// cleanup calls whose cut-off lies before everything: they discard nothing
		for n := 1 + r.Intn(2); n > 0; n-- {
			pos := r.Intn(len(ops) + 1)
			c := HOp{Kind: hutil.Pick(r, []string{"clean_sess", "clean_sess", "clean_logins"}), Cut: 0}
			ops = append(ops[:pos], append([]HOp{c}, ops[pos:]...)...)
		}
	}
	for i := range ops {
		if ops[i].Kind == "login" {
			l := *ops[i].Login
			l.AtIdx = i
			if i > 0 && r.Chance(1, 3) {
				l.AtIdx = r.Intn(i + 1)
			}
			ops[i].Login = &l
		}
	}
	h.Ops = ops
	h.Debug = r.Chance(1, 3)
	return h
}

func permOf(r *hutil.Rand, n int) []int {
	p := make([]int, n)
	for i := range p {
		p[i] = i
	}
	for i := n - 1; i > 0; i-- {
		j := r.Intn(i + 1)
		p[i], p[j] = p[j], p[i]
	}
	return p
}

// genRelogin (C16): the sshd pid of a session logs in two or three times BEFORE the session's LOGIN record arrives (a
// repeated line; a pid re-used by a connection whose audit session never showed up): every login but the last is
// superseded while it waits.  Cleanup calls whose cut-off falls BETWEEN the log times of an earlier login and the last
// one (and others anywhere) come before the LOGIN record: the last login is younger than such a cut-off, so it must
// still be waiting afterwards, and its session - arriving inside the window - must be correlated.  By construction the
// session's partner is the LAST login of its pid (what the correlator does by overwriting the waiting entry;
// Model/Tracker.v: aset on [parked]).  Other sessions run alongside.
func genRelogin(r *hutil.Rand) History {
	g := &genState{r: r, nextSid: 1 + r.Intn(50), nextPid: 100 + r.Intn(1000)}
	h := History{Budget: -1, Plans: map[string]SessPlan{}, Mode: "relogin"}
	var scripts [][]HOp
	type mark struct{ first, last int } // login ids of one pid: an earlier one and the last one
	var marks []mark
	cutFor := map[int]int{} // index into marks, keyed by a placeholder cut value (negative)
	for k := 1 + r.Intn(3); k > 0; k-- {
		sid := strconv.Itoa(g.nextSid)
		g.nextSid += 1 + r.Intn(3)
		pid := g.nextPid
		g.nextPid += 1 + r.Intn(5)
		if k > 1 && r.Chance(1, 3) {
			// an ordinary session alongside
			s, lid := g.sessionScript(sid, pid, true, true, r.Bool(), r.Intn(4), 0, -1)
			scripts = append(scripts, s)
			h.Plans[sid] = SessPlan{Sid: sid, PID: pid, HasLoginRec: true, LoginID: lid, WF: true}
			continue
		}
		var sc []HOp
		first := -1
		for n := 1 + r.Intn(2); n > 0; n-- {
			l := g.login(pid, "")
			if first < 0 || r.Bool() {
				first = l.Login.ID
			}
			sc = append(sc, l)
			if r.Chance(1, 4) {
				sc = append(sc, HOp{Kind: "clean_sess", Cut: 0})
			}
		}
		last := g.login(pid, "")
		sc = append(sc, last)
		marks = append(marks, mark{first, last.Login.ID})
		for n := r.Intn(3); n > 0; n-- {
			c := HOp{Kind: hutil.Pick(r, []string{"clean_logins", "clean_logins", "clean_sess"}), Cut: -len(marks)}
			cutFor[c.Cut] = len(marks) - 1
			sc = append(sc, c)
		}
		evs, _ := g.sessionScript(sid, pid, false, true, r.Chance(2, 3), r.Intn(4), 0, -1)
		sc = append(sc, evs...)
		scripts = append(scripts, sc)
		h.Plans[sid] = SessPlan{Sid: sid, PID: pid, HasLoginRec: true, LoginID: last.Login.ID, WF: true}
	}
	ops := interleave(r, scripts)
	// log times: a superseded login was logged at or before its delivery; the last login of a pid strictly after
	// the earlier ones' log times; the marked cut-offs fall between
	idxOf := map[int]int{}
	for i := range ops {
		if ops[i].Kind == "login" {
			idxOf[ops[i].Login.ID] = i
		}
	}
	at := map[int]int{}
	for i := range ops {
		if ops[i].Kind == "login" {
			l := *ops[i].Login
			l.AtIdx = i
			ops[i].Login = &l
			at[l.ID] = i
		}
	}
	for _, m := range marks {
		// the earlier login may have been logged well before it was delivered
		if i := idxOf[m.first]; i > 0 && r.Bool() {
			l := *ops[i].Login
			l.AtIdx = r.Intn(i + 1)
			ops[i].Login = &l
			at[m.first] = l.AtIdx
		}
		// the last one at its delivery, or anywhere after the earlier one's log time
		if i := idxOf[m.last]; r.Chance(1, 3) {
			l := *ops[i].Login
			l.AtIdx = at[m.first] + 1 + r.Intn(i-at[m.first])
			ops[i].Login = &l
			at[m.last] = l.AtIdx
		}
	}
	for i := range ops {
		if ops[i].Kind != "clean_sess" && ops[i].Kind != "clean_logins" {
			continue
		}
		if mi, ok := cutFor[ops[i].Cut]; ok && ops[i].Cut < 0 {
			m := marks[mi]
			// older than the cut-off: the earlier login; not older: the last one
			lo, hi := at[m.first]+1, at[m.last]
			ops[i].Cut = lo + r.Intn(hi-lo+1)
			if r.Chance(1, 5) {
				ops[i].Cut = r.Intn(i + 1) // anywhere
			}
			if ops[i].Cut > i {
				ops[i].Cut = i
			}
		}
	}
	h.Ops = ops
	h.Debug = r.Chance(1, 3)
	return h
}

// genOvertake (C09): chains of 2-3 sessions opened one after the other by the SAME sshd pid (the pid is re-used after
// the earlier process has ended).  The two streams travel through different pipes, so the sshd line of the NEW process
// may overtake the LAST audit records of the ended session: the new login arrives anywhere after the previous login
// (same pipe) and after the previous session's LOGIN record - before the old session's credential-disposal record,
// between its last records, after them, or inside the new session's records.  By construction session c of a chain
// belongs to login c.  Other chains and plain sessions run alongside; stray late records of ended sessions too.
func genOvertake(r *hutil.Rand) History {
	g := &genState{r: r, nextSid: 1 + r.Intn(50), nextPid: 100 + r.Intn(1000)}
	h := History{Budget: -1, Plans: map[string]SessPlan{}, Mode: "overtake"}
	var scripts [][]HOp
	for k := 1 + r.Intn(3); k > 0; k-- {
		pid := g.nextPid
		g.nextPid += 1 + r.Intn(5)
		if k > 1 && r.Chance(1, 3) {
			sid := strconv.Itoa(g.nextSid)
			g.nextSid += 1 + r.Intn(3)
			s, lid := g.sessionScript(sid, pid, true, true, r.Bool(), r.Intn(4), 0, -1)
			scripts = append(scripts, s)
			h.Plans[sid] = SessPlan{Sid: sid, PID: pid, HasLoginRec: true, LoginID: lid, WF: true}
			continue
		}
		var chain []HOp
		prevLogin, prevRec := -1, -1 // positions in chain of the previous session's login and LOGIN record
		n := 2 + r.Intn(2)
		for c := 0; c < n; c++ {
			sid := strconv.Itoa(g.nextSid)
			g.nextSid += 1 + r.Intn(3)
			lastOne := c == n-1
			nEv := r.Intn(4)
			evs, _ := g.sessionScript(sid, pid, false, true, false, nEv, 0, -1)
			if !lastOne || r.Bool() {
				if r.Bool() {
					evs = append(evs, g.ev(sid, "USER_END", strconv.Itoa(pid)))
				}
				evs = append(evs, g.ev(sid, "CRED_DISP", strconv.Itoa(pid)))
			}
			l := g.login(pid, "")
			base := len(chain)
			lo := 0
			if c > 0 {
				lo = prevLogin + 1
				if prevRec+1 > lo {
					lo = prevRec + 1
				}
			} else {
				lo = base
			}
			pos := lo + r.Intn(base+len(evs)-lo+1)
			if c > 0 && lo < base && r.Bool() {
				pos = lo + r.Intn(base-lo) // before the previous session's last record
			}
			chain = append(chain, evs...)
			chain = append(chain[:pos], append([]HOp{l}, chain[pos:]...)...)
			prevLogin, prevRec = pos, base
			if pos <= base {
				prevRec = base + 1
			}
			h.Plans[sid] = SessPlan{Sid: sid, PID: pid, HasLoginRec: true, LoginID: l.Login.ID, WF: true}
			if !lastOne && r.Chance(1, 3) {
				// a stray late record of the ended session, anywhere later
				scripts = append(scripts, []HOp{g.ev(sid, hutil.Pick(r, otherTypes), strconv.Itoa(pid+1000))})
			}
		}
		scripts = append(scripts, chain)
	}
	ops := interleave(r, scripts)
	if r.Chance(1, 2) {
		// cleanup calls whose cut-off lies before everything: they discard nothing
		for n := 1 + r.Intn(2); n > 0; n-- {
			pos := r.Intn(len(ops) + 1)
			c := HOp{Kind: hutil.Pick(r, []string{"clean_sess", "clean_logins"}), Cut: 0}
			ops = append(ops[:pos], append([]HOp{c}, ops[pos:]...)...)
		}
	}
	for i := range ops {
		if ops[i].Kind == "login" {
			l := *ops[i].Login
			l.AtIdx = i
			if i > 0 && r.Chance(1, 3) {
				l.AtIdx = r.Intn(i + 1)
			}
			ops[i].Login = &l
		}
	}
	h.Ops = ops
	h.Debug = r.Chance(1, 3)
	return h
}
