//go:build verif

package main

import (
	"sort"
	"strconv"
	"strings"
	"time"

	"github.com/elastic/go-libaudit/v2/aucoalesce"

	"github.com/metal-toolbox/audito-maldito/internal/verifharness/hutil"
)

// What a coalesced audit event carries BESIDES the three things the correlator needs (session, record type,
// process id): the kernel serial, the record's own timestamp, and the record's other fields as go-libaudit's
// coalescer delivers them (LOGIN record: Data{old-ses, tty}, User.IDs{auid, old-auid, uid}; PAM records:
// Data{acct, op, grantors, hostname, terminal}, Process.Exe, Source.IP; syscall records: Process.PPID/Name/Exe/CWD,
// User.IDs).  The properties speak about sessions, process ids and the ORDER IN WHICH records are processed; none of
// these values may lead the correlator.  So they are generated: realistic, and adversarial - serials that stand
// still, run backwards, wrap through 2^32 or arrive late; timestamps before / around / after the wall clock;
// fields whose values NAME other sessions, pids and users of the same history.
//
// The Coq model's event (Model/Tracker.v: aev) consists of id, session, type, pid only, and so does the case-file
// encoding (Model/TrackerCheck.v: erow): the extra fields never enter the comparison.
//
// All of this is drawn from a generator of its own, so the histories themselves stay what they were.

const unsetID = "4294967295"

var procStart = time.Now()

// serial policies: the value of aucoalesce.Event.Sequence along the processing order of a history
var serialPolicies = []string{"zero", "increasing", "increasing", "equal", "decreasing", "wrap", "wrap", "late", "random"}

// timestamp policies: the record's own time relative to the wall clock of the run
var stampPolicies = []string{"legacy", "legacy", "now", "past", "future", "descending", "mixed"}

func stampFor(r *hutil.Rand, policy string, j int) int64 {
	now := procStart.UnixMilli()
	switch policy {
	case "now":
		return now + int64(j)
	case "past":
		return now - int64(1+r.Intn(3))*3600_000 + int64(j)
	case "future":
		return now + int64(1+r.Intn(3))*3600_000 + int64(j)
	case "descending":
		return now - int64(j)*1000
	case "mixed":
		return stampFor(r, hutil.Pick(r, []string{"legacy", "now", "past", "future", "descending"}), j)
	}
	return 0 // legacy: 1700000000 s + event id
}

// decorate assigns serials, timestamps and related fields to the audit events of ops (in processing order).
func decorate(r *hutil.Rand, ops []HOp, plans map[string]SessPlan) (serials, stamps string) {
	var evs []*HEvent
	for i := range ops {
		if ops[i].Kind == "audit" {
			e := *ops[i].Event
			ops[i].Event = &e
			evs = append(evs, &e)
		}
	}
	if len(evs) == 0 || r.Chance(1, 8) {
		return "bare", "legacy" // as the unit tests have them: serial 0, no further fields
	}
	serials = hutil.Pick(r, serialPolicies)
	stamps = hutil.Pick(r, stampPolicies)
	m := len(evs)
	base := uint32(1 + r.Intn(1<<30))
	step := uint32(1 + r.Intn(3))
	switch serials {
	case "wrap":
		// the 32-bit counter runs through 2^32 somewhere inside the history
		base = uint32(0) - uint32(1+r.Intn(m*int(step)+1))
	case "decreasing":
		base = uint32(m*int(step)) + uint32(r.Intn(1000))
	}
	for j, e := range evs {
		switch serials {
		case "zero":
			e.Seq = 0
		case "equal":
			e.Seq = base
		case "increasing", "wrap", "late":
			e.Seq = base + uint32(j)*step
		case "decreasing":
			e.Seq = base - uint32(j)*step
		case "random":
			e.Seq = uint32(r.U64())
			if r.Chance(1, 8) {
				e.Seq = hutil.Pick(r, []uint32{0, 1, 1<<31 - 1, 1 << 31, 1<<32 - 2, 1<<32 - 1})
			}
		}
		e.TSms = stampFor(r, stamps, j)
	}
	if serials == "late" {
		// records completed late by the reassembler: a lower-numbered record is handed over after higher ones
		for n := 1 + m/4; n > 0; n-- {
			a := r.Intn(m)
			b := a + 1 + r.Intn(5)
			if b < m {
				evs[a].Seq, evs[b].Seq = evs[b].Seq, evs[a].Seq
			}
		}
	}
	relateFields(r, ops, plans)
	return serials, stamps
}

// relateFields fills the other fields of every record with values that relate it to OTHER sessions of the history:
// old-ses naming another session (open or not, correlated or not, opened earlier or later), its own session, a
// session nobody has, or the kernel's unset value; login uids shared between sessions; the parent pid of a follow-up
// record being another session's sshd; terminals and client addresses shared.
func relateFields(r *hutil.Rand, ops []HOp, plans map[string]SessPlan) {
	var sids []string
	for s := range plans {
		if _, err := strconv.Atoi(s); err == nil {
			sids = append(sids, s)
		}
	}
	sort.Strings(sids) // map order must not leak into the history
	var pids []int
	for _, s := range sids {
		pids = append(pids, plans[s].PID)
	}
	seen := []string{} // sessions whose LOGIN record was processed earlier in the history
	for i := range ops {
		if ops[i].Kind != "audit" {
			continue
		}
		e := ops[i].Event
		f := map[string]string{}
		auid := strconv.Itoa(1000 + r.Intn(3))
		if e.Type == "LOGIN" {
			f["old-ses"], f["old-auid"], f["tty"] = unsetID, "unset", "(none)"
			if r.Chance(2, 5) {
				switch k := r.Intn(10); {
				case k < 5 && len(seen) > 0: // started from inside a session that exists
					f["old-ses"] = hutil.Pick(r, seen)
				case k < 7 && len(sids) > 0: // any session of the history, also one that opens later
					f["old-ses"] = hutil.Pick(r, sids)
				case k < 8:
					f["old-ses"] = e.Ses
				case k < 9:
					f["old-ses"] = strconv.Itoa(900 + r.Intn(50))
				default:
					f["old-ses"] = "unset"
				}
				if f["old-ses"] != "unset" {
					f["old-auid"], f["tty"] = auid, hutil.Pick(r, []string{"pts0", "pts1", "ssh", "(none)"})
				}
			}
			f["auid"], f["uid"] = auid, "0"
			if _, err := strconv.Atoi(e.Ses); err == nil {
				seen = append(seen, e.Ses)
			}
		} else {
			f["auid"], f["uid"] = auid, hutil.Pick(r, []string{"0", auid})
			f["terminal"] = hutil.Pick(r, []string{"ssh", "pts0", "/dev/pts/1", "cron"})
			f["addr"] = "10.0.0." + strconv.Itoa(1+r.Intn(4))
			f["acct"] = "user-" + strconv.Itoa(r.Intn(4))
			f["exe"] = hutil.Pick(r, []string{"/usr/sbin/sshd", "/usr/bin/sudo", "/usr/bin/bash", "/usr/sbin/cron"})
			if len(pids) > 0 && r.Chance(1, 2) {
				f["ppid"] = strconv.Itoa(hutil.Pick(r, pids)) // the sshd of some session, often not its own
			}
			if r.Chance(1, 4) {
				f["args"] = "ls -l /home/user-" + strconv.Itoa(r.Intn(4))
			}
		}
		e.Fields = f
	}
}

// applyFields puts the generated values where the coalescer puts them.
func applyFields(ev *aucoalesce.Event, e *HEvent) {
	ev.Sequence = e.Seq
	if e.TSms != 0 {
		ev.Timestamp = time.UnixMilli(e.TSms).UTC()
	}
	if len(e.Fields) == 0 {
		return
	}
	ev.Category = aucoalesce.EventTypeUserLogin
	ev.Tags = []string{"verif"}
	for k, v := range e.Fields {
		switch k {
		case "auid", "old-auid", "uid":
			if ev.User.IDs == nil {
				ev.User.IDs, ev.User.Names = map[string]string{}, map[string]string{}
			}
			ev.User.IDs[k] = v
			ev.User.Names[k] = "name-" + v
		case "ppid":
			ev.Process.PPID = v
		case "exe":
			ev.Process.Exe = v
			ev.Process.Name = v[strings.LastIndex(v, "/")+1:]
		case "args":
			ev.Process.Args = strings.Fields(v)
		case "addr":
			ev.Source = &aucoalesce.Address{IP: v, Hostname: v}
		default: // old-ses, tty, terminal, acct, ...
			if ev.Data == nil {
				ev.Data = map[string]string{}
			}
			ev.Data[k] = v
		}
	}
	ev.Summary.Actor.Primary = "name-" + e.Fields["auid"]
	ev.Summary.Actor.Secondary = "name-" + e.Fields["uid"]
	ev.Summary.How = e.Fields["exe"]
}
