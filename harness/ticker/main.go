//go:build verif

// Harness for the time.Ticker model (C16, coq/Model/Ticker.v): runs the REAL time.NewTicker(period) with short periods
// against a consumer goroutine that is busy (asleep) for scripted intervals and otherwise receives from ticker.C, records
// for every received tick its value and the receive time relative to the start, judges the run by an oracle that does
// not use the model, and writes the observations as Coq case files for Model/TickerCheck.v, where
// consumed / dropped of Model/Ticker.v must predict exactly which ticks were delivered (and when) and which were lost.
//
// Robustness on a loaded machine: every script keeps both ends of every busy interval, and the horizon, at least 30 % of
// a period away from every tick instant; tolerance on times 25 % of a period; periods >= 40 ms; a run that disagrees with
// the oracle or the by-construction expectation is repeated before it counts (once as it is, then up to twice with all
// times multiplied by 3).
package main

import (
	"crypto/sha256"
	"encoding/hex"
	"encoding/json"
	"flag"
	"fmt"
	"os"
	"path/filepath"
	"runtime"
	"runtime/debug"
	"sort"
	"strings"
	"sync"
	"time"

	"github.com/metal-toolbox/audito-maldito/internal/verifharness/hutil"
)

// all times in microseconds relative to the clock reading taken just before NewTicker
type script struct {
	Name     string     `json:"name"`
	PeriodUs int64      `json:"period_us"`
	Busy     [][2]int64 `json:"busy_us"`    // [b, e): the consumer does not receive
	Horizon  int64      `json:"horizon_us"` // the consumer stops receiving
	// by construction (from the stall description in periods, not from the model): ticks strictly inside a busy interval
	// are "covered"; the first covered one is delivered when the interval ends, the others are lost
	ExpectLate []int64 `json:"expect_late"`
	ExpectLost []int64 `json:"expect_lost"`
	Stalls     string  `json:"stalls"` // description in periods
}

type rec struct {
	RecvUs  int64 `json:"recv_us"`
	ValueUs int64 `json:"value_us"`
}

type observed struct {
	Recs    []rec   `json:"recs"`
	WakeUs  []int64 `json:"wake_us"` // when each busy interval really ended
	Attempt int     `json:"attempt"`
}

func tolOf(s script) int64 { return s.PeriodUs / 4 }

func us(d time.Duration) int64 { return int64(d / time.Microsecond) }

// the consumer: Read's loop reduced to its tick arm
func runScript(s script) observed {
	var o observed
	period := time.Duration(s.PeriodUs) * time.Microsecond
	start := time.Now()
	tk := time.NewTicker(period)
	defer tk.Stop()
	record := func(v time.Time) {
		o.Recs = append(o.Recs, rec{RecvUs: us(time.Since(start)), ValueUs: us(v.Sub(start))})
	}
	// at its select until t: take every tick that is there or arrives
	idleUntil := func(t int64) {
		// the loop is at its select: a tick that is already there is taken first (a free instant of the model)
		select {
		case v := <-tk.C:
			record(v)
		default:
		}
		d := time.Until(start.Add(time.Duration(t) * time.Microsecond))
		if d <= 0 {
			return
		}
		tm := time.NewTimer(d)
		defer tm.Stop()
		for {
			select {
			case v := <-tk.C:
				record(v)
			case <-tm.C:
				return
			}
		}
	}
	for _, be := range s.Busy {
		idleUntil(be[0])
		time.Sleep(time.Until(start.Add(time.Duration(be[1]) * time.Microsecond)))
		o.WakeUs = append(o.WakeUs, us(time.Since(start)))
	}
	idleUntil(s.Horizon)
	return o
}

func indexOf(s script, valueUs int64) int64 {
	return (valueUs + s.PeriodUs/2) / s.PeriodUs
}

type failure struct{ key, what string }

// the oracle: nothing here uses the model
func judge(s script, o observed) []failure {
	var fs []failure
	tol := tolOf(s)
	P := s.PeriodUs
	add := func(key, format string, a ...any) {
		fs = append(fs, failure{key, fmt.Sprintf("%s (period %d us, stalls %s): ", s.Name, P, s.Stalls) + fmt.Sprintf(format, a...)})
	}
	var prevK, prevRecv int64 = 0, -1
	for i, r := range o.Recs {
		k := indexOf(s, r.ValueUs)
		if k < 1 || abs(r.ValueUs-k*P) > tol {
			add("ticker:value-off-grid", "tick %d has value %d us, not within %d us of a multiple (>= 1) of the period", i, r.ValueUs, tol)
		}
		if k <= prevK {
			add("ticker:values-not-increasing", "tick %d has index %d after index %d", i, k, prevK)
		}
		if r.RecvUs+tol < k*P {
			add("ticker:received-before-its-instant", "tick %d (index %d) received at %d us", i, k, r.RecvUs)
		}
		// never two receives without a tick instant in between: the tick received now fired after the previous receive
		if prevRecv >= 0 && k*P+tol <= prevRecv {
			add("ticker:two-buffered", "tick %d (index %d, instant %d us) was received at %d us although the previous receive was at %d us: two ticks were waiting", i, k, k*P, r.RecvUs, prevRecv)
		}
		prevK, prevRecv = k, r.RecvUs
	}
	// at most one tick "in the past" per wake-up
	for j, be := range s.Busy {
		past := 0
		for _, r := range o.Recs {
			k := indexOf(s, r.ValueUs)
			if r.RecvUs >= be[1]-tol && k*P > be[0] && k*P < be[1]-tol {
				past++
			}
		}
		if past > 1 {
			add("ticker:more-than-one-overdue", "%d ticks with instants inside busy interval %d [%d, %d) were received after it", past, j, be[0], be[1])
		}
	}
	// by construction: which ticks arrive on time, which late, which never
	late := map[int64]int64{} // index -> end of the interval that covered it
	lost := map[int64]bool{}
	for _, k := range s.ExpectLost {
		lost[k] = true
	}
	for _, k := range s.ExpectLate {
		for _, be := range s.Busy {
			if k*P > be[0] && k*P < be[1] {
				late[k] = be[1]
			}
		}
	}
	got := map[int64]int64{}
	for _, r := range o.Recs {
		got[indexOf(s, r.ValueUs)] = r.RecvUs
	}
	for k := int64(1); k*P < s.Horizon; k++ {
		at, ok := got[k]
		switch {
		case lost[k] && ok:
			add("ticker:lost-tick-delivered", "tick %d should have been dropped (slot full) but was received at %d us", k, at)
		case lost[k]:
		case !ok:
			add("ticker:tick-missing", "tick %d was never received", k)
		case late[k] != 0:
			if abs(at-late[k]) > tol {
				add("ticker:late-tick-time", "tick %d (overdue) received at %d us, the busy interval ended at %d us", k, at, late[k])
			}
		default:
			if abs(at-k*P) > tol {
				add("ticker:on-time-tick-time", "tick %d received at %d us by an idle consumer", k, at)
			}
		}
	}
	return fs
}

func abs(x int64) int64 {
	if x < 0 {
		return -x
	}
	return x
}

// ---------- scripts ----------

type stall struct {
	startK int64 // the stall starts at (startK + phase) periods
	phase  int64 // per mille of a period, 300..700
	halves int64 // length = halves/2 periods, adjusted so that the end phase stays in 300..700
	back   bool  // starts exactly where the previous one ended (back-to-back: one free instant in between)
}

var periodsMs = []int64{40, 50, 60, 80, 100, 120}

func build(name string, periodUs int64, stalls []stall, tailPeriods int64, r *hutil.Rand) script {
	s := script{Name: name, PeriodUs: periodUs}
	var desc []string
	var end int64 // per mille of a period
	for _, st := range stalls {
		b := st.startK*1000 + st.phase
		if st.back {
			b = end
		}
		e := b + st.halves*500
		// keep the end phase within [300, 700] per mille
		ph := e % 1000
		if ph < 300 {
			e += 300 - ph + int64(r.Intn(100))
		} else if ph > 700 {
			e -= ph - 700 + int64(r.Intn(100))
		}
		if e <= b {
			e = b + 100
		}
		s.Busy = append(s.Busy, [2]int64{b * periodUs / 1000, e * periodUs / 1000})
		desc = append(desc, fmt.Sprintf("%.2f-%.2f", float64(b)/1000, float64(e)/1000))
		first := true
		for k := b/1000 + 1; k*1000 < e; k++ {
			if first {
				s.ExpectLate = append(s.ExpectLate, k)
				first = false
			} else {
				s.ExpectLost = append(s.ExpectLost, k)
			}
		}
		end = e
	}
	s.Horizon = (end/1000+1+tailPeriods)*periodUs + periodUs/2
	s.Stalls = strings.Join(desc, ",")
	if s.Stalls == "" {
		s.Stalls = "none"
	}
	return s
}

func genScript(r *hutil.Rand, i int) script {
	P := hutil.Pick(r, periodsMs) * 1000
	ph := func() int64 { return 300 + int64(r.Intn(401)) }
	lens := []int64{1, 3, 5, 11} // 0.5, 1.5, 2.5, 5.5 periods
	switch i % 8 {
	case 0:
		return build("no-stall", P, nil, 4+int64(r.Intn(3)), r)
	case 1: // one stall, each length in turn
		return build("one-stall", P, []stall{{startK: int64(r.Intn(3)), phase: ph(), halves: lens[(i/8)%4]}}, 2, r)
	case 2: // from before the first tick
		return build("stall-before-first-tick", P, []stall{{startK: 0, phase: int64(r.Intn(2)) * ph(), halves: hutil.Pick(r, lens)}}, 2, r)
	case 3: // two stalls with an idle gap
		a := stall{startK: int64(r.Intn(2)), phase: ph(), halves: hutil.Pick(r, lens[:3])}
		b := stall{startK: a.startK + a.halves/2 + 2 + int64(r.Intn(2)), phase: ph(), halves: hutil.Pick(r, lens[:3])}
		return build("two-stalls", P, []stall{a, b}, 2, r)
	case 4: // back-to-back: the second begins where the first ends
		a := stall{startK: int64(r.Intn(2)), phase: ph(), halves: hutil.Pick(r, lens[:3])}
		b := stall{back: true, halves: hutil.Pick(r, lens[:3])}
		return build("back-to-back", P, []stall{a, b}, 2, r)
	case 5: // three back-to-back
		a := stall{startK: int64(r.Intn(2)), phase: ph(), halves: hutil.Pick(r, lens[:2])}
		return build("back-to-back-3", P, []stall{a, {back: true, halves: hutil.Pick(r, lens[:3])}, {back: true, halves: hutil.Pick(r, lens[:2])}}, 2, r)
	case 6: // the seeded defect's pattern: one stalled tick, then on schedule
		return build("stall-then-punctual", P, []stall{{startK: 0, phase: ph(), halves: 1}}, 3, r)
	default: // short stalls that cover no tick instant, and a long one
		a := stall{startK: 0, phase: 300 + int64(r.Intn(100)), halves: 0}
		b := stall{startK: 2, phase: ph(), halves: 11}
		return build("short-and-long", P, []stall{a, b}, 2, r)
	}
}

// ---------- Coq ----------

func coqPairs(ps [][2]int64) string {
	var items []string
	for _, p := range ps {
		items = append(items, fmt.Sprintf("(%s, %s)", hutil.CoqZ(p[0]), hutil.CoqZ(p[1])))
	}
	return hutil.CoqList(items)
}

func coqCase(s script, o observed) string {
	var obs [][2]int64
	got := map[int64]bool{}
	for _, r := range o.Recs {
		k := indexOf(s, r.ValueUs)
		obs = append(obs, [2]int64{r.RecvUs, k})
		got[k] = true
	}
	// lost = the indices up to the last tick instant before the horizon that were never received
	var lost []string
	for k := int64(1); k*s.PeriodUs <= s.Horizon; k++ {
		if !got[k] {
			lost = append(lost, hutil.CoqZ(k))
		}
	}
	return fmt.Sprintf("TCase %s %s %s %s %s %s", hutil.CoqZ(s.PeriodUs), coqPairs(s.Busy), hutil.CoqZ(s.Horizon),
		hutil.CoqZ(tolOf(s)), coqPairs(obs), hutil.CoqList(lost))
}

type replayDoc struct {
	Ticker *script `json:"ticker,omitempty"`
}

func tickSourceID() (string, string) {
	h := sha256.New()
	var names []string
	for _, f := range []string{"tick.go", "sleep.go"} {
		p := filepath.Join(runtime.GOROOT(), "src", "time", f)
		raw, err := os.ReadFile(p)
		if err != nil {
			return p, "unreadable: " + err.Error()
		}
		h.Write(raw)
		names = append(names, p)
	}
	return strings.Join(names, " + "), hex.EncodeToString(h.Sum(nil))
}

func timerMode() string {
	mode := "asynchronous timer channels (main module go < 1.23: capacity-1 channel filled by the runtime's non-blocking send)"
	if bi, ok := debug.ReadBuildInfo(); ok {
		for _, st := range bi.Settings {
			if st.Key == "DefaultGODEBUG" && strings.Contains(st.Value, "asynctimerchan=1") {
				return mode
			}
		}
		if !strings.Contains(os.Getenv("GODEBUG"), "asynctimerchan=1") {
			mode = "synchronous timer channels (go >= 1.23 semantics)"
		}
	}
	return mode
}

// scaled returns the same script with every time multiplied by f (same stalls in periods, larger absolute margins)
func scaled(s script, f int64) script {
	t := s
	t.PeriodUs *= f
	t.Horizon *= f
	t.Busy = nil
	for _, be := range s.Busy {
		t.Busy = append(t.Busy, [2]int64{be[0] * f, be[1] * f})
	}
	t.Name = s.Name
	return t
}

// A run that the oracle rejects is repeated before it counts: once as it is, then twice with every time of the script
// multiplied by 3 (period 120-360 ms: wake-up latencies of tens of milliseconds on an overloaded machine stay inside the
// margins).  The script returned is the one of the last run; a real disagreement does not depend on the scale.
func runConfirmed(s script) (script, observed, []failure, int, []string) {
	var o observed
	var fs []failure
	var transient []string
	cur := s
	for attempt := 1; attempt <= 4; attempt++ {
		if attempt == 3 {
			cur = scaled(s, 3)
		}
		o = runScript(cur)
		o.Attempt = attempt
		fs = judge(cur, o)
		if len(fs) == 0 {
			return cur, o, nil, attempt, transient
		}
		raw, _ := json.Marshal(o)
		transient = append(transient, fmt.Sprintf("attempt %d rejected: %s: %s; observed %s", attempt, fs[0].key, fs[0].what, raw))
		time.Sleep(50 * time.Millisecond)
	}
	return cur, o, fs, 4, transient
}

func main() {
	out := flag.String("out", "", "output directory")
	n := flag.Int("n", 24, "number of scripts")
	par := flag.Int("par", 12, "scripts running concurrently")
	replay := flag.String("replay", "", "replay file")
	flag.Parse()
	seed := hutil.SeedFromEnv()
	if *out == "" {
		*out = "."
	}
	if *replay != "" {
		os.Exit(doReplay(*replay))
	}
	sum := hutil.NewSummary("C16", seed, ruleText)
	t0 := time.Now()
	r := hutil.NewRand(seed ^ 0x71C4E2)
	scripts := make([]script, *n)
	for i := range scripts {
		scripts[i] = genScript(r, i)
	}
	type result struct {
		o         observed
		fs        []failure
		attempts  int
		transient []string
	}
	results := make([]result, *n)
	for lo := 0; lo < *n; lo += *par {
		hi := lo + *par
		if hi > *n {
			hi = *n
		}
		var wg sync.WaitGroup
		for i := lo; i < hi; i++ {
			wg.Add(1)
			go func(i int) {
				defer wg.Done()
				sc, o, fs, a, tr := runConfirmed(scripts[i])
				scripts[i] = sc
				results[i] = result{o, fs, a, tr}
			}(i)
		}
		wg.Wait()
	}
	cases := &hutil.CaseFile{Dir: *out, Stem: "cases_ticker",
		Header: "From Coq Require Import List Bool Arith ZArith NArith.\nImport ListNotations.\nFrom AM Require Import Model.Ticker Model.TickerCheck.\n",
		Footer: func(int) string { return "Definition M := Eval vm_compute in ticker_mismatches cases.\nPrint M.\n" }}
	// Last resort against a machine so loaded that even the 3x runs woke up late: whatever is still rejected is run again
	// ALONE, one script at a time, with every time multiplied by 10 (period 0.4-1.2 s, margins >= 120 ms), twice.  Only a
	// script rejected there as well is reported (and the framework then replays it once more before it counts).
	for i := range scripts {
		if len(results[i].fs) == 0 {
			continue
		}
		for attempt := 5; attempt <= 6 && len(results[i].fs) > 0; attempt++ {
			cur := scaled(scripts[i], 1)
			if scripts[i].PeriodUs < 400000 {
				f := int64(10)
				if scripts[i].PeriodUs >= 120000 { // already scaled by 3
					f = 4
				}
				cur = scaled(scripts[i], f)
			}
			o := runScript(cur)
			o.Attempt = attempt
			fs := judge(cur, o)
			if len(fs) == 0 {
				scripts[i] = cur
				results[i] = result{o, nil, attempt, append(results[i].transient, "accepted when run alone at a larger time scale")}
			} else {
				results[i].fs, results[i].o, results[i].attempts = fs, o, attempt
				scripts[i] = cur
			}
		}
	}
	for i, s := range scripts {
		res := results[i]
		for _, f := range res.fs {
			sum.FailKey("oracle", f.key, f.what, map[string]any{"ticker": s, "observed": res.o})
		}
		if len(res.fs) == 0 {
			cases.AddDesc(coqCase(s, res.o), replayDoc{Ticker: &scripts[i]})
		} else {
			// a run that the model-independent oracle rejected four times is reported above as an oracle failure with its
			// replay (the framework re-runs it); it is not a valid observation to compare the model with
			sum.Dist("runs_rejected_by_the_oracle_reported_not_compared_in_coq")
		}
		key, _ := json.Marshal(s)
		sum.Count(string(key), len(s.ExpectLate) > 0)
		sum.Dist("pattern_" + s.Name)
		sum.Dist(fmt.Sprintf("period_%dms", s.PeriodUs/1000))
		sum.Dist(fmt.Sprintf("attempts_%d", res.attempts))
		if len(res.fs) == 0 && len(res.transient) > 0 && len(sum.Notes) < 6 {
			sum.Notes = append(sum.Notes, "repeated and then accepted: "+res.transient[0])
		}
		sum.Distribution["ticks_received"] += len(res.o.Recs)
		sum.Distribution["ticks_expected_overdue"] += len(s.ExpectLate)
		sum.Distribution["ticks_expected_lost"] += len(s.ExpectLost)
		for _, be := range s.Busy {
			halves := (be[1] - be[0]) * 2 / s.PeriodUs
			sum.Dist(fmt.Sprintf("stall_of_about_%.1f_periods", float64(halves)/2))
		}
		var worst int64
		for j, w := range res.o.WakeUs {
			if d := w - s.Busy[j][1]; d > worst {
				worst = d
			}
		}
		switch {
		case worst*10 > s.PeriodUs:
			sum.Dist("sleep_overshoot_over_10pct_of_period")
		case worst*100 > s.PeriodUs*3:
			sum.Dist("sleep_overshoot_3_to_10pct_of_period")
		default:
			sum.Dist("sleep_overshoot_below_3pct_of_period")
		}
		if i < 5 {
			sum.Sample(map[string]any{"script": s, "observed": res.o})
		}
	}
	cases.Flush()
	sum.CaseFiles = append(sum.CaseFiles, cases.Files...)
	p, h := tickSourceID()
	sum.Distribution["ran_against_"+runtime.Version()+"_time_tick.go+sleep.go_sha256_"+h] = sum.Evaluations
	sum.Notes = append(sum.Notes, "go version "+runtime.Version(), "time.Ticker source "+p+" sha256 "+h, timerMode(),
		fmt.Sprintf("GOMAXPROCS %d, %d scripts at a time", runtime.GOMAXPROCS(0), *par),
		fmt.Sprintf("wall time %.1fs", time.Since(t0).Seconds()))
	sum.Write(*out)
}

const ruleText = "the real time.NewTicker(period) (period 40-120 ms) and a consumer goroutine that sleeps through scripted busy intervals and otherwise receives from ticker.C " +
	"(a tick that is already there is taken first, as the loop's select would); per received tick (receive time, value) relative to a clock reading taken just before NewTicker; " +
	"patterns: no stall; one stall of 0.5 / 1.5 / 2.5 / 5.5 periods at a random phase; a stall from before the first tick (from 0 or from a phase); two stalls with an idle gap; " +
	"two and three back-to-back stalls (one free instant in between); one stalled tick followed by punctual ones (the seeded defect's schedule); a stall covering no tick instant; " +
	"both ends of every busy interval and the horizon stay >= 30 % of a period away from every tick instant, tolerance on times 25 % of a period; " +
	"oracle without the model: every value within tolerance of a multiple >= 1 of the period, indices strictly increasing, no receive before the tick's instant, never two receives without " +
	"a tick instant in between, at most one overdue tick per wake-up, and by construction of the script: a tick whose instant lies inside no busy interval arrives at its instant, the first " +
	"tick inside a busy interval arrives when the interval ends, the other ticks inside it never arrive; a run the oracle rejects is repeated before it counts: once as it is, then up to twice with all times of the script multiplied by 3; " +
	"a run rejected every time is reported as an oracle failure with its replay and is not compared in Coq; Coq: Model/TickerCheck.v evaluates consumed / dropped of Model/Ticker.v on frees_of_busy of the script and compares delivered indices, times (same tolerance) and lost indices; " +
	"non-trivial = at least one tick is overdue; distinct by the full script"

func doReplay(path string) int {
	raw, err := os.ReadFile(path)
	if err != nil {
		fmt.Println("cannot read replay:", err)
		return 2
	}
	var rp struct {
		Replay replayDoc `json:"replay"`
	}
	if err := json.Unmarshal(raw, &rp); err != nil || rp.Replay.Ticker == nil {
		fmt.Println("replay file carries no case (no failing input was found)")
		return 2
	}
	_, _, fs, _, _ := runConfirmed(*rp.Replay.Ticker)
	keys := map[string]string{}
	for _, f := range fs {
		keys[f.key] = f.what
	}
	var ks []string
	for k := range keys {
		ks = append(ks, k)
	}
	sort.Strings(ks)
	for _, k := range ks {
		fmt.Printf("REPRODUCED %s: %s\n", k, keys[k])
	}
	if len(fs) > 0 {
		return 1
	}
	fmt.Println("not reproduced")
	return 0
}
