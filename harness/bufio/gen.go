//go:build verif

package main

import (
	"github.com/metal-toolbox/audito-maldito/internal/verifharness/hutil"
)

var smallSizes = []int{0, 1, 16, 17, 31, 33, 64, 100, 16, 17, 31, 64}
var bigSizes = []int{4096, 4096, 4097, 8192}
var delims = []int{'\n', '\n', '\n', '\n', 0, ' ', 0xff, ';', '\r'}
var shapes = []string{"edge", "mixed", "short", "edge", "nodelim", "degenerate", "edge", "mixed"}
var policies = []string{"one", "bytewise", "tiny", "random", "cap", "cap-1", "cap+1", "big", "per-record", "before-delim"}

func randByte(r *hutil.Rand, delim int) byte {
	for {
		var b int
		switch r.Intn(8) {
		case 0:
			b = 0
		case 1:
			b = 0xff
		case 2:
			b = int(hutil.Pick(r, []byte{' ', '\n', '\r', '\t', ';', 0x7f, 0x80}))
		case 3, 4:
			b = 'a' + r.Intn(26)
		default:
			b = r.Intn(256)
		}
		if b != delim {
			return byte(b)
		}
	}
}

// body: n delimiter-free bytes; long ones are made of runs (cheap to hand to Coq) with literal
// bytes at both ends and occasionally in between
func body(r *hutil.Rand, delim, n int) []byte {
	b := make([]byte, 0, n)
	if n <= 48 {
		for len(b) < n {
			b = append(b, randByte(r, delim))
		}
		return b
	}
	for len(b) < n {
		left := n - len(b)
		if len(b) == 0 || left <= 4 || r.Chance(1, 4) {
			k := 1 + r.Intn(4)
			if k > left {
				k = left
			}
			for ; k > 0; k-- {
				b = append(b, randByte(r, delim))
			}
			continue
		}
		k := 30 + r.Intn(5000)
		if k > left-2 {
			k = left - 2
		}
		c := randByte(r, delim)
		for i := 0; i < k; i++ {
			b = append(b, c)
		}
	}
	return b[:n]
}

// lengths of a record body next to the multiples of the buffer size (the record is the body
// plus one delimiter byte, so both body+1 = k*cap and body = k*cap are hit)
func edgeLen(r *hutil.Rand, cap int) int {
	k := 1 + r.Intn(3)
	n := k*cap + r.Intn(5) - 3 // k*cap-3 .. k*cap+1
	if n < 0 {
		n = 0
	}
	return n
}

func genCase(r *hutil.Rand, i, big int) bufioCase {
	c := bufioCase{Shape: shapes[i%len(shapes)], Delim: hutil.Pick(r, delims)}
	c.Size = smallSizes[(i/len(shapes))%len(smallSizes)]
	isBig := big > 0 && i%big == big-1
	if isBig {
		c.Size = hutil.Pick(r, bigSizes)
	}
	cp := c.cap()
	var bodies [][]byte
	var tail []byte
	switch c.Shape {
	case "edge":
		for k := 1 + r.Intn(3); k > 0; k-- {
			bodies = append(bodies, body(r, c.Delim, edgeLen(r, cp)))
			if r.Bool() {
				bodies = append(bodies, body(r, c.Delim, r.Intn(4)))
			}
		}
		switch r.Intn(4) {
		case 0:
			tail = body(r, c.Delim, edgeLen(r, cp))
		case 1:
			tail = body(r, c.Delim, 1+r.Intn(5))
		}
	case "mixed":
		for k := 1 + r.Intn(5); k > 0; k-- {
			n := r.Intn(3*cp + 1)
			if r.Chance(1, 3) {
				n = r.Intn(cp)
			}
			bodies = append(bodies, body(r, c.Delim, n))
		}
		if r.Bool() {
			tail = body(r, c.Delim, r.Intn(2*cp))
		}
	case "short":
		for k := r.Intn(12); k > 0; k-- {
			n := r.Intn(7)
			if r.Chance(1, 4) {
				n = 0
			}
			bodies = append(bodies, body(r, c.Delim, n))
		}
		if r.Bool() {
			tail = body(r, c.Delim, r.Intn(10))
		}
	case "nodelim":
		n := r.Intn(3*cp + 2)
		if r.Bool() {
			n = edgeLen(r, cp)
		}
		tail = body(r, c.Delim, n)
	case "degenerate":
		switch r.Intn(4) {
		case 0: // empty stream
		case 1: // only delimiters
			for k := 1 + r.Intn(2*cp); k > 0; k-- {
				bodies = append(bodies, nil)
			}
		case 2: // one record
			bodies = append(bodies, body(r, c.Delim, r.Intn(10)))
		case 3: // delimiters, then a tail
			for k := 1 + r.Intn(5); k > 0; k-- {
				bodies = append(bodies, nil)
			}
			tail = body(r, c.Delim, r.Intn(5))
		}
	}
	var stream []byte
	var ends []int // offsets just after each delimiter
	for _, b := range bodies {
		stream = append(stream, b...)
		stream = append(stream, byte(c.Delim))
		ends = append(ends, len(stream))
	}
	stream = append(stream, tail...)

	// the final error, and whether the last read returns bytes with it
	c.EOF = r.Chance(2, 3)
	c.Extra = r.Intn(3)
	nlast := 0
	if r.Chance(1, 6) && len(stream) > 0 {
		nlast = 1 + r.Intn(len(stream))
		if r.Bool() && nlast > 3 {
			nlast = 1 + r.Intn(3)
		}
	}
	n := len(stream) - nlast
	c.Last = rle(stream[n:])
	c.Bytes = rle(stream[:n])

	// chunking of stream[:n]
	c.Policy = policies[(i/len(shapes)+i)%len(policies)]
	// the model's cost is (number of reads) x (buffer size)
	if cp >= 1024 && (c.Policy == "bytewise" || c.Policy == "tiny") && n > cp+cp/4 {
		c.Policy = "random"
	}
	var sizes []int
	add := func(k int) {
		if k > 0 {
			sizes = append(sizes, k)
		}
	}
	blocks := func(bs int) {
		for left := n; left > 0; left -= bs {
			if bs > left {
				add(left)
			} else {
				add(bs)
			}
		}
	}
	switch c.Policy {
	case "one":
		add(n)
	case "bytewise":
		blocks(1)
	case "tiny":
		for left := n; left > 0; {
			k := 1 + r.Intn(3)
			if k > left {
				k = left
			}
			add(k)
			left -= k
		}
	case "random":
		for left := n; left > 0; {
			k := 1 + r.Intn(2*cp)
			if r.Chance(1, 4) {
				k = 1 + r.Intn(4)
			}
			if k > left {
				k = left
			}
			add(k)
			left -= k
		}
	case "cap":
		blocks(cp)
	case "cap-1":
		blocks(cp - 1)
	case "cap+1":
		blocks(cp + 1)
	case "big":
		blocks(2*cp + 1 + r.Intn(cp))
	case "per-record", "before-delim":
		prev := 0
		for _, e := range ends {
			cut := e
			if c.Policy == "before-delim" {
				cut = e - 1 // the delimiter starts the next chunk
			}
			if cut > n {
				cut = n
			}
			add(cut - prev)
			if cut > prev {
				prev = cut
			}
		}
		add(n - prev)
	}

	// runs of empty chunks
	type ins struct{ at, k int }
	var inserts []ins
	place := func() int {
		switch r.Intn(4) {
		case 0:
			return 0
		case 1:
			return len(sizes)
		}
		return r.Intn(len(sizes) + 1)
	}
	switch r.Intn(10) {
	case 0, 1, 2: // none
	case 3, 4, 5: // a few short runs
		for k := 1 + r.Intn(4); k > 0; k-- {
			inserts = append(inserts, ins{place(), 1 + r.Intn(3)})
		}
	case 6:
		inserts = append(inserts, ins{place(), 99})
	case 7:
		inserts = append(inserts, ins{place(), hutil.Pick(r, []int{100, 101, 120})})
	case 8:
		inserts = append(inserts, ins{place(), 199 + r.Intn(52)})
	case 9:
		inserts = append(inserts, ins{place(), hutil.Pick(r, []int{98, 99, 100})}, ins{place(), 1 + r.Intn(2)})
	}
	for _, in := range inserts {
		at := in.at
		if at > len(sizes) {
			at = len(sizes)
		}
		z := make([]int, in.k)
		sizes = append(sizes[:at:at], append(z, sizes[at:]...)...)
	}
	for _, s := range sizes {
		if k := len(c.Chunks); k > 0 && c.Chunks[k-1][0] == s {
			c.Chunks[k-1][1]++
		} else {
			c.Chunks = append(c.Chunks, [2]int{s, 1})
		}
	}
	return c
}

type stats struct {
	total, records, longest, tail, maxRun, maxChunk int
	delimAtChunkStart, delimAtChunkEnd             int
}

func statsOf(c bufioCase) stats {
	var st stats
	all := expandSegs(c.Bytes)
	stream := append(append([]byte{}, all...), expandSegs(c.Last)...)
	st.total = len(stream)
	cur := 0
	for _, b := range stream {
		if int(b) == c.Delim {
			st.records++
			if cur+1 > st.longest {
				st.longest = cur + 1
			}
			cur = 0
		} else {
			cur++
		}
	}
	st.tail = cur
	off, run := 0, 0
	for _, n := range chunkSizes(c) {
		if n == 0 {
			run++
			if run > st.maxRun {
				st.maxRun = run
			}
			continue
		}
		run = 0
		if n > st.maxChunk {
			st.maxChunk = n
		}
		if int(all[off]) == c.Delim {
			st.delimAtChunkStart++
		}
		if int(all[off+n-1]) == c.Delim {
			st.delimAtChunkEnd++
		}
		off += n
	}
	return st
}
