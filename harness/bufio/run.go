//go:build verif

package main

import (
	"bufio"
	"bytes"
	"encoding/hex"
	"errors"
	"fmt"
	"io"
	"strings"

	"github.com/metal-toolbox/audito-maldito/internal/verifharness/hutil"
)

// seg is one piece of a run-length description of a byte string: either a literal (hex) or
// Rep copies of Byte (same format as harness/pipes; expanded by Model/FramingCheck.expand).
type seg struct {
	Hex  string `json:"hex,omitempty"`
	Rep  int    `json:"rep,omitempty"`
	Byte int    `json:"byte,omitempty"`
}

// bufioCase is one generated input.
type bufioCase struct {
	Size   int      `json:"size"` // argument of NewReaderSize; the buffer has max(size, 16) bytes
	Shape  string   `json:"shape"`
	Policy string   `json:"policy"`
	Delim  int      `json:"delim"`
	Bytes  []seg    `json:"bytes"`  // the bytes of all chunks
	Chunks [][2]int `json:"chunks"` // (size, count) in order; size 0 = an empty chunk; sizes add up to len(bytes)
	Last   []seg    `json:"last"`   // bytes returned together with the final error (usually none)
	EOF    bool     `json:"eof"`    // final error: io.EOF, else the script's other error
	Extra  int      `json:"extra"`  // further ReadString calls after the final error came back
}

func (c bufioCase) cap() int {
	if c.Size < 16 {
		return 16
	}
	return c.Size
}

func expandSegs(ss []seg) []byte {
	var out []byte
	for _, s := range ss {
		if s.Rep > 0 {
			out = append(out, bytes.Repeat([]byte{byte(s.Byte)}, s.Rep)...)
		} else {
			b, err := hex.DecodeString(s.Hex)
			if err != nil {
				panic(err)
			}
			out = append(out, b...)
		}
	}
	return out
}

const minRun = 24

// rle is a plain run-length encoder, applied to whatever bytes it is given: it loses nothing.
func rle(b []byte) []seg {
	var out []seg
	lit := 0
	i := 0
	for i < len(b) {
		j := i
		for j < len(b) && b[j] == b[i] {
			j++
		}
		if j-i >= minRun {
			if lit < i {
				out = append(out, seg{Hex: hex.EncodeToString(b[lit:i])})
			}
			out = append(out, seg{Rep: j - i, Byte: int(b[i])})
			lit = j
		}
		i = j
	}
	if lit < len(b) {
		out = append(out, seg{Hex: hex.EncodeToString(b[lit:])})
	}
	return out
}

func coqEnc(b []byte) string {
	var items []string
	for _, s := range rle(b) {
		if s.Rep > 0 {
			items = append(items, fmt.Sprintf("R %d %d", s.Rep, s.Byte))
		} else {
			items = append(items, "L (hx \""+s.Hex+"\")")
		}
	}
	return hutil.CoqList(items)
}

func coqPairsN(ps [][2]int) string {
	var items []string
	for _, p := range ps {
		items = append(items, fmt.Sprintf("(%d,%d)%%N", p[0], p[1]))
	}
	return hutil.CoqList(items)
}

func chunkSizes(c bufioCase) []int {
	var sizes []int
	for _, w := range c.Chunks {
		for k := 0; k < w[1]; k++ {
			sizes = append(sizes, w[0])
		}
	}
	return sizes
}

// ---------- the script reader: the semantics of Model/Bufio.v src_read ----------

var errScript = errors.New("script: file already closed")

type scriptReader struct {
	chunks [][]byte
	last   []byte
	ferr   error
	served int
}

func (s *scriptReader) Read(p []byte) (int, error) {
	s.served++
	if len(s.chunks) > 0 {
		c := s.chunks[0]
		n := copy(p, c)
		if len(c) <= len(p) {
			s.chunks = s.chunks[1:]
		} else {
			s.chunks[0] = c[n:]
		}
		return n, nil
	}
	n := copy(p, s.last)
	if len(s.last) <= len(p) {
		s.last = nil
		return n, s.ferr
	}
	s.last = s.last[n:]
	return n, nil
}

func newScript(c bufioCase) *scriptReader {
	all := expandSegs(c.Bytes)
	s := &scriptReader{last: expandSegs(c.Last), ferr: errScript}
	if c.EOF {
		s.ferr = io.EOF
	}
	off := 0
	for _, n := range chunkSizes(c) {
		s.chunks = append(s.chunks, all[off:off+n:off+n])
		off += n
	}
	if off != len(all) {
		panic("chunk sizes do not add up")
	}
	return s
}

// ---------- running the real reader ----------

type call struct {
	S        string
	Err      string // nil | eof | src | noprogress | other:<text>
	Buffered int
	Served   int
}

type obs struct {
	Calls      []call
	served     int
	noProgress int
	fragments  int // calls whose string is longer than the buffer
}

func (o obs) brief() any {
	var cs []map[string]any
	for i, c := range o.Calls {
		if i >= 12 {
			break
		}
		s := c.S
		if len(s) > 40 {
			s = s[:40] + "..."
		}
		cs = append(cs, map[string]any{"len": len(c.S), "head_hex": hex.EncodeToString([]byte(s)), "err": c.Err, "buffered": c.Buffered, "served": c.Served})
	}
	return map[string]any{"calls": len(o.Calls), "first_calls": cs}
}

func classify(err error) string {
	switch {
	case err == nil:
		return "nil"
	case err == io.EOF:
		return "eof"
	case err == errScript:
		return "src"
	case err == io.ErrNoProgress:
		return "noprogress"
	}
	return "other:" + err.Error()
}

func runCase(c bufioCase) obs {
	sr := newScript(c)
	br := bufio.NewReaderSize(sr, c.Size)
	var o obs
	finals := 0
	limit := len(expandSegs(c.Bytes)) + len(sr.last) + len(sr.chunks) + 16 // every call takes a byte or 100 empty chunks, or is a final one
	for k := 0; k < limit; k++ {
		s, err := br.ReadString(byte(c.Delim))
		cl := classify(err)
		o.Calls = append(o.Calls, call{S: s, Err: cl, Buffered: br.Buffered(), Served: sr.served})
		if len(s) > c.cap() {
			o.fragments++
		}
		switch cl {
		case "nil":
		case "noprogress":
			o.noProgress++
		default:
			finals++
		}
		if finals > c.Extra {
			break
		}
	}
	o.served = sr.served
	return o
}

// ---------- oracle: from the script alone ----------

type failure struct{ key, what string }

func judge(c bufioCase, o obs) []failure {
	var fs []failure
	bad := func(key, f string, a ...any) { fs = append(fs, failure{"bufio:" + key, fmt.Sprintf(f, a...)}) }
	stream := append(append([]byte{}, expandSegs(c.Bytes)...), expandSegs(c.Last)...)
	want := "src"
	if c.EOF {
		want = "eof"
	}
	// how many io.ErrNoProgress the script must cause: one per 100 consecutive empty chunks
	wantNP, run := 0, 0
	for _, n := range chunkSizes(c) {
		if n == 0 {
			run++
			if run == 100 {
				wantNP++
				run = 0
			}
		} else {
			run = 0
		}
	}
	var got strings.Builder
	finalSeen := false
	np := 0
	d := byte(c.Delim)
	for i, cl := range o.Calls {
		if finalSeen {
			if cl.S != "" || cl.Err != want {
				bad("after-final", "call %d after the final error returned (%d bytes, %s), want (\"\", %s)", i, len(cl.S), cl.Err, want)
			}
			continue
		}
		got.WriteString(cl.S)
		nd := strings.Count(cl.S, string([]byte{d}))
		switch cl.Err {
		case "nil":
			if nd != 1 || cl.S[len(cl.S)-1] != d {
				bad("record-shape", "call %d returned a nil error with a string of %d bytes holding %d delimiters (must end with the only one)", i, len(cl.S), nd)
			}
		case "noprogress":
			np++
			if nd != 0 {
				bad("error-with-delimiter", "call %d returned io.ErrNoProgress with a string holding a delimiter", i)
			}
		case want:
			finalSeen = true
			if nd != 0 {
				bad("error-with-delimiter", "call %d returned the final error with a string holding a delimiter", i)
			}
		default:
			bad("error-class", "call %d returned error %q; the script only ever returns %s", i, cl.Err, want)
			finalSeen = true
		}
	}
	if !finalSeen {
		bad("no-final-error", "the final error never came back in %d calls", len(o.Calls))
	}
	if got.String() != string(stream) {
		bad("bytes", "the returned strings concatenate to %d bytes, the script holds %d (or the bytes differ)", got.Len(), len(stream))
	}
	if np != wantNP {
		bad("noprogress-count", "io.ErrNoProgress returned %d times, the script has %d runs of 100 consecutive empty chunks", np, wantNP)
	}
	return fs
}

// ---------- Coq rendering ----------

func coqErr(e string) string {
	switch e {
	case "nil":
		return "ONil"
	case "eof":
		return "OEof"
	case "src":
		return "OSrc"
	case "noprogress":
		return "ONoProgress"
	}
	return "OUnknown"
}

func coqCase(c bufioCase, o obs) string {
	var calls []string
	for _, cl := range o.Calls {
		calls = append(calls, fmt.Sprintf("OCall %s %s %d %d", coqEnc([]byte(cl.S)), coqErr(cl.Err), cl.Buffered, cl.Served))
	}
	return fmt.Sprintf("BCase %d %s %s %s %s %d %s", c.Size, coqEnc(expandSegs(c.Bytes)), coqPairsN(c.Chunks), coqEnc(expandSegs(c.Last)),
		hutil.CoqBool(c.EOF), c.Delim, hutil.CoqList(calls))
}
