//go:build verif

// Harness for the bufio.Reader model (C12; the model is also what C07 and C20 read lines with):
// runs the REAL bufio.Reader -- bufio.NewReaderSize(script, size).ReadString(delim) -- over a
// script reader that implements exactly the script semantics of coq/Model/Bufio.v, records per
// call (string, error class, Buffered(), Read calls served), judges the run by an oracle
// computed from the script alone, and writes the observations as Coq case files for
// Model/BufioCheck.v, where the model makes the same calls and must return the same values.
package main

import (
	"bufio"
	"crypto/sha256"
	"encoding/hex"
	"encoding/json"
	"flag"
	"fmt"
	"os"
	"path/filepath"
	"runtime"
	"time"

	"github.com/metal-toolbox/audito-maldito/internal/verifharness/hutil"
)

const shardBytes = 60_000 // Coq elaborates literals at about 20 KB/s

type replayDoc struct {
	Bufio *bufioCase `json:"bufio,omitempty"`
}

func bucketRel(n, cap int) string {
	switch {
	case n == 0:
		return "0"
	case n < cap-1:
		return "<cap-1"
	case n <= cap+1:
		return "cap-1..cap+1"
	case n < 2*cap-1:
		return "<2cap-1"
	case n <= 2*cap+1:
		return "2cap-1..2cap+1"
	case n <= 3*cap+1:
		return "..3cap+1"
	}
	return ">3cap+1"
}

func bucketRun(n int) string {
	switch {
	case n == 0:
		return "0"
	case n < 99:
		return "1-98"
	case n == 99:
		return "99"
	case n == 100:
		return "100"
	case n == 101:
		return "101"
	case n < 200:
		return "102-199"
	}
	return ">=200"
}

func bufioSourceID() (string, string) {
	p := filepath.Join(runtime.GOROOT(), "src", "bufio", "bufio.go")
	raw, err := os.ReadFile(p)
	if err != nil {
		return p, "unreadable: " + err.Error()
	}
	h := sha256.Sum256(raw)
	return p, hex.EncodeToString(h[:])
}

func main() {
	out := flag.String("out", "", "output directory")
	n := flag.Int("n", 200, "number of cases")
	big := flag.Int("big", 8, "one case in this many uses a large buffer (4096 and up)")
	replay := flag.String("replay", "", "replay file")
	flag.Parse()
	seed := hutil.SeedFromEnv()
	if *out == "" {
		*out = "."
	}
	if *replay != "" {
		os.Exit(doReplay(*replay))
	}
	sum := hutil.NewSummary("C12", seed, ruleText)
	t0 := time.Now()
	r := hutil.NewRand(seed ^ 0xB0F10)
	cases := &hutil.CaseFile{Dir: *out, Stem: "cases_bufio",
		Header: "From Coq Require Import Ascii String List Bool Arith NArith.\nImport ListNotations.\nFrom AM Require Import Lib.Bytes Model.Framing Model.FramingCheck Model.Bufio Model.BufioCheck.\n",
		Footer: func(int) string { return "Definition M := Eval vm_compute in bufio_mismatches cases.\nPrint M.\n" }}
	pending := 0
	for i := 0; i < *n; i++ {
		c := genCase(r, i, *big)
		o := runCase(c)
		for _, f := range judge(c, o) {
			sum.FailKey("oracle", f.key, f.what, map[string]any{"bufio": c, "observed": o.brief()})
		}
		item := coqCase(c, o)
		cases.AddDesc(item, replayDoc{Bufio: &c})
		pending += len(item)
		if pending > shardBytes {
			cases.Flush()
			pending = 0
		}
		st := statsOf(c)
		key, _ := json.Marshal(c)
		sum.Count(string(key), st.records >= 1)
		sum.Dist(fmt.Sprintf("size_%d", c.Size))
		sum.Dist("shape_" + c.Shape)
		sum.Dist("chunks_" + c.Policy)
		sum.Dist("longest_record_" + bucketRel(st.longest, c.cap()))
		sum.Dist("unterminated_tail_" + bucketRel(st.tail, c.cap()))
		sum.Dist("longest_empty_run_" + bucketRun(st.maxRun))
		sum.Dist("largest_chunk_" + bucketRel(st.maxChunk, c.cap()))
		if st.delimAtChunkStart > 0 {
			sum.Dist("delimiter_first_in_a_chunk")
		}
		if st.delimAtChunkEnd > 0 {
			sum.Dist("delimiter_last_in_a_chunk")
		}
		if c.Delim != '\n' {
			sum.Dist("delimiter_not_newline")
		}
		if st.records == 0 {
			sum.Dist("no_delimiter_at_all")
		}
		if c.EOF {
			sum.Dist("final_error_eof")
		} else {
			sum.Dist("final_error_other")
		}
		if len(expandSegs(c.Last)) > 0 {
			sum.Dist("last_read_returns_bytes_with_the_error")
		}
		if o.noProgress > 0 {
			sum.Dist("runs_with_ErrNoProgress")
		}
		if o.fragments > 0 {
			sum.Dist("runs_with_record_longer_than_buffer")
		}
		sum.Dist(fmt.Sprintf("extra_calls_after_final_error_%d", c.Extra))
		if i < 4 {
			sum.Sample(map[string]any{"size": c.Size, "shape": c.Shape, "chunks": c.Policy, "stream_bytes": st.total, "records": st.records,
				"read_string_calls": len(o.Calls), "reads_served": o.served, "no_progress": o.noProgress})
		}
	}
	cases.Flush()
	sum.CaseFiles = append(sum.CaseFiles, cases.Files...)
	p, h := bufioSourceID()
	// also as a distribution key, so that it reaches evidence/C12.json (further_harnesses[].input_distribution)
	sum.Distribution["ran_against_"+runtime.Version()+"_bufio.go_sha256_"+h] = sum.Evaluations
	sum.Notes = append(sum.Notes, "go version "+runtime.Version(), "bufio source "+p+" sha256 "+h,
		fmt.Sprintf("wall time %.1fs", time.Since(t0).Seconds()))
	sum.Write(*out)
}

const ruleText = "the real bufio.NewReaderSize(script, size) (size 0, 1, 16, 17, 31, 33, 64, 100, and one case in eight 4096 / 4097 / 8192), ReadString(delim) called until the script's final error has come back and up to two more times; " +
	"script reader = the semantics of coq/Model/Bufio.v (each Read served from the first chunk, min(len p, len chunk) bytes, an empty chunk is a (0, nil) read; after the chunks the last bytes together with the final error, then (0, error) for ever); " +
	"streams built from records of length 0 to 3 x buffer size (lengths next to 1x, 2x, 3x the buffer size, +-1 and +-2, more often), with or without an unterminated tail, also with no delimiter at all; delimiters newline, NUL, space, 0xff, ';', CR; " +
	"chunkings: one chunk, byte at a time, 1-3 bytes, random up to twice the buffer, exactly the buffer size and +-1, larger than the buffer, one record per chunk, the delimiter first in its chunk; runs of 1-3, 99, 100, 101, 120, 199-250 empty chunks inserted at the start, the end, next to delimiters and at random places; " +
	"final error io.EOF or another error value, in one case in six returned together with the last bytes; " +
	"oracle from the script alone (concatenation of the returned strings = the script's bytes; a nil error iff the string ends with the delimiter, and then it holds no other; io.ErrNoProgress exactly once per 100 consecutive empty chunks; the final error is the script's and sticks); " +
	"non-trivial = the stream has at least one terminated record; distinct by the full case description"

func doReplay(path string) int {
	raw, err := os.ReadFile(path)
	if err != nil {
		fmt.Println("cannot read replay:", err)
		return 2
	}
	var rp struct {
		Replay replayDoc `json:"replay"`
	}
	if err := json.Unmarshal(raw, &rp); err != nil || rp.Replay.Bufio == nil {
		fmt.Println("replay file carries no case (no failing input was found)")
		return 2
	}
	c := *rp.Replay.Bufio
	fs := judge(c, runCase(c))
	for _, f := range fs {
		fmt.Printf("REPRODUCED %s: %s\n", f.key, f.what)
	}
	if len(fs) > 0 {
		return 1
	}
	fmt.Println("not reproduced")
	return 0
}

var _ = bufio.ErrBufferFull
