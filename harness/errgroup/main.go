//go:build verif

// Harness for the errgroup machine of Model/Errgroup.v (C08, C13): runs the REAL golang.org/x/sync/errgroup
// (the version /repo's go.mod resolves: the harness is built inside /repo's module) with 1..6 scripted worker
// functions, each blocked on its own gate.
//
// Forced-sequential scripts: the gates are opened one at a time in a generated order, the parent context is
// cancelled and Wait is called at generated points; after every operation the harness waits until the process is
// quiescent - provably: ctx.Done() closed where the group context must be done, Wait's result received where Wait
// must have returned, and runtime.NumGoroutine() down to the number of goroutines that cannot have finished
// (a group goroutine is counted as finished only when it is gone, i.e. after its deferred wg.Done) - each with a
// generous bound (5 s) that is a failure when exceeded, never an oracle.  Where something must NOT have happened
// (Wait must not have returned, the context must still be live) a short settle precedes the observation: that can
// only miss a violation, never invent one.  Observations per operation: finished goroutines, Wait's result,
// context.Cause of the group context.  They are judged by a by-construction ORACLE (function-call level: Wait
// returns only after every worker function has returned; its result is the error of the first failing worker in the
// forced order, nil iff none; the context is done from the first failure / the parent's cancellation / Wait's
// return on and not before, with that cause) and written as Coq case files for Model/ErrgroupCheck.v (step level).
//
// Racy scripts: all gates opened at once (optionally the parent cancelled and Wait called concurrently), GOMAXPROCS
// 1/2/4, built with -race: Wait's result must be the error of SOME failing worker (nil iff none), the context done
// after Wait with the cause = that result unless the parent was cancelled, every goroutine gone; the race
// detector must stay silent (a report makes the process exit 66).
package main

import (
	"context"
	"encoding/json"
	"errors"
	"flag"
	"fmt"
	"os"
	"runtime"
	"sort"
	"strings"
	"sync"
	"time"

	"golang.org/x/sync/errgroup"

	"github.com/metal-toolbox/audito-maldito/internal/verifharness/hutil"
)

const (
	longBound  = 5 * time.Second
	settleTime = 150 * time.Microsecond
	resNil     = -1 // worker result: nil
	resCtx     = 0  // context.Canceled (a waiting worker returns ctx.Err())
	codeParent = 1  // the cause the parent context is cancelled with
	codeOther  = 999
	maxErr     = 9
)

var (
	errParent = errors.New("parent cancelled")
	errVals   [maxErr + 1]error // errVals[k] for k >= 2: the workers' error values
)

func init() {
	for k := 2; k <= maxErr; k++ {
		errVals[k] = fmt.Errorf("worker error %d", k)
	}
}

func errOf(code int) error {
	switch {
	case code == resNil:
		return nil
	case code == resCtx:
		return context.Canceled
	case code == codeParent:
		return errParent
	case code >= 2 && code <= maxErr:
		return errVals[code]
	}
	panic("bad error code")
}

// codeOf identifies an error VALUE (==, no unwrapping: errgroup hands values through unchanged).
func codeOf(err error) int {
	switch {
	case err == nil:
		return resNil
	case err == context.Canceled:
		return resCtx
	case err == errParent:
		return codeParent
	}
	for k := 2; k <= maxErr; k++ {
		if err == errVals[k] {
			return k
		}
	}
	return codeOther
}

type worker struct {
	Wait bool `json:"wait"` // f waits for ctx.Done() of the group context before it returns
	Res  int  `json:"res"`  // -1 nil, 0 ctx.Err(), >= 2 an error value
}

type opT struct {
	K string `json:"k"` // rel | par | wait
	I int    `json:"i"`
}

type seqCase struct {
	Workers []worker `json:"workers"`
	Ops     []opT    `json:"ops"`
	Procs   int      `json:"procs"`
	Shape   string   `json:"shape"`
}

type obsT struct {
	Fin     int  `json:"finished"`
	WaitRet bool `json:"wait_returned"`
	WaitRes int  `json:"wait_result"` // meaningful when WaitRet
	Ctx     int  `json:"ctx"`         // -2 live, else the code of context.Cause
}

const ctxLive = -2

// ---------- the by-construction oracle (function-call level) ----------

type oracle struct {
	ws       []worker
	order    []int // released, in release order
	finished []bool
	ctx      int // ctxLive or cause code
	first    int // result of the first failing worker; resNil while none
	waitCall bool
	waitRet  bool
	nondet   bool // two workers woken by the same event with different non-nil results: not forced-sequential
}

func newOracle(ws []worker) *oracle {
	return &oracle{ws: ws, finished: make([]bool, len(ws)), ctx: ctxLive, first: resNil}
}

func (o *oracle) nfin() int {
	k := 0
	for _, f := range o.finished {
		if f {
			k++
		}
	}
	return k
}

func (o *oracle) apply(op opT) {
	switch op.K {
	case "rel":
		o.order = append(o.order, op.I)
	case "par":
		if o.ctx == ctxLive {
			o.ctx = codeParent
			// every released waiter wakes at once: the winner of the Once is not forced
			seen := map[int]bool{}
			for _, i := range o.order {
				if !o.finished[i] && o.ws[i].Wait && o.ws[i].Res != resNil {
					seen[o.ws[i].Res] = true
				}
			}
			if len(seen) > 1 && o.first == resNil {
				o.nondet = true
			}
		}
	case "wait":
		o.waitCall = true
	}
	for progress := true; progress; {
		progress = false
		for _, i := range o.order {
			if o.finished[i] || (o.ws[i].Wait && o.ctx == ctxLive) {
				continue
			}
			o.finished[i] = true
			progress = true
			if r := o.ws[i].Res; r != resNil && o.first == resNil {
				o.first = r
				if o.ctx == ctxLive {
					o.ctx = r
				}
			}
		}
	}
	if o.waitCall && !o.waitRet && o.nfin() == len(o.ws) {
		o.waitRet = true
		if o.ctx == ctxLive {
			o.ctx = resCtx // cancel(nil): context.Canceled
		}
	}
}

func (o *oracle) expect() obsT {
	return obsT{Fin: o.nfin(), WaitRet: o.waitRet, WaitRes: o.first, Ctx: o.ctx}
}

// ---------- running the real errgroup ----------

var baseG int // goroutines of the idle harness

// bound for awaiting something that must happen.  Generous (5 s) - but once three such waits have expired in this run the
// library is evidently not doing what is expected and the remaining cases wait 250 ms only, so that a broken library is
// reported in seconds rather than after (number of cases) x 5 s.
var expired int

func bound() time.Duration {
	if expired >= 3 {
		return 250 * time.Millisecond
	}
	return longBound
}

func waitCount(target int, d time.Duration) bool {
	deadline := time.Now().Add(d)
	for i := 0; ; i++ {
		if runtime.NumGoroutine() <= target {
			return true
		}
		if i < 64 {
			runtime.Gosched()
			continue
		}
		time.Sleep(20 * time.Microsecond)
		if time.Now().After(deadline) {
			return false
		}
	}
}

func settle() {
	for k := 0; k < 4; k++ {
		runtime.Gosched()
	}
	time.Sleep(settleTime)
}

type failure struct{ key, what string }

func mkWorker(w worker, gate chan struct{}, ctx context.Context) func() error {
	return func() error {
		<-gate
		if w.Wait {
			<-ctx.Done()
			if w.Res == resCtx {
				return ctx.Err()
			}
		}
		return errOf(w.Res)
	}
}

func causeCode(ctx context.Context) int {
	select {
	case <-ctx.Done():
		return codeOf(context.Cause(ctx))
	default:
		return ctxLive
	}
}

// runSeq runs one forced-sequential case; it returns the observations, the oracle's expectations and a harness
// problem (the process could not be brought back to its idle state).
func runSeq(c seqCase) (obs, exp []obsT, fails []failure, problem string) {
	prev := runtime.GOMAXPROCS(c.Procs)
	defer runtime.GOMAXPROCS(prev)
	n := len(c.Workers)
	parent, cancelParent := context.WithCancelCause(context.Background())
	eg, ctx := errgroup.WithContext(parent)
	gates := make([]chan struct{}, n)
	open := make([]bool, n)
	for i := range c.Workers {
		gates[i] = make(chan struct{})
		eg.Go(mkWorker(c.Workers[i], gates[i], ctx))
	}
	waitCh := make(chan error, 1)
	waitStarted, waitSeen := false, false
	waitRes := resNil
	o := newOracle(c.Workers)
	fail := func(k int, key, format string, a ...any) {
		fails = append(fails, failure{"errgroup:" + key, fmt.Sprintf("op %d (%v): ", k, c.Ops[k]) + fmt.Sprintf(format, a...)})
	}
	for k, op := range c.Ops {
		switch op.K {
		case "rel":
			if !open[op.I] {
				open[op.I] = true
				close(gates[op.I])
			}
		case "par":
			cancelParent(errParent)
		case "wait":
			if !waitStarted {
				waitStarted = true
				go func() { waitCh <- eg.Wait() }()
			}
		}
		o.apply(op)
		e := o.expect()
		// positive expectations are awaited (bounded); what is late is a failure
		if e.Ctx != ctxLive {
			select {
			case <-ctx.Done():
			case <-time.After(bound()):
				expired++
				fail(k, "ctx-not-cancelled", "the group context is still live %v after the operation", bound())
			}
		}
		if e.WaitRet && !waitSeen {
			select {
			case err := <-waitCh:
				waitSeen, waitRes = true, codeOf(err)
			case <-time.After(bound()):
				expired++
				fail(k, "wait-hangs", "Wait has not returned %v after the last worker function returned", bound())
			}
		}
		pending := 0
		if waitStarted && !waitSeen {
			pending = 1
		}
		if !waitCount(baseG+n-e.Fin+pending, bound()) {
			expired++
			fail(k, "goroutine-not-finished", "%d group goroutines should have finished, %d have (after %v)",
				e.Fin, baseG+n+pending-runtime.NumGoroutine(), bound())
		}
		settle()
		if waitStarted && !waitSeen {
			select {
			case err := <-waitCh:
				waitSeen, waitRes = true, codeOf(err)
				pending = 0
				waitCount(baseG+n-e.Fin, 20*time.Millisecond) // let the Wait goroutine go before counting
			default:
			}
		}
		ob := obsT{Fin: baseG + n + pending - runtime.NumGoroutine(), WaitRet: waitSeen, WaitRes: waitRes, Ctx: causeCode(ctx)}
		if !ob.WaitRet {
			ob.WaitRes = resNil
		}
		if !e.WaitRet {
			e.WaitRes = resNil
		}
		obs = append(obs, ob)
		exp = append(exp, e)
		switch {
		case ob.WaitRet && !e.WaitRet:
			fail(k, "wait-early", "Wait returned although %d of %d worker functions have not returned", n-e.Fin, n)
		case ob.WaitRet && ob.WaitRes != e.WaitRes:
			fail(k, "wait-result", "Wait returned error #%d, the first failing worker returned #%d (-1 = nil)", ob.WaitRes, e.WaitRes)
		}
		switch {
		case ob.Ctx != ctxLive && e.Ctx == ctxLive:
			fail(k, "ctx-spurious", "the group context is done (cause #%d) although no worker failed, the parent is live and Wait has not returned", ob.Ctx)
		case ob.Ctx != e.Ctx && e.Ctx != ctxLive && ob.Ctx != ctxLive:
			fail(k, "ctx-cause", "the group context's cause is #%d, expected #%d", ob.Ctx, e.Ctx)
		}
		if ob.Fin != e.Fin && len(fails) == 0 {
			fail(k, "finished-count", "%d group goroutines have finished, expected %d", ob.Fin, e.Fin)
		}
	}
	// back to the idle state
	for i := range gates {
		if !open[i] {
			close(gates[i])
		}
	}
	cancelParent(errParent)
	if !waitStarted {
		go func() { waitCh <- eg.Wait() }()
		waitStarted = true
	}
	if !waitSeen {
		select {
		case <-waitCh:
		case <-time.After(bound()):
			problem = "clean-up: Wait did not return after every gate was opened and the parent cancelled"
		}
	}
	if !waitCount(baseG, bound()) {
		problem = fmt.Sprintf("clean-up: %d goroutines left over", runtime.NumGoroutine()-baseG)
		baseG = runtime.NumGoroutine()
	}
	return obs, exp, fails, problem
}

// ---------- racy cases ----------

type raceCase struct {
	Workers []worker `json:"workers"`
	Par     bool     `json:"cancel_parent"`
	WaitPos string   `json:"wait"` // before | with | after (the gates are opened)
	Procs   int      `json:"procs"`
	Batches int      `json:"batches"` // gates opened by this many concurrent openers
}

func runRace(c raceCase) (fails []failure, problem string) {
	prev := runtime.GOMAXPROCS(c.Procs)
	defer runtime.GOMAXPROCS(prev)
	n := len(c.Workers)
	parent, cancelParent := context.WithCancelCause(context.Background())
	eg, ctx := errgroup.WithContext(parent)
	gates := make([]chan struct{}, n)
	for i := range c.Workers {
		gates[i] = make(chan struct{})
		eg.Go(mkWorker(c.Workers[i], gates[i], ctx))
	}
	waitCh := make(chan error, 1)
	startWait := func() { go func() { waitCh <- eg.Wait() }() }
	if c.WaitPos == "before" {
		startWait()
		runtime.Gosched()
	}
	start := make(chan struct{})
	var openers sync.WaitGroup
	b := c.Batches
	if b < 1 {
		b = 1
	}
	for k := 0; k < b; k++ {
		openers.Add(1)
		go func(k int) {
			defer openers.Done()
			<-start
			for i := k; i < n; i += b {
				close(gates[i])
			}
		}(k)
	}
	if c.Par {
		openers.Add(1)
		go func() { defer openers.Done(); <-start; cancelParent(errParent) }()
	}
	if c.WaitPos == "with" {
		openers.Add(1)
		go func() { defer openers.Done(); <-start; startWait() }()
	}
	close(start)
	openers.Wait()
	if c.WaitPos == "after" {
		startWait()
	}
	fail := func(key, format string, a ...any) {
		fails = append(fails, failure{"errgroup:race-" + key, fmt.Sprintf(format, a...)})
	}
	var res int
	select {
	case err := <-waitCh:
		res = codeOf(err)
	case <-time.After(bound()):
		expired++
		fail("wait-hangs", "Wait has not returned %v after every gate was opened", bound())
		cancelParent(errParent)
		select {
		case <-waitCh:
		case <-time.After(bound()):
			problem = "clean-up: Wait never returned"
			baseG = runtime.NumGoroutine()
			return
		}
		res = codeOther
	}
	// every goroutine started before Wait has run wg.Done and is about to be gone
	if !waitCount(baseG, bound()) {
		expired++
		fail("goroutine-left", "%d goroutines still exist %v after Wait returned", runtime.NumGoroutine()-baseG, bound())
		baseG = runtime.NumGoroutine()
	}
	failing := map[int]bool{}
	for _, w := range c.Workers {
		if w.Res != resNil {
			failing[w.Res] = true
		}
	}
	if res != codeOther {
		switch {
		case len(failing) == 0 && res != resNil:
			fail("wait-result", "Wait returned error #%d although every worker function returned nil", res)
		case len(failing) > 0 && !failing[res]:
			fail("wait-result", "Wait returned #%d (-1 = nil), which is not the error of any failing worker %v", res, keys(failing))
		}
		cc := causeCode(ctx)
		want := res
		if res == resNil {
			want = resCtx
		}
		switch {
		case cc == ctxLive:
			fail("ctx-live-after-wait", "the group context is still live after Wait returned")
		case cc == codeParent && !c.Par:
			fail("ctx-cause", "the group context carries the parent's cause although the parent was never cancelled")
		case cc != codeParent && cc != want:
			fail("ctx-cause", "the group context's cause is #%d, Wait returned #%d", cc, res)
		}
	}
	cancelParent(errParent)
	return fails, problem
}

func keys(m map[int]bool) []int {
	var ks []int
	for k := range m {
		ks = append(ks, k)
	}
	sort.Ints(ks)
	return ks
}

// ---------- generators ----------

func genWorkers(r *hutil.Rand, n int, profile int) []worker {
	ws := make([]worker, n)
	for i := range ws {
		switch profile {
		case 0: // all nil
			ws[i] = worker{false, resNil}
		case 1: // daemon-like: one fails, the others wait for the context and return ctx.Err()
			ws[i] = worker{true, resCtx}
		default:
			switch r.Intn(10) {
			case 0, 1, 2:
				ws[i] = worker{false, resNil}
			case 3, 4, 5:
				ws[i] = worker{false, 2 + r.Intn(3)} // few values: the same error value twice is common
			case 6:
				ws[i] = worker{false, 2 + i}
			case 7, 8:
				ws[i] = worker{true, resCtx}
			default:
				ws[i] = worker{true, []int{resNil, 5, 6}[r.Intn(3)]}
			}
		}
	}
	if profile == 1 {
		ws[r.Intn(n)] = worker{false, 2 + r.Intn(4)}
		if n > 2 && r.Chance(1, 3) {
			ws[r.Intn(n)] = worker{false, resNil}
		}
	}
	return ws
}

func shuffle(r *hutil.Rand, xs []opT) {
	for i := len(xs) - 1; i > 0; i-- {
		j := r.Intn(i + 1)
		xs[i], xs[j] = xs[j], xs[i]
	}
}

func genSeq(r *hutil.Rand) seqCase {
	for {
		n := 1 + r.Intn(6)
		profile := r.Intn(6)
		c := seqCase{Workers: genWorkers(r, n, profile), Procs: []int{1, 2, 4}[r.Intn(3)]}
		var ops []opT
		for i := 0; i < n; i++ {
			ops = append(ops, opT{"rel", i})
		}
		shuffle(r, ops)
		c.Shape = "complete"
		if r.Chance(1, 8) && n > 1 { // some gates never opened: Wait must not return
			ops = ops[:r.Intn(n)]
			c.Shape = "partial"
		}
		ins := func(o opT, pos int) {
			ops = append(ops, opT{})
			copy(ops[pos+1:], ops[pos:])
			ops[pos] = o
		}
		if !r.Chance(1, 10) { // Wait: before / between / after the releases
			switch r.Intn(4) {
			case 0:
				ins(opT{"wait", 0}, 0)
			case 1:
				ins(opT{"wait", 0}, len(ops))
			default:
				ins(opT{"wait", 0}, r.Intn(len(ops)+1))
			}
		} else {
			c.Shape += "+nowait"
		}
		if r.Chance(2, 5) { // the parent context is cancelled at some point
			ins(opT{"par", 0}, r.Intn(len(ops)+1))
			if r.Chance(1, 6) {
				ins(opT{"par", 0}, r.Intn(len(ops)+1)) // twice: the second one has no effect
			}
		}
		c.Ops = ops
		if !nondet(c) {
			return c
		}
	}
}

func nondet(c seqCase) bool {
	o := newOracle(c.Workers)
	for _, op := range c.Ops {
		o.apply(op)
	}
	return o.nondet
}

// every case with n <= maxN workers whose results come from {nil, #2, #3, waiter returning ctx.Err()}: all orders of
// the releases, of Wait and (optionally) of the parent's cancellation
func exhaustive(maxN int, emit func(seqCase)) {
	results := []worker{{false, resNil}, {false, 2}, {false, 3}, {true, resCtx}}
	for n := 1; n <= maxN; n++ {
		idx := make([]int, n)
		for {
			ws := make([]worker, n)
			for i := range ws {
				ws[i] = results[idx[i]]
			}
			for _, withPar := range []bool{false, true} {
				base := []opT{{"wait", 0}}
				for i := 0; i < n; i++ {
					base = append(base, opT{"rel", i})
				}
				if withPar {
					base = append(base, opT{"par", 0})
				}
				permute(base, 0, func(p []opT) {
					c := seqCase{Workers: ws, Ops: append([]opT(nil), p...), Procs: 2, Shape: "exhaustive"}
					if !nondet(c) {
						emit(c)
					}
				})
			}
			k := 0
			for k < n {
				idx[k]++
				if idx[k] < len(results) {
					break
				}
				idx[k] = 0
				k++
			}
			if k == n {
				break
			}
		}
	}
}

func permute(xs []opT, k int, f func([]opT)) {
	if k == len(xs) {
		f(xs)
		return
	}
	for i := k; i < len(xs); i++ {
		xs[k], xs[i] = xs[i], xs[k]
		permute(xs, k+1, f)
		xs[k], xs[i] = xs[i], xs[k]
	}
}

func genRace(r *hutil.Rand) raceCase {
	n := 1 + r.Intn(6)
	c := raceCase{Workers: genWorkers(r, n, 2+r.Intn(3)), Procs: []int{1, 2, 4}[r.Intn(3)],
		WaitPos: []string{"before", "with", "after"}[r.Intn(3)], Batches: 1 + r.Intn(3), Par: r.Chance(1, 3)}
	if r.Chance(1, 4) {
		c.Workers = genWorkers(r, n, 1)
	}
	// a waiting worker returns only when the context is done: make sure something cancels it
	wakes := c.Par
	for _, w := range c.Workers {
		if !w.Wait && w.Res != resNil {
			wakes = true
		}
	}
	if !wakes {
		for _, w := range c.Workers {
			if w.Wait {
				c.Par = true
			}
		}
	}
	return c
}

// ---------- Coq printers ----------

func coqOptErr(code int) string {
	if code == resNil {
		return "None"
	}
	return fmt.Sprintf("(Some %d)", code)
}

func coqCase(c seqCase, obs []obsT) string {
	var ws, ops, os_ []string
	for _, w := range c.Workers {
		ws = append(ws, fmt.Sprintf("(%s, %s)", hutil.CoqBool(w.Wait), strings.Trim(coqOptErr(w.Res), "()")))
	}
	for _, o := range c.Ops {
		switch o.K {
		case "rel":
			ops = append(ops, fmt.Sprintf("ORel %d", o.I))
		case "par":
			ops = append(ops, "OPar")
		default:
			ops = append(ops, "OWait")
		}
	}
	for _, o := range obs {
		w := "None"
		if o.WaitRet {
			w = "(Some " + coqOptErr(o.WaitRes) + ")"
		}
		cx := "None"
		if o.Ctx != ctxLive {
			cx = fmt.Sprintf("(Some %d)", o.Ctx)
		}
		os_ = append(os_, fmt.Sprintf("EObs %d %s %s", o.Fin, w, cx))
	}
	return "ECase " + hutil.CoqList(ws) + " " + hutil.CoqList(ops) + " " + hutil.CoqList(os_)
}

// ---------- main ----------

type replayDoc struct {
	Seq  *seqCase  `json:"seq,omitempty"`
	Race *raceCase `json:"race,omitempty"`
}

const ruleText = "real golang.org/x/sync/errgroup (version of /repo's go.mod) with 1-6 scripted worker functions behind gates (nil / an error value, " +
	"the same value twice on purpose / waits for the group context, then ctx.Err(), nil or an error); forced-sequential scripts: gates opened one at a time " +
	"in a generated order (sometimes not all), Wait called before / between / after (or never), the parent cancelled at a generated point (sometimes twice), " +
	"GOMAXPROCS 1/2/4; after every operation quiescence is awaited (ctx.Done, Wait's result, runtime.NumGoroutine; bound 5 s) and finished-count, Wait's result and " +
	"context.Cause are compared with a function-call-level oracle and, as Coq case files, with Model/Errgroup.v run on the forced schedule; exhaustive part: every " +
	"script over {nil, two errors, waiter} with n <= 2 (quick) / 3 (thorough) workers in every order of releases, Wait and an optional parent cancellation; " +
	"racy part (-race): all gates opened concurrently by 1-3 openers, parent cancellation and Wait concurrent with them: Wait's result is the error of SOME failing " +
	"worker, nil iff none, the context done with that cause unless the parent's, all goroutines gone; non-trivial = a worker fails or the parent is cancelled, and Wait is called"

func main() {
	out := flag.String("out", "", "output directory")
	prop := flag.String("prop", "C08", "property label")
	n := flag.Int("n", 300, "random forced-sequential cases")
	exh := flag.Int("exh", 2, "exhaustive part: up to this many workers")
	nrace := flag.Int("racy", 150, "racy cases")
	reps := flag.Int("reps", 3, "repetitions of each racy case")
	coqMax := flag.Int("coq", 1500, "at most this many exhaustive cases go to Coq (evenly spaced)")
	replay := flag.String("replay", "", "replay file")
	flag.Parse()
	seed := hutil.SeedFromEnv()
	if *out == "" {
		*out = "."
	}
	baseG = runtime.NumGoroutine()
	if *replay != "" {
		os.Exit(doReplay(*replay))
	}
	sum := hutil.NewSummary(*prop, seed, ruleText)
	t0 := time.Now()
	cases := &hutil.CaseFile{Dir: *out, Stem: "cases_errgroup", PerFile: 400,
		Header: "From Coq Require Import List Bool Arith.\nImport ListNotations.\nFrom AM Require Import Model.Errgroup Model.ErrgroupCheck.\n",
		Footer: func(int) string { return "Definition M := Eval vm_compute in mismatches cases.\nPrint M.\n" }}

	one := func(c seqCase, toCoq bool) {
		obs, _, fails, problem := runSeq(c)
		key, _ := json.Marshal(c)
		if problem != "" {
			sum.FailKey("harness", "errgroup:harness", problem, map[string]any{"seq": c})
		}
		for _, f := range fails {
			sum.FailKey("oracle", f.key, f.what, map[string]any{"seq": c, "observed": obs})
		}
		if toCoq {
			cases.AddDesc(coqCase(c, obs), replayDoc{Seq: &c})
		}
		nfail, nwait, par, wait := 0, 0, false, false
		for _, w := range c.Workers {
			if w.Res != resNil {
				nfail++
			}
			if w.Wait {
				nwait++
			}
		}
		for _, o := range c.Ops {
			par = par || o.K == "par"
			wait = wait || o.K == "wait"
		}
		sum.Count(string(key), (nfail > 0 || par) && wait)
		sum.Dist(fmt.Sprintf("seq_workers_%d", len(c.Workers)))
		sum.Dist(fmt.Sprintf("seq_failing_%d", nfail))
		sum.Dist(fmt.Sprintf("seq_waiters_%d", nwait))
		sum.Dist("seq_shape_" + c.Shape)
		sum.Dist(fmt.Sprintf("seq_procs_%d", c.Procs))
		if par {
			sum.Dist("seq_parent_cancelled")
		}
		if len(obs) > 0 {
			last := obs[len(obs)-1]
			switch {
			case !last.WaitRet:
				sum.Dist("seq_wait_not_returned")
			case last.WaitRes == resNil:
				sum.Dist("seq_wait_nil")
			default:
				sum.Dist("seq_wait_error")
			}
			if last.Ctx == codeParent {
				sum.Dist("seq_cause_parent")
			}
		}
		seen := map[int]bool{}
		for _, w := range c.Workers {
			if w.Res >= 2 && seen[w.Res] {
				sum.Dist("seq_same_error_value_twice")
				break
			}
			seen[w.Res] = true
		}
		if len(sum.Samples) < 3 {
			sum.Sample(map[string]any{"case": c, "observed": obs})
		}
	}

	var all []seqCase
	exhaustive(*exh, func(c seqCase) { all = append(all, c) })
	stride := 1
	if *coqMax > 0 && len(all) > *coqMax {
		stride = (len(all) + *coqMax - 1) / *coqMax
	}
	for i, c := range all {
		one(c, i%stride == 0)
	}
	r := hutil.NewRand(seed ^ 0xE66)
	for i := 0; i < *n; i++ {
		one(genSeq(r), true)
	}
	cases.Flush()
	sum.CaseFiles = append(sum.CaseFiles, cases.Files...)
	tSeq := time.Since(t0)

	rr := hutil.NewRand(seed ^ 0x4ACE)
	for i := 0; i < *nrace; i++ {
		c := genRace(rr)
		for k := 0; k < *reps; k++ {
			fails, problem := runRace(c)
			if problem != "" {
				sum.FailKey("harness", "errgroup:harness", problem, map[string]any{"race": c})
			}
			for _, f := range fails {
				sum.FailKey("oracle", f.key, f.what, map[string]any{"race": c})
			}
			key, _ := json.Marshal(c)
			sum.Count("race"+string(key), true)
		}
		sum.Dist(fmt.Sprintf("race_workers_%d", len(c.Workers)))
		sum.Dist(fmt.Sprintf("race_procs_%d", c.Procs))
		sum.Dist("race_wait_" + c.WaitPos)
		if c.Par {
			sum.Dist("race_parent_cancelled")
		}
	}
	sum.Notes = append(sum.Notes, fmt.Sprintf("errgroup stage: %d exhaustive + %d random forced-sequential cases in %.1fs, %d racy cases x %d in %.1fs",
		len(all), *n, tSeq.Seconds(), *nrace, *reps, (time.Since(t0) - tSeq).Seconds()))
	sum.Write(*out)
}

func doReplay(path string) int {
	raw, err := os.ReadFile(path)
	if err != nil {
		fmt.Println("cannot read replay:", err)
		return 2
	}
	var rp struct {
		Replay replayDoc `json:"replay"`
	}
	if err := json.Unmarshal(raw, &rp); err != nil || (rp.Replay.Seq == nil && rp.Replay.Race == nil) {
		fmt.Println("replay file carries no case (no failing input was found)")
		return 2
	}
	var fs []failure
	if c := rp.Replay.Seq; c != nil {
		for k := 0; k < 3 && len(fs) == 0; k++ {
			_, _, fs, _ = runSeq(*c)
		}
	} else {
		for k := 0; k < 30 && len(fs) == 0; k++ {
			fs, _ = runRace(*rp.Replay.Race)
		}
	}
	for _, f := range fs {
		fmt.Printf("REPRODUCED %s: %s\n", f.key, f.what)
	}
	if len(fs) > 0 {
		return 1
	}
	fmt.Println("not reproduced")
	return 0
}
