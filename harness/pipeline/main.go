//go:build verif

// Harness for C10: the real sshd processor and the real audit processor (Auditd.Read) run
// concurrently, sharing one event writer and an unbuffered logins channel, exactly as
// cmd/namedpipe.go wires them. Every Write call reaching the output is recorded. Oracle: each
// write is exactly one complete JSON line; no event is written twice; the UserLogin of a login
// precedes every UserAction that carries its identity.
package main

import (
	"encoding/hex"
	"bytes"
	"context"
	"encoding/json"
	"flag"
	"fmt"
	"os"
	"strings"
	"sync"
	"time"

	"github.com/metal-toolbox/auditevent"
	"github.com/prometheus/client_golang/prometheus"
	"go.uber.org/zap"

	"github.com/metal-toolbox/audito-maldito/internal/common"
	"github.com/metal-toolbox/audito-maldito/internal/health"
	"github.com/metal-toolbox/audito-maldito/internal/metrics"
	"github.com/metal-toolbox/audito-maldito/internal/verifharness/hutil"
	"github.com/metal-toolbox/audito-maldito/processors/auditd"
	"github.com/metal-toolbox/audito-maldito/processors/sshd"
)

type recWriter struct {
	mu     sync.Mutex
	chunks [][]byte
	// a slow sink: the stallAt-th UserAction write (1-based, 0 = never) takes stallFor before it completes.  The audit side
	// writes under the correlator's lock, so for that long it takes no login: accepted lines arriving meanwhile stay in
	// the hand-off (the first is received by Read's loop, which then waits for the correlator; the next ones pend)
	stallAt  int
	stallFor time.Duration
	actions  int
	stalled  time.Duration // how long the stall really lasted (0: the write never came)
}

var actionMark = []byte(`"type":"UserAction"`)

func (w *recWriter) Write(p []byte) (int, error) {
	if w.stallAt > 0 && bytes.Contains(p, actionMark) {
		w.mu.Lock()
		w.actions++
		hit := w.actions == w.stallAt
		w.mu.Unlock()
		if hit {
			t0 := time.Now()
			time.Sleep(w.stallFor) // the scenario's input (a slow disk), not synchronisation
			w.mu.Lock()
			w.stalled = time.Since(t0)
			w.mu.Unlock()
		}
	}
	w.mu.Lock()
	defer w.mu.Unlock()
	w.chunks = append(w.chunks, append([]byte(nil), p...))
	return len(p), nil
}

type sessionPlan struct {
	PID       int  `json:"pid"`
	Ses       int  `json:"ses"`
	Cmds      int  `json:"cmds"`
	Disp      bool `json:"disp"`
	LoginLate int  `json:"login_delay_us"` // delay of the sshd line relative to the start
	AuditLate int  `json:"audit_delay_us"`
	// large events: UserLen bytes are added to the account name (the UserLogin and every UserAction of the session
	// carry it), and the session's first command is an execve event whose argument list has about ArgBytes bytes
	// (the UserAction carries the arguments): output lines beyond one page and up to 70 KiB
	UserLen  int `json:"user_len,omitempty"`
	ArgBytes int `json:"execve_arg_bytes,omitempty"`
}

func (p sessionPlan) user() string {
	const pat = "ab0-_.Qz7"
	u := fmt.Sprintf("user-%d", p.PID)
	for len(u) < 5+p.UserLen && p.UserLen > 0 {
		u += pat
	}
	return u
}

type scenario struct {
	Sessions []sessionPlan `json:"sessions"`
	Burst    bool          `json:"burst"`
	Debug    bool          `json:"debug_logging,omitempty"`
	// the audit side is slow to take logins: the StallAtAction-th UserAction write takes StallMs (see recWriter)
	StallAtAction int `json:"stall_at_user_action,omitempty"`
	StallMs       int `json:"stall_ms,omitempty"`
}

// auditLines: the session's records and how many audit events they make.
func auditLines(p sessionPlan, seq *int) ([]string, int) {
	ts := func() string {
		*seq++
		return fmt.Sprintf("audit(%d.%03d:%d)", 1700000000+*seq, *seq%1000, *seq)
	}
	lines := []string{fmt.Sprintf("type=LOGIN msg=%s: pid=%d uid=0 old-auid=4294967295 auid=1000 tty=(none) old-ses=4294967295 ses=%d res=1", ts(), p.PID, p.Ses)}
	events := 1
	if p.ArgBytes > 0 {
		// one execve event as auditd writes it: records sharing a stamp, PROCTITLE last
		stamp := ts()
		var sb strings.Builder
		fmt.Fprintf(&sb, "type=EXECVE msg=%s: argc=", stamp)
		var args []string
		for left, k := p.ArgBytes, 0; left > 0; k++ {
			n := []int{7, 33, 900, 4100, 250}[k%5]
			if n > left {
				n = left
			}
			left -= n
			args = append(args, strings.Repeat("a1-B_/=", n/7+1)[:n])
		}
		fmt.Fprintf(&sb, "%d a0=\"tool\"", len(args)+1)
		for k, a := range args {
			if k%4 == 3 {
				fmt.Fprintf(&sb, " a%d=%s", k+1, strings.ToUpper(hex.EncodeToString([]byte(strings.ReplaceAll(a, "-", " ")))))
			} else {
				fmt.Fprintf(&sb, " a%d=\"%s\"", k+1, a)
			}
		}
		lines = append(lines,
			fmt.Sprintf("type=SYSCALL msg=%s: arch=c000003e syscall=59 success=yes exit=0 a0=55d0 a1=55d1 a2=55d2 a3=8 items=2 ppid=%d pid=%d auid=1000 uid=1000 gid=1000 euid=1000 suid=1000 fsuid=1000 egid=1000 sgid=1000 fsgid=1000 tty=pts0 ses=%d comm=\"tool\" exe=\"/usr/bin/tool\" key=(null)", stamp, p.PID, p.PID+1, p.Ses),
			sb.String(),
			fmt.Sprintf("type=PROCTITLE msg=%s: proctitle=746F6F6C", stamp))
		events++
	}
	for i := 0; i < p.Cmds; i++ {
		events++
		lines = append(lines, fmt.Sprintf("type=USER_START msg=%s: pid=%d uid=0 auid=1000 ses=%d msg='op=PAM:session_open grantors=pam_unix acct=\"u%d\" exe=\"/usr/sbin/sshd\" hostname=10.0.0.1 addr=10.0.0.1 terminal=ssh res=success'", ts(), p.PID, p.Ses, i))
	}
	if p.Disp {
		events++
		lines = append(lines, fmt.Sprintf("type=CRED_DISP msg=%s: pid=%d uid=0 auid=1000 ses=%d msg='op=PAM:setcred grantors=pam_permit acct=\"u\" exe=\"/usr/sbin/sshd\" hostname=10.0.0.1 addr=10.0.0.1 terminal=ssh res=success'", ts(), p.PID, p.Ses))
	}
	return lines, events
}

type outcome struct {
	Writes   int      `json:"writes"`
	Problems []string `json:"problems"`
	Keys     []string `json:"keys"`
	Expected int      `json:"expected_user_actions"`
	Got      int      `json:"user_actions"`
	Largest  int      `json:"largest_write"`
	StalledMs int     `json:"write_stalled_ms,omitempty"`
	// accepted lines whose hand-off was pending for more than 2 s (time from the call to its return)
	LongHandoffs int `json:"handoffs_pending_longer_than_2s,omitempty"`
	Hung         bool `json:"hung,omitempty"`
}

// runScenario: setLoggers = false when several scenarios run at once (the package loggers are process-wide and set by the caller)
func runScenario(sc scenario, setLoggers bool) outcome {
	if setLoggers {
		auditd.SetLogger(hutil.Logger(sc.Debug))
		sshd.SetLogger(hutil.Logger(sc.Debug))
	}
	var sshdMu sync.Mutex // lines of different sshd processes arrive one after the other on the single pipe
	var longMu sync.Mutex
	long := 0
	w := &recWriter{stallAt: sc.StallAtAction, stallFor: time.Duration(sc.StallMs) * time.Millisecond}
	ew := auditevent.NewDefaultAuditEventWriter(w)
	logins := make(chan common.RemoteUserLogin) // unbuffered, as in cmd/namedpipe.go
	audits := make(chan string, 10000)
	ctx, cancel := context.WithCancel(context.Background())
	defer cancel()
	pm := metrics.NewPrometheusMetricsProviderForRegisterer(prometheus.NewRegistry())
	sp := sshd.NewSshdProcessor(ctx, logins, "node", "mid", ew, pm)
	h := health.NewHealth()
	ap := auditd.Auditd{Audits: audits, Logins: logins, EventW: ew, Health: h}
	readDone := make(chan error, 1)
	go func() { readDone <- ap.Read(ctx) }()

	var wg sync.WaitGroup
	seq := 0
	expected := 0
	start := time.Now()
	var seqMu sync.Mutex
	for _, p := range sc.Sessions {
		p := p
		seqMu.Lock()
		lines, nEvents := auditLines(p, &seq)
		seqMu.Unlock()
		expected += nEvents
		wg.Add(2)
		go func() { // sshd pipe: one goroutine per line would not be faithful; but lines of different
			// sshd processes arrive in some order on the single pipe: serialise through a mutex below
			defer wg.Done()
			time.Sleep(time.Until(start.Add(time.Duration(p.LoginLate) * time.Microsecond)))
			sshdMu.Lock()
			defer sshdMu.Unlock()
			t0 := time.Now()
			_ = sp.ProcessSshdLogEntry(ctx, sshd.SshdLogEntry{PID: fmt.Sprint(p.PID),
				Message: fmt.Sprintf("Accepted password for %s from 10.0.0.%d port %d ssh2", p.user(), p.Ses%250, 1024+p.Ses)})
			if time.Since(t0) > 2*time.Second {
				longMu.Lock()
				long++
				longMu.Unlock()
			}
		}()
		go func() {
			defer wg.Done()
			time.Sleep(time.Until(start.Add(time.Duration(p.AuditLate) * time.Microsecond)))
			for _, l := range lines {
				audits <- l
				if !sc.Burst {
					time.Sleep(20 * time.Microsecond)
				}
			}
		}()
	}
	// watchdog: everything is fed within the stall plus a generous bound, or the scenario is reported as hung
	fed := make(chan struct{})
	go func() { wg.Wait(); close(fed) }()
	hung := false
	select {
	case <-fed:
	case <-time.After(w.stallFor + 60*time.Second):
		hung = true
		cancel() // releases hand-offs and Read
		select {
		case <-fed:
		case <-time.After(10 * time.Second):
		}
	}
	// wait until the audit side has drained (bounded)
	deadline := time.Now().Add(3 * time.Second)
	for time.Now().Before(deadline) {
		w.mu.Lock()
		n := len(w.chunks)
		w.mu.Unlock()
		if n >= expected+len(sc.Sessions) {
			break
		}
		time.Sleep(2 * time.Millisecond)
	}
	time.Sleep(5 * time.Millisecond)
	cancel()
	select {
	case <-readDone:
	case <-time.After(2 * time.Second):
	}

	// ---- oracle on the recorded writes
	out := outcome{Expected: expected, Hung: hung}
	w.mu.Lock()
	chunks := w.chunks
	out.StalledMs = int(w.stalled / time.Millisecond)
	w.mu.Unlock()
	longMu.Lock()
	out.LongHandoffs = long
	longMu.Unlock()
	out.Writes = len(chunks)
	seenLogin := map[string]bool{}
	loginWrites := map[string]int{}
	seenEvent := map[string]int{}
	add := func(key, msg string) {
		out.Keys = append(out.Keys, key)
		if len(out.Problems) < 5 {
			out.Problems = append(out.Problems, msg)
		}
	}
	for i, c := range chunks {
		if len(c) > out.Largest {
			out.Largest = len(c)
		}
		if len(c) == 0 || c[len(c)-1] != '\n' || bytes.Count(c, []byte("\n")) != 1 {
			add("output:not-one-line-per-write", fmt.Sprintf("write %d is not exactly one line: %q", i, truncate(c)))
			continue
		}
		var ev struct {
			Type     string            `json:"type"`
			Subjects map[string]string `json:"subjects"`
			LoggedAt string            `json:"loggedAt"`
			Metadata struct {
				AuditID string         `json:"auditId"`
				Extra   map[string]any `json:"extra"`
			} `json:"metadata"`
		}
		dec := json.NewDecoder(bytes.NewReader(c))
		if err := dec.Decode(&ev); err != nil || dec.More() {
			add("output:not-json", fmt.Sprintf("write %d is not one complete JSON event: %q", i, truncate(c)))
			continue
		}
		ident := ev.Subjects["loggedAs"] + "/" + ev.Subjects["pid"]
		shown := ident
		if len(shown) > 60 {
			shown = fmt.Sprintf("%s...(%d bytes)/%s", shown[:40], len(ev.Subjects["loggedAs"]), ev.Subjects["pid"])
		}
		switch ev.Type {
		case "UserLogin":
			seenLogin[ident] = true
			// every session has its own sshd PID and one accepted line: a second UserLogin with that identity is the
			// event written again (however long its hand-off was pending)
			loginWrites[ident]++
			if loginWrites[ident] == 2 {
				add("output:duplicate", fmt.Sprintf("write %d: the UserLogin of %s written twice (one accepted line; audit side stalled %d ms, %d hand-off(s) pending > 2 s)", i, shown, out.StalledMs, out.LongHandoffs))
			}
		case "UserAction":
			out.Got++
			if !seenLogin[ident] {
				add("output:action-before-login", fmt.Sprintf("write %d: UserAction with identity %s appears before (or without) the UserLogin of that login", i, shown))
			}
			k := ev.Metadata.AuditID + "@" + ev.LoggedAt
			seenEvent[k]++
			if seenEvent[k] == 2 {
				add("output:duplicate", fmt.Sprintf("write %d: UserAction %s written twice", i, k))
			}
		default:
			add("output:unknown-type", "event of type "+ev.Type)
		}
	}
	if hung {
		add("output:hung", fmt.Sprintf("the scenario's lines were not all processed %v after the stall of %d ms ended", 60*time.Second, sc.StallMs))
	}
	return out
}

// genStallScenario: the audit side is slow to take logins.  One or two sessions whose halves arrive at once (their
// UserActions start within milliseconds; the first of them stalls in the writer for stallMs), then 2-6 accepted lines of
// other sshd processes arriving 20-400 ms later, i.e. while the correlator is busy: the first is received by Read's
// loop, the others pend in the hand-off for about the rest of the stall.  Their audit records arrive early or late.
func genStallScenario(r *hutil.Rand, stallMs int) scenario {
	sc := scenario{Burst: r.Bool(), StallAtAction: 1 + r.Intn(2), StallMs: stallMs + r.Intn(400)}
	early := 1 + r.Intn(2)
	late := 2 + r.Intn(5)
	for i := 0; i < early+late; i++ {
		p := sessionPlan{PID: 2000 + 7*i + r.Intn(5), Ses: 10 + i, Cmds: 1 + r.Intn(5), Disp: r.Chance(2, 3), LoginLate: r.Intn(2000), AuditLate: r.Intn(2000)}
		if i >= early {
			p.LoginLate = 20000 + r.Intn(380000)
			p.AuditLate = []int{r.Intn(3000), p.LoginLate + r.Intn(3000), r.Intn(400000)}[r.Intn(3)]
		}
		sc.Sessions = append(sc.Sessions, p)
	}
	return sc
}

func parseStalls(s string) []int {
	var out []int
	for _, f := range strings.Split(s, ",") {
		var n int
		if _, err := fmt.Sscanf(strings.TrimSpace(f), "%d", &n); err == nil && n > 0 {
			out = append(out, n)
		}
	}
	return out
}

func truncate(b []byte) string {
	if len(b) > 160 {
		return string(b[:160]) + "..."
	}
	return string(b)
}

func genScenario(r *hutil.Rand) scenario {
	n := 1 + r.Intn(8)
	sc := scenario{Burst: r.Bool()}
	big := r.Chance(1, 3)
	for i := 0; i < n; i++ {
		p := sessionPlan{PID: 2000 + 7*i + r.Intn(5), Ses: 10 + i, Cmds: r.Intn(6), Disp: r.Chance(2, 3),
			LoginLate: r.Intn(3000), AuditLate: r.Intn(3000)}
		if big && r.Bool() {
			p.UserLen = []int{100 + r.Intn(900), 3000 + r.Intn(1500), 4097 + r.Intn(6000)}[r.Intn(3)]
			p.Cmds += r.Intn(12)
		}
		if big && r.Bool() {
			p.ArgBytes = []int{3000 + r.Intn(1300), 4300 + r.Intn(5000), 9000 + r.Intn(11000), 20000 + r.Intn(50000)}[r.Intn(4)]
		}
		sc.Sessions = append(sc.Sessions, p)
	}
	return sc
}

func main() {
	out := flag.String("out", "", "output directory")
	n := flag.Int("n", 40, "scenarios")
	replay := flag.String("replay", "", "replay file")
	stalls := flag.String("stalls", "2500,2800,3300", "scenarios in which the audit side is slow to take logins: milliseconds the writer stalls a UserAction write (>= 2500), one scenario each, run concurrently; \"\" = none")
	flag.Parse()
	auditd.SetLogger(zap.NewNop().Sugar())
	sshd.SetLogger(zap.NewNop().Sugar())
	seed := hutil.SeedFromEnv()
	if *replay != "" {
		raw, err := os.ReadFile(*replay)
		if err != nil {
			fmt.Println(err)
			os.Exit(2)
		}
		var rp struct {
			Replay struct {
				Scenario *scenario `json:"scenario"`
			} `json:"replay"`
		}
		if json.Unmarshal(raw, &rp) != nil || rp.Replay.Scenario == nil {
			fmt.Println("replay file carries no scenario")
			os.Exit(2)
		}
		tries := 100 // the order of the two pipelines' writes is the scheduler's choice: a run takes some milliseconds
		if rp.Replay.Scenario.StallMs > 0 {
			tries = 4 // each run lasts as long as the stall
		}
		for i := 0; i < tries; i++ {
			if o := runScenario(*rp.Replay.Scenario, true); len(o.Keys) > 0 {
				fmt.Println("REPRODUCED", o.Keys[0], o.Problems[0])
				os.Exit(1)
			}
		}
		fmt.Printf("not reproduced in %d runs\n", tries)
		os.Exit(0)
	}
	r := hutil.NewRand(seed ^ 0xC10)
	sum := hutil.NewSummary("C10", seed,
		"1-8 SSH sessions; per session an accepted-password sshd line and its audit records (LOGIN, 0-5 USER_START, optional CRED_DISP) with random relative delays, in bursts or paced; "+
			"in one scenario of three LARGE events: account names of 0.1-10 KiB (UserLogin and every UserAction of the session, more commands) and an execve event with an argument list of 3-70 KiB; "+
			"the real sshd processor and the real Auditd.Read run concurrently on one event writer and an unbuffered logins channel; every Write call on the output is recorded; "+
			"plus scenarios in which the AUDIT SIDE IS SLOW TO TAKE LOGINS: the recording writer stalls one UserAction write for a generated time >= 2.5 s (under the correlator's lock) while accepted lines of other sshd processes arrive, "+
			"whose hand-offs pend for that long; oracle as everywhere: one whole JSON line per write, no event twice (UserLogin: one per accepted line), UserLogin before UserAction; "+
			"non-trivial = at least 2 sessions and at least one UserAction written; distinct by scenario")
	for i := 0; i < *n; i++ {
		sc := genScenario(r)
		sc.Debug = i%3 == 1
		o := runScenario(sc, true)
		sum.Count(fmt.Sprint(sc), len(sc.Sessions) >= 2 && o.Got > 0)
		sum.Dist(fmt.Sprintf("sessions_%d", len(sc.Sessions)))
		sum.Dist(fmt.Sprintf("burst_%v", sc.Burst))
		for _, p := range sc.Sessions {
			if p.UserLen > 0 {
				sum.Dist("session_with_long_account_name")
			}
			if p.ArgBytes > 0 {
				sum.Dist("session_with_large_execve_event")
			}
		}
		if o.Largest > 4096 {
			sum.Dist("scenario_with_output_line_longer_than_4096")
		}
		if o.Got < o.Expected {
			sum.Dist("user_actions_fewer_than_expected")
		}
		for j, k := range o.Keys {
			msg := k
			if j < len(o.Problems) {
				msg = o.Problems[j]
			}
			sum.FailKey("oracle", k, msg, map[string]any{"scenario": sc})
		}
		if i < 3 {
			sum.Sample(map[string]any{"scenario": sc, "writes": o.Writes, "user_actions": o.Got, "expected_user_actions": o.Expected})
		}
	}
	// the slow-audit-side scenarios: all at once (each lasts about as long as its stall)
	if sts := parseStalls(*stalls); len(sts) > 0 {
		debug := seed%2 == 1
		auditd.SetLogger(hutil.Logger(debug))
		sshd.SetLogger(hutil.Logger(debug))
		scs := make([]scenario, len(sts))
		outs := make([]outcome, len(sts))
		for i, ms := range sts {
			scs[i] = genStallScenario(r, ms)
			scs[i].Debug = debug
		}
		var wg sync.WaitGroup
		for i := range scs {
			wg.Add(1)
			go func(i int) {
				defer wg.Done()
				outs[i] = runScenario(scs[i], false)
			}(i)
		}
		wg.Wait()
		for i, sc := range scs {
			o := outs[i]
			sum.Count(fmt.Sprint(sc), o.Got > 0 && o.LongHandoffs > 0)
			sum.Dist("slow_audit_side_scenario")
			sum.Dist(fmt.Sprintf("slow_audit_side_stall_%ds", sc.StallMs/1000))
			if o.StalledMs > 0 {
				sum.Dist("slow_audit_side_write_stalled")
			}
			sum.Distribution["total_handoffs_pending_longer_than_2s"] += o.LongHandoffs
			for j, k := range o.Keys {
				msg := k
				if j < len(o.Problems) {
					msg = o.Problems[j]
				}
				sum.FailKey("oracle", k, msg, map[string]any{"scenario": sc})
			}
			if i == 0 {
				sum.Sample(map[string]any{"scenario": sc, "writes": o.Writes, "user_actions": o.Got, "expected_user_actions": o.Expected, "write_stalled_ms": o.StalledMs, "handoffs_pending_longer_than_2s": o.LongHandoffs})
			}
		}
	}
	sum.CaseFiles = nil
	sum.Write(*out)
	_ = strings.TrimSpace
}
