//go:build verif

// Harness for the sshd processor properties (C05 C06 C07 C11 C17 C19): feeds generated
// messages to the real ProcessEntry (directly and through SyslogIngester.Process), records
// the event written, the login forwarded, the counters and the return value, writes them as
// Coq case files for the model and evaluates each property's oracle.
package main

import (
	"context"
	"encoding/json"
	"errors"
	"flag"
	"fmt"
	"os"
	"runtime"
	"sort"
	"strings"
	"time"

	"github.com/metal-toolbox/auditevent"
	"github.com/prometheus/client_golang/prometheus"
	"go.uber.org/zap"

	"github.com/metal-toolbox/audito-maldito/ingesters/syslog"
	"github.com/metal-toolbox/audito-maldito/internal/common"
	"github.com/metal-toolbox/audito-maldito/internal/metrics"
	"github.com/metal-toolbox/audito-maldito/internal/verifharness/hutil"
	"github.com/metal-toolbox/audito-maldito/processors/sshd"
)

const nodeName = "node-7"
const machineID = "mid-0123"

var errInjected = errors.New("injected write failure")

type obsEvent struct {
	OK       bool              `json:"ok"`
	Type     string            `json:"type"`
	Comp     string            `json:"component"`
	Src      string            `json:"src"`
	SrcType  string            `json:"src_type"`
	Port     *string           `json:"port,omitempty"`
	DNS      *string           `json:"dns,omitempty"`
	Subjects map[string]string `json:"subjects"`
	Shell    *string           `json:"shell,omitempty"`
	Data     map[string]string `json:"data,omitempty"`
	Lossy    bool              `json:"data_lossy,omitempty"`
	Target   map[string]string `json:"target"`
	When     time.Time         `json:"when"`
	ptr      *auditevent.AuditEvent
	Bad      string `json:"bad,omitempty"`
}

type obsFwd struct {
	PID      int    `json:"pid"`
	Cred     string `json:"cred"`
	SameEvt  bool   `json:"same_event"`
	AfterEnc bool   `json:"after_write"`
}

type observation struct {
	Ret     string         `json:"ret"` // ok | write | panic:<msg> | other:<msg>
	Events  []obsEvent     `json:"events"`
	Fwds    []obsFwd       `json:"forwards"`
	Metrics map[string]int `json:"metrics"` // "method/outcome" -> delta
	T0, T1  time.Time      `json:"-"`
}

type encRec struct {
	fail   bool
	events []obsEvent
	seq    *int
	at     []int
}

func (e *encRec) Encode(v any) error {
	*e.seq++
	ev, ok := v.(*auditevent.AuditEvent)
	if !ok {
		return fmt.Errorf("not an audit event")
	}
	o := obsEvent{OK: ev.Outcome == auditevent.OutcomeSucceeded, Type: ev.Type, Comp: ev.Component, Src: ev.Source.Value,
		SrcType: ev.Source.Type, Subjects: map[string]string{}, Target: map[string]string{}, When: ev.LoggedAt, ptr: ev}
	if ev.Outcome != auditevent.OutcomeSucceeded && ev.Outcome != auditevent.OutcomeFailed {
		o.Bad = "outcome " + ev.Outcome
	}
	for k, v := range ev.Subjects {
		o.Subjects[k] = v
	}
	for k, v := range ev.Target {
		o.Target[k] = v
	}
	for k, v := range ev.Source.Extra {
		s, isStr := v.(string)
		switch {
		case k == "port" && isStr:
			o.Port = &s
		case k == "dns" && isStr:
			o.DNS = &s
		default:
			o.Bad = "source.extra key " + k
		}
	}
	for k, v := range ev.Metadata.Extra {
		s, isStr := v.(string)
		if k == "shell" && isStr {
			o.Shell = &s
		} else {
			o.Bad = "metadata.extra key " + k
		}
	}
	if ev.Data != nil {
		o.Data = map[string]string{}
		if err := json.Unmarshal(*ev.Data, &o.Data); err != nil {
			o.Bad = "data is not a JSON object of strings"
		}
		for _, v := range o.Data {
			if strings.ContainsRune(v, '�') {
				o.Lossy = true // json.Marshal replaced invalid UTF-8: not comparable byte for byte
			}
		}
	}
	e.events = append(e.events, o)
	e.at = append(e.at, *e.seq)
	if e.fail {
		return errInjected
	}
	// what the daemon's own writer (encoding/json) does with the event: an event that cannot be serialised
	// is a write error there, so it is one here
	if _, err := json.Marshal(ev); err != nil {
		return fmt.Errorf("event cannot be serialised: %w", err)
	}
	return nil
}

type runMode struct {
	WriteOK bool `json:"write_ok"`
	Ready   bool `json:"ready"` // the correlator takes the login; otherwise the context is cancelled and nobody reads
	Framed  bool `json:"framed"`
	Pad     int  `json:"pad"`
	Debug   bool `json:"debug_logging,omitempty"` // the sshd package logger has DEBUG enabled
}

func counters(reg *prometheus.Registry) map[string]float64 {
	out := map[string]float64{}
	mfs, _ := reg.Gather()
	for _, mf := range mfs {
		if mf.GetName() != "audito_maldito_remote_logins_total" {
			continue
		}
		for _, m := range mf.GetMetric() {
			var method, outcome string
			for _, l := range m.GetLabel() {
				if l.GetName() == "method" {
					method = l.GetValue()
				}
				if l.GetName() == "outcome" {
					outcome = l.GetValue()
				}
			}
			out[method+"/"+outcome] = m.GetCounter().GetValue()
		}
	}
	return out
}

var sharedReg = prometheus.NewRegistry()
var sharedPM = metrics.NewPrometheusMetricsProviderForRegisterer(sharedReg)

// runOne processes (tok, msg) on the real processor.
func runOne(tok, msg string, mode runMode) observation {
	// one long-lived registry and provider for the whole run, as in the daemon: counters are
	// read before and after each line
	reg, pm := sharedReg, sharedPM
	sshd.SetLogger(hutil.Logger(mode.Debug))
	seq := 0
	enc := &encRec{fail: !mode.WriteOK, seq: &seq}
	logins := make(chan common.RemoteUserLogin) // unbuffered, as in cmd/namedpipe.go
	ctx, cancel := context.WithCancel(context.Background())
	defer cancel()
	var fwds []obsFwd
	recvDone := make(chan struct{})
	if mode.Ready {
		go func() {
			defer close(recvDone)
			for {
				select {
				case l, ok := <-logins:
					if !ok {
						return
					}
					seq++
					f := obsFwd{PID: l.PID, Cred: l.CredUserID}
					if n := len(enc.events); n > 0 {
						f.SameEvt = l.Source == enc.events[n-1].ptr
						f.AfterEnc = enc.at[n-1] < seq
					}
					fwds = append(fwds, f)
				case <-ctx.Done():
					return
				}
			}
		}()
	} else {
		cancel() // cancelled while the hand-off would block on an unready correlator
		close(recvDone)
	}
	p := sshd.NewSshdProcessor(ctx, logins, nodeName, machineID, auditevent.NewAuditEventWriter(enc), pm)
	before := counters(reg)
	var obs observation
	obs.T0 = time.Now()
	func() {
		defer func() {
			if r := recover(); r != nil {
				obs.Ret = fmt.Sprintf("panic:%v", r)
			}
		}()
		var err error
		if mode.Framed {
			si := syslog.SyslogIngester{SshdProcessor: p}
			err = si.Process(ctx, tok+" "+strings.Repeat(" ", mode.Pad)+msg+"\n")
		} else {
			err = p.ProcessSshdLogEntry(ctx, sshd.SshdLogEntry{Message: msg, PID: tok})
		}
		switch {
		case err == nil:
			obs.Ret = "ok"
		case errors.Is(err, errInjected):
			obs.Ret = "write"
		default:
			obs.Ret = "other:" + err.Error()
		}
	}()
	obs.T1 = time.Now()
	cancel()
	<-recvDone
	obs.Events = enc.events
	obs.Fwds = fwds
	obs.Metrics = map[string]int{}
	for k, v := range counters(reg) {
		if d := int(v - before[k]); d != 0 {
			obs.Metrics[k] = d
		}
	}
	return obs
}

// ---------- Coq rendering ----------

func optStr(s *string) string {
	if s == nil {
		return "None"
	}
	return "(Some " + hutil.CoqStr(*s) + ")"
}

var knownSubjects = map[string]bool{"loggedAs": true, "userID": true, "pid": true, "filePath": true, "keyType": true, "fingerprint": true}

func subj(e obsEvent, k string) *string {
	if v, ok := e.Subjects[k]; ok {
		return &v
	}
	return nil
}

func coqEvent(e obsEvent) (string, string) {
	for k := range e.Subjects {
		if !knownSubjects[k] {
			return "", "unknown subject key " + k
		}
	}
	if e.Bad != "" {
		return "", e.Bad
	}
	if e.Type != "UserLogin" || e.Comp != "sshd" || e.SrcType != "IP" {
		return "", fmt.Sprintf("type/component/source type = %s/%s/%s", e.Type, e.Comp, e.SrcType)
	}
	la, uid, pid := subj(e, "loggedAs"), subj(e, "userID"), subj(e, "pid")
	if la == nil || uid == nil || pid == nil {
		return "", "subjects lack loggedAs/userID/pid"
	}
	keys := make([]string, 0, len(e.Data))
	for k := range e.Data {
		keys = append(keys, k)
	}
	sort.Strings(keys)
	var ds []string
	for _, k := range keys {
		ds = append(ds, fmt.Sprintf("(\"%s\"%%string, %s)", k, hutil.CoqStr(e.Data[k])))
	}
	host, mid := e.Target["host"], e.Target["machine-id"]
	return fmt.Sprintf("(OEv %s %s %s %s %s %s %s %s %s %s %s %s %s %s %s)",
		hutil.CoqBool(e.OK), hutil.CoqStr(e.Src), optStr(e.Port), optStr(e.DNS), hutil.CoqStr(*la), hutil.CoqStr(*uid), hutil.CoqStr(*pid),
		optStr(subj(e, "filePath")), optStr(subj(e, "keyType")), optStr(subj(e, "fingerprint")), optStr(e.Shell),
		hutil.CoqList(ds), hutil.CoqStr(host), hutil.CoqStr(mid), hutil.CoqBool(e.Lossy)), ""
}

func retCode(s string) (int, bool) {
	switch {
	case s == "ok":
		return 0, true
	case s == "write":
		return 1, true
	case strings.HasPrefix(s, "panic:"):
		return 2, true
	}
	return 0, false
}

var metricNames = map[string]string{"ssh-cert": "SSHCertLogin", "ssh-key": "SSHKeyLogin", "password": "PasswordLogin", "unknown": "UnknownLogin"}
var outcomeNames = map[string]string{"success": "Success", "failure": "Failure"}

func coqCase(tok, msg string, mode runMode, o observation) (string, string) {
	var evs []string
	for _, e := range o.Events {
		s, bad := coqEvent(e)
		if bad != "" {
			return "", bad
		}
		evs = append(evs, s)
	}
	var fw []string
	for _, f := range o.Fwds {
		fw = append(fw, fmt.Sprintf("(%s, %s, %s)", hutil.CoqZ(int64(f.PID)), hutil.CoqStr(f.Cred), hutil.CoqBool(f.SameEvt && f.AfterEnc)))
	}
	var ms []string
	keys := make([]string, 0, len(o.Metrics))
	for k := range o.Metrics {
		keys = append(keys, k)
	}
	sort.Strings(keys)
	for _, k := range keys {
		p := strings.SplitN(k, "/", 2)
		mn, ok1 := metricNames[p[0]]
		on, ok2 := outcomeNames[p[1]]
		if !ok1 || !ok2 {
			return "", "unknown counter label " + k
		}
		for i := 0; i < o.Metrics[k]; i++ {
			ms = append(ms, fmt.Sprintf("(\"%s\"%%string, \"%s\"%%string)", mn, on))
		}
	}
	rc, ok := retCode(o.Ret)
	if !ok {
		return "", "unexpected error returned: " + o.Ret
	}
	return fmt.Sprintf("(SCase %s %s %s %s %d %s %s %s)", hutil.CoqStr(tok), hutil.CoqStr(msg), hutil.CoqBool(mode.WriteOK), hutil.CoqBool(mode.Ready),
		rc, hutil.CoqList(evs), hutil.CoqList(fw), hutil.CoqList(ms)), ""
}

// ---------- main ----------

type caseDesc struct {
	Tok  string  `json:"pid_token"`
	Gen  genLine `json:"input"`
	Mode runMode `json:"mode"`
}

func main() {
	out := flag.String("out", "", "output directory")
	n := flag.Int("n", 400, "number of cases")
	prop := flag.String("prop", "C06", "property")
	replay := flag.String("replay", "", "replay file")
	flag.Parse()
	sshd.SetLogger(zap.NewNop().Sugar())
	seed := hutil.SeedFromEnv()
	if *replay != "" {
		os.Exit(doReplay(*replay, *prop))
	}
	r := hutil.NewRand(seed ^ hashStr(*prop))
	sum := hutil.NewSummary(*prop, seed, ruleText(*prop))
	cases := &hutil.CaseFile{Dir: *out, Stem: "cases_sshd", PerFile: 60,
		Header: "From Coq Require Import Ascii String List Bool Arith ZArith.\nImport ListNotations.\nFrom AM Require Import Lib.Bytes Model.SshdProc Model.SshdCheck.\n",
		Footer: func(int) string { return "Definition M := Eval vm_compute in mismatches cases.\nPrint M.\n" }}
	// the lines processed before a failing one, in this process: a failure may depend on what came before
	// (state kept across lines: pools, caches, counters); replays feed them first
	var history []caseDesc
	for i := 0; i < *n; i++ {
		g, tok, mode := genCase(r, *prop, i)
		o := runOne(tok, g.Line, mode)
		desc := caseDesc{Tok: tok, Gen: g, Mode: mode}
		prev := history
		history = append(history, desc)
		if len(history) > 40 {
			history = history[len(history)-40:]
		}
		// correspondence case: always "as if handed over directly" — for framed runs the model is
		// evaluated on (tok, message), which is exactly what C07 claims
		c, bad := coqCase(tok, g.Line, mode, o)
		if len(g.Line) > 160 {
			// the model's backtracking matcher is polynomial, Go's is linear: long lines are judged
			// by the oracle only
			sum.Dist("not_sent_to_model_long_line")
		} else if bad != "" {
			sum.FailKey("harness", "uninterpretable", "cannot interpret what the implementation produced: "+bad, map[string]any{"case": desc, "observed": o})
		} else {
			cases.AddDesc(c, desc)
		}
		for _, f := range judge(*prop, desc, o) {
			sum.FailKey("oracle", f.key, f.what, map[string]any{"case": desc, "observed": o, "processed_before": append([]caseDesc{}, prev...)})
		}
		sum.Count(tok+"\x00"+g.Line+fmt.Sprint(mode), len(o.Events) > 0)
		sum.Dist("form_" + g.Form)
		sum.Dist(fmt.Sprintf("events_%d", len(o.Events)))
		sum.Dist(fmt.Sprintf("forwards_%d", len(o.Fwds)))
		sum.Dist("ret_" + strings.SplitN(o.Ret, ":", 2)[0])
		if !mode.WriteOK {
			sum.Dist("mode_write_failure")
		}
		if mode.Debug {
			sum.Dist("mode_debug_logging")
		}
		if !mode.Ready {
			sum.Dist("mode_cancelled")
		}
		if mode.Framed {
			sum.Dist("mode_framed")
		}
		if i < 4 {
			sum.Sample(map[string]any{"pid_token": tok, "line": g.Line, "mode": mode, "events": len(o.Events), "forwards": len(o.Fwds)})
		}
	}
	if *prop == "C07" {
		auditFramingChecks(sum, r, *n/2)
		fifoLevel(sum, r, *out, 1+*n/60)
	}
	cases.Flush()
	sum.CaseFiles = cases.Files
	sum.Write(*out)
}

func hashStr(s string) uint64 {
	var h uint64 = 1469598103934665603
	for i := 0; i < len(s); i++ {
		h = (h ^ uint64(s[i])) * 1099511628211
	}
	return h
}

func ruleText(prop string) string {
	return "messages rendered from sshd's format strings with generated field values (account names incl. unicode and words of the message, IPv4/IPv6/zone ids/host names, ports, all key types and lower-case/underscore/'ssh'-prefixed names of the class [A-Za-z0-9_-], SHA256/MD5 fingerprints incl. '=' padding, key IDs with spaces/parentheses/'serial'/'(serial N)'/' from A port N'/partial ' ssh2: ' fragments (domain no_ssh_frag of C06_accepted_cert), forged fragments in the account of accepted lines, serials to 2^64-1, paths with spaces), " +
		"hostile names (C17), arbitrary bytes and systematic mutations (C11), PID tokens (valid, signed, overflowing, empty, non-numeric), write failure and cancelled hand-off modes (C05), framed delivery through SyslogIngester.Process (C07); " +
		"each case runs on the real processor with a private counter registry; the " + prop + " oracle is evaluated from the generated fields; non-trivial = the case makes the implementation write an event; distinct by (token, line, mode)"
}

func genCase(r *hutil.Rand, prop string, i int) (genLine, string, runMode) {
	mode := runMode{WriteOK: true, Ready: true, Debug: i%3 == 1}
	switch prop {
	case "C06":
		return genForm(r, formNames[i%len(formNames)]), genPidToken(r, false), mode /*C06LIST*/
	case "C17":
		if i%4 == 3 { // through the syslog ingester, as in the daemon
			mode.Framed, mode.Pad = true, i%3
		}
		return genClientName(r), genPidToken(r, false), mode
	case "C11":
		switch i % 7 {
		case 3: // through the syslog ingester, as in the daemon: what reaches the processor must be the line's own bytes
			mode.Framed, mode.Pad = true, i%3
			return genClientName(r), genPidToken(r, false), mode
		case 5:
			mode.Framed, mode.Pad = true, i%2
			return genForm(r, hutil.Pick(r, formNamesAll)), genPidToken(r, false), mode
		}
		if i%5 == 0 {
			return genForm(r, hutil.Pick(r, formNamesAll)), genPidToken(r, true), mode
		}
		return genHostile(r), genPidToken(r, i%3 == 0), mode
	case "C19":
		switch i % 3 {
		case 0:
			return genHostile(r), genPidToken(r, true), mode
		case 1:
			return genClientName(r), genPidToken(r, false), mode
		}
		return genForm(r, hutil.Pick(r, formNamesAll)), genPidToken(r, i%4 == 0), mode
	case "C05":
		var g genLine
		switch i % 4 {
		case 0, 1, 2:
			g = genForm(r, []string{"accepted_key", "accepted_cert", "accepted_password", "accepted_key_padded"}[(i/4+i)%4])
		default:
			switch r.Intn(3) {
			case 0:
				g = genForm(r, hutil.Pick(r, formNamesAll))
			case 1:
				g = genClientName(r) // failure lines with client-chosen names (incl. complete "Accepted ..." messages)
			default:
				g = genHostile(r)
			}
		}
		switch (i / 4) % 3 {
		case 1:
			mode.WriteOK = false
		case 2:
			mode.Ready = false
		}
		return g, genPidToken(r, i%5 == 0), mode
	case "C07":
		mode.Framed = true
		mode.Pad = []int{0, 0, 1, 3}[i%4]
		if i%7 == 6 {
			return genClientName(r), genPidToken(r, false), mode
		}
		return genForm(r, formNames[i%len(formNames)]), genPidToken(r, false), mode
	}
	return genForm(r, hutil.Pick(r, formNamesAll)), genPidToken(r, false), mode
}

func doReplay(path, prop string) int {
	raw, err := os.ReadFile(path)
	if err != nil {
		fmt.Println("cannot read replay:", err)
		return 2
	}
	var rp struct {
		Property string `json:"property"`
		Replay   struct {
			Case   *caseDesc    `json:"case"`
			Before []caseDesc   `json:"processed_before"`
			Fifo   []fifoRecord `json:"fifo_records"`
		} `json:"replay"`
	}
	if err := json.Unmarshal(raw, &rp); err == nil && len(rp.Replay.Fifo) > 0 {
		dir, _ := os.MkdirTemp("", "fiforeplay")
		defer os.RemoveAll(dir)
		got, want, herr := runFifo(rp.Replay.Fifo, hutil.NewRand(1), dir)
		if herr != "" || strings.Join(got, "\n") != strings.Join(want, "\n") {
			fmt.Println("REPRODUCED framed:fifo: records through the FIFO and handed over directly differ", herr)
			return 1
		}
		fmt.Println("not reproduced")
		return 0
	}
	if err := json.Unmarshal(raw, &rp); err != nil || rp.Replay.Case == nil {
		fmt.Println("replay file carries no case (no failing input was found)")
		return 2
	}
	if rp.Property != "" {
		prop = rp.Property
	}
	d := *rp.Replay.Case
	var o observation
	var fs []failure
	if len(rp.Replay.Before) == 0 {
		o = runOne(d.Tok, d.Gen.Line, d.Mode)
		fs = judge(prop, d, o)
	} else {
		// the failure may depend on the lines processed before it in the same process (state kept across lines:
		// pools, caches, counters): feed them first, in order, then the line — never the line first, which could
		// itself prime such state.  State may live in per-processor caches (sync.Pool) and be dropped by the GC:
		// a few attempts, the later ones on a single processor.
		for try := 0; try < 8 && len(fs) == 0; try++ {
			if try == 3 {
				runtime.GOMAXPROCS(1)
			}
			for _, b := range rp.Replay.Before {
				runOne(b.Tok, b.Gen.Line, b.Mode)
			}
			o = runOne(d.Tok, d.Gen.Line, d.Mode)
			fs = judge(prop, d, o)
		}
		if len(fs) > 0 {
			fmt.Printf("(replayed after the %d lines processed before it)\n", len(rp.Replay.Before))
		}
	}
	for _, f := range fs {
		fmt.Printf("REPRODUCED %s: %s\n", f.key, f.what)
	}
	if len(fs) > 0 {
		return 1
	}
	fmt.Println("not reproduced")
	return 0
}
