//go:build verif

// Harness for the sshd processor properties (C05 C06 C07 C11 C17 C19): feeds generated
// messages to ONE long-lived sshd processor, as the daemon does (NewSshdProcessor once, then every line
// through ProcessSshdLogEntry, directly or through SyslogIngester.Process), records
// the event written, the login forwarded, the counters and the return value, writes them as
// Coq case files for the model and evaluates each property's oracle.  Lines are repeated (the same
// line several times in a row, A B A) since sshd legitimately prints identical lines; the writer may fail
// for good or fail k times and then recover.  Mode "slow" (slow.go): hand-offs nobody takes for seconds.
package main

import (
	"context"
	"encoding/hex"
	"encoding/json"
	"errors"
	"flag"
	"fmt"
	"os"
	"runtime"
	"sort"
	"strings"
	"sync"
	"time"
	"unicode/utf8"

	"github.com/metal-toolbox/auditevent"
	"github.com/prometheus/client_golang/prometheus"
	"go.uber.org/zap"

	"github.com/metal-toolbox/audito-maldito/ingesters/syslog"
	"github.com/metal-toolbox/audito-maldito/internal/common"
	"github.com/metal-toolbox/audito-maldito/internal/metrics"
	"github.com/metal-toolbox/audito-maldito/internal/verifharness/hutil"
	"github.com/metal-toolbox/audito-maldito/processors/sshd"
)

const nodeName = "node-7"
const machineID = "mid-0123"

var errInjected = errors.New("injected write failure")

type obsEvent struct {
	OK       bool              `json:"ok"`
	Type     string            `json:"type"`
	Comp     string            `json:"component"`
	Src      string            `json:"src"`
	SrcType  string            `json:"src_type"`
	Port     *string           `json:"port,omitempty"`
	DNS      *string           `json:"dns,omitempty"`
	Subjects map[string]string `json:"subjects"`
	Shell    *string           `json:"shell,omitempty"`
	Data     map[string]string `json:"data,omitempty"`
	Lossy    bool              `json:"data_lossy,omitempty"`
	Target   map[string]string `json:"target"`
	When     time.Time         `json:"when"`
	ptr      *auditevent.AuditEvent
	Bad      string `json:"bad,omitempty"`
	Failed   bool   `json:"write_failed,omitempty"` // the writer rejected this event: attempted, not emitted
	raw      string // the event as the daemon's writer would serialise it (encoding/json), "" if that failed
}

// emitted returns the events the writer accepted (what the daemon's output would hold).
func emitted(evs []obsEvent) []obsEvent {
	var out []obsEvent
	for _, e := range evs {
		if !e.Failed {
			out = append(out, e)
		}
	}
	return out
}

type obsFwd struct {
	PID      int    `json:"pid"`
	Cred     string `json:"cred"`
	SameEvt  bool   `json:"same_event"`
	AfterEnc bool   `json:"after_write"`
}

type observation struct {
	Ret     string         `json:"ret"` // ok | write | panic:<msg> | other:<msg>
	Events  []obsEvent     `json:"events"`
	Fwds    []obsFwd       `json:"forwards"`
	Metrics map[string]int `json:"metrics"` // "method/outcome" -> delta
	T0, T1  time.Time      `json:"-"`
}

type encRec struct {
	fail     bool // every write fails
	failLeft int  // the next failLeft writes fail, later ones work (a sink that recovers)
	events   []obsEvent
	seq      *int
	at       []int
	wrote    chan struct{} // if non-nil: signalled (non-blocking) after every Encode
	mu       sync.Mutex    // events / at: Encode may run while another goroutine looks (mode slow)
	onWrite  func()        // if non-nil: called at the beginning of every Encode (mode slow: time of the write)
}

// snapshot: the events recorded so far (for a goroutine other than the one inside the processor).
func (e *encRec) snapshot() []obsEvent {
	e.mu.Lock()
	defer e.mu.Unlock()
	return append([]obsEvent(nil), e.events...)
}

// begin resets the per-line record of the long-lived encoder.
func (e *encRec) begin(mode runMode, seq *int) {
	e.fail, e.failLeft, e.events, e.at, e.seq = !mode.WriteOK, mode.FailFirst, nil, nil, seq
}

func (e *encRec) Encode(v any) error {
	if e.onWrite != nil {
		e.onWrite()
	}
	*e.seq++
	ev, ok := v.(*auditevent.AuditEvent)
	if !ok {
		return fmt.Errorf("not an audit event")
	}
	o := obsEvent{OK: ev.Outcome == auditevent.OutcomeSucceeded, Type: ev.Type, Comp: ev.Component, Src: ev.Source.Value,
		SrcType: ev.Source.Type, Subjects: map[string]string{}, Target: map[string]string{}, When: ev.LoggedAt, ptr: ev}
	if ev.Outcome != auditevent.OutcomeSucceeded && ev.Outcome != auditevent.OutcomeFailed {
		o.Bad = "outcome " + ev.Outcome
	}
	for k, v := range ev.Subjects {
		o.Subjects[k] = v
	}
	for k, v := range ev.Target {
		o.Target[k] = v
	}
	for k, v := range ev.Source.Extra {
		s, isStr := v.(string)
		switch {
		case k == "port" && isStr:
			o.Port = &s
		case k == "dns" && isStr:
			o.DNS = &s
		default:
			o.Bad = "source.extra key " + k
		}
	}
	for k, v := range ev.Metadata.Extra {
		s, isStr := v.(string)
		if k == "shell" && isStr {
			o.Shell = &s
		} else {
			o.Bad = "metadata.extra key " + k
		}
	}
	if ev.Data != nil {
		o.Data = map[string]string{}
		if err := json.Unmarshal(*ev.Data, &o.Data); err != nil {
			o.Bad = "data is not a JSON object of strings"
		}
		for _, v := range o.Data {
			if strings.ContainsRune(v, '�') {
				o.Lossy = true // json.Marshal replaced invalid UTF-8: not comparable byte for byte
			}
		}
	}
	failNow := e.fail
	if e.failLeft > 0 {
		e.failLeft--
		failNow = true
	}
	// what the daemon's own writer (encoding/json) does with the event: an event that cannot be serialised
	// is a write error there, so it is one here
	var serr error
	if !failNow {
		if b, err := json.Marshal(ev); err != nil {
			serr = fmt.Errorf("event cannot be serialised: %w", err)
		} else {
			o.raw = string(b)
		}
	}
	o.Failed = failNow || serr != nil
	e.mu.Lock()
	e.events = append(e.events, o)
	e.at = append(e.at, *e.seq)
	e.mu.Unlock()
	if e.wrote != nil {
		select {
		case e.wrote <- struct{}{}:
		default:
		}
	}
	if failNow {
		return errInjected
	}
	return serr
}

type runMode struct {
	WriteOK bool `json:"write_ok"`
	Ready   bool `json:"ready"` // the correlator takes the login; otherwise the context is cancelled and nobody reads
	Framed  bool `json:"framed"`
	Pad     int  `json:"pad"`
	Debug   bool `json:"debug_logging,omitempty"` // the sshd package logger has DEBUG enabled
	// the first FailFirst writes of this line are rejected, later ones accepted (a sink that recovers); with code
	// that writes once per line this is a failed write
	FailFirst int `json:"fail_first_writes,omitempty"`
	// with Ready == false: the context is not cancelled before the line but WHILE the hand-off is blocked (nobody
	// receives): a moment after the encoder has seen the event.  What must be observed is the same as for a
	// context cancelled beforehand: the event, no forward, nil, the counter moved once.
	CancelLate bool `json:"cancel_while_blocked,omitempty"`
	// fault COMBINATIONS: the state of the context is an input of its own, whatever the writer and the receiver do.
	// CancelBefore (with Ready): the context is cancelled before the line while the correlator IS receiving: both arms of
	// the hand-off's select are ready.  CancelInWrite (with or without Ready): the context is cancelled from inside the
	// event write (shutdown begins while the sink is being written to - the failing sink may be its very cause).
	// What must be observed: a rejected write is returned as an error and nothing is forwarded, whatever the context;
	// an accepted write with a cancelled context and a receiving correlator may or may not forward (the property says
	// "unless its context is cancelled"), and what it forwards is the written event.
	CancelBefore  bool `json:"cancel_before_line_receiver_ready,omitempty"`
	CancelInWrite bool `json:"cancel_inside_event_write,omitempty"`
}

// raceyHandoff: context cancelled and receiver ready: which arm the select takes is the scheduler's choice
func (m runMode) raceyHandoff() bool { return m.Ready && (m.CancelBefore || m.CancelInWrite) }

// writeFails: the (first) write of this line's event is rejected
func (m runMode) writeFails() bool { return !m.WriteOK || m.FailFirst > 0 }

func counters(reg *prometheus.Registry) map[string]float64 {
	out := map[string]float64{}
	mfs, _ := reg.Gather()
	for _, mf := range mfs {
		if mf.GetName() != "audito_maldito_remote_logins_total" {
			continue
		}
		for _, m := range mf.GetMetric() {
			var method, outcome string
			for _, l := range m.GetLabel() {
				if l.GetName() == "method" {
					method = l.GetValue()
				}
				if l.GetName() == "outcome" {
					outcome = l.GetValue()
				}
			}
			out[method+"/"+outcome] = m.GetCounter().GetValue()
		}
	}
	return out
}

var sharedReg = prometheus.NewRegistry()
var sharedPM = metrics.NewPrometheusMetricsProviderForRegisterer(sharedReg)

// The long-lived part, as in the daemon (cmd/namedpipe.go): ONE logins channel (unbuffered), ONE event writer,
// ONE metrics provider, ONE sshd processor built once by NewSshdProcessor with a context that is never
// cancelled, ONE syslog ingester holding it.  Every line of the run goes through this processor's
// ProcessSshdLogEntry, so state kept across lines (a remembered previous record, caches, pools) is exercised.
type procEnv struct {
	logins chan common.RemoteUserLogin
	enc    *encRec
	p      sshd.SshdProcessor
	si     *syslog.SyslogIngester
}

var env = newProcEnv(sharedPM)

func newProcEnv(pm *metrics.PrometheusMetricsProvider) *procEnv {
	e := &procEnv{logins: make(chan common.RemoteUserLogin), enc: &encRec{seq: new(int)}}
	e.p = sshd.NewSshdProcessor(context.Background(), e.logins, nodeName, machineID, auditevent.NewAuditEventWriter(e.enc), pm)
	e.si = &syslog.SyslogIngester{SshdProcessor: e.p}
	return e
}

// callTimeout: how long one line may take before the run is given up (a correct daemon needs microseconds; the bound
// is generous because the machine may be heavily loaded).
const callTimeout = 30 * time.Second

// onHang is set by main / doReplay: what to do when a call has not returned within callTimeout.
var onHang = func(tok, msg string, mode runMode) {
	fmt.Printf("the call for %q did not return within %s\n", msg, callTimeout)
	os.Exit(3)
}

// runOne processes (tok, msg) on the long-lived processor.
func runOne(tok, msg string, mode runMode) observation {
	// one long-lived registry and provider for the whole run, as in the daemon: counters are
	// read before and after each line
	reg := sharedReg
	sshd.SetLogger(hutil.Logger(mode.Debug))
	seq := 0
	enc := env.enc
	enc.begin(mode, &seq)
	logins := env.logins
	// the context of this call (what the ingester passes on); the processor's own context stays live
	ctx, cancel := context.WithCancel(context.Background())
	defer cancel()
	var fwds []obsFwd
	recvDone := make(chan struct{})
	// the correlator's side ends when the call is over (stop), not when the call's context does: the two are separate inputs
	stop := make(chan struct{})
	if mode.CancelInWrite {
		enc.onWrite = cancel
		defer func() { enc.onWrite = nil }()
	}
	if mode.Ready {
		started := make(chan struct{})
		go func() {
			defer close(recvDone)
			close(started)
			for {
				select {
				case l := <-logins:
					seq++
					f := obsFwd{PID: l.PID, Cred: l.CredUserID}
					if n := len(enc.events); n > 0 {
						f.SameEvt = l.Source == enc.events[n-1].ptr && !enc.events[n-1].Failed
						f.AfterEnc = enc.at[n-1] < seq
					}
					fwds = append(fwds, f)
				case <-stop:
					return
				}
			}
		}()
		if mode.raceyHandoff() {
			// both arms of the hand-off are to be ready: let the receiver reach its receive first
			<-started
			runtime.Gosched()
			if mode.CancelBefore {
				cancel()
			}
		}
	} else {
		close(recvDone)
		if mode.CancelInWrite {
			// cancelled by the encoder (above); nobody receives
		} else if !mode.CancelLate {
			cancel() // cancelled while the hand-off would block on an unready correlator
		} else {
			// cancelled once the call is inside the blocked hand-off: after the encoder saw the event (plus a moment to
			// reach the select); a line that writes nothing is simply over before
			enc.wrote = make(chan struct{}, 8)
			defer func() { enc.wrote = nil }()
			wrote, over := enc.wrote, make(chan struct{})
			defer close(over)
			go func() {
				select {
				case <-wrote:
					time.Sleep(2 * time.Millisecond)
				case <-over:
				case <-time.After(2 * time.Second):
				}
				cancel()
			}()
		}
	}
	before := counters(reg)
	var obs observation
	obs.T0 = time.Now()
	// a call that does not come back (a hand-off that ignores its context, a lock never released) must not stall the
	// run until the framework's time-out: the watchdog reports the case and ends the process
	wd := time.AfterFunc(callTimeout, func() { onHang(tok, msg, mode) })
	func() {
		defer func() {
			if r := recover(); r != nil {
				obs.Ret = fmt.Sprintf("panic:%v", r)
			}
		}()
		var err error
		if mode.Framed {
			err = env.si.Process(ctx, tok+" "+strings.Repeat(" ", mode.Pad)+msg+"\n")
		} else {
			err = env.p.ProcessSshdLogEntry(ctx, sshd.SshdLogEntry{Message: msg, PID: tok})
		}
		switch {
		case err == nil:
			obs.Ret = "ok"
		case errors.Is(err, errInjected):
			obs.Ret = "write"
		default:
			obs.Ret = "other:" + err.Error()
		}
	}()
	if !wd.Stop() {
		select {} // the watchdog has fired and is ending the process
	}
	obs.T1 = time.Now()
	cancel()
	close(stop)
	<-recvDone
	obs.Events = enc.events
	obs.Fwds = fwds
	obs.Metrics = map[string]int{}
	for k, v := range counters(reg) {
		if d := int(v - before[k]); d != 0 {
			obs.Metrics[k] = d
		}
	}
	return obs
}

// ---------- Coq rendering ----------

func optStr(s *string) string {
	if s == nil {
		return "None"
	}
	return "(Some " + hutil.CoqStr(*s) + ")"
}

var knownSubjects = map[string]bool{"loggedAs": true, "userID": true, "pid": true, "filePath": true, "keyType": true, "fingerprint": true}

func subj(e obsEvent, k string) *string {
	if v, ok := e.Subjects[k]; ok {
		return &v
	}
	return nil
}

func coqEvent(e obsEvent) (string, string) {
	for k := range e.Subjects {
		if !knownSubjects[k] {
			return "", "unknown subject key " + k
		}
	}
	if e.Bad != "" {
		return "", e.Bad
	}
	if e.Type != "UserLogin" || e.Comp != "sshd" || e.SrcType != "IP" {
		return "", fmt.Sprintf("type/component/source type = %s/%s/%s", e.Type, e.Comp, e.SrcType)
	}
	la, uid, pid := subj(e, "loggedAs"), subj(e, "userID"), subj(e, "pid")
	if la == nil || uid == nil || pid == nil {
		return "", "subjects lack loggedAs/userID/pid"
	}
	keys := make([]string, 0, len(e.Data))
	for k := range e.Data {
		keys = append(keys, k)
	}
	sort.Strings(keys)
	var ds []string
	for _, k := range keys {
		ds = append(ds, fmt.Sprintf("(\"%s\"%%string, %s)", k, hutil.CoqStr(e.Data[k])))
	}
	host, mid := e.Target["host"], e.Target["machine-id"]
	return fmt.Sprintf("(OEv %s %s %s %s %s %s %s %s %s %s %s %s %s %s %s)",
		hutil.CoqBool(e.OK), hutil.CoqStr(e.Src), optStr(e.Port), optStr(e.DNS), hutil.CoqStr(*la), hutil.CoqStr(*uid), hutil.CoqStr(*pid),
		optStr(subj(e, "filePath")), optStr(subj(e, "keyType")), optStr(subj(e, "fingerprint")), optStr(e.Shell),
		hutil.CoqList(ds), hutil.CoqStr(host), hutil.CoqStr(mid), hutil.CoqBool(e.Lossy)), ""
}

func retCode(s string) (int, bool) {
	switch {
	case s == "ok":
		return 0, true
	case s == "write":
		return 1, true
	case strings.HasPrefix(s, "panic:"):
		return 2, true
	}
	return 0, false
}

var metricNames = map[string]string{"ssh-cert": "SSHCertLogin", "ssh-key": "SSHKeyLogin", "password": "PasswordLogin", "unknown": "UnknownLogin"}
var outcomeNames = map[string]string{"success": "Success", "failure": "Failure"}

func coqCase(tok, msg string, mode runMode, o observation) (string, string) {
	var evs []string
	for _, e := range o.Events {
		s, bad := coqEvent(e)
		if bad != "" {
			return "", bad
		}
		evs = append(evs, s)
	}
	var fw []string
	for _, f := range o.Fwds {
		fw = append(fw, fmt.Sprintf("(%s, %s, %s)", hutil.CoqZ(int64(f.PID)), hutil.CoqStr(f.Cred), hutil.CoqBool(f.SameEvt && f.AfterEnc)))
	}
	var ms []string
	keys := make([]string, 0, len(o.Metrics))
	for k := range o.Metrics {
		keys = append(keys, k)
	}
	sort.Strings(keys)
	for _, k := range keys {
		p := strings.SplitN(k, "/", 2)
		mn, ok1 := metricNames[p[0]]
		on, ok2 := outcomeNames[p[1]]
		if !ok1 || !ok2 {
			return "", "unknown counter label " + k
		}
		for i := 0; i < o.Metrics[k]; i++ {
			ms = append(ms, fmt.Sprintf("(\"%s\"%%string, \"%s\"%%string)", mn, on))
		}
	}
	rc, ok := retCode(o.Ret)
	if !ok {
		return "", "unexpected error returned: " + o.Ret
	}
	return fmt.Sprintf("(SCase %s %s %s %s %d %s %s %s)", hutil.CoqStr(tok), hutil.CoqStr(msg), hutil.CoqBool(!mode.writeFails()), hutil.CoqBool(mode.Ready),
		rc, hutil.CoqList(evs), hutil.CoqList(fw), hutil.CoqList(ms)), ""
}

// ---------- main ----------

type caseDesc struct {
	Tok  string  `json:"pid_token"`
	Gen  genLine `json:"input"`
	Mode runMode `json:"mode"`
	// JSON cannot carry bytes that are not valid UTF-8: such lines / tokens are also stored in hex, and a replay
	// restores them byte for byte
	LineHex string `json:"line_hex,omitempty"`
	TokHex  string `json:"pid_token_hex,omitempty"`
}

func (d *caseDesc) seal() {
	if !utf8.ValidString(d.Gen.Line) {
		d.LineHex = hex.EncodeToString([]byte(d.Gen.Line))
	}
	if !utf8.ValidString(d.Tok) {
		d.TokHex = hex.EncodeToString([]byte(d.Tok))
	}
}

func (d *caseDesc) unseal() {
	if b, err := hex.DecodeString(d.LineHex); err == nil && d.LineHex != "" {
		d.Gen.Line = string(b)
	}
	if b, err := hex.DecodeString(d.TokHex); err == nil && d.TokHex != "" {
		d.Tok = string(b)
	}
}

func main() {
	out := flag.String("out", "", "output directory")
	n := flag.Int("n", 400, "number of cases")
	prop := flag.String("prop", "C06", "property")
	replay := flag.String("replay", "", "replay file")
	modeFlag := flag.String("mode", "", "\"\" = generated lines on the long-lived processor; slow = hand-offs nobody takes for a while (C05); stall = records reaching the real FIFOs in pieces with pauses (C07)")
	delays := flag.String("delays", "150,700,2500", "mode slow: milliseconds during which nobody receives, comma separated")
	stalls := flag.String("stalls", "200,600,1200", "mode stall: milliseconds the writer pauses inside a record, comma separated")
	per := flag.Int("per", 3, "mode stall: cases per pause length and pipe")
	flag.Parse()
	sshd.SetLogger(zap.NewNop().Sugar())
	seed := hutil.SeedFromEnv()
	if *replay != "" {
		os.Exit(doReplay(*replay, *prop))
	}
	r := hutil.NewRand(seed ^ hashStr(*prop))
	if *modeFlag == "slow" {
		slowStage(*prop, seed, r, *delays, *out)
		return
	}
	if *modeFlag == "stall" {
		stallStage(*prop, seed, r, *stalls, *per, *out)
		return
	}
	sum := hutil.NewSummary(*prop, seed, ruleText(*prop))
	cases := &hutil.CaseFile{Dir: *out, Stem: "cases_sshd", PerFile: 60,
		Header: "From Coq Require Import Ascii String List Bool Arith ZArith.\nImport ListNotations.\nFrom AM Require Import Lib.Bytes Model.SshdProc Model.SshdCheck.\n",
		Footer: func(int) string { return "Definition M := Eval vm_compute in mismatches cases.\nPrint M.\n" }}
	// the lines processed before a failing one, in this process: a failure may depend on what came before
	// (state kept across lines: pools, caches, counters); replays feed them first
	var history []caseDesc
	// sshd legitimately prints byte-identical lines from one process (every wrong password on one connection,
	// repeated refusals): a generated case is followed, now and then, by itself (2-4 times in a row) or by
	// another line and itself again (A B A, A B A B), B being fresh or A under another PID.  Every line, repeated
	// or not, is judged on its own by the property's oracle.
	var queue []caseDesc
	gi, fresh, ordered := 0, 0, 0
	var cur caseDesc
	onHang = func(tok, msg string, mode runMode) {
		// the main goroutine is stuck inside the call: nothing else touches the summary any more
		what := fmt.Sprintf("processing %q (pid token %q, mode %+v) did not return within %s", msg, tok, mode, callTimeout)
		if !mode.Ready {
			what += " although its context was cancelled while nobody received the login"
		}
		sum.FailKey("oracle", hangKey(*prop), what, map[string]any{"case": cur, "processed_before": append([]caseDesc{}, history...)})
		sum.Notes = append(sum.Notes, "run given up after a call that did not return")
		cases.Flush()
		sum.CaseFiles = cases.Files
		sum.Write(*out)
		os.Exit(0)
	}
	for i := 0; i < *n; i++ {
		var desc caseDesc
		if len(queue) > 0 {
			desc, queue = queue[0], queue[1:]
			sum.Dist("repeated_line")
		} else {
			g, tok, mode := genCase(r, *prop, gi)
			gi++
			desc = caseDesc{Tok: tok, Gen: g, Mode: mode}
			desc.seal()
			if r.Chance(1, 7) {
				a := desc
				switch r.Intn(6) {
				case 0:
					queue = []caseDesc{a}
				case 1:
					queue = []caseDesc{a, a}
				case 2:
					queue = []caseDesc{a, a, a}
				case 3, 4:
					g2, tok2, mode2 := genCase(r, *prop, gi)
					gi++
					b := caseDesc{Tok: tok2, Gen: g2, Mode: mode2}
					if r.Chance(1, 3) && !(b.Mode.Framed && strings.Contains(a.Tok, " ")) {
						b.Tok = a.Tok // another message from the SAME process (a failed attempt, then the next one)
					}
					b.seal()
					queue = []caseDesc{b, a}
					if r.Bool() {
						queue = append(queue, b)
					}
				default: // the same message from another process in between
					b := a
					b.Tok, b.TokHex = genPidToken(r, false), ""
					queue = []caseDesc{b, a}
				}
			}
			// ORDER as an input (gen.go: genOrdered): the case right after a genuine line of each kind in rotation
			if share := orderedShare[*prop]; share > 0 && fresh%share == 1 {
				prevs, follow, after := genOrdered(r, ordered, desc)
				ordered++
				queue = append(append(append([]caseDesc{}, prevs[1:]...), follow), queue...)
				desc = prevs[0]
				sum.Dist("ordered_after_" + after)
			}
			fresh++
		}
		g, tok, mode := desc.Gen, desc.Tok, desc.Mode
		cur = desc
		o := runOne(tok, g.Line, mode)
		prev := history
		history = append(history, desc)
		if len(history) > 40 {
			history = history[len(history)-40:]
		}
		// correspondence case: always "as if handed over directly" — for framed runs the model is
		// evaluated on (tok, message), which is exactly what C07 claims
		c, bad := coqCase(tok, g.Line, mode, o)
		if mode.raceyHandoff() && !mode.writeFails() {
			// context cancelled AND correlator receiving: which arm the select takes is not determined (the model's
			// hand-off is taken or cancelled); judged by the oracle only
			sum.Dist("not_sent_to_model_cancelled_with_receiver_ready")
		} else if len(g.Line) > 160 {
			// the model's backtracking matcher is polynomial, Go's is linear: long lines are judged
			// by the oracle only
			sum.Dist("not_sent_to_model_long_line")
		} else if bad != "" {
			sum.FailKey("harness", "uninterpretable", "cannot interpret what the implementation produced: "+bad, map[string]any{"case": desc, "observed": o})
		} else {
			cases.AddDesc(c, desc)
		}
		for _, f := range judge(*prop, desc, o) {
			sum.FailKey("oracle", f.key, f.what, map[string]any{"case": desc, "observed": o, "processed_before": append([]caseDesc{}, prev...)})
		}
		sum.Count(tok+"\x00"+g.Line+fmt.Sprint(mode), len(o.Events) > 0)
		sum.Dist("form_" + g.Form)
		sum.Dist(fmt.Sprintf("events_%d", len(o.Events)))
		sum.Dist(fmt.Sprintf("forwards_%d", len(o.Fwds)))
		sum.Dist("ret_" + strings.SplitN(o.Ret, ":", 2)[0])
		if !mode.WriteOK {
			sum.Dist("mode_write_failure")
		}
		if mode.FailFirst > 0 {
			sum.Dist(fmt.Sprintf("mode_writer_recovers_after_%d", mode.FailFirst))
		}
		if mode.Debug {
			sum.Dist("mode_debug_logging")
		}
		if !mode.Ready {
			sum.Dist("mode_cancelled")
			if mode.CancelLate {
				sum.Dist("mode_cancelled_while_handoff_blocked")
			}
			if g.Forward && len(emitted(o.Events)) == 1 {
				sum.Dist("mode_cancelled_accepted_login_event_written")
			}
		}
		if mode.Framed {
			sum.Dist("mode_framed")
		}
		if mode.CancelBefore || mode.CancelInWrite {
			k := "mode_write_ok"
			if mode.writeFails() {
				k = "mode_write_fails"
			}
			if mode.CancelInWrite {
				k += "_x_cancelled_inside_write"
			} else {
				k += "_x_cancelled_before"
			}
			if mode.Ready {
				k += "_x_receiver_ready"
			} else {
				k += "_x_nobody_receives"
			}
			sum.Dist(k)
			if len(o.Fwds) > 0 {
				sum.Dist(k + "_forwarded")
			}
		}
		if i < 4 {
			sum.Sample(map[string]any{"pid_token": tok, "line": g.Line, "mode": mode, "events": len(o.Events), "forwards": len(o.Fwds)})
		}
	}
	if *prop == "C07" {
		auditFramingChecks(sum, r, *n/2)
		fifoLevel(sum, r, *out, 1+*n/60)
	}
	cases.Flush()
	sum.CaseFiles = cases.Files
	sum.Write(*out)
}

// hangKey: a call that never returns fails every one of these properties' oracles (each expects the line to have
// been processed: "terminates", "exactly one event", "returns nil / the error").
func hangKey(prop string) string {
	switch prop {
	case "C11":
		return "total:hang"
	case "C05":
		return "forward:hang"
	case "C19":
		return "metrics:hang"
	case "C07":
		return "framed:hang"
	}
	return "fields:hang"
}

// orderedShare: every share-th freshly generated case of a property's mix is processed right after a genuine line of
// another kind (C17: client-chosen text; C05 C11 C19: no forward / nothing emitted / nothing counted that the line itself
// does not warrant, whatever came before).
var orderedShare = map[string]int{"C17": 3, "C05": 6, "C11": 6, "C19": 6}

func hashStr(s string) uint64 {
	var h uint64 = 1469598103934665603
	for i := 0; i < len(s); i++ {
		h = (h ^ uint64(s[i])) * 1099511628211
	}
	return h
}

func ruleText(prop string) string {
	return "messages rendered from sshd's format strings with generated field values (account names incl. unicode and words of the message, IPv4/IPv6/zone ids/host names, ports, all key types and lower-case/underscore/'ssh'-prefixed names of the class [A-Za-z0-9_-], SHA256/MD5 fingerprints incl. '=' padding, key IDs with spaces/parentheses/'serial'/'(serial N)'/' from A port N'/partial ' ssh2: ' fragments (domain no_ssh_frag of C06_accepted_cert), forged fragments in the account of accepted lines, serials to 2^64-1, paths with spaces), " +
		"hostile names (C17; incl. every prefix/suffix of sshd's own phrases, empty names, escape-looking text such as #012 \\n %0a &#10;, and letters whose upper/lower/title/folded form has another UTF-8 length - enumerated from the Unicode tables -, NFC/NFD pairs, ligatures, final sigma, Turkish i's, combining marks), runs of blanks and tabs inside key ids, paths, shells, reasons and account names, arbitrary bytes and systematic mutations, sshd's generic '<Accepted|Failed|Postponed|Partial> <method> for ...' shape with hostile method tokens (invalid UTF-8, NUL, empty, very long) every recognised message with one token replaced by hostile bytes (C11) and recognised messages inside envelopes (rsyslog 'message repeated N times: [ ...]' with N from 0 to beyond 1000, 'last message repeated', timestamp/host/tag, RFC 5424 and journald prefixes, a trailing [preauth], quotes, nestings, near misses; C11 C19), PID tokens (valid, signed, overflowing, empty, non-numeric), write failure, a writer that recovers after 1-2 rejected writes and cancelled hand-off modes (context cancelled before the line, or while the hand-off is blocked; C05, C19), fault combinations (C05: write failure / recovering writer x context cancelled before the line or from inside the event write x correlator receiving or not; accepted write x cancelled context x receiving correlator: both arms of the hand-off ready), framed delivery through SyslogIngester.Process (C07, C17, C11, a third of C06); " +
		"all lines of a run go through ONE long-lived processor (NewSshdProcessor once, ProcessSshdLogEntry per line), lines are repeated (2-4 times in a row, A B A) and ORDER is an input (C17 C05 C11 C19: a case right after a genuine line of each recognised kind in rotation, with or without an unrecognised line in between; the follower every other round a failure line whose client-chosen name embeds a message of the kind just processed, cut at 100 bytes); one private counter registry for the run; the " + prop + " oracle is evaluated from the generated fields; non-trivial = the case makes the implementation write an event; distinct by (token, line, mode)"
}

// genCase: the i-th generated case of a property's mix.  Framed delivery ("<pid> <pad><message>\n" through the syslog
// ingester) is "as if handed over directly" only when the PID token holds no blank and the message does not begin
// with one (padding between PID and message is ignored, C07): other cases are handed over directly.
func genCase(r *hutil.Rand, prop string, i int) (genLine, string, runMode) {
	g, tok, mode := genCaseMix(r, prop, i)
	if mode.Framed && (strings.Contains(tok, " ") || strings.HasPrefix(g.Line, " ")) {
		mode.Framed, mode.Pad = false, 0
	}
	return g, tok, mode
}

func genCaseMix(r *hutil.Rand, prop string, i int) (genLine, string, runMode) {
	mode := runMode{WriteOK: true, Ready: true, Debug: i%3 == 1}
	switch prop {
	case "C06":
		// every third round of the forms goes through the syslog ingester, as in the daemon ("<pid> <pad><message>\n"): the
		// fields of the event must still be the message's own, blank for blank
		if (i/len(formNames))%3 == 1 {
			mode.Framed, mode.Pad = true, []int{0, 1, 0, 3}[(i/(3*len(formNames)))%4]
		}
		return genForm(r, formNames[i%len(formNames)]), genPidToken(r, false), mode /*C06LIST*/
	case "C17":
		if i%2 == 1 { // through the syslog ingester, as in the daemon
			mode.Framed, mode.Pad = true, (i/2)%3
		}
		if i%5 == 2 { // the systematic walk through the edge names (message phrases and their truncations, escapes), every form
			return genClientNameEdge(i / 5), genPidToken(r, false), mode
		}
		if i%5 == 4 { // the systematic walk through names whose length changes under case mapping / normalisation (unicode.go)
			return genClientNameCase(i / 5), genPidToken(r, false), mode
		}
		return genClientName(r), genPidToken(r, false), mode
	case "C11":
		if i%14 == 4 { // a recognised message inside an envelope (gen.go: genEnveloped), a third of them through the syslog ingester
			if (i/14)%3 == 1 {
				mode.Framed, mode.Pad = true, i%2
			}
			return genEnveloped(r, i/14), genPidToken(r, false), mode
		}
		switch i % 7 {
		case 1: // client-chosen names handed over directly, edge names first
			if (i/7)%2 == 0 {
				return genClientNameEdge(i / 14), genPidToken(r, false), mode
			}
			return genClientName(r), genPidToken(r, false), mode
		case 3: // through the syslog ingester, as in the daemon: what reaches the processor must be the line's own bytes
			mode.Framed, mode.Pad = true, i%3
			if (i/7)%3 == 0 {
				return genClientNameEdge(len(edgeNames)*len(clientForms) - 1 - i/21), genPidToken(r, false), mode
			}
			return genClientName(r), genPidToken(r, false), mode
		case 5:
			mode.Framed, mode.Pad = true, i%2
			return genForm(r, hutil.Pick(r, formNamesAll)), genPidToken(r, false), mode
		case 2: // sshd's generic authentication-result shape with any token for the method (gen.go: genGenericAuth)
			if (i/7)%4 == 3 {
				mode.Framed, mode.Pad = true, i%2
			}
			return genGenericAuth(r, i/7), genPidToken(r, (i/7)%5 == 4), mode
		case 6: // a recognised message with one token replaced by hostile bytes, every token position in turn
			if (i/7)%4 == 1 {
				mode.Framed, mode.Pad = true, i%2
			}
			if (i/7)%9 == 8 {
				return genClientNameCase(i / 63), genPidToken(r, false), mode
			}
			return genTokenReplaced(r, i/7), genPidToken(r, (i/7)%5 == 2), mode
		}
		if i%5 == 0 {
			return genForm(r, hutil.Pick(r, formNamesAll)), genPidToken(r, true), mode
		}
		return genHostile(r), genPidToken(r, i%3 == 0), mode
	case "C19":
		// the sink may reject the first one or two writes of a line and then recover, or fail for good: what is
		// emitted must be counted once (nothing is claimed about an event that was not emitted)
		switch (i / 3) % 8 {
		case 2, 5:
			mode.FailFirst = 1
		case 6:
			mode.FailFirst = 2
		case 7:
			mode.WriteOK = false
		case 1: // nobody takes the login and the context is cancelled before the line: the event is emitted all the same
			mode.Ready = false
		case 4: // ... cancelled while the hand-off is blocked
			mode.Ready, mode.CancelLate = false, true
		}
		if mode.writeFails() && i%2 == 1 {
			mode.Framed = true
		}
		if !mode.Ready && i%3 == 2 {
			// cancellation matters where there is a hand-off: the accepted forms in rotation (others: see the other slots)
			mode.Framed = (i/24)%2 == 1
			return genForm(r, slowForms[(i/24+i/3)%len(slowForms)]), genPidToken(r, false), mode
		}
		switch i % 3 {
		case 0:
			if i%12 == 6 {
				return genGenericAuth(r, i/12), genPidToken(r, false), mode
			}
			if i%12 == 0 { // a recognised message inside an envelope (syslog repeat reduction, prefixes, suffixes; gen.go: genEnveloped)
				return genEnveloped(r, i/12), genPidToken(r, false), mode
			}
			return genHostile(r), genPidToken(r, true), mode
		case 1:
			if (i/3)%4 == 1 {
				return genClientNameEdge(i / 12), genPidToken(r, false), mode
			}
			return genClientName(r), genPidToken(r, false), mode
		}
		return genForm(r, hutil.Pick(r, formNamesAll)), genPidToken(r, i%4 == 0), mode
	case "C05":
		var g genLine
		switch i % 4 {
		case 0, 1, 2:
			g = genForm(r, []string{"accepted_key", "accepted_cert", "accepted_password", "accepted_key_padded"}[(i/4+i)%4])
		default:
			switch r.Intn(3) {
			case 0:
				g = genForm(r, hutil.Pick(r, formNamesAll))
			case 1:
				g = genClientName(r) // failure lines with client-chosen names (incl. complete "Accepted ..." messages)
			default:
				g = genHostile(r)
			}
		}
		switch (i / 4) % 8 {
		case 1:
			mode.WriteOK = false
		case 2:
			mode.Ready = false
			mode.CancelLate = (i/32)%2 == 1 // ... before the line, or while the hand-off is blocked
		case 4: // the sink rejects the first write(s) of the line and would accept a later one: the error is to be returned
			mode.FailFirst = 1
		case 5:
			mode.FailFirst = 2
			mode.Framed = i%8 >= 4
		case 6:
			// fault COMBINATIONS: write failure x context state (cancelled before the line / from inside the write) x hand-off
			// state (correlator receiving / nobody receives)
			switch (i / 32) % 6 {
			case 0:
				mode.WriteOK, mode.Ready = false, false // cancelled before the line, nobody receives
			case 1:
				mode.WriteOK, mode.CancelBefore = false, true
			case 2:
				mode.WriteOK, mode.CancelInWrite = false, true
			case 3:
				mode.WriteOK, mode.CancelInWrite, mode.Ready = false, true, false
			case 4:
				mode.FailFirst, mode.CancelBefore = 1, true
			case 5:
				mode.FailFirst, mode.CancelInWrite, mode.Ready = 1+i%2, true, i%4 < 2
			}
			mode.Framed = (i/32)%12 >= 6 && i%2 == 0
		case 7:
			// the write works, the context is cancelled and the correlator receives: both arms of the select are ready
			switch (i / 32) % 3 {
			case 0:
				mode.CancelBefore = true
			case 1:
				mode.CancelInWrite = true
			case 2:
				mode.CancelInWrite, mode.Ready = true, false
			}
		}
		return g, genPidToken(r, i%5 == 0), mode
	case "C07":
		mode.Framed = true
		mode.Pad = []int{0, 0, 1, 3}[i%4]
		if i%7 == 6 {
			if (i/7)%2 == 0 {
				return genClientNameEdge(i / 14), genPidToken(r, false), mode
			}
			return genClientName(r), genPidToken(r, false), mode
		}
		return genForm(r, formNames[i%len(formNames)]), genPidToken(r, false), mode
	}
	return genForm(r, hutil.Pick(r, formNamesAll)), genPidToken(r, false), mode
}

func doReplay(path, prop string) int {
	raw, err := os.ReadFile(path)
	if err != nil {
		fmt.Println("cannot read replay:", err)
		return 2
	}
	var rp struct {
		Property string `json:"property"`
		Replay   struct {
			Case   *caseDesc    `json:"case"`
			Before []caseDesc   `json:"processed_before"`
			Fifo   []fifoRecord `json:"fifo_records"`
			Slow   *slowCase    `json:"slow_case"`
			Stall  *stallCase   `json:"stall_case"`
		} `json:"replay"`
	}
	if err := json.Unmarshal(raw, &rp); err == nil && len(rp.Replay.Fifo) > 0 {
		dir, _ := os.MkdirTemp("", "fiforeplay")
		defer os.RemoveAll(dir)
		got, want, herr := runFifo(rp.Replay.Fifo, hutil.NewRand(1), dir)
		if herr != "" || strings.Join(got, "\n") != strings.Join(want, "\n") {
			fmt.Println("REPRODUCED framed:fifo: records through the FIFO and handed over directly differ", herr)
			return 1
		}
		fmt.Println("not reproduced")
		return 0
	}
	if rp.Replay.Slow != nil {
		if rp.Property != "" {
			prop = rp.Property
		}
		return replaySlow(prop, *rp.Replay.Slow)
	}
	if rp.Replay.Stall != nil {
		return replayStall(*rp.Replay.Stall)
	}
	if err := json.Unmarshal(raw, &rp); err != nil || rp.Replay.Case == nil {
		fmt.Println("replay file carries no case (no failing input was found)")
		return 2
	}
	if rp.Property != "" {
		prop = rp.Property
	}
	d := *rp.Replay.Case
	d.unseal()
	onHang = func(tok, msg string, mode runMode) {
		fmt.Printf("REPRODUCED %s: processing %q (pid token %q) did not return within %s\n", hangKey(prop), msg, tok, callTimeout)
		os.Exit(1)
	}
	for i := range rp.Replay.Before {
		rp.Replay.Before[i].unseal()
	}
	var o observation
	var fs []failure
	if len(rp.Replay.Before) == 0 {
		// context cancelled while the correlator receives: which arm the hand-off takes differs from run to run
		tries := 1
		if d.Mode.raceyHandoff() {
			tries = 40
		}
		for try := 0; try < tries && len(fs) == 0; try++ {
			o = runOne(d.Tok, d.Gen.Line, d.Mode)
			fs = judge(prop, d, o)
		}
	} else {
		// the failure may depend on the lines processed before it in the same process (state kept across lines:
		// pools, caches, counters): feed them first, in order, then the line — never the line first, which could
		// itself prime such state.  State may live in per-processor caches (sync.Pool) and be dropped by the GC:
		// a few attempts, the later ones on a single processor.
		for try := 0; try < 8 && len(fs) == 0; try++ {
			if try == 3 {
				runtime.GOMAXPROCS(1)
			}
			for _, b := range rp.Replay.Before {
				runOne(b.Tok, b.Gen.Line, b.Mode)
			}
			o = runOne(d.Tok, d.Gen.Line, d.Mode)
			fs = judge(prop, d, o)
		}
		if len(fs) > 0 {
			fmt.Printf("(replayed after the %d lines processed before it)\n", len(rp.Replay.Before))
		}
	}
	for _, f := range fs {
		fmt.Printf("REPRODUCED %s: %s\n", f.key, f.what)
	}
	if len(fs) > 0 {
		return 1
	}
	fmt.Println("not reproduced")
	return 0
}
