//go:build verif

package main

import (
	"context"
	"fmt"
	"os"
	"path/filepath"
	"strings"
	"sync"
	"syscall"
	"time"

	"github.com/metal-toolbox/auditevent"
	"github.com/prometheus/client_golang/prometheus"
	"go.uber.org/zap"

	"github.com/metal-toolbox/audito-maldito/ingesters/namedpipe"
	"github.com/metal-toolbox/audito-maldito/ingesters/syslog"
	"github.com/metal-toolbox/audito-maldito/internal/common"
	"github.com/metal-toolbox/audito-maldito/internal/health"
	"github.com/metal-toolbox/audito-maldito/internal/metrics"
	"github.com/metal-toolbox/audito-maldito/internal/verifharness/hutil"
	"github.com/metal-toolbox/audito-maldito/processors/sshd"
)

// a long-lived processor with a recording encoder and a correlator stand-in that takes every login
type procSession struct {
	mu     sync.Mutex
	canon  []string
	enc    *encRec
	p      sshd.SshdProcessor
	ctx    context.Context
	cancel context.CancelFunc
	done   chan struct{}
}

func newProcSession() *procSession {
	s := &procSession{done: make(chan struct{})}
	seq := 0
	s.enc = &encRec{seq: &seq}
	logins := make(chan common.RemoteUserLogin)
	s.ctx, s.cancel = context.WithCancel(context.Background())
	go func() {
		defer close(s.done)
		for {
			select {
			case l := <-logins:
				s.mu.Lock()
				s.canon = append(s.canon, fmt.Sprintf("fwd{%d %q}", l.PID, l.CredUserID))
				s.mu.Unlock()
			case <-s.ctx.Done():
				return
			}
		}
	}()
	s.p = sshd.NewSshdProcessor(s.ctx, logins, nodeName, machineID, auditevent.NewAuditEventWriter(s.enc),
		metrics.NewPrometheusMetricsProviderForRegisterer(prometheus.NewRegistry()))
	return s
}

// events and forwards in the order they happened (events are recorded by the encoder, forwards by the reader;
// a forward always follows its event, so merging by count per line is unambiguous: we canonicalise per run)
func (s *procSession) result() []string {
	s.cancel()
	<-s.done
	var out []string
	for _, e := range s.enc.events {
		out = append(out, fmt.Sprintf("ev{%v %q %s %s %v %s %v}", e.OK, e.Src, ps(e.Port), ps(e.DNS), e.Subjects, ps(e.Shell), e.Data))
	}
	s.mu.Lock()
	out = append(out, s.canon...)
	s.mu.Unlock()
	return out
}

type fifoRecord struct {
	Tok string `json:"pid_token"`
	Msg string `json:"message"`
	Pad int    `json:"pad"`
}

// fifoLevel: the same records once handed over directly and once written, framed, into a REAL FIFO read by
// the REAL syslog ingester (namedpipe.Ingest -> SyslogIngester.Process); records longer than bufio's buffer included.
func fifoLevel(sum *hutil.Summary, r *hutil.Rand, outDir string, rounds int) {
	for round := 0; round < rounds; round++ {
		var recs []fifoRecord
		n := 5 + r.Intn(25)
		for i := 0; i < n; i++ {
			g := genForm(r, hutil.Pick(r, formNames))
			if i%6 == 5 {
				// a certificate login whose key id is longer than the reader's 4096-byte buffer
				kt := hutil.Pick(r, keyTypes)
				hn, fp := genFP(r)
				kid := strings.Repeat(hutil.Pick(r, []string{"k", "id-", "x.y"}), 1400+r.Intn(2000))
				g.Line = fmt.Sprintf("Accepted publickey for %s from %s port %s ssh2: %s %s:%s ID %s (serial %s) CA %s %s:%s",
					genUser(r), genAddr(r), genPort(r), kt, hn, fp, kid, genSerial(r), hutil.Pick(r, keyTypes[:6]), hn, fp)
			}
			recs = append(recs, fifoRecord{Tok: genPidToken(r, false), Msg: g.Line, Pad: []int{0, 0, 1, 2}[r.Intn(4)]})
		}
		got, want, herr := runFifo(recs, r, outDir)
		if herr != "" {
			if strings.HasPrefix(herr, "ingester") {
				sum.FailKey("oracle", "framed:fifo:ingester-did-not-finish", "the syslog ingester did not return within 10 s of the writer closing the pipe",
					map[string]any{"fifo_records": recs})
			} else {
				sum.Fail("harness", herr, nil)
				return
			}
		}
		sum.Count(fmt.Sprint("fifo", recs), true)
		sum.Dist("fifo_level_rounds")
		if strings.Join(got, "\n") != strings.Join(want, "\n") {
			first := 0
			for first < len(got) && first < len(want) && got[first] == want[first] {
				first++
			}
			g, wn := "<nothing>", "<nothing>"
			if first < len(got) {
				g = got[first]
			}
			if first < len(want) {
				wn = want[first]
			}
			if len(g) > 300 {
				g = g[:300] + "..."
			}
			if len(wn) > 300 {
				wn = wn[:300] + "..."
			}
			sum.FailKey("oracle", "framed:fifo", fmt.Sprintf("%d records through a real FIFO and the syslog ingester: item %d is %s, handed over directly it is %s (%d vs %d items)",
				len(recs), first, g, wn, len(got), len(want)), map[string]any{"fifo_records": recs})
		}
	}
}

// runFifo processes the records once directly and once through a real FIFO + the real syslog ingester.
func runFifo(recs []fifoRecord, r *hutil.Rand, outDir string) (got, want []string, herr string) {
	direct := newProcSession()
	for _, rc := range recs {
		_ = direct.p.ProcessSshdLogEntry(direct.ctx, sshd.SshdLogEntry{PID: rc.Tok, Message: rc.Msg})
	}
	want = direct.result()

	dir, err := os.MkdirTemp(outDir, "fifo")
	if err != nil {
		return nil, nil, "mkdtemp: " + err.Error()
	}
	path := filepath.Join(dir, "sshd-pipe")
	if err := syscall.Mkfifo(path, 0o600); err != nil {
		return nil, nil, "mkfifo: " + err.Error()
	}
	framed := newProcSession()
	si := syslog.NewSyslogIngester(path, framed.p, namedpipe.NewNamedPipeIngester(zap.NewNop().Sugar(), health.NewHealth()))
	ingDone := make(chan error, 1)
	go func() { ingDone <- si.Ingest(framed.ctx) }()
	var stream []byte
	for _, rc := range recs {
		stream = append(stream, []byte(rc.Tok+" "+strings.Repeat(" ", rc.Pad)+rc.Msg+"\n")...)
	}
	w, err := os.OpenFile(path, os.O_WRONLY, 0)
	if err != nil {
		return nil, nil, "open fifo: " + err.Error()
	}
	for off := 0; off < len(stream); {
		k := 1 + r.Intn([]int{7, 100, 4096, 70000}[r.Intn(4)])
		if off+k > len(stream) {
			k = len(stream) - off
		}
		if _, err := w.Write(stream[off : off+k]); err != nil {
			break
		}
		off += k
	}
	w.Close()
	select {
	case <-ingDone:
	case <-time.After(10 * time.Second):
		herr = "ingester did not finish"
	}
	got = framed.result()
	os.RemoveAll(dir)
	return got, want, herr
}
