//go:build verif

package main

// Mode "slow" (C05, C10, C19): the hand-off of an accepted login that NOBODY takes for a while, with a context that is never
// cancelled.  The property: "then, unless its context is cancelled, forwards exactly one login".  The correlator
// (the only receiver of the unbuffered logins channel) can be busy for seconds (flushing a session's backlog
// through a slow writer); the login must still be there when it comes back.  Each scenario has its own processor
// (NewSshdProcessor, then ProcessSshdLogEntry or SyslogIngester.Process), its own channel and writer; all
// scenarios of a stage run concurrently, so the stage takes about as long as its longest delay.  Once a scenario
// fails, the longer ones are abandoned (not judged): the shortest failing delay is the replay.
//
// Time-triggered behaviour in the hand-off path is a class of its own (a deadline that drops the login, a stall timer
// that does something while waiting, a retry): the waits span several magnitudes (0.15 s ... 61 s, see
// checks/registry.py) and what must hold is stated per property, on the same observation:
//   C05  forward:*   exactly one login is there when the correlator comes back, it is the written event, the call returns nil
//   C10  output:*    what reached the writer while the hand-off was pending and after it: the line's event EXACTLY ONCE
//                    (a pending hand-off is no reason to write it again), each write one whole JSON line, and the
//                    UserLogin written BEFORE the hand-off completes
//   C19  metrics:*   one counter increment per emitted event, under the success outcome

import (
	"context"
	"encoding/json"
	"errors"
	"fmt"
	"sort"
	"strconv"
	"strings"
	"sync"
	"time"

	"github.com/metal-toolbox/auditevent"
	"github.com/prometheus/client_golang/prometheus"

	"github.com/metal-toolbox/audito-maldito/ingesters/syslog"
	"github.com/metal-toolbox/audito-maldito/internal/common"
	"github.com/metal-toolbox/audito-maldito/internal/metrics"
	"github.com/metal-toolbox/audito-maldito/internal/verifharness/hutil"
	"github.com/metal-toolbox/audito-maldito/processors/sshd"
)

type slowCase struct {
	Tok     string  `json:"pid_token"`
	Gen     genLine `json:"input"`
	DelayMs int     `json:"nobody_receives_for_ms"`
	Framed  bool    `json:"framed"`
	Debug   bool    `json:"debug_logging,omitempty"`
}

type slowObs struct {
	EventsBefore  int    `json:"events_written_before_the_wait"`
	ReturnedAfter int    `json:"returned_without_receiver_after_ms"` // -1: the call stayed blocked for the whole wait
	Ret           string `json:"ret"`                                // "" = still blocked at the end
	Logins        int    `json:"logins_received"`
	PID           int    `json:"pid"`
	Cred          string `json:"cred"`
	SameEvt       bool   `json:"same_event"`
	Events        int    `json:"events"`
	EventOK       bool   `json:"event_succeeded"`
	Aborted       bool   `json:"aborted,omitempty"`
	// C10: the emitted events in write order - same: this write carries the same event (type, outcome, subjects, source,
	// target; the time stamp aside) as an earlier one; identical: the serialised line is byte for byte an earlier one
	EventsAtHandoff int            `json:"events_written_when_the_login_was_taken"` // -1: no login was taken
	Writes          []slowWrite    `json:"writes,omitempty"`
	Metrics         map[string]int `json:"metrics,omitempty"` // "method/outcome" -> increments of this scenario's own registry
	StillBlocked    bool           `json:"call_never_returned,omitempty"`
}

type slowWrite struct {
	AtMs      int    `json:"at_ms"`
	Rejected  bool   `json:"write_failed,omitempty"`
	Same      bool   `json:"same_event_as_an_earlier_write,omitempty"`
	Identical bool   `json:"line_identical_to_an_earlier_one,omitempty"`
	BadJSON   string `json:"not_one_json_line,omitempty"`
}

// what identifies an event whatever its time stamp
func eventIdentity(e obsEvent) string {
	port := ""
	if e.Port != nil {
		port = *e.Port
	}
	return fmt.Sprint(e.Type, "|", e.OK, "|", e.Comp, "|", e.SrcType, "|", e.Src, "|", port, "|", e.Subjects, "|", e.Target, "|", e.Data)
}

// generous bounds for steps that take microseconds on a correct implementation (the machine may be loaded)
const slowStep = 10 * time.Second

func runSlow(sc slowCase, abort <-chan struct{}) slowObs {
	o := slowObs{ReturnedAfter: -1, EventsAtHandoff: -1}
	seq := 0
	enc := &encRec{seq: &seq, wrote: make(chan struct{}, 8)}
	logins := make(chan common.RemoteUserLogin) // unbuffered, as in cmd/namedpipe.go
	reg := prometheus.NewRegistry()
	pm := metrics.NewPrometheusMetricsProviderForRegisterer(reg)
	var writeAt []time.Time // when each Encode happened (appended under enc's own ordering: one processor goroutine)
	var writeMu sync.Mutex
	enc.onWrite = func() {
		writeMu.Lock()
		writeAt = append(writeAt, time.Now())
		writeMu.Unlock()
	}
	p := sshd.NewSshdProcessor(context.Background(), logins, nodeName, machineID, auditevent.NewAuditEventWriter(enc), pm)
	ctx, cancel := context.WithCancel(context.Background()) // cancelled only when the scenario is over
	defer cancel()
	done := make(chan string, 1)
	go func() {
		ret := ""
		defer func() {
			if r := recover(); r != nil {
				ret = fmt.Sprintf("panic:%v", r)
			}
			done <- ret
		}()
		var err error
		if sc.Framed {
			si := syslog.SyslogIngester{SshdProcessor: p}
			err = si.Process(ctx, sc.Tok+" "+sc.Gen.Line+"\n")
		} else {
			err = p.ProcessSshdLogEntry(ctx, sshd.SshdLogEntry{Message: sc.Gen.Line, PID: sc.Tok})
		}
		switch {
		case err == nil:
			ret = "ok"
		case errors.Is(err, errInjected):
			ret = "write"
		default:
			ret = "other:" + err.Error()
		}
	}()
	returned := false
	finish := func(ret string) {
		returned = true
		o.Ret = ret
	}
	t0 := time.Now()
	// 1. the event is written (or the call returns)
	select {
	case <-enc.wrote:
	case ret := <-done:
		finish(ret)
	case <-time.After(slowStep):
	}
	o.EventsBefore = len(emitted(enc.snapshot()))
	// 2. nobody receives for DelayMs; the context stays live
	if !returned {
		select {
		case ret := <-done:
			finish(ret)
			o.ReturnedAfter = int(time.Since(t0) / time.Millisecond)
		case <-time.After(time.Duration(sc.DelayMs) * time.Millisecond):
		case <-abort:
			o.Aborted = true
			cancel()
			select {
			case <-done:
			case <-time.After(slowStep):
			}
			return o
		}
	}
	// 3. the correlator comes back and takes what is there
	take := func(d time.Duration) bool {
		select {
		case l := <-logins:
			o.Logins++
			if o.Logins == 1 {
				o.PID, o.Cred = l.PID, l.CredUserID
				evs := enc.snapshot()
				o.EventsAtHandoff = len(emitted(evs))
				if n := len(evs); n > 0 {
					o.SameEvt = l.Source == evs[n-1].ptr && !evs[n-1].Failed
				}
			}
			return true
		case <-time.After(d):
			return false
		}
	}
	if returned {
		// an implementation may hand the login over from another goroutine: give it a moment
		take(300 * time.Millisecond)
	} else {
		take(slowStep)
	}
	// 4. the call returns; no second login
	if !returned {
		select {
		case ret := <-done:
			finish(ret)
		case <-time.After(slowStep):
		}
	}
	take(30 * time.Millisecond)
	cancel()
	if !returned {
		select {
		case <-done:
		case <-time.After(slowStep):
			o.StillBlocked = true
		}
	}
	all := enc.snapshot()
	em := emitted(all)
	o.Events = len(em)
	if len(em) > 0 {
		o.EventOK = em[0].OK
	}
	writeMu.Lock()
	at := append([]time.Time(nil), writeAt...)
	writeMu.Unlock()
	seenID, seenRaw := map[string]bool{}, map[string]bool{}
	for i, e := range all {
		w := slowWrite{AtMs: -1, Rejected: e.Failed}
		if i < len(at) {
			w.AtMs = int(at[i].Sub(t0) / time.Millisecond)
		}
		if !e.Failed {
			id := eventIdentity(e)
			w.Same, w.Identical = seenID[id], seenRaw[e.raw]
			seenID[id], seenRaw[e.raw] = true, true
			var probe map[string]any
			switch {
			case strings.ContainsAny(e.raw, "\n\r"):
				w.BadJSON = "the serialised event holds a raw line break"
			case json.Unmarshal([]byte(e.raw), &probe) != nil:
				w.BadJSON = "the serialised event is not one JSON object"
			}
		}
		o.Writes = append(o.Writes, w)
	}
	if !o.StillBlocked { // the processor goroutine is gone: the registry is quiet
		o.Metrics = map[string]int{}
		for k, v := range counters(reg) {
			if v != 0 {
				o.Metrics[k] = int(v)
			}
		}
	}
	return o
}

// judgeSlow: the failures of the property's own oracle (C05: forward:*, C10: output:*, C19: metrics:*).
func judgeSlow(prop string, sc slowCase, o slowObs) []failure {
	var fs []failure
	want := map[string]string{"C05": "forward:", "C10": "output:", "C19": "metrics:"}[prop]
	for _, f := range judgeSlowAll(sc, o) {
		if want == "" || strings.HasPrefix(f.key, want) {
			fs = append(fs, f)
		}
	}
	return fs
}

func judgeSlowAll(sc slowCase, o slowObs) []failure {
	if o.Aborted || !sc.Gen.Forward {
		return nil
	}
	if _, ok := positiveDecimal(sc.Tok); !ok {
		return nil
	}
	return append(append(judgeSlowForward(sc, o), judgeSlowOutput(sc, o)...), judgeSlowMetrics(sc, o)...)
}

// C10: the output while a hand-off is pending
func judgeSlowOutput(sc slowCase, o slowObs) []failure {
	var fs []failure
	line := sc.Gen.Line
	var times []string
	n := 0
	for _, w := range o.Writes {
		if !w.Rejected {
			n++
			times = append(times, fmt.Sprintf("%d ms", w.AtMs))
		}
	}
	for i, w := range o.Writes {
		if w.BadJSON != "" {
			fs = append(fs, failure{"output:slow-handoff:not-json-line", fmt.Sprintf("accepted authentication %q, hand-off pending for %d ms: write %d of the event: %s", line, sc.DelayMs, i+1, w.BadJSON)})
			break
		}
	}
	for _, w := range o.Writes {
		if w.Same {
			how := "the same event with another time stamp"
			if w.Identical {
				how = "byte for byte the same line"
			}
			fs = append(fs, failure{"output:slow-handoff:duplicate", fmt.Sprintf("accepted authentication %q: while nobody took the login for %d ms (context live) the UserLogin event was written %d times (at %s after the call began; %s): "+
				"the output holds the event twice", line, sc.DelayMs, n, strings.Join(times, ", "), how)})
			break
		}
	}
	if o.Logins > 0 && o.EventsAtHandoff == 0 {
		fs = append(fs, failure{"output:slow-handoff:login-after-handoff", fmt.Sprintf("accepted authentication %q: when the correlator took the login (after %d ms) no UserLogin event had been written yet: "+
			"a UserAction carrying this identity could precede its UserLogin", line, sc.DelayMs)})
	}
	return fs
}

// C19: one increment per emitted event, under the success outcome
func judgeSlowMetrics(sc slowCase, o slowObs) []failure {
	if o.Metrics == nil || o.Events == 0 {
		return nil
	}
	total := 0
	for _, v := range o.Metrics {
		total += v
	}
	if total != o.Events {
		return []failure{{"metrics:slow-handoff:not-once", fmt.Sprintf("accepted authentication %q, hand-off pending for %d ms: %d event(s) emitted but the login counter moved by %d (%v)", sc.Gen.Line, sc.DelayMs, o.Events, total, o.Metrics)}}
	}
	for k := range o.Metrics {
		if !strings.HasSuffix(k, "/success") {
			return []failure{{"metrics:slow-handoff:outcome", fmt.Sprintf("accepted authentication %q, hand-off pending for %d ms: succeeded event counted under %s", sc.Gen.Line, sc.DelayMs, k)}}
		}
	}
	return nil
}

func judgeSlowForward(sc slowCase, o slowObs) []failure {
	pid, _ := positiveDecimal(sc.Tok)
	line := sc.Gen.Line
	if strings.HasPrefix(o.Ret, "panic") {
		return []failure{{"forward:slow-handoff:panic", "processing panicked: " + o.Ret}}
	}
	if o.Events != 1 || !o.EventOK {
		return []failure{{"forward:slow-handoff:no-succeeded-event", fmt.Sprintf("accepted authentication %q did not write exactly one succeeded event (%d events)", line, o.Events)}}
	}
	var fs []failure
	how := "the call was still blocked on the hand-off"
	if o.ReturnedAfter >= 0 {
		how = fmt.Sprintf("the call had returned %s after %d ms without anybody receiving", o.Ret, o.ReturnedAfter)
	}
	switch {
	case o.Logins == 0:
		fs = append(fs, failure{"forward:slow-handoff:login-dropped", fmt.Sprintf("accepted authentication %q: the event was written, the correlator took no login for %d ms while the context stayed live, "+
			"and when it came back there was no login to take (%s): the login was dropped although nothing was cancelled", line, sc.DelayMs, how)})
	case o.Logins > 1:
		fs = append(fs, failure{"forward:slow-handoff:count", fmt.Sprintf("accepted authentication %q forwarded %d logins after a wait of %d ms (expected exactly one)", line, o.Logins, sc.DelayMs)})
	default:
		if o.PID != pid {
			fs = append(fs, failure{"forward:slow-handoff:pid", fmt.Sprintf("forwarded login for %q has pid %d, the line's pid is %d", line, o.PID, pid)})
		}
		if o.Cred != sc.Gen.Cred {
			fs = append(fs, failure{"forward:slow-handoff:cred", fmt.Sprintf("forwarded login for %q has credential user id %q, expected %q", line, o.Cred, sc.Gen.Cred)})
		}
		if !o.SameEvt {
			fs = append(fs, failure{"forward:slow-handoff:not-the-written-event", fmt.Sprintf("the login forwarded for %q after %d ms does not carry the event that was written", line, sc.DelayMs)})
		}
		if o.Ret != "ok" {
			fs = append(fs, failure{"forward:slow-handoff:ret", fmt.Sprintf("after the login for %q was taken the call returned %q (expected no error)", line, o.Ret)})
		}
	}
	return fs
}

func parseDelays(s string) []int {
	var out []int
	for _, f := range strings.Split(s, ",") {
		if n, err := strconv.Atoi(strings.TrimSpace(f)); err == nil && n >= 0 {
			out = append(out, n)
		}
	}
	sort.Ints(out)
	return out
}

var slowForms = []string{"accepted_key", "accepted_cert", "accepted_password", "accepted_key_padded"}

func slowStage(prop string, seed uint64, r *hutil.Rand, delays, outDir string) {
	sum := hutil.NewSummary(prop, seed, "accepted-authentication lines (public key, certificate, password, public key with trailing text; generated field values) on a processor of their own "+
		"(NewSshdProcessor + ProcessSshdLogEntry, every other one through SyslogIngester.Process): after the event is written nobody receives on the unbuffered logins channel for the stated time, "+
		"the context is never cancelled, then one receive: exactly one login (pid, credential id, identity = the written event) must be there and the call returns nil (C05); meanwhile and afterwards the line's event has reached the "+
		"writer exactly once, as one whole JSON line, before the hand-off completed (C10), and the login counter moved once per emitted event under the success outcome (C19) - the stage reports the failures of the property it runs for; all scenarios run concurrently; "+
		"non-trivial = a login was taken after the wait; distinct by (line, delay)")
	debug := seed%2 == 1
	sshd.SetLogger(hutil.Logger(debug))
	var cases []slowCase
	for _, d := range parseDelays(delays) {
		for k, f := range slowForms {
			cases = append(cases, slowCase{Tok: genPidToken(r, false), Gen: genForm(r, f), DelayMs: d, Framed: (k+d)%2 == 1, Debug: debug})
		}
	}
	obs := make([]slowObs, len(cases))
	abort := make(chan struct{})
	var once sync.Once
	var wg sync.WaitGroup
	for i := range cases {
		wg.Add(1)
		go func(i int) {
			defer wg.Done()
			obs[i] = runSlow(cases[i], abort)
			if len(judgeSlow(prop, cases[i], obs[i])) > 0 {
				once.Do(func() { close(abort) })
			}
		}(i)
	}
	wg.Wait()
	reported := map[string]bool{}
	for i, sc := range cases { // ascending delays: the shortest failing wait is reported, one per kind of failure
		o := obs[i]
		if o.Aborted {
			sum.Dist("abandoned_after_a_failure")
			continue
		}
		sum.Count(fmt.Sprint(sc.Gen.Line, sc.DelayMs), o.Logins > 0)
		sum.Dist(fmt.Sprintf("nobody_receives_for_%dms", sc.DelayMs))
		sum.Dist("form_" + sc.Gen.Form)
		if o.ReturnedAfter >= 0 {
			sum.Dist("returned_before_anybody_received")
		} else {
			sum.Dist("stayed_blocked_until_taken")
		}
		if sc.Framed {
			sum.Dist("mode_framed")
		}
		if i < 4 {
			sum.Sample(map[string]any{"pid_token": sc.Tok, "line": sc.Gen.Line, "nobody_receives_for_ms": sc.DelayMs, "observed": o})
		}
		for _, w := range o.Writes {
			if w.Same {
				sum.Dist("event_written_again_while_pending")
			}
		}
		for _, f := range judgeSlow(prop, sc, o) {
			if !reported[f.key] {
				reported[f.key] = true
				sum.FailKey("oracle", f.key, f.what, map[string]any{"slow_case": sc, "observed": o})
			}
		}
	}
	sum.Write(outDir)
}

func replaySlow(prop string, sc slowCase) int {
	sshd.SetLogger(hutil.Logger(sc.Debug))
	o := runSlow(sc, make(chan struct{}))
	fs := judgeSlow(prop, sc, o)
	for _, f := range fs {
		fmt.Printf("REPRODUCED %s: %s\n", f.key, f.what)
	}
	if len(fs) > 0 {
		return 1
	}
	fmt.Println("not reproduced")
	return 0
}
