//go:build verif

package main

import (
	"fmt"
	"regexp"
	"strconv"
	"strings"
	"unicode/utf8"

	"github.com/metal-toolbox/audito-maldito/internal/verifharness/hutil"
)

// expected event content, known by construction from the generated fields
type expEvent struct {
	OK       bool              `json:"ok"`
	Src      string            `json:"src"`
	Port     *string           `json:"port,omitempty"`
	DNS      *string           `json:"dns,omitempty"`
	LoggedAs string            `json:"logged_as"`
	UserID   string            `json:"user_id"`
	File     *string           `json:"file,omitempty"`
	KeyType  *string           `json:"key_type,omitempty"`
	FP       *string           `json:"fingerprint,omitempty"`
	Shell    *string           `json:"shell,omitempty"`
	Data     map[string]string `json:"data,omitempty"`
}

type genLine struct {
	Form    string    `json:"form"`
	Line    string    `json:"line"`
	Exp     *expEvent `json:"expected,omitempty"`    // nil: nothing is claimed about the event
	OnlySrc bool      `json:"only_source,omitempty"` // judge only source/port/outcome (C17 variants)
	Forward bool      `json:"forward,omitempty"`     // an accepted authentication
	Cred    string    `json:"cred,omitempty"`        // expected credential user id of the forwarded login
	Method  string    `json:"method,omitempty"`      // expected metric method(s), "|"-separated alternatives
}

func sp(s string) *string { return &s }

var userAlphabet = []string{"a", "b", "z", "A", "Q", "0", "7", "_", ".", "@", "-", "$", "é", "日", "🏝", "ö", "\u0130", "\u023a", "\u212a", "\u0131"}

// blankRunNames: account names are client-chosen text; sshd prints them as they are, runs of blanks and tabs included
var blankRunNames = []string{"a  b", "x   y", "tab\tbed", "j  r  r", "Doe,  John", " lead", "trail ", "  two", "two  ", "a \t b", "\t"}

func genUser(r *hutil.Rand) string {
	switch r.Intn(9) {
	case 8:
		if r.Chance(1, 2) {
			return hutil.Pick(r, blankRunNames)
		}
	case 0:
		return "root"
	case 1:
		return "auditomalditotesting"
	case 2:
		return "from" // a word of the message
	case 3:
		return "port"
	}
	n := 1 + r.Intn(12)
	var sb strings.Builder
	for i := 0; i < n; i++ {
		sb.WriteString(hutil.Pick(r, userAlphabet))
	}
	return sb.String()
}

// hostile user names: anything printable a client can send (spaces, words of the message, forged fragments)
func genHostileUser(r *hutil.Rand) string {
	frags := []string{" from ", " port ", "from", "port", " ", "  ", "\t", "x", "bob", "Certificate invalid: expired", "Accepted publickey", "Accepted password for root", "Invalid user ", "ROOT LOGIN REFUSED FROM ", "Failed password for ", "User root ", "Address 1.2.3.4 maps to x", "maximum authentication attempts exceeded for ", "6.6.6.6", "22", " ssh2", "invalid user ", "User ", "'", "\"", "\\", ":", "[", "]", "%", "日本", "a b",
		"invalid user", "illegal user ", "#012", "\\n", "%0a", "&#10;", "#", "&"}
	switch r.Intn(14) {
	case 12, 13:
		// letters whose lower / upper / title / folded form has another UTF-8 length, ligatures, final sigma, Turkish i's,
		// combining marks, NFC / NFD variants (unicode.go): to the daemon a name is bytes, whatever it would look like folded
		if r.Chance(1, 3) {
			return genCaseText(r) + hutil.Pick(r, []string{" ", " from ", "", "", " port "}) + genCaseText(r)
		}
		return genCaseText(r)
	case 8:
		// one of the edge names: a phrase of sshd's own messages or a truncation of one, an escape-looking text, the empty name
		return hutil.Pick(r, edgeNames)
	case 9:
		// text that looks like an escape sequence of some layer (rsyslog's #ooo, C, URL, HTML, shell): to the daemon it is
		// just text, the name is recorded as it stands and the attempt is recorded whatever it holds
		n := 1 + r.Intn(3)
		var sb strings.Builder
		for i := 0; i < n; i++ {
			if r.Bool() {
				sb.WriteString(genUser(r))
			}
			sb.WriteString(hutil.Pick(r, escapeTexts))
		}
		if r.Bool() {
			sb.WriteString(genUser(r))
		}
		return sb.String()
	case 10:
		// what sshd itself prints around a name, whole or cut, glued to a name with or without the blank
		p := hutil.Pick(r, append(append([]string{}, userMarkers...), msgPhrases...))
		if r.Chance(1, 2) {
			p = hutil.Pick(r, userMarkers)
		}
		switch r.Intn(5) {
		case 0:
			p = strings.TrimRight(p, " ")
		case 1:
			p = strings.TrimSpace(p)
		case 2:
			p = p[:r.Intn(len(p)+1)]
		case 3:
			p = p[r.Intn(len(p)+1):]
		}
		switch r.Intn(4) {
		case 0:
			return p
		case 1:
			return p + genUser(r)
		case 2:
			return genUser(r) + p
		}
		return p + " " + genUser(r)
	case 6:
		// a complete "accepted" message inside the name: `ssh 'Accepted password for root from … ssh2'@host`
		return fmt.Sprintf("Accepted password for %s from %s port %d ssh2", genUser(r), genAddr(r), r.Intn(65536))
	case 7:
		fp, sum := genFP(r)
		m := fmt.Sprintf("Accepted publickey for %s from %s port %d ssh2: %s %s:%s", genUser(r), genAddr(r), r.Intn(65536), hutil.Pick(r, keyTypes), fp, sum)
		if r.Bool() {
			fp2, sum2 := genFP(r)
			m += fmt.Sprintf(" ID %s (serial %s) CA %s %s:%s", genKeyID(r), genSerial(r), hutil.Pick(r, keyTypes[:6]), fp2, sum2)
		}
		return m
	case 0:
		return fmt.Sprintf("x from %s port %d", genAddr(r), r.Intn(65536))
	case 1:
		return fmt.Sprintf("%s from %s port %d ssh2", genUser(r), genAddr(r), r.Intn(65536))
	case 2:
		return genUser(r) + " " + genUser(r)
	case 3:
		return genUser(r) + " from"
	}
	n := 1 + r.Intn(6)
	var sb strings.Builder
	for i := 0; i < n; i++ {
		sb.WriteString(hutil.Pick(r, frags))
	}
	s := sb.String()
	if len(s) > 100 {
		s = s[:100]
	}
	return s
}

func genAddr(r *hutil.Rand) string {
	switch r.Intn(7) {
	case 0:
		return fmt.Sprintf("%d.%d.%d.%d", r.Intn(256), r.Intn(256), r.Intn(256), r.Intn(256))
	case 1:
		return "127.0.0.1"
	case 2:
		return fmt.Sprintf("2001:db8::%x:%x", r.Intn(65536), r.Intn(65536))
	case 3:
		return fmt.Sprintf("fe80::%x%%eth%d", r.Intn(65536), r.Intn(4))
	case 4:
		return "::1"
	case 5:
		return hutil.Pick(r, []string{"host.example.com", "from", "port", "ssh2", "a-b.c_d", "xn--bcher-kva.example"})
	}
	return fmt.Sprintf("10.%d.%d.%d", r.Intn(256), r.Intn(256), r.Intn(256))
}

func genPort(r *hutil.Rand) string {
	switch r.Intn(5) {
	case 0:
		return "0"
	case 1:
		return "65535"
	case 2:
		return "22"
	}
	return strconv.Itoa(r.Intn(65536))
}

var keyTypes = []string{"RSA", "DSA", "ECDSA", "ED25519", "ECDSA-SK", "ED25519-SK", "RSA-CERT", "DSA-CERT", "ECDSA-CERT", "ED25519-CERT", "ECDSA-SK-CERT", "ED25519-SK-CERT", "XMSS", "XMSS-CERT"}

const b64 = "ABCDEFGHIJKLMNOPQRSTUVWXYZabcdefghijklmnopqrstuvwxyz0123456789+/"

// fingerprint: (hash name, body)
func genFP(r *hutil.Rand) (string, string) {
	if r.Chance(1, 4) {
		var parts []string
		for i := 0; i < 16; i++ {
			parts = append(parts, fmt.Sprintf("%02x", r.Intn(256)))
		}
		return "MD5", strings.Join(parts, ":")
	}
	var sb strings.Builder
	for i := 0; i < 43; i++ {
		sb.WriteByte(b64[r.Intn(64)])
	}
	return hutil.Pick(r, []string{"SHA256", "SHA256", "SHA512", "SHA1"}), sb.String()
}

// the domain of Props/C06.v C06_accepted_cert for the key id: any text without newline such that " "+kid holds no
// fragment  ssh<alnum+>: <[A-Za-z0-9_ -]+>:<non-space>  (Coq: no_ssh_frag).  A key id WITH such a fragment moves the
// greedy fields of the unanchored accepted-publickey pattern (C06_keyid_ssh_fragment_refuted), so the theorem and
// hence the oracle claim nothing about it and the generator does not produce it.
var sshFragRE = regexp.MustCompile(` ssh[0-9A-Za-z]+: [0-9A-Za-z_ -]+:[^\t\n\f\r ]`)

func noSSHFrag(kid string) bool { return !sshFragRE.MatchString(" " + kid) }

var keyIDFrags = []string{" ", " ", "(", ")", "serial", "(serial 5)", " (serial 7) ", " from ", " port ", "from", "port", "ssh", " ssh", " ssh2", "ssh2:", " ssh2: ",
	":", "a:b", "RSA SHA256:", "ID ", " CA ", "x", "ops", "jane", "doe", "é", "日", "@", "6.6.6.6", "22", "-", "_",
	"  ", "   ", "\t", " \t ", ",  ", "\u0130", "\u1e9e", "\u212a", "\u023a", "e\u0301", "\ufb01"}

func genKeyID(r *hutil.Rand) string {
	for {
		kid := genKeyIDRaw(r)
		if noSSHFrag(kid) && !strings.Contains(kid, "\n") {
			return kid
		}
	}
}

func genKeyIDRaw(r *hutil.Rand) string {
	switch r.Intn(14) {
	case 12:
		// runs of blanks and tabs INSIDE the key id (ssh-keygen -I takes any text): the id is recorded as it stands
		return hutil.Pick(r, []string{"Doe,  John (ops)", "a  b", "a   b", "a\tb", "tab\t\tbed  id", "x \t y", "two  runs  here", "J.  R.  R.  T.", "  lead2", "trail2  ", "(a)  (serial  3)  b", "ops\t(laptop)"})
	case 13:
		return genCaseText(r)
	case 0:
		return "foo@bar.com"
	case 1:
		return "user with spaces"
	case 2:
		return "id (serial 5) x"
	case 3:
		return "serial"
	case 4:
		return "a(b)c serial (x)"
	case 5:
		return "jane doe (ops) serial 12 (serial 3)"
	case 6:
		// everything of a forged fragment except a complete " sshX: ALG:SUM"
		return fmt.Sprintf("ops from %s port %d (laptop) %s", genAddr(r), r.Intn(65536),
			hutil.Pick(r, []string{"ssh key: spare", "ssh2", "ssh2: RSA SHA256", "ssh2:RSA SHA256:abc", "ssh-2: RSA SHA256:abc", "ssh: RSA SHA256:abc", "ssh2: RSA+SHA256:abc", "ssh2: RSA SHA256:"}))
	case 7:
		return hutil.Pick(r, []string{"ssh", "ssh2:", "sshd", " lead", "trail ", "a  b", "x (serial 1) CA RSA SHA256:abc", "ID y (serial 2)", "(serial", "(serial )", "ssh2: :x"})
	case 8, 9:
		n := 1 + r.Intn(7)
		var sb strings.Builder
		for i := 0; i < n; i++ {
			sb.WriteString(hutil.Pick(r, keyIDFrags))
		}
		return sb.String()
	}
	return genUser(r)
}

// key type and hash names of the accepted-publickey line: what sshd prints (keyTypes, upper case) and the rest of the
// class [A-Za-z0-9_-] the theorem covers (lower case, digits, underscore, words of the message, a leading "ssh")
var keyTypesWide = []string{"ssh-ed25519", "ssh-rsa", "sk-ecdsa-sha2-nistp256", "ecdsa-sha2-nistp521", "rsa_sha2_512", "ED25519_cert-V01", "from", "port", "ssh2", "ssh", "x", "0", "-", "_"}
var hashNamesWide = []string{"sha256", "md5", "SHA2_512", "ssh2", "from", "port", "x-1"}

func genKeyTypeWide(r *hutil.Rand) string {
	if r.Chance(1, 3) {
		return hutil.Pick(r, keyTypesWide)
	}
	return hutil.Pick(r, keyTypes)
}

// fingerprint of the accepted-publickey line: (hash name, body); body = base64 incl. + / and = padding, or MD5 hex with colons
func genFPWide(r *hutil.Rand) (string, string) {
	hn, body := genFP(r)
	if hn != "MD5" && r.Chance(1, 3) {
		body += "="
	}
	if r.Chance(1, 4) {
		hn = hutil.Pick(r, hashNamesWide)
	}
	return hn, body
}

func genSerial(r *hutil.Rand) string {
	switch r.Intn(4) {
	case 0:
		return "0"
	case 1:
		return "18446744073709551615"
	}
	return strconv.FormatUint(r.U64()>>uint(r.Intn(60)), 10)
}

func genPath(r *hutil.Rand) string {
	// paths are free text as far as the daemon is concerned: blanks, RUNS of blanks, tabs, non-ASCII letters
	return hutil.Pick(r, []string{"/etc/ssh/revoked_keys", "/home/bob/.ssh/authorized_keys", "/home/my user/.ssh/authorized keys", "/a b/c", "/tmp/x y z", "/bin/zsh", "/usr/local/bin/my shell",
		"/home/shared  drive/.ssh/authorized_keys", "/srv/a   b/keys", "/opt/tab\there/sh", "/mnt/x \t y/z", "/two  runs/of  blanks", "/trailing/blanks  ", "/home/\u0130brahim/.ssh/authorized_keys", "/home/\u023a\u023e/k"})
}

func genHostname(r *hutil.Rand) string {
	return hutil.Pick(r, []string{"evil.example.com", "a.b", "localhost", "host-" + strconv.Itoa(r.Intn(1000)) + ".example.org", "xn--bcher-kva.example", "ptr.in-addr.arpa"})
}

var userForms = []struct{ name, tail string }{
	{"user_not_in_allowusers", " not allowed because not listed in AllowUsers"},
	{"user_in_denyusers", " not allowed because listed in DenyUsers"},
	{"user_not_in_any_group", " not allowed because not in any group"},
	{"user_group_in_denygroups", " not allowed because a group is listed in DenyGroups"},
	{"user_groups_not_in_allowgroups", " not allowed because none of user's groups are listed in AllowGroups"},
}

// finalRunes: what the unescaped final dot of the two DNS patterns matches - one rune that is not a newline: an ASCII
// byte, a 2/3/4-byte sequence, or ONE byte that does not start a valid sequence (Go decodes it as U+FFFD, width 1)
var finalRunes = []string{"!", " ", "x", "\x00", "\x7f", "é", "ß", "。", "日", "€", "😀", "\U0010ffff", "\u0080", "\xff", "\x80", "\xbf", "\xc3", "\xe2", "\xf0", "\xc0", "\xf5"}

// finalTwoRunes: tails that are NOT one rune (nothing, two runes, a newline): the patterns must not match
var finalTwoRunes = []string{"", "..", ".!", "é.", ".é", "\xe2\x82", "\xf0\x9f\x98", "\xc3\x28", "\xc0\x80", "\xed\xa0\x80", "\xff\xff", "\n", ".\n", "日本"}

func genFinalRune(r *hutil.Rand) string {
	if r.Chance(3, 5) {
		return "."
	}
	return hutil.Pick(r, finalRunes)
}

var formNames = []string{
	"accepted_key", "accepted_cert", "accepted_password", "cert_invalid", "invalid_user",
	"user_not_in_allowusers", "user_in_denyusers", "user_not_in_any_group", "user_group_in_denygroups", "user_groups_not_in_allowgroups",
	"user_shell_nonexistent", "user_shell_nonexecutable", "root_refused", "bad_owner", "nasty_ptr", "reverse_mapping", "not_map_back",
	"max_attempts", "revoked_key", "revoked_key_err", "failed_password",
}

// genForm renders one supported message with freshly generated field values and the event expected by construction.
func genForm(r *hutil.Rand, form string) genLine {
	user, addr, port := genUser(r), genAddr(r), genPort(r)
	unk := "unknown"
	switch form {
	case "accepted_key", "accepted_cert", "accepted_key_padded":
		kt := genKeyTypeWide(r)
		hn, fp := genFPWide(r)
		if r.Chance(1, 6) {
			// the theorem holds for every user name without newline: forged fragments included (the greedy
			// Username group ends at the LAST " from " that lets the rest match)
			user = genHostileUser(r)
		}
		line := fmt.Sprintf("Accepted publickey for %s from %s port %s ssh2: %s %s:%s", user, addr, port, kt, hn, fp)
		e := &expEvent{OK: true, Src: addr, Port: sp(port), LoggedAs: user, UserID: unk,
			Data: map[string]string{"Alg": kt + " " + hn, "SSHKeySum": fp}}
		g := genLine{Form: form, Exp: e, Forward: true, Cred: unk, Method: "SSHKeyLogin"}
		if form == "accepted_cert" {
			kid, serial := genKeyID(r), genSerial(r)
			cakt := genKeyTypeWide(r)
			cahn, cafp := genFPWide(r)
			ca := fmt.Sprintf("%s %s:%s", cakt, cahn, cafp)
			line += fmt.Sprintf(" ID %s (serial %s) CA %s", kid, serial, ca)
			e.UserID = kid
			e.Data["Serial"] = serial
			e.Data["CA"] = "CA " + ca
			g.Cred = kid
			g.Method = "SSHCertLogin"
		}
		if form == "accepted_key_padded" {
			// text after the fingerprint that is not certificate information
			line += hutil.Pick(r, []string{" and stuff", " x", " publickey", " ID broken", " (serial 5)"})
			g.Method = "SSHCertLogin"
		}
		g.Line = line
		return g
	case "accepted_password":
		return genLine{Form: form, Line: fmt.Sprintf("Accepted password for %s from %s port %s ssh2", user, addr, port),
			Exp: &expEvent{OK: true, Src: addr, Port: sp(port), LoggedAs: user, UserID: unk}, Forward: true, Cred: unk, Method: "PasswordLogin"}
	case "cert_invalid":
		reason := hutil.Pick(r, []string{"expired", "not yet valid", "name is not a listed principal", "source address not permitted", "reason with: colon", "x",
			"name  is not a listed principal", "expired   (really)", "tab\there", "two  runs  of blanks", "\u0130\u212a expired"})
		return genLine{Form: form, Line: "Certificate invalid: " + reason,
			Exp: &expEvent{Src: unk, Port: sp(unk), LoggedAs: unk, UserID: unk, Data: map[string]string{"error": "certificate invalid", "reason": reason}}, Method: "SSHCertLogin"}
	case "invalid_user":
		return genLine{Form: form, Line: fmt.Sprintf("Invalid user %s from %s port %s", user, addr, port),
			Exp: &expEvent{Src: addr, Port: sp(port), LoggedAs: user, UserID: unk}, Method: "UnknownLogin"}
	case "user_shell_nonexistent", "user_shell_nonexecutable":
		shell := genPath(r)
		tail := " does not exist"
		if form == "user_shell_nonexecutable" {
			tail = " is not executable"
		}
		return genLine{Form: form, Line: fmt.Sprintf("User %s not allowed because shell %s%s", user, shell, tail),
			Exp: &expEvent{Src: unk, LoggedAs: user, UserID: unk, Shell: sp(shell)}, Method: "UnknownLogin"}
	case "root_refused":
		return genLine{Form: form, Line: fmt.Sprintf("ROOT LOGIN REFUSED FROM %s port %s", addr, port),
			Exp: &expEvent{Src: addr, Port: sp(port), LoggedAs: "root", UserID: unk}, Method: "UnknownLogin"}
	case "bad_owner":
		path := genPath(r)
		return genLine{Form: form, Line: fmt.Sprintf("Authentication refused for %s: bad owner or modes for %s", user, path),
			Exp: &expEvent{Src: unk, LoggedAs: user, UserID: unk, File: sp(path)}, Method: "UnknownLogin"}
	case "nasty_ptr":
		name := genHostname(r)
		return genLine{Form: form, Line: fmt.Sprintf("Nasty PTR record \"%s\" is set up for %s, ignoring", name, addr),
			Exp: &expEvent{Src: addr, DNS: sp(name), LoggedAs: unk, UserID: unk}, Method: "UnknownLogin"}
	case "reverse_mapping":
		// the pattern ends in an unescaped dot: ONE RUNE (not newline) - sshd prints a full stop; any other single rune,
		// multi-byte or invalid (U+FFFD, one byte), yields the same event (group R: IRune)
		name := genHostname(r)
		return genLine{Form: form, Line: fmt.Sprintf("reverse mapping checking getaddrinfo for %s [%s] failed%s", name, addr, genFinalRune(r)),
			Exp: &expEvent{Src: addr, DNS: sp(name), LoggedAs: unk, UserID: unk}, Method: "UnknownLogin"}
	case "not_map_back":
		name := genHostname(r)
		return genLine{Form: form, Line: fmt.Sprintf("Address %s maps to %s, but this does not map back to the address%s", addr, name, genFinalRune(r)),
			Exp: &expEvent{Src: addr, DNS: sp(name), LoggedAs: unk, UserID: unk}, Method: "UnknownLogin"}
	case "max_attempts":
		return genLine{Form: form, Line: fmt.Sprintf("maximum authentication attempts exceeded for %s from %s port %s ssh2", user, addr, port),
			Exp: &expEvent{Src: addr, Port: sp(port), LoggedAs: user, UserID: unk}, Method: "UnknownLogin"}
	case "failed_password":
		return genLine{Form: form, Line: fmt.Sprintf("Failed password for %s from %s port %s ssh2", user, addr, port),
			Exp: &expEvent{Src: addr, Port: sp(port), LoggedAs: user, UserID: unk}, Method: "UnknownLogin"}
	case "revoked_key", "revoked_key_err":
		kt := hutil.Pick(r, keyTypes)
		hn, fp := genFP(r)
		full := hn + ":" + fp
		path := genPath(r)
		line := fmt.Sprintf("Authentication key %s %s revoked by file %s", kt, full, path)
		if form == "revoked_key_err" {
			line = fmt.Sprintf("Error checking authentication key %s %s in revoked keys file %s", kt, full, path)
		}
		return genLine{Form: form, Line: line,
			Exp: &expEvent{Src: unk, LoggedAs: unk, UserID: unk, KeyType: sp(kt), FP: sp(full), File: sp(path)}, Method: "UnknownLogin"}
	}
	for _, uf := range userForms {
		if uf.name == form {
			return genLine{Form: form, Line: fmt.Sprintf("User %s from %s%s", user, addr, uf.tail),
				Exp: &expEvent{Src: addr, LoggedAs: user, UserID: unk}, Method: "UnknownLogin"}
		}
	}
	panic("unknown form " + form)
}

// what sshd itself puts directly in front of the user name in these messages (auth.c: authctxt->valid ? "" : "invalid user ";
// "illegal user " in old releases)
var userMarkers = []string{"invalid user ", "illegal user "}

// further phrases of sshd's messages around a client-chosen name
var msgPhrases = []string{" from ", " port ", " ssh2", "Failed password for ", "Invalid user ", "maximum authentication attempts exceeded for ",
	"Accepted password for ", "Accepted publickey for ", "User ", "Connection closed by authenticating user ", " [preauth]", "Disconnecting invalid user ",
	"Failed none for ", "Failed publickey for ", "error: ", " not allowed because ", "Certificate invalid: ", "ROOT LOGIN REFUSED FROM ",
	": bad owner or modes for ", "Address ", " maps to ", "input_userauth_request: invalid user ", "(serial ", ") CA "}

// text that some layer between the client and the daemon might take for an escape sequence: rsyslog's #ooo control
// character escapes, C / JSON / shell / octal / hex escapes, URL and HTML encodings, quoting characters
var escapeTexts = []string{"#012", "#011", "#015", "#000", "#177", "#033[0m", "#040", "#010#012", "#12", "#0123", "#200", "##012",
	"\\n", "\\r\\n", "\\t", "\\012", "\\x0a", "\\u000a", "\\0", "\\e[2J", "%0a", "%0A", "%0d%0a", "%20", "%00", "%", "%%", "%s", "%n",
	"&#10;", "&#x0a;", "&#xA;", "&amp;", "&lt;", "&nbsp;", "&", "^J", "^M", "^@", "$'\\n'", "\\\\", "\\", "\"", "'", "`", "\\\"", "${x}", "$(x)", "+", "=0A", "=?utf-8?q?=0A?=",
	"\\N{LF}", "U+000A", "0x0a", "<LF>", "<br>"}

// edgeNames: the systematic part of the client-chosen names, most telling first: the empty name; each marker without its
// trailing blank, whole, doubled; escape-looking text alone and inside a name; every phrase trimmed; then EVERY proper
// prefix and suffix of every phrase.
var edgeNames = buildEdgeNames()

func buildEdgeNames() []string {
	var out []string
	seen := map[string]bool{}
	add := func(xs ...string) {
		for _, x := range xs {
			if !seen[x] && !strings.Contains(x, "\n") {
				seen[x] = true
				out = append(out, x)
			}
		}
	}
	add("")
	m0 := userMarkers[0]
	add(strings.TrimRight(m0, " "), m0, strings.TrimRight(userMarkers[1], " "))
	add("a"+escapeTexts[0]+"b", escapeTexts[0], "x"+escapeTexts[12]+"y", "x%0ay", "x&#10;y", userMarkers[1], "from", " port")
	for _, m := range userMarkers {
		t := strings.TrimRight(m, " ")
		add(t, m, m+" ", " "+t, t+"x", m+m, m+t, strings.ToUpper(t[:1])+t[1:])
	}
	for _, e := range escapeTexts {
		add("a"+e+"b", e, "root"+e)
	}
	all := append(append([]string{}, userMarkers...), msgPhrases...)
	for _, p := range all {
		add(strings.TrimRight(p, " "), strings.TrimLeft(p, " "), p)
	}
	for _, p := range all {
		for k := 1; k < len(p); k++ {
			add(p[:k], p[k:])
		}
	}
	return out
}

// the five messages that print a client-chosen name followed by the peer address and port
var clientForms = []string{"invalid_user", "failed_password", "failed_password_invalid", "max_attempts", "max_attempts_invalid"}

func clientNameLine(form, name, addr, port string) genLine {
	e := &expEvent{Src: addr, Port: sp(port), LoggedAs: name, UserID: "unknown"}
	switch form {
	case "invalid_user":
		return genLine{Form: form, Line: fmt.Sprintf("Invalid user %s from %s port %s", name, addr, port), Exp: e, Method: "UnknownLogin"}
	case "failed_password":
		return genLine{Form: form, Line: fmt.Sprintf("Failed password for %s from %s port %s ssh2", name, addr, port), Exp: e, Method: "UnknownLogin"}
	case "failed_password_invalid":
		return genLine{Form: form, Line: fmt.Sprintf("Failed password for invalid user %s from %s port %s ssh2", name, addr, port), Exp: e, OnlySrc: true, Method: "UnknownLogin"}
	case "max_attempts":
		return genLine{Form: form, Line: fmt.Sprintf("maximum authentication attempts exceeded for %s from %s port %s ssh2", name, addr, port), Exp: e, Method: "UnknownLogin"}
	}
	return genLine{Form: "max_attempts_invalid", Line: fmt.Sprintf("maximum authentication attempts exceeded for invalid user %s from %s port %s ssh2", name, addr, port), Exp: e, OnlySrc: true, Method: "UnknownLogin"}
}

// genClientNameEdge: the idx-th pair of the systematic walk (edge name, message form); name-major, so consecutive
// indices take one name through all five forms.  No randomness: the same walk in every run.
func genClientNameEdge(idx int) genLine {
	total := len(edgeNames) * len(clientForms)
	idx = ((idx % total) + total) % total
	name := edgeNames[idx/len(clientForms)]
	addrs := []string{"10.1.2.3", "2001:db8::7", "host.example.com", "fe80::1%eth0"}
	ports := []string{"22", "0", "65535", "40022"}
	return clientNameLine(clientForms[idx%len(clientForms)], name, addrs[(idx/3)%len(addrs)], ports[(idx/7)%len(ports)])
}

// C17: the three messages that print a client-chosen name followed by the peer address and port.
func genClientName(r *hutil.Rand) genLine {
	name := genHostileUser(r)
	addr, port := genAddr(r), genPort(r)
	for strings.ContainsAny(addr, " ") {
		addr = genAddr(r)
	}
	e := &expEvent{Src: addr, Port: sp(port), LoggedAs: name, UserID: "unknown"}
	switch r.Intn(5) {
	case 0:
		return genLine{Form: "invalid_user", Line: fmt.Sprintf("Invalid user %s from %s port %s", name, addr, port), Exp: e, Method: "UnknownLogin"}
	case 1:
		return genLine{Form: "failed_password", Line: fmt.Sprintf("Failed password for %s from %s port %s ssh2", name, addr, port), Exp: e, Method: "UnknownLogin"}
	case 2:
		return genLine{Form: "failed_password_invalid", Line: fmt.Sprintf("Failed password for invalid user %s from %s port %s ssh2", name, addr, port), Exp: e, OnlySrc: true, Method: "UnknownLogin"}
	case 3:
		return genLine{Form: "max_attempts", Line: fmt.Sprintf("maximum authentication attempts exceeded for %s from %s port %s ssh2", name, addr, port), Exp: e, Method: "UnknownLogin"}
	}
	return genLine{Form: "max_attempts_invalid", Line: fmt.Sprintf("maximum authentication attempts exceeded for invalid user %s from %s port %s ssh2", name, addr, port), Exp: e, OnlySrc: true, Method: "UnknownLogin"}
}

var keywords = []string{"Accepted publickey", "Accepted password", "Certificate invalid", "Invalid user", "User ",
	"ROOT LOGIN REFUSED FROM ", "Authentication refused for ", "Nasty PTR record \"", "reverse mapping checking getaddrinfo for ",
	"Address ", "maximum authentication attempts exceeded for ", "Authentication key ", "Error checking authentication key ", "Failed password for "}

// every form incl. the accepted-publickey line with trailing text that is not certificate
// information (not one of the C06 forms; used by C05/C11/C19)
var formNamesAll = append(append([]string{}, formNames...), "accepted_key_padded")

// hostile / malformed lines: arbitrary bytes and systematic mutations of valid messages
func genHostile(r *hutil.Rand) genLine {
	base := genForm(r, hutil.Pick(r, formNames)).Line
	switch r.Intn(10) {
	case 0: // arbitrary bytes
		n := r.Intn(60)
		b := make([]byte, n)
		for i := range b {
			b[i] = byte(r.Intn(256))
		}
		return genLine{Form: "bytes", Line: string(b)}
	case 1: // truncation at a token boundary or anywhere
		if len(base) > 0 {
			base = base[:r.Intn(len(base)+1)]
		}
		return genLine{Form: "truncated", Line: base}
	case 2: // keyword change
		return genLine{Form: "keyword_changed", Line: strings.ToLower(base[:1]) + base[1:]}
	case 3: // prefixed text
		return genLine{Form: "prefixed", Line: hutil.Pick(r, []string{" ", "x", "error: ", "sshd: ", "\t"}) + base}
	case 4: // duplicated segment
		k := r.Intn(len(base) + 1)
		return genLine{Form: "duplicated", Line: base[:k] + base}
	case 5: // second accepted-publickey later in the line so that the match offset is > 0
		// (both a key-only message, whose match then runs to the very end of the line, and a
		// certificate message with a tail after the match)
		g := genForm(r, hutil.Pick(r, []string{"accepted_key", "accepted_cert", "accepted_key"}))
		return genLine{Form: "second_accept", Line: hutil.Pick(r, []string{"Accepted publickeyX", "Accepted publickey ", "Accepted publickey for x ", "Accepted publickey"}) +
			hutil.Pick(r, []string{"", " ", " junk "}) + g.Line}
	case 6: // keyword followed by garbage
		n := r.Intn(30)
		b := make([]byte, n)
		for i := range b {
			b[i] = byte(r.Intn(256))
		}
		return genLine{Form: "keyword_garbage", Line: hutil.Pick(r, keywords) + string(b)}
	case 7: // NUL, quotes, invalid UTF-8 inside a valid message
		k := r.Intn(len(base) + 1)
		return genLine{Form: "injected_bytes", Line: base[:k] + hutil.Pick(r, []string{"\x00", "\"", "\xff\xfe", "\xc3", "\n", "\r\n", "'"}) + base[k:]}
	case 8: // empty and whitespace
		if r.Chance(1, 2) {
			// the two patterns ending in an unescaped dot, with a tail that is not exactly one rune
			g := genForm(r, hutil.Pick(r, []string{"reverse_mapping", "not_map_back"}))
			word := " failed"
			if g.Form == "not_map_back" {
				word = " address"
			}
			cut := strings.LastIndex(g.Line, word)
			return genLine{Form: "dns_tail_not_one_rune", Line: g.Line[:cut+len(word)] + hutil.Pick(r, finalTwoRunes)}
		}
		return genLine{Form: "blank", Line: hutil.Pick(r, []string{"", " ", "\n", "  \t"})}
	}
	// very long
	return genLine{Form: "long", Line: base + strings.Repeat(hutil.Pick(r, []string{"A", " from ", "\xff"}), 200+r.Intn(2000))}
}

func genPidToken(r *hutil.Rand, hostile bool) string {
	if !hostile || r.Chance(1, 2) {
		return strconv.Itoa(1 + r.Intn(4000000))
	}
	return hutil.Pick(r, []string{"1", "007", "+5", "2147483647", "9223372036854775807", "9223372036854775808", "99999999999999999999", "", "0", "-3", "-0", "12a", "a", " 5", "5 ", "1_000", "0x10", "-9223372036854775808", "-9223372036854775809", "+", "-"})
}

// ---------- hostile bytes at token positions ----------

// hostileTokens: what can stand where a daemon expects a word.  No blank inside (a token is what lies between two
// blanks).  Invalid UTF-8 of every kind (lone continuation and lead bytes, truncated sequences, overlong forms, encoded
// surrogates, code points beyond U+10FFFF, 0xfe/0xff), NUL and other control bytes, the replacement character itself,
// quotes and what text templates / JSON / label syntaxes give a meaning to, the empty token, very long tokens.
var hostileTokens = []string{
	"\xff\xfe", "\xff", "\xc3", "\x80", "\xbf\xbf", "\xe2\x82", "\xf0\x9f\x8f", "\xc0\xaf", "\xe0\x80\xaf", "\xed\xa0\x80", "\xed\xbf\xbf", "\xf4\x90\x80\x80", "\xf8\x88\x80\x80\x80", "\xfe", "pass\xc3word", "\xc3(", "a\xffb",
	"\x00", "a\x00b", "\x00\x00\x00", "\x01", "\x1b[31m", "\x7f", "\r", "\n", "x\ny", "\t", "\v", "\u0085", "\u00a0", "\u2028",
	"", "\ufffd", "\ufeff", "\u202e", "\U0010ffff", "\U000e0001",
	"\"", "'", "`", "\\", "\\\"", "\"\"", "{", "}", "{}", "{{.}}", "${x}", "%s", "%!s(MISSING)", "%", "%%", "<", "&", ",", "=", "=\"", "\",x=\"", "{method=\"x\"}", "#", ":", "/", "//", "..", "*", "?", "[", "(", ")", "(?", "$", "^", "|",
	"-", "--", "-1", "0", "007", "+5", "1e9", "0x10", "99999999999999999999", "NaN", "null", "true", "nil", "<nil>",
	"keyboard-interactive/pam", "keyboard-interactive", "hostbased", "gssapi-with-mic", "gssapi-keyex", "none", "publickey", "password", "PASSWORD", "Password", "publickey,password", "publickey:", "password\x00",
}

func genHostileToken(r *hutil.Rand) string {
	switch r.Intn(12) {
	case 0: // arbitrary bytes without blank
		n := 1 + r.Intn(12)
		b := make([]byte, n)
		for i := range b {
			for b[i] = byte(r.Intn(256)); b[i] == ' '; b[i] = byte(r.Intn(256)) {
			}
		}
		return string(b)
	case 1: // very long
		return strings.Repeat(hutil.Pick(r, []string{"A", "\xff", "\x00", "é", "ab/", "{"}), 300+r.Intn(9000))
	case 2: // an ordinary word with hostile bytes inside or around it
		w := hutil.Pick(r, []string{"password", "publickey", "root", "ssh2", "22", "10.0.0.1", "RSA", "SHA256:abc", "from", "port", "for"})
		h := hutil.Pick(r, hostileTokens)
		k := r.Intn(len(w) + 1)
		return w[:k] + h + w[k:]
	case 3:
		return genCaseText(r)
	}
	return hutil.Pick(r, hostileTokens)
}

// the authentication-result messages of sshd's auth.c (auth_log): "<Accepted|Failed|Postponed|Partial> <method>[/<submethod>]
// for [invalid user ]<user> from <addr> port <port> ssh2[: <key info>]".  The daemon audits publickey and password results
// only; every other method (and every other token in that place) is an unrecognised line to it: nothing is emitted,
// nothing is counted, nothing crashes, whatever the token holds.
var authVerbs = []string{"Accepted", "Failed", "Postponed", "Partial", "Accepted", "Failed"}

func genGenericAuth(r *hutil.Rand, idx int) genLine {
	verb := authVerbs[r.Intn(len(authVerbs))]
	tok := genHostileToken(r)
	if idx%2 == 0 {
		// the systematic half: the listed tokens in order, the verbs in rotation (every token meets every verb as the walk goes on)
		j := idx / 2
		tok = hostileTokens[j%len(hostileTokens)]
		verb = authVerbs[(j+j/len(hostileTokens))%len(authVerbs)]
	}
	user := genUser(r)
	if r.Chance(1, 4) {
		user = "invalid user " + user
	}
	line := fmt.Sprintf("%s %s for %s from %s port %s ssh2", verb, tok, user, genAddr(r), genPort(r))
	switch r.Intn(6) {
	case 0:
		fp, sum := genFP(r)
		line += fmt.Sprintf(": %s %s:%s", hutil.Pick(r, keyTypes), fp, sum)
	case 1:
		line += " [preauth]"
	case 2: // the token directly before the rest, without " for "
		line = fmt.Sprintf("%s %s", verb, tok)
	case 3: // two blanks, or none, after the verb
		line = strings.Replace(line, " ", hutil.Pick(r, []string{"  ", "", "\t"}), 1)
	}
	return genLine{Form: "generic_auth", Line: line}
}

var clientFormsAndAll = append(append([]string{}, formNamesAll...), "failed_password_invalid", "max_attempts_invalid")

// genTokenReplaced: a well-formed message of one of the recognised shapes in which ONE blank-delimited token is replaced
// by hostile bytes (or removed, or doubled), every position in turn: idx walks form-major through (form, position); the
// keyword stays unless the position is inside it.  Nothing is claimed about the event (C11's oracle needs no
// expectation): no panic, no error, at most one event, fields verbatim.
func genTokenReplaced(r *hutil.Rand, idx int) genLine {
	form := clientFormsAndAll[idx%len(clientFormsAndAll)]
	var base string
	switch form {
	case "failed_password_invalid", "max_attempts_invalid":
		base = clientNameLine(form, genUser(r), genAddr(r), genPort(r)).Line
	default:
		base = genForm(r, form).Line
	}
	toks := strings.Split(base, " ")
	pos := (idx / len(clientFormsAndAll)) % len(toks)
	if (idx/len(clientFormsAndAll))%2 == 1 {
		// every other round a position of its own per form, so that a short run does not stay inside the keywords
		pos = r.Intn(len(toks))
	}
	h := genHostileToken(r)
	switch r.Intn(8) {
	case 0: // the token gone (two blanks in a row stay)
		toks[pos] = ""
	case 1: // the token and its blank gone
		toks = append(toks[:pos], toks[pos+1:]...)
	case 2: // hostile bytes glued to the token
		toks[pos] = toks[pos] + h
	case 3:
		toks[pos] = h + toks[pos]
	default:
		toks[pos] = h
	}
	line := strings.Join(toks, " ")
	if len(line) > 150 && r.Chance(1, 2) {
		// keep a share of the long ones short enough for the model
		if len(h) > 40 {
			line = strings.Replace(line, h, h[:40], 1)
		}
	}
	return genLine{Form: "token_replaced", Line: line}
}

// ---------- ORDER as an input ----------

// The processor is long-lived: what it does with a line must not depend on the line processed before it.  A generated
// case is therefore, now and then, processed right AFTER a genuine line of each recognised kind in rotation (accepted
// publickey / certificate / password, every failure form), with or without an unrecognised line in between; and every
// other time the follower is a failure line whose client-chosen name embeds a complete message OF THE KIND JUST
// PROCESSED (cut at sshd's 100-byte truncation of names): state remembered from the previous line (its kind, its
// pattern, its fields) meets client text made to look like it.  Every line is judged on its own by the property's oracle.
var precedingForms = append(append([]string{}, formNames...), "failed_password_invalid", "max_attempts_invalid")

func genGenuine(r *hutil.Rand, form string) genLine {
	switch form {
	case "failed_password_invalid", "max_attempts_invalid":
		addr := genAddr(r)
		return clientNameLine(form, genUser(r), addr, genPort(r))
	}
	return genForm(r, form)
}

// cutName: sshd prints at most 100 bytes of a client-chosen name (%.100s); cut at a rune boundary, no newline.
func cutName(s string) string {
	s = strings.NewReplacer("\n", " ", "\r", " ").Replace(s)
	if len(s) > 100 {
		k := 100
		for k > 0 && !utf8.RuneStart(s[k]) {
			k--
		}
		s = s[:k]
	}
	return s
}

// genEmbeddingName: a client-chosen name that holds a complete (or, beyond 100 bytes, truncated) message of the given form.
func genEmbeddingName(r *hutil.Rand, form string) string {
	inner := genGenuine(r, form).Line
	if r.Chance(1, 3) {
		// short field values, so that more of the message survives the truncation
		inner = shortMessage(r, form, inner)
	}
	return cutName(hutil.Pick(r, []string{"", "", "", "x ", "root ", "-"}) + inner)
}

// shortMessage: the accepted forms with the shortest field values (the whole message within 100 bytes).
func shortMessage(r *hutil.Rand, form, dflt string) string {
	u, a, p := hutil.Pick(r, []string{"root", "a", "x y"}), hutil.Pick(r, []string{"6.6.6.6", "::1", "h"}), hutil.Pick(r, []string{"1", "22", "65535"})
	switch form {
	case "accepted_key", "accepted_cert":
		m := fmt.Sprintf("Accepted publickey for %s from %s port %s ssh2: %s SHA256:%s", u, a, p, hutil.Pick(r, []string{"RSA", "ED25519"}), hutil.Pick(r, []string{"abc", "x", "AbC+/9="}))
		if form == "accepted_cert" {
			m += fmt.Sprintf(" ID %s (serial %d) CA RSA SHA256:%s", hutil.Pick(r, []string{"k", "ops"}), r.Intn(10), hutil.Pick(r, []string{"d", "Zz0"}))
		}
		return m
	case "accepted_password":
		return fmt.Sprintf("Accepted password for %s from %s port %s ssh2", u, a, p)
	}
	return dflt
}

// genOrdered: the lines to process before `next` (first a genuine line of the k-th kind), and the follower: `next` itself or,
// every other round of the kinds, a client-name line embedding a message of that kind (mode and PID token of `next` are kept).
func genOrdered(r *hutil.Rand, k int, next caseDesc) ([]caseDesc, caseDesc, string) {
	form := precedingForms[k%len(precedingForms)]
	pd := caseDesc{Tok: genPidToken(r, false), Gen: genGenuine(r, form), Mode: runMode{WriteOK: true, Ready: true, Debug: k%3 == 2}}
	if r.Chance(1, 3) && !strings.HasPrefix(pd.Gen.Line, " ") {
		pd.Mode.Framed = true // as in the daemon, through the syslog ingester
	}
	if r.Chance(1, 4) {
		pd.Tok, pd.TokHex = next.Tok, "" // the same sshd process printed both lines
	}
	if pd.Mode.Framed && (strings.Contains(pd.Tok, " ") || strings.HasPrefix(pd.Gen.Line, " ")) {
		pd.Mode.Framed = false // framed delivery is "as if handed over directly" only for such records (main.go: genCase)
	}
	pd.seal()
	prevs := []caseDesc{pd}
	if r.Chance(1, 4) {
		// a line the processor does not recognise in between (it must not matter either)
		u := caseDesc{Tok: genPidToken(r, false), Gen: genGenericAuth(r, 2*r.Intn(len(hostileTokens))+1), Mode: runMode{WriteOK: true, Ready: true}}
		if r.Bool() {
			u.Gen = genLine{Form: "unrecognised", Line: hutil.Pick(r, []string{"Connection closed by 10.0.0.1 port 22 [preauth]", "pam_unix(sshd:session): session opened for user root by (uid=0)", "Received disconnect from ::1 port 5: 11: disconnected by user", "", "Disconnected from user root 10.0.0.9 port 1"})}
		}
		u.seal()
		prevs = append(prevs, u)
	}
	follow := next
	if (k/len(precedingForms))%2 == 0 {
		addr := genAddr(r)
		for strings.ContainsAny(addr, " ") {
			addr = genAddr(r)
		}
		follow.Gen = clientNameLine(clientForms[(k+k/len(precedingForms)/2)%len(clientForms)], genEmbeddingName(r, form), addr, genPort(r))
		follow.LineHex = ""
		if follow.Mode.Framed && (strings.Contains(follow.Tok, " ") || strings.HasPrefix(follow.Gen.Line, " ")) {
			follow.Mode.Framed, follow.Mode.Pad = false, 0
		}
		follow.seal()
	}
	return prevs, follow, form
}

// ---------- envelopes around recognised messages ----------

// What syslog daemons and collectors put AROUND a message: rsyslog's repeated-message reduction ("message repeated N times:
// [ <msg>]", "last message repeated N times"), BSD syslogd's "--- last message repeated N times ---", a timestamp + host + tag
// prefix left in place, RFC 5424 and journald renderings, sshd's own trailing " [preauth]", quotes, nestings and near misses
// of these.  To the daemon a line is what it begins with: an enveloped message does not begin with a recognised keyword,
// so nothing is emitted and nothing is counted (C11, C19), whatever N says (0 ... 1000 and beyond); with a trailing
// " [preauth]" the line does begin with its keyword and whatever is emitted is counted once.  idx walks envelope-major
// through (envelope, message form); no expectation about the event is attached (the oracles need none).
var repeatCounts = []int{2, 3, 0, 1, 5, 10, 64, 100, 999, 1000, 1001, 65536, 4294967296}

const nEnvelopes = 12

func genEnveloped(r *hutil.Rand, idx int) genLine {
	if idx < 0 {
		idx = -idx
	}
	form := precedingForms[(idx/nEnvelopes+idx)%len(precedingForms)]
	if r.Chance(1, 3) {
		// the forms that hand a login over, more often
		form = slowForms[r.Intn(len(slowForms))]
	}
	inner := genGenuine(r, form).Line
	n := repeatCounts[(idx/nEnvelopes)%len(repeatCounts)]
	if r.Chance(1, 4) {
		n = r.Intn(1001)
	}
	pid := 1 + r.Intn(4000000)
	host := hutil.Pick(r, []string{"node-7", "host.example.com", "localhost", "ip-10-0-0-7"})
	var line string
	switch idx % nEnvelopes {
	case 0, 6: // rsyslog, $RepeatedMsgReduction on: exactly its form
		line = fmt.Sprintf("message repeated %d times: [ %s]", n, inner)
	case 1: // near misses of it
		line = fmt.Sprintf(hutil.Pick(r, []string{"message repeated %d times: [%s]", "message repeated %d times: [ %s", "message repeated %d times: [ %s] ", "message repeated %d times: %s",
			"Message repeated %d times: [ %s]", "message repeated %d time: [ %s]", " message repeated %d times: [ %s]", "message repeated %d times: [  %s ]", "message repeated +%d times: [ %s]"}), n, inner)
	case 2:
		line = fmt.Sprintf(hutil.Pick(r, []string{"last message repeated %d times", "--- last message repeated %d times ---", "last message repeated %d time"}), n)
		if r.Chance(1, 4) { // ... with the message behind it
			line += ": " + inner
		}
	case 3: // the traditional prefix left in place
		line = fmt.Sprintf("%s %s sshd[%d]: %s", hutil.Pick(r, []string{"Oct  1 12:00:00", "Jan 31 23:59:59", "2026-10-01T12:00:00.123456+00:00"}), host, pid, inner)
	case 4: // RFC 5424
		line = fmt.Sprintf("<%d>1 2026-10-01T12:00:00Z %s sshd %d - - %s", hutil.Pick(r, []int{38, 86, 0, 191}), host, pid, inner)
	case 5: // sshd's own suffix: the line begins with its keyword
		line = inner + hutil.Pick(r, []string{" [preauth]", " [preauth]", "[preauth]", " [postauth]", " [preauth] "})
	case 7: // tag only (journald short, busybox)
		line = fmt.Sprintf(hutil.Pick(r, []string{"sshd[%d]: %s", "sshd-session[%d]: %s", "%d %s", "[%d] %s", "auth.info sshd[%d]: %s"}), pid, inner)
	case 8: // nested / doubled reduction
		line = fmt.Sprintf("message repeated %d times: [ message repeated %d times: [ %s]]", n, repeatCounts[r.Intn(len(repeatCounts))], inner)
	case 9: // quoting and structured renderings
		line = fmt.Sprintf(hutil.Pick(r, []string{"\"%s\"", "'%s'", "MESSAGE=%s", "{\"MESSAGE\":\"%s\"}", "msg=\"%s\"", "[%s]", "[ %s]", "(%s)", "> %s"}), inner)
	case 10: // the reduction wrapper around a line that is not a recognised message
		line = fmt.Sprintf("message repeated %d times: [ %s]", n, hutil.Pick(r, []string{"Connection closed by 10.0.0.1 port 22 [preauth]", "", "x", "Failed none for root from ::1 port 1 ssh2", "message repeated", "]", "[ ]"}))
	default: // the count in other spellings
		line = fmt.Sprintf("message repeated %s times: [ %s]", hutil.Pick(r, []string{"", "-2", "2.0", "0x10", "two", "99999999999999999999", "007", " 3", "1e3"}), inner)
	}
	return genLine{Form: "enveloped", Line: line}
}
