//go:build verif

package main

// Mode "stall" (C07, real-FIFO level): a record that reaches the pipe in TWO OR MORE WRITES WITH A PAUSE IN BETWEEN.
// rsyslog's ompipe normally hands a record to the kernel in one write, but a record longer than PIPE_BUF, a writer
// that is pre-empted or throttled, a forwarder that flushes on a timer all produce a record whose first bytes are
// readable long before its terminator.  "The line terminator frames the record": what is processed is the bytes
// between two terminators, however long the writer took to produce them.  An ingester that polls (read deadline,
// timer, select with a time-out) and forgets what it had already consumed when the poll expires behaves exactly like
// the original for every writer that is fast enough - so the pauses come in several magnitudes (a poll interval is a
// round number somewhere between a tenth of a second and half a minute), each strictly inside a record.
//
// Both pipes: the sshd pipe through the real named-pipe ingester + syslog ingester + sshd processor (oracle: the
// events and forwarded logins equal those of the direct hand-over of the same (pid, message) pairs), and the audit
// pipe through the real named-pipe ingester + audit-log ingester (oracle: one line pushed per record, parsing to the
// audit message of the bare record).  Every case has its own FIFO, ingester and processor; all cases of a stage run
// concurrently, so the stage lasts about as long as its longest pause.  Nothing is timed by the oracle: the end of a
// case is the ingester returning after the writer closed its end (generous watchdog), and once a case has failed the
// others stop pausing and are not judged.

import (
	"context"
	"fmt"
	"os"
	"path/filepath"
	"reflect"
	"sort"
	"strings"
	"sync"
	"syscall"
	"time"
	"unicode/utf8"

	"github.com/elastic/go-libaudit/v2/auparse"

	"github.com/metal-toolbox/audito-maldito/ingesters/auditlog"
	"github.com/metal-toolbox/audito-maldito/ingesters/namedpipe"
	"github.com/metal-toolbox/audito-maldito/ingesters/syslog"
	"github.com/metal-toolbox/audito-maldito/internal/health"
	"github.com/metal-toolbox/audito-maldito/internal/verifharness/hutil"
	"github.com/metal-toolbox/audito-maldito/processors/sshd"
)

type stallPoint struct {
	After int `json:"after_stream_byte"` // the writer pauses once it has written this many bytes of the stream
	Ms    int `json:"pause_ms"`
}

type stallCase struct {
	Pipe    string       `json:"pipe"` // sshd | audit
	Records []fifoRecord `json:"records,omitempty"`
	Lines   []string     `json:"audit_lines,omitempty"`
	Stalls  []stallPoint `json:"pauses"`
	Where   []string     `json:"pause_positions"` // in words, per pause
	Chunk   int          `json:"max_write_size"`  // the pieces between pauses are written in writes of at most this size (0: one write)
	Debug   bool         `json:"debug_logging,omitempty"`
}

type stallObs struct {
	Got, Want []string `json:"-"`
	NGot      int      `json:"items_observed"`
	NWant     int      `json:"items_expected"`
	Ret       string   `json:"ingester_returned"`
	Hung      bool     `json:"ingester_did_not_return,omitempty"`
	Aborted   bool     `json:"aborted,omitempty"`
	Harness   string   `json:"harness_problem,omitempty"`
}

// after the writer closed its end a correct ingester returns at once (end of stream); the bound is generous because
// the machine may be loaded
const stallFinish = 30 * time.Second

func (c stallCase) stream() []byte {
	var s []byte
	if c.Pipe == "sshd" {
		for _, rc := range c.Records {
			s = append(s, []byte(rc.Tok+" "+strings.Repeat(" ", rc.Pad)+rc.Msg+"\n")...)
		}
		return s
	}
	for _, l := range c.Lines {
		s = append(s, []byte(l+"\n")...)
	}
	return s
}

// writeStalled writes the stream into the FIFO, pausing at the case's pause points; an abort ends the pauses.
func writeStalled(path string, c stallCase, abort <-chan struct{}) (aborted bool, err error) {
	w, err := os.OpenFile(path, os.O_WRONLY, 0)
	if err != nil {
		return false, err
	}
	defer w.Close()
	stream := c.stream()
	pts := append([]stallPoint{}, c.Stalls...)
	sort.Slice(pts, func(i, j int) bool { return pts[i].After < pts[j].After })
	off := 0
	put := func(to int) error {
		for off < to {
			k := to - off
			if c.Chunk > 0 && k > c.Chunk {
				k = c.Chunk
			}
			if _, err := w.Write(stream[off : off+k]); err != nil {
				return err
			}
			off += k
		}
		return nil
	}
	for _, p := range pts {
		if p.After < off || p.After > len(stream) {
			continue
		}
		if err := put(p.After); err != nil {
			return aborted, err
		}
		select {
		case <-time.After(time.Duration(p.Ms) * time.Millisecond):
		case <-abort:
			aborted = true
		}
	}
	return aborted, put(len(stream))
}

func runStall(c stallCase, dir string, abort <-chan struct{}) stallObs {
	var o stallObs
	d, err := os.MkdirTemp(dir, "stall")
	if err != nil {
		o.Harness = "mkdtemp: " + err.Error()
		return o
	}
	defer os.RemoveAll(d)
	path := filepath.Join(d, c.Pipe+"-pipe")
	if err := syscall.Mkfifo(path, 0o600); err != nil {
		o.Harness = "mkfifo: " + err.Error()
		return o
	}
	npi := namedpipe.NewNamedPipeIngester(hutil.Logger(c.Debug), health.NewHealth())
	ingDone := make(chan error, 1)
	var collect func() []string
	var cancel context.CancelFunc
	switch c.Pipe {
	case "sshd":
		direct := newProcSession()
		for _, rc := range c.Records {
			_ = direct.p.ProcessSshdLogEntry(direct.ctx, sshd.SshdLogEntry{PID: rc.Tok, Message: rc.Msg})
		}
		o.Want = direct.result()
		framed := newProcSession()
		cancel = framed.cancel
		si := syslog.NewSyslogIngester(path, framed.p, npi)
		go func() { ingDone <- si.Ingest(framed.ctx) }()
		collect = framed.result
	default:
		for _, l := range c.Lines {
			o.Want = append(o.Want, auditMsgCanon(l))
		}
		// room for every line an implementation could possibly push (one per terminator and one for a tail)
		ch := make(chan string, 2*len(c.Lines)+16)
		ctx, cf := context.WithCancel(context.Background())
		cancel = cf
		ali := auditlog.NewAuditLogIngester(path, ch, npi)
		go func() { ingDone <- ali.Ingest(ctx) }()
		collect = func() []string {
			var out []string
			for {
				select {
				case l := <-ch:
					out = append(out, auditMsgCanon(l))
				default:
					return out
				}
			}
		}
	}
	defer cancel()
	wDone := make(chan error, 1)
	go func() {
		ab, err := writeStalled(path, c, abort)
		o.Aborted = ab
		wDone <- err
	}()
	var werr error
	select {
	case werr = <-wDone:
	case err := <-ingDone:
		// the ingester gave up while the writer was still at it: the writer gets EPIPE or finishes into the void
		o.Ret = fmt.Sprint(err)
		ingDone <- err
		select {
		case werr = <-wDone:
			werr = nil // a failed write is the consequence, not a harness problem
		case <-time.After(stallFinish + time.Duration(maxPause(c))*time.Millisecond):
			o.Harness = "the writer did not finish"
		}
	}
	if werr != nil {
		o.Harness = "writing into the FIFO failed: " + werr.Error()
	}
	select {
	case err := <-ingDone:
		o.Ret = fmt.Sprint(err)
	case <-time.After(stallFinish):
		o.Hung = true
		cancel()
		select {
		case <-ingDone:
		case <-time.After(5 * time.Second):
		}
	}
	o.Got = collect()
	o.NGot, o.NWant = len(o.Got), len(o.Want)
	return o
}

func maxPause(c stallCase) int {
	t := 0
	for _, p := range c.Stalls {
		t += p.Ms
	}
	return t
}

// auditMsgCanon: the audit message a pushed line stands for, as go-libaudit's parser reads it (what parseAuditLogs does
// with the line); a line that does not parse is itself.
func auditMsgCanon(line string) string {
	m, err := auparse.ParseLogLine(line)
	if err != nil {
		return fmt.Sprintf("unparsable{%q: %v}", line, err)
	}
	data, derr := m.Data()
	keys := make([]string, 0, len(data))
	for k := range data {
		keys = append(keys, k)
	}
	sort.Strings(keys)
	var sb strings.Builder
	fmt.Fprintf(&sb, "msg{%s %d.%09d seq=%d raw=%q dataerr=%v", m.RecordType, m.Timestamp.Unix(), m.Timestamp.Nanosecond(), m.Sequence, m.RawData, derr != nil)
	for _, k := range keys {
		fmt.Fprintf(&sb, " %s=%q", k, data[k])
	}
	sb.WriteString("}")
	return sb.String()
}

func judgeStall(c stallCase, o stallObs) []failure {
	if o.Aborted || o.Harness != "" {
		return nil
	}
	pauses := describePauses(c)
	if o.Hung {
		return []failure{{"framed:stall:" + c.Pipe + ":ingester-did-not-finish", fmt.Sprintf("%s pipe, %d records, %s: the ingester did not return within %s of the writer closing the pipe",
			c.Pipe, nRecords(c), pauses, stallFinish)}}
	}
	if reflect.DeepEqual(o.Got, o.Want) {
		return nil
	}
	first := 0
	for first < len(o.Got) && first < len(o.Want) && o.Got[first] == o.Want[first] {
		first++
	}
	g, w := "<nothing>", "<nothing>"
	if first < len(o.Got) {
		g = o.Got[first]
	}
	if first < len(o.Want) {
		w = o.Want[first]
	}
	if len(g) > 300 {
		g = g[:300] + "..."
	}
	if len(w) > 300 {
		w = w[:300] + "..."
	}
	if c.Pipe == "sshd" {
		return []failure{{"framed:stall:sshd", fmt.Sprintf("%d records written into a real FIFO read by the syslog ingester, %s: item %d is %s, handed over directly it is %s (%d vs %d events and logins; the ingester returned %s)",
			len(c.Records), pauses, first, g, w, len(o.Got), len(o.Want), o.Ret)}}
	}
	return []failure{{"framed:stall:audit", fmt.Sprintf("%d audit records written into a real FIFO read by the audit-log ingester, %s: pushed line %d stands for %s, the record is %s (%d lines pushed for %d records; the ingester returned %s)",
		len(c.Lines), pauses, first, g, w, len(o.Got), len(o.Want), o.Ret)}}
}

func nRecords(c stallCase) int { return len(c.Records) + len(c.Lines) }

func describePauses(c stallCase) string {
	var ps []string
	for i, p := range c.Stalls {
		wh := ""
		if i < len(c.Where) {
			wh = " " + c.Where[i]
		}
		ps = append(ps, fmt.Sprintf("the writer pausing %d ms after byte %d (%s)", p.Ms, p.After, strings.TrimSpace(wh)))
	}
	return strings.Join(ps, " and ")
}

// genStallCase: 3-8 records; one pause of ms milliseconds strictly inside a record (a second one, in another record,
// when two fit into budgetMs).  Positions, in rotation (k): after the record's first byte; inside the PID token /
// the record type; right after the PID column; in the middle; before the last byte of the message; with everything
// but the terminator written; more than a reader's buffer (4096) into a long record.
func genStallCase(r *hutil.Rand, pipe string, ms, k, budgetMs int) stallCase {
	c := stallCase{Pipe: pipe, Debug: k%3 == 1, Chunk: []int{0, 0, 7, 512, 4096}[r.Intn(5)]}
	n := 3 + r.Intn(6)
	long := k%7 == 6
	var lens []int // length of each record incl. terminator
	var heads []int
	for i := 0; i < n; i++ {
		if pipe == "sshd" {
			var g genLine
			for {
				g = genForm(r, hutil.Pick(r, formNames))
				if utf8.ValidString(g.Line) {
					break
				}
			}
			if long && i == n/2 {
				kt := hutil.Pick(r, keyTypes)
				hn, fp := genFP(r)
				g.Line = fmt.Sprintf("Accepted publickey for %s from %s port %s ssh2: %s %s:%s ID %s (serial %s) CA %s %s:%s",
					"root", genAddr(r), genPort(r), kt, hn, fp, strings.Repeat(hutil.Pick(r, []string{"k", "id-", "x.y"}), 1500+r.Intn(1500)), genSerial(r), hutil.Pick(r, keyTypes[:6]), hn, fp)
			}
			rc := fifoRecord{Tok: genPidToken(r, false), Msg: g.Line, Pad: []int{0, 0, 1, 2}[r.Intn(4)]}
			c.Records = append(c.Records, rc)
			lens = append(lens, len(rc.Tok)+1+rc.Pad+len(rc.Msg)+1)
			heads = append(heads, len(rc.Tok))
		} else {
			l := genAuditLine(r)
			if long && i == n/2 {
				l = fmt.Sprintf("type=EXECVE msg=audit(%d.%03d:%d): argc=2 a0=\"cat\" a1=\"%s\"", 1700000000+r.Intn(100000), r.Intn(1000), 1+r.Intn(1<<20), strings.Repeat("/p", 2100+r.Intn(1000)))
			}
			c.Lines = append(c.Lines, l)
			lens = append(lens, len(l)+1)
			heads = append(heads, len("type=")+2)
		}
	}
	starts := make([]int, n)
	for i := 1; i < n; i++ {
		starts[i] = starts[i-1] + lens[i-1]
	}
	place := func(i, kind int) (int, string) {
		body := lens[i] - 1 // without terminator
		var in int
		var wh string
		switch kind % 7 {
		case 0:
			in, wh = 1, "after the record's first byte"
		case 1:
			in, wh = (heads[i]+1)/2, "inside the record's first column"
		case 2:
			in, wh = heads[i]+1, "right after the record's first column"
		case 3:
			in, wh = body/2, "in the middle of the record"
		case 4:
			in, wh = body-1, "before the last byte of the record's text"
		case 5:
			in, wh = body, "with everything but the terminator written"
		default:
			in, wh = body/2, "in the middle of the record"
			if body > 4300 {
				in, wh = 4200+r.Intn(body-4250), "more than a reader's buffer into a long record"
			}
		}
		if in < 1 {
			in = 1
		}
		if in > body {
			in = body
		}
		return starts[i] + in, fmt.Sprintf("%s, record %d of %d", wh, i+1, n)
	}
	i1 := r.Intn(n)
	if long {
		i1 = n / 2
	}
	at, wh := place(i1, k)
	c.Stalls = append(c.Stalls, stallPoint{After: at, Ms: ms})
	c.Where = append(c.Where, wh)
	if 2*ms <= budgetMs && n > 1 && k%2 == 1 {
		i2 := (i1 + 1 + r.Intn(n-1)) % n
		at, wh := place(i2, k+3)
		c.Stalls = append(c.Stalls, stallPoint{After: at, Ms: ms})
		c.Where = append(c.Where, wh)
	}
	return c
}

func stallStage(prop string, seed uint64, r *hutil.Rand, stalls string, per int, outDir string) {
	sum := hutil.NewSummary(prop, seed, "3-8 generated records (sshd pipe: '<pid> <pad><message>' of the C06 forms; audit pipe: audit record lines of the generators; one in seven cases with a record longer than the reader's buffer) "+
		"written into a real FIFO read by the real ingesters, the writer pausing for the stated time strictly inside a record (after its first byte, inside / right after its first column, in the middle, before its last byte, "+
		"with only the terminator missing, beyond 4096 bytes of a long record; two pauses in different records when the stage's budget allows), the pieces in writes of at most 7 / 512 / 4096 bytes or whole; "+
		"sshd pipe: events and forwarded logins must equal those of the direct hand-over; audit pipe: one pushed line per record, parsing to the bare record's audit message; all cases concurrent on FIFOs of their own; "+
		"non-trivial = the case ran to the end and delivered something; distinct by the case description")
	sshd.SetLogger(hutil.Logger(false))
	ms := parseDelays(stalls)
	if len(ms) == 0 {
		sum.Write(outDir)
		return
	}
	budget := ms[len(ms)-1]
	var cases []stallCase
	k := int(seed % 7)
	for _, m := range ms {
		for _, pipe := range []string{"sshd", "audit"} {
			for j := 0; j < per; j++ {
				cases = append(cases, genStallCase(r, pipe, m, k, budget))
				k++
			}
		}
	}
	obs := make([]stallObs, len(cases))
	abort := make(chan struct{})
	var once sync.Once
	var wg sync.WaitGroup
	for i := range cases {
		wg.Add(1)
		go func(i int) {
			defer wg.Done()
			obs[i] = runStall(cases[i], outDir, abort)
			if len(judgeStall(cases[i], obs[i])) > 0 {
				once.Do(func() { close(abort) })
			}
		}(i)
	}
	wg.Wait()
	reported := map[string]bool{}
	for i, c := range cases { // ascending pauses: the shortest failing pause is the one reported, one per kind
		o := obs[i]
		if o.Aborted {
			sum.Dist("abandoned_after_a_failure")
			continue
		}
		if o.Harness != "" {
			sum.FailKey("harness", "stall:"+c.Pipe, o.Harness, map[string]any{"stall_case": c})
			continue
		}
		key := fmt.Sprint(c)
		sum.Count(key, len(o.Got) > 0)
		sum.Dist("pipe_" + c.Pipe)
		for _, p := range c.Stalls {
			sum.Dist(fmt.Sprintf("pause_%dms", p.Ms))
		}
		sum.Dist(fmt.Sprintf("pauses_per_case_%d", len(c.Stalls)))
		for _, w := range c.Where {
			sum.Dist("pause_" + strings.ReplaceAll(strings.SplitN(w, ",", 2)[0], " ", "_"))
		}
		if i < 4 {
			sum.Sample(map[string]any{"pipe": c.Pipe, "records": nRecords(c), "pauses": c.Stalls, "where": c.Where, "observed": o})
		}
		for _, f := range judgeStall(c, o) {
			if !reported[f.key] {
				reported[f.key] = true
				sum.FailKey("oracle", f.key, f.what, map[string]any{"stall_case": c, "observed": o})
			}
		}
	}
	sum.Write(outDir)
}

func replayStall(c stallCase) int {
	sshd.SetLogger(hutil.Logger(false))
	dir, err := os.MkdirTemp("", "stallreplay")
	if err != nil {
		fmt.Println("cannot create a directory for the FIFO:", err)
		return 2
	}
	defer os.RemoveAll(dir)
	for try := 0; try < 2; try++ {
		o := runStall(c, dir, make(chan struct{}))
		if o.Harness != "" {
			fmt.Println("harness problem:", o.Harness)
			continue
		}
		fs := judgeStall(c, o)
		for _, f := range fs {
			fmt.Printf("REPRODUCED %s: %s\n", f.key, f.what)
		}
		if len(fs) > 0 {
			return 1
		}
	}
	fmt.Println("not reproduced")
	return 0
}
