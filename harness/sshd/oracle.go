//go:build verif

package main

import (
	"fmt"
	"reflect"
	"strconv"
	"strings"
)

type failure struct {
	key  string
	what string
}

func judge(prop string, d caseDesc, o observation) []failure {
	switch prop {
	case "C06":
		return oracleFields(d, o)
	case "C17":
		return oracleFields(d, o)
	case "C11":
		return oracleTotal(d, o)
	case "C19":
		return oracleMetrics(d, o)
	case "C05":
		return oracleForward(d, o)
	case "C07":
		return oracleFramed(d, o)
	}
	return nil
}

func eqp(a, b *string) bool {
	if a == nil || b == nil {
		return a == b
	}
	return *a == *b
}

func ps(p *string) string {
	if p == nil {
		return "<absent>"
	}
	return strconv.Quote(*p)
}

// C06 / C17: exactly one event whose fields equal the generated values.
func oracleFields(d caseDesc, o observation) []failure {
	exp := d.Gen.Exp
	if exp == nil {
		return nil
	}
	form := d.Gen.Form
	if strings.HasPrefix(o.Ret, "panic") {
		return []failure{{"fields:" + form + ":panic", "processing panicked: " + o.Ret}}
	}
	if len(o.Events) != 1 {
		return []failure{{"fields:" + form + ":event-count", fmt.Sprintf("%d events produced for a supported %s message (expected exactly one): %q", len(o.Events), form, d.Gen.Line)}}
	}
	e := o.Events[0]
	var fs []failure
	bad := func(field, got, want string) {
		fs = append(fs, failure{"fields:" + form + ":" + field, fmt.Sprintf("%s message %q: %s is %s, the message says %s", form, d.Gen.Line, field, got, want)})
	}
	if e.OK != exp.OK {
		bad("outcome", fmt.Sprint(e.OK), fmt.Sprint(exp.OK))
	}
	if e.Src != exp.Src {
		bad("source", strconv.Quote(e.Src), strconv.Quote(exp.Src))
	}
	if !eqp(e.Port, exp.Port) {
		bad("port", ps(e.Port), ps(exp.Port))
	}
	if d.Gen.OnlySrc {
		return fs
	}
	if !eqp(e.DNS, exp.DNS) {
		bad("dns", ps(e.DNS), ps(exp.DNS))
	}
	if e.Subjects["loggedAs"] != exp.LoggedAs {
		bad("account", strconv.Quote(e.Subjects["loggedAs"]), strconv.Quote(exp.LoggedAs))
	}
	if e.Subjects["userID"] != exp.UserID {
		bad("userID", strconv.Quote(e.Subjects["userID"]), strconv.Quote(exp.UserID))
	}
	if e.Subjects["pid"] != d.Tok {
		bad("pid", strconv.Quote(e.Subjects["pid"]), strconv.Quote(d.Tok))
	}
	if !eqp(subj(e, "filePath"), exp.File) {
		bad("filePath", ps(subj(e, "filePath")), ps(exp.File))
	}
	if !eqp(subj(e, "keyType"), exp.KeyType) {
		bad("keyType", ps(subj(e, "keyType")), ps(exp.KeyType))
	}
	if !eqp(subj(e, "fingerprint"), exp.FP) {
		bad("fingerprint", ps(subj(e, "fingerprint")), ps(exp.FP))
	}
	if !eqp(e.Shell, exp.Shell) {
		bad("shell", ps(e.Shell), ps(exp.Shell))
	}
	if !e.Lossy {
		gd, wd := e.Data, exp.Data
		if len(gd) == 0 {
			gd = nil
		}
		if len(wd) == 0 {
			wd = nil
		}
		if !reflect.DeepEqual(gd, wd) {
			bad("data", fmt.Sprint(e.Data), fmt.Sprint(exp.Data))
		}
	}
	if e.Type != "UserLogin" || e.Comp != "sshd" {
		bad("type/component", e.Type+"/"+e.Comp, "UserLogin/sshd")
	}
	if e.Target["host"] != nodeName || e.Target["machine-id"] != machineID || len(e.Target) != 2 {
		bad("target", fmt.Sprint(e.Target), "this node's name and machine id")
	}
	if e.When.Before(o.T0) || e.When.After(o.T1) {
		bad("timestamp", e.When.String(), "a time taken while the line was processed")
	}
	return fs
}

func hasKeyword(line string) bool {
	for _, k := range keywords {
		if strings.HasPrefix(line, k) {
			return true
		}
	}
	return false
}

var placeholders = map[string]bool{"unknown": true, "root": true, "unknown reason": true, "certificate invalid": true}

// C11
func oracleTotal(d caseDesc, o observation) []failure {
	var fs []failure
	line := d.Gen.Line
	if strings.HasPrefix(o.Ret, "panic") {
		return []failure{{"total:panic", fmt.Sprintf("processing %q (pid token %q) panicked: %s", line, d.Tok, o.Ret)}}
	}
	if !d.Mode.writeFails() && o.Ret != "ok" {
		fs = append(fs, failure{"total:error", fmt.Sprintf("processing %q returned an error although the writer works: %s", line, o.Ret)})
	}
	em := emitted(o.Events)
	if len(em) > 1 {
		fs = append(fs, failure{"total:many-events", fmt.Sprintf("%d events for one line %q", len(em), line)})
	}
	if len(o.Fwds) > 0 && (len(em) != 1 || !em[0].OK || len(o.Fwds) > 1) {
		fs = append(fs, failure{"total:forward-without-success", fmt.Sprintf("a login was forwarded for %q without exactly one succeeded event", line)})
	}
	if len(o.Events) > 0 && !hasKeyword(line) {
		fs = append(fs, failure{"total:event-without-keyword", fmt.Sprintf("an event was emitted for %q, which begins with no recognised keyword", line)})
	}
	for _, e := range o.Events {
		vals := map[string]string{"source": e.Src}
		if e.Port != nil {
			vals["port"] = *e.Port
		}
		if e.DNS != nil {
			vals["dns"] = *e.DNS
		}
		if e.Shell != nil {
			vals["shell"] = *e.Shell
		}
		for k, v := range e.Subjects {
			if k != "pid" {
				vals["subjects."+k] = v
			}
		}
		if !e.Lossy {
			for k, v := range e.Data {
				vals["data."+k] = v
			}
		}
		for k, v := range vals {
			if !placeholders[v] && !strings.Contains(line, v) {
				fs = append(fs, failure{"total:field-not-substring", fmt.Sprintf("field %s = %q is neither a substring of the line %q nor a fixed placeholder", k, v, line)})
			}
		}
		if e.Subjects["pid"] != d.Tok {
			fs = append(fs, failure{"total:pid", fmt.Sprintf("subjects.pid = %q, the token was %q", e.Subjects["pid"], d.Tok)})
		}
	}
	return fs
}

// C19: every EMITTED event (one the writer accepted) is counted once, under the matching labels; lines without a
// keyword change no counter.  Nothing is claimed about an event that was not emitted (a rejected write).
func oracleMetrics(d caseDesc, o observation) []failure {
	var fs []failure
	line := d.Gen.Line
	total := 0
	for _, v := range o.Metrics {
		total += v
	}
	if !hasKeyword(line) && total != 0 {
		fs = append(fs, failure{"metrics:counted-without-keyword", fmt.Sprintf("counters changed (%v) for %q, which begins with no recognised keyword", o.Metrics, line)})
	}
	em := emitted(o.Events)
	attempts := ""
	if len(em) != len(o.Events) {
		attempts = fmt.Sprintf(" (%d write(s) were rejected before)", len(o.Events)-len(em))
	}
	if n := len(em); n > 1 && total != n {
		// every emitted event is counted once: n events need n increments
		fs = append(fs, failure{"metrics:not-once", fmt.Sprintf("%d events emitted for %q but the login counter moved by %d (%v)%s", n, line, total, o.Metrics, attempts)})
		return fs
	}
	if len(em) == 1 {
		e := em[0]
		if total != 1 {
			fs = append(fs, failure{"metrics:not-once", fmt.Sprintf("one event emitted for %q but the login counter moved by %d (%v)%s", line, total, o.Metrics, attempts)})
			return fs
		}
		for k := range o.Metrics {
			p := strings.SplitN(k, "/", 2)
			wantOutcome := "failure"
			if e.OK {
				wantOutcome = "success"
			}
			if p[1] != wantOutcome {
				fs = append(fs, failure{"metrics:outcome", fmt.Sprintf("event outcome succeeded=%v for %q but counted under outcome %s", e.OK, line, p[1])})
			}
			if strings.HasPrefix(line, "Accepted password") && p[0] != "password" {
				fs = append(fs, failure{"metrics:method", fmt.Sprintf("password login %q counted under method %s", line, p[0])})
			}
			if strings.HasPrefix(line, "Accepted publickey") && p[0] != "ssh-key" && p[0] != "ssh-cert" {
				fs = append(fs, failure{"metrics:method", fmt.Sprintf("public-key login %q counted under method %s", line, p[0])})
			}
		}
	}
	return fs
}

func positiveDecimal(tok string) (int, bool) {
	if tok == "" {
		return 0, false
	}
	for _, c := range tok {
		if c < '0' || c > '9' {
			return 0, false
		}
	}
	n, err := strconv.Atoi(tok)
	if err != nil || n <= 0 {
		return 0, false
	}
	return n, true
}

// C05
func oracleForward(d caseDesc, o observation) []failure {
	var fs []failure
	line := d.Gen.Line
	if strings.HasPrefix(o.Ret, "panic") {
		return []failure{{"forward:panic", "processing panicked: " + o.Ret}}
	}
	// never forward without exactly one succeeded event written first
	em := emitted(o.Events)
	for _, f := range o.Fwds {
		if len(em) != 1 || !em[0].OK || !f.AfterEnc || !f.SameEvt {
			fs = append(fs, failure{"forward:not-the-written-event", fmt.Sprintf("a login was forwarded for %q that is not (after) exactly the one succeeded event written", line)})
		}
	}
	if !d.Gen.Forward {
		if len(o.Fwds) > 0 && d.Gen.Exp != nil {
			fs = append(fs, failure{"forward:failure-line-forwarded", fmt.Sprintf("a login was forwarded for the non-accepting message %q", line)})
		}
		return fs
	}
	pid, ok := positiveDecimal(d.Tok)
	if !ok {
		return fs
	}
	switch {
	case d.Mode.writeFails():
		// the writer rejects the event (for good, or the first FailFirst times): the error is returned and nothing is
		// forwarded — also when a later attempt would have been accepted
		if o.Ret != "write" {
			fs = append(fs, failure{"forward:write-error-not-returned", fmt.Sprintf("the write of the event for %q was rejected (%d of %d writes rejected) but the processor returned %s", line, len(o.Events)-len(em), len(o.Events), o.Ret)})
		}
		if len(o.Fwds) != 0 {
			fs = append(fs, failure{"forward:forwarded-after-write-failure", fmt.Sprintf("a login was forwarded for %q although its event could not be written", line)})
		}
	case d.Mode.raceyHandoff():
		// the event is written, the context is cancelled and the correlator receives: "unless its context is cancelled,
		// forwards exactly one login" leaves it open whether the login is forwarded; never more than one, and (checked
		// above) only the written event
		if o.Ret != "ok" || len(em) != 1 || len(o.Events) != 1 || !em[0].OK || len(o.Fwds) > 1 {
			fs = append(fs, failure{"forward:cancelled-receiver-ready", fmt.Sprintf("accepted authentication %q with a cancelled context and a receiving correlator: ret=%s events=%d forwards=%d (expected ok / 1 / at most 1)", line, o.Ret, len(o.Events), len(o.Fwds))})
		}
		for _, f := range o.Fwds {
			if f.PID != pid || f.Cred != d.Gen.Cred {
				fs = append(fs, failure{"forward:pid", fmt.Sprintf("forwarded login for %q has pid %d and credential user id %q, the line says %d and %q", line, f.PID, f.Cred, pid, d.Gen.Cred)})
			}
		}
	case !d.Mode.Ready:
		if o.Ret != "ok" || len(em) != 1 || len(o.Events) != 1 || len(o.Fwds) != 0 {
			fs = append(fs, failure{"forward:cancelled", fmt.Sprintf("cancelled hand-off for %q: ret=%s events=%d forwards=%d (expected ok/1/0)", line, o.Ret, len(o.Events), len(o.Fwds))})
		}
	default:
		if len(em) != 1 || len(o.Events) != 1 || !em[0].OK {
			fs = append(fs, failure{"forward:no-succeeded-event", fmt.Sprintf("accepted authentication %q did not write exactly one succeeded event (%d events)", line, len(o.Events))})
			return fs
		}
		if len(o.Fwds) != 1 {
			fs = append(fs, failure{"forward:count", fmt.Sprintf("accepted authentication %q forwarded %d logins (expected exactly one)", line, len(o.Fwds))})
			return fs
		}
		f := o.Fwds[0]
		if f.PID != pid {
			fs = append(fs, failure{"forward:pid", fmt.Sprintf("forwarded login for %q has pid %d, the line's pid is %d", line, f.PID, pid)})
		}
		if f.Cred != d.Gen.Cred {
			fs = append(fs, failure{"forward:cred", fmt.Sprintf("forwarded login for %q has credential user id %q, expected %q", line, f.Cred, d.Gen.Cred)})
		}
		if o.Ret != "ok" {
			fs = append(fs, failure{"forward:ret", "returned " + o.Ret})
		}
	}
	return fs
}

func canon(o observation) string {
	var sb strings.Builder
	fmt.Fprintf(&sb, "ret=%s;", strings.SplitN(o.Ret, ":", 2)[0])
	for _, e := range o.Events {
		fmt.Fprintf(&sb, "ev{%v %q %s %s %v %s %v %v};", e.OK, e.Src, ps(e.Port), ps(e.DNS), e.Subjects, ps(e.Shell), e.Data, e.Target)
	}
	for _, f := range o.Fwds {
		fmt.Fprintf(&sb, "fwd{%d %q %v};", f.PID, f.Cred, f.SameEvt && f.AfterEnc)
	}
	fmt.Fprintf(&sb, "metrics%v", o.Metrics)
	return sb.String()
}

// C07: the framed delivery yields exactly what the direct hand-over yields
func oracleFramed(d caseDesc, o observation) []failure {
	direct := d.Mode
	direct.Framed = false
	od := runOne(d.Tok, d.Gen.Line, direct)
	if canon(od) != canon(o) {
		return []failure{{"framed:" + d.Gen.Form, fmt.Sprintf("%q handed over directly yields %s; delivered as a record through the syslog ingester it yields %s", d.Gen.Line, canon(od), canon(o))}}
	}
	return nil
}
