//go:build verif

package main

import (
	"fmt"
	"reflect"

	"github.com/elastic/go-libaudit/v2/auparse"

	"github.com/metal-toolbox/audito-maldito/internal/verifharness/hutil"
)

func genAuditLine(r *hutil.Rand) string {
	ts := fmt.Sprintf("audit(%d.%03d:%d)", 1700000000+r.Intn(100000), r.Intn(1000), 1+r.Intn(1<<20))
	pid, ses := 1+r.Intn(4000000), 1+r.Intn(5000)
	res := hutil.Pick(r, []string{"success", "failed"})
	switch r.Intn(7) {
	case 0:
		return fmt.Sprintf("type=USER_CMD msg=%s: pid=%d uid=0 auid=1000 ses=%d msg='cwd=\"/root\" cmd=6C73202D6C61 exe=\"/usr/bin/sudo\" terminal=pts/0 res=%s'", ts, pid, ses, res)
	case 1:
		return fmt.Sprintf("type=SYSCALL msg=%s: arch=c000003e syscall=59 success=%s exit=0 a0=55d a1=55e a2=55f a3=8 items=2 ppid=1 pid=%d auid=1000 uid=0 gid=0 euid=0 suid=0 fsuid=0 egid=0 sgid=0 fsgid=0 tty=pts0 ses=%d comm=\"ls\" exe=\"/usr/bin/ls\" key=(null)", ts, hutil.Pick(r, []string{"yes", "no"}), pid, ses)
	case 2:
		return fmt.Sprintf("type=EXECVE msg=%s: argc=2 a0=\"ls\" a1=\"-la\"", ts)
	case 3:
		return fmt.Sprintf("type=LOGIN msg=%s: pid=%d uid=0 old-auid=4294967295 auid=1000 tty=(none) old-ses=4294967295 ses=%d res=1", ts, pid, ses)
	case 4:
		return fmt.Sprintf("type=CRED_DISP msg=%s: pid=%d uid=0 auid=1000 ses=%d msg='op=PAM:setcred grantors=pam_unix acct=\"u\" exe=\"/usr/sbin/sshd\" hostname=1.2.3.4 addr=1.2.3.4 terminal=ssh res=%s'", ts, pid, ses, res)
	case 5:
		return fmt.Sprintf("type=EOE msg=%s: ", ts)
	}
	return fmt.Sprintf("type=USER_START msg=%s: pid=%d uid=0 auid=1000 ses=%d msg='op=PAM:session_open grantors=pam_unix acct=\"root\" exe=\"/usr/sbin/sshd\" hostname=10.0.0.1 addr=10.0.0.1 terminal=ssh res=%s'", ts, pid, ses, res)
}

// auditFramingChecks: every auditd record line parses to the same audit message with or
// without its trailing newline (C07, auditd half; a contract of the third-party parser).
func auditFramingChecks(sum *hutil.Summary, r *hutil.Rand, n int) {
	for i := 0; i < n; i++ {
		l := genAuditLine(r)
		a, errA := auparse.ParseLogLine(l)
		b, errB := auparse.ParseLogLine(l + "\n")
		sum.Count("audit:"+l, true)
		sum.Dist("audit_parser_level")
		bad := ""
		switch {
		case (errA == nil) != (errB == nil):
			bad = fmt.Sprintf("parses without newline: %v, with newline: %v", errA, errB)
		case errA != nil:
			bad = "generated audit line does not parse: " + errA.Error()
		default:
			da, e1 := a.Data()
			db, e2 := b.Data()
			if a.RecordType != b.RecordType || !a.Timestamp.Equal(b.Timestamp) || a.Sequence != b.Sequence ||
				a.RawData != b.RawData || !reflect.DeepEqual(da, db) || (e1 == nil) != (e2 == nil) {
				bad = "the parsed audit messages differ"
			}
		}
		if bad != "" {
			sum.FailKey("oracle", "framed:audit-line", fmt.Sprintf("audit line %q with and without its trailing newline: %s", l, bad),
				map[string]any{"audit_line": l})
		}
	}
}
