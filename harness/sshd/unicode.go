//go:build verif

package main

// Free text whose BYTE LENGTH changes under a Unicode transformation.  A daemon that lower-cases, upper-cases,
// title-cases, folds or normalises a copy of the line, computes offsets on the copy and applies them to the original
// (or the other way round) is off by the difference: fields are cut short, a line no longer matches its anchored
// pattern, a slice runs past the end.  Such code behaves exactly like the original on ASCII and on the non-ASCII
// letters whose mappings keep their length (é, ö, CJK, emoji), so the generators draw names (and the other free-text
// fields) from the code points for which some mapping does change the encoded length.  Nothing is listed by hand
// for the case mappings: the set is enumerated from the tables of the running Go version.

import (
	"strings"
	"unicode"
	"unicode/utf8"

	"github.com/metal-toolbox/audito-maldito/internal/verifharness/hutil"
)

// caseLenRunes: every code point r for which the UTF-8 length of ToLower(r), ToUpper(r), ToTitle(r) or of a member
// of its simple-fold orbit differs from that of r.  caseShrink / caseGrow: those that get shorter / longer under
// strings.ToLower or strings.ToUpper (the two whole-string mappings of the standard library).
var caseLenRunes, caseShrink, caseGrow = buildCaseLenRunes()

func buildCaseLenRunes() (all, shrink, grow []rune) {
	for r := rune(0x80); r <= unicode.MaxRune; r++ {
		if r >= 0xD800 && r <= 0xDFFF {
			continue
		}
		l := utf8.RuneLen(r)
		hit := false
		for _, m := range []rune{unicode.ToLower(r), unicode.ToUpper(r), unicode.ToTitle(r)} {
			switch ml := utf8.RuneLen(m); {
			case ml < l:
				hit = true
				shrink = appendOnce(shrink, r)
			case ml > l:
				hit = true
				grow = appendOnce(grow, r)
			}
		}
		for f := unicode.SimpleFold(r); f != r; f = unicode.SimpleFold(f) {
			if utf8.RuneLen(f) != l {
				hit = true
				break
			}
		}
		if hit {
			all = append(all, r)
		}
	}
	return all, shrink, grow
}

func appendOnce(xs []rune, r rune) []rune {
	if n := len(xs); n > 0 && xs[n-1] == r {
		return xs
	}
	return append(xs, r)
}

// nfPairs: the same text precomposed (NFC) and decomposed (NFD); the two differ in length and are distinct byte
// strings to the daemon.  (No normalisation package in the module cache: a small table of the common cases.)
var nfPairs = [][2]string{
	{"\u00e9", "e\u0301"}, {"\u00e8", "e\u0300"}, {"\u00f6", "o\u0308"}, {"\u00fc", "u\u0308"}, {"\u00f1", "n\u0303"},
	{"\u00c5", "A\u030a"}, {"\u00e5", "a\u030a"}, {"\u00e7", "c\u0327"}, {"\u0130", "I\u0307"}, {"\u01f0", "j\u030c"},
	{"\u1ec7", "e\u0323\u0302"}, {"\u01d6", "u\u0308\u0304"}, {"\u03a9", "\u2126"}, {"K", "\u212a"}, {"\u00c5", "\u212b"},
	{"\uac00", "\u1100\u1161"}, {"\u0390", "\u03b9\u0308\u0301"}, {"\ufb01", "fi"}, {"\u01c6", "d\u017e"}, {"\u1e9b\u0323", "\u017f\u0323\u0307"},
}

// further text around case: ligatures, digraphs with a title case of their own, final sigma, the Turkish i's, letters
// whose full (not simple) case mapping is longer (ß ŉ ǰ ΐ), combining marks alone and stacked, joiners, bidi marks
var caseWords = []string{"\ufb01", "\ufb02", "\ufb03", "\ufb05", "\u01c5", "\u01c6", "\u01c4", "\u01c8", "\u00df", "\u1e9e", "\u0149", "\u01f0", "\u0390", "\u03b0", "\u0587", "\ufb13",
	"\u03c2", "\u03c3", "\u03a3", "\u038c\u03a3\u039f\u03a3", "\u03cc\u03c3\u03bf\u03c2", "\u1f48\u0394\u03a5\u03a3\u03a3\u0395\u038e\u03a3",
	"\u0131", "\u0130", "i\u0307", "I", "\u0131\u0130iI", "D\u0130YARBAKIR", "diyarbak\u0131r", "\u017f", "\u017ft", "\u212a", "\u212b", "\u2126", "\u0250", "\u026b", "\u1c80", "\u2c65", "\u2c7e", "\ua7b5", "\ua7b4",
	"\u0301", "\u0307\u0307", "a\u0300\u0301\u0302\u0303", "\u200d", "\u200c", "\u200e", "\u202e", "\ufeff", "\u00ad", "\u0345", "\u1fb3", "\u1fbc", "\u1f88", "\u01f2", "\u01f1", "\ufb17",
	"\U00010400", "\U00010428", "\U0001e900", "\U0001e922"}

// caseNames: the systematic part, most telling first: one, two, four letters that shrink under ToLower (each letter
// cuts as many bytes off the END of a line sliced with offsets of the folded copy), letters that grow (the slice runs
// past the end), the same under ToUpper; then every enumerated code point alone, tripled and inside a name; the
// NFC/NFD pairs; the words above.
var caseNames = buildCaseNames()

func buildCaseNames() []string {
	var out []string
	seen := map[string]bool{}
	add := func(xs ...string) {
		for _, x := range xs {
			if !seen[x] && x != "" {
				seen[x] = true
				out = append(out, x)
			}
		}
	}
	lowShrink, lowGrow, upShrink, upGrow := "", "", "", ""
	for _, r := range caseLenRunes {
		l := utf8.RuneLen(r)
		if d := utf8.RuneLen(unicode.ToLower(r)); d < l && lowShrink == "" {
			lowShrink = string(r)
		} else if d > l && lowGrow == "" {
			lowGrow = string(r)
		}
		if d := utf8.RuneLen(unicode.ToUpper(r)); d < l && upShrink == "" {
			upShrink = string(r)
		} else if d > l && upGrow == "" {
			upGrow = string(r)
		}
	}
	for _, s := range []string{lowShrink, lowGrow, upShrink, upGrow} {
		if s == "" {
			continue
		}
		add(s+"brahim", s, strings.Repeat(s, 2), strings.Repeat(s, 4), "x"+strings.Repeat(s, 7), "a "+s+" b")
	}
	add(lowShrink+upShrink+lowGrow+upGrow, "\u212a", "\u1e9e", "\u212b")
	for _, r := range caseLenRunes {
		s := string(r)
		add(s, s+s+s, "u"+s+"r")
	}
	for _, p := range nfPairs {
		add(p[0], p[1], "x"+p[0]+p[1]+"y")
	}
	for _, w := range caseWords {
		add(w, "a"+w, w+"z", w+" "+w)
	}
	return out
}

// genCaseText: a random piece of free text made of such letters, alone or mixed with ordinary ones.
func genCaseText(r *hutil.Rand) string {
	switch r.Intn(6) {
	case 0:
		return hutil.Pick(r, caseNames)
	case 1: // a run of letters that all move the same way: the lengths add up
		set := caseShrink
		if r.Chance(1, 3) {
			set = caseGrow
		}
		return strings.Repeat(string(hutil.Pick(r, set)), 1+r.Intn(8))
	case 2:
		p := hutil.Pick(r, nfPairs)
		return genUser(r) + p[r.Intn(2)]
	}
	n := 1 + r.Intn(6)
	var sb strings.Builder
	for i := 0; i < n; i++ {
		switch r.Intn(4) {
		case 0:
			sb.WriteString(hutil.Pick(r, userAlphabet))
		case 1:
			sb.WriteString(hutil.Pick(r, caseWords))
		default:
			sb.WriteRune(hutil.Pick(r, caseLenRunes))
		}
	}
	return sb.String()
}

// genClientNameCase: the idx-th step of the systematic walk: every index another name, the five client-name forms
// in rotation (so that each name meets each form once every len(caseNames)*5 indices).  No randomness.
func genClientNameCase(idx int) genLine {
	n := len(caseNames)
	if idx < 0 {
		idx = -idx
	}
	name := caseNames[idx%n]
	form := clientForms[(idx/n+idx)%len(clientForms)]
	addrs := []string{"203.0.113.77", "2001:db8::7", "host.example.com", "fe80::1%eth0"}
	ports := []string{"40022", "22", "65535", "1"}
	return clientNameLine(form, name, addrs[(idx/2)%len(addrs)], ports[(idx/3)%len(ports)])
}
