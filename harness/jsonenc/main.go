//go:build verif

// Harness for the JSON rendering of audit events (C10, "every line of the output is one complete JSON event"):
// ties Model/JsonEnc.v BYTE FOR BYTE to the real writer and judges every written event by an oracle that
// does not use the model.
//
// Stages (all in one run; every random choice from the one seeded PRNG):
//
//	strings  json.NewEncoder(w).Encode(s) for hostile Go strings (every single byte, every lead byte with
//	         every kind of continuation, U+2028/9, HTML characters, long runs): the bytes written = enc_string s, '\n';
//	events   generated auditevent.AuditEvent values (hostile strings in every field, maps with 0-6 keys incl. keys
//	         needing escapes / equal up to case / colliding after sanitising, nil and empty maps, Data absent / present,
//	         time zones) written by auditevent.NewDefaultAuditEventWriter(recorder): ONE Write call per event whose
//	         bytes = enc_line (the event's JSON view);
//	sshd     the REAL sshd processor (NewSshdProcessor, ProcessSshdLogEntry) on generated log lines, writing through
//	         the real writer: bytes = enc_line (login_view auditId loggedAt (the model's event for that line));
//	actions  the REAL correlator (NewSessionTracker, RemoteLogin, AuditdEvent -> toAuditEvent) on generated logins and
//	         coalesced events: bytes = enc_line (action_view time (to_event identity event));
//	decode   json.Unmarshal of generated string literals = dec_string.
//
// Oracle (independent of the Coq model): exactly one Write per event; the bytes end in '\n' and hold no other '\n'
// and no other byte below 0x20; the line is valid JSON; json.Unmarshal gives back every field, where a byte that is
// not part of well-formed UTF-8 reads as U+FFFD.
package main

import (
	"bytes"
	"context"
	"encoding/json"
	"flag"
	"fmt"
	"os"
	"reflect"
	"sort"
	"strings"
	"time"
	"unicode/utf8"

	"github.com/elastic/go-libaudit/v2/aucoalesce"
	"github.com/elastic/go-libaudit/v2/auparse"
	"github.com/metal-toolbox/auditevent"
	"github.com/prometheus/client_golang/prometheus"

	"github.com/metal-toolbox/audito-maldito/internal/common"
	"github.com/metal-toolbox/audito-maldito/internal/metrics"
	"github.com/metal-toolbox/audito-maldito/internal/verifharness/hutil"
	"github.com/metal-toolbox/audito-maldito/processors/auditd/sessiontracker"
	"github.com/metal-toolbox/audito-maldito/processors/sshd"
)

const shardBytes = 60_000

// ---------- recording writer ----------

type recW struct{ calls [][]byte }

func (w *recW) Write(p []byte) (int, error) {
	w.calls = append(w.calls, append([]byte(nil), p...))
	return len(p), nil
}

func (w *recW) take() [][]byte {
	c := w.calls
	w.calls = nil
	return c
}

// ---------- Coq printing ----------

func lit(b []byte) string {
	plain := true
	for _, c := range b {
		if c < 0x20 || c > 0x7e {
			plain = false
			break
		}
	}
	if plain {
		return `(s2l "` + strings.ReplaceAll(string(b), `"`, `""`) + `")`
	}
	return hutil.CoqBytes(b)
}

func coqSkv(m []skv) string {
	it := make([]string, len(m))
	for i, e := range m {
		it[i] = "(" + lit(e.K) + ", " + lit(e.V) + ")"
	}
	return hutil.CoqList(it)
}

func coqStrs(l [][]byte) string {
	it := make([]string, len(l))
	for i, e := range l {
		it[i] = lit(e)
	}
	return hutil.CoqList(it)
}

func coqAny(v anyVal) string {
	switch v.Kind {
	case "str":
		return "(JStr " + lit(v.S) + ")"
	case "strs":
		return "(SA " + coqStrs(v.L) + ")"
	case "smap":
		return "(jstr_map " + coqSkv(v.SM) + ")"
	case "amap":
		return "(jmap " + coqAkv(v.AM) + ")"
	case "obj":
		return "(OBJ " + lit(v.O[0]) + " " + lit(v.O[1]) + " " + lit(v.O[2]) + ")"
	}
	return "JNull"
}

func coqAkv(m []akv) string {
	it := make([]string, len(m))
	for i, e := range m {
		it[i] = "(" + lit(e.K) + ", " + coqAny(e.V) + ")"
	}
	return hutil.CoqList(it)
}

func coqEvent(d evDesc) string {
	subj := "None"
	if !d.Subjects.Nil {
		subj = "(Some " + coqSkv(d.Subjects.E) + ")"
	}
	data := "None"
	if d.Data != nil {
		data = "(Some " + coqAny(*d.Data) + ")"
	}
	return fmt.Sprintf("(EV %s %s %s %s %s %s %s %s %s %s %s %s)", lit(d.AuditID), coqAkv(d.MetaExtra.E), lit(d.Type), lit([]byte(timeText(d.when()))),
		lit(d.SrcType), lit(d.SrcValue), coqAkv(d.SrcExtra.E), lit(d.Outcome), subj, lit(d.Component), coqSkv(d.Target.E), data)
}

// the text time.Time.MarshalJSON puts between the quotes (RFC 3339, nanoseconds, trailing zeros dropped)
func timeText(t time.Time) string { return t.Format(time.RFC3339Nano) }

// ---------- building the real values ----------

func goAny(v anyVal) any {
	switch v.Kind {
	case "str":
		return string(v.S)
	case "strs":
		l := make([]string, len(v.L))
		for i, e := range v.L {
			l[i] = string(e)
		}
		return l
	case "smap":
		return goSmap(smap{E: v.SM})
	case "amap":
		return goAmap(amap{E: v.AM})
	case "obj":
		return aucoalesce.Object{Type: string(v.O[0]), Primary: string(v.O[1]), Secondary: string(v.O[2])}
	}
	return nil
}

func goSmap(m smap) map[string]string {
	if m.Nil {
		return nil
	}
	o := make(map[string]string, len(m.E))
	for _, e := range m.E {
		o[string(e.K)] = string(e.V)
	}
	return o
}

func goAmap(m amap) map[string]any {
	if m.Nil {
		return nil
	}
	o := make(map[string]any, len(m.E))
	for _, e := range m.E {
		o[string(e.K)] = goAny(e.V)
	}
	return o
}

func buildEvent(d evDesc) (*auditevent.AuditEvent, error) {
	ev := &auditevent.AuditEvent{
		Metadata:  auditevent.EventMetadata{AuditID: string(d.AuditID), Extra: goAmap(d.MetaExtra)},
		Type:      string(d.Type),
		LoggedAt:  d.when(),
		Source:    auditevent.EventSource{Type: string(d.SrcType), Value: string(d.SrcValue), Extra: goAmap(d.SrcExtra)},
		Outcome:   string(d.Outcome),
		Subjects:  goSmap(d.Subjects),
		Component: string(d.Component),
		Target:    goSmap(d.Target),
	}
	if d.Data != nil {
		// as processors/sshd does: the raw message holds json.Marshal of the value
		raw, err := json.Marshal(goAny(*d.Data))
		if err != nil {
			return nil, err
		}
		rm := json.RawMessage(raw)
		ev.Data = &rm
	}
	return ev, nil
}

// ---------- oracle (no Coq model involved) ----------

// what a reader gets for a Go string: every byte that is not part of well-formed UTF-8 becomes U+FFFD
func sanitize(s string) string {
	if utf8.ValidString(s) {
		return s
	}
	var sb strings.Builder
	for i := 0; i < len(s); {
		c, n := utf8.DecodeRuneInString(s[i:])
		if c == utf8.RuneError && n == 1 {
			sb.WriteString("\ufffd")
		} else {
			sb.WriteString(s[i : i+n])
		}
		i += n
	}
	return sb.String()
}

// expAny: the generic value json.Unmarshal must give back; ok = false when sanitised keys collide somewhere
// (the line then holds a key twice and a reader keeps one of them: judged by the framing checks only)
func expAny(v anyVal) (any, bool) {
	switch v.Kind {
	case "str":
		return sanitize(string(v.S)), true
	case "strs":
		l := make([]any, len(v.L))
		for i, e := range v.L {
			l[i] = sanitize(string(e))
		}
		return l, true
	case "smap":
		return expSmap(v.SM)
	case "amap":
		return expAmap(v.AM)
	case "obj":
		o := map[string]any{}
		for i, n := range []string{"type", "primary", "secondary"} {
			if len(v.O[i]) > 0 {
				o[n] = sanitize(string(v.O[i]))
			}
		}
		return o, true
	}
	return nil, true
}

func expSmap(m []skv) (any, bool) {
	o := map[string]any{}
	for _, e := range m {
		k := sanitize(string(e.K))
		if _, dup := o[k]; dup {
			return nil, false
		}
		o[k] = sanitize(string(e.V))
	}
	return o, true
}

func expAmap(m []akv) (any, bool) {
	o := map[string]any{}
	for _, e := range m {
		k := sanitize(string(e.K))
		if _, dup := o[k]; dup {
			return nil, false
		}
		v, ok := expAny(e.V)
		if !ok {
			return nil, false
		}
		o[k] = v
	}
	return o, true
}

type finding struct{ key, what string }

// framing: the claims of C10 about one Write call
func judgeFraming(calls [][]byte) []finding {
	var fs []finding
	if len(calls) != 1 {
		return []finding{{"json:writes-per-event", fmt.Sprintf("one event was handed to the writer in %d Write calls, not one", len(calls))}}
	}
	line := calls[0]
	if len(line) == 0 || line[len(line)-1] != '\n' {
		fs = append(fs, finding{"json:no-trailing-newline", "the bytes written for an event do not end in a newline"})
	}
	if n := bytes.Count(line, []byte{'\n'}); n != 1 {
		fs = append(fs, finding{"json:newline-inside", fmt.Sprintf("the bytes written for one event hold %d newlines", n)})
	}
	for i, c := range line {
		if c < 0x20 && !(c == '\n' && i == len(line)-1) {
			fs = append(fs, finding{"json:control-byte", fmt.Sprintf("byte 0x%02x at offset %d of an event's line", c, i)})
			break
		}
	}
	if len(line) > 0 && !json.Valid(line[:len(line)-1]) {
		fs = append(fs, finding{"json:invalid", "the line is not valid JSON"})
	}
	return fs
}

// fields: json.Unmarshal of the line gives back the event
func judgeFields(d evDesc, line []byte) []finding {
	var got struct {
		Metadata struct {
			AuditID *string        `json:"auditId"`
			Extra   map[string]any `json:"extra"`
		} `json:"metadata"`
		Type     *string    `json:"type"`
		LoggedAt *time.Time `json:"loggedAt"`
		Source   struct {
			Type  *string        `json:"type"`
			Value *string        `json:"value"`
			Extra map[string]any `json:"extra"`
		} `json:"source"`
		Outcome   *string         `json:"outcome"`
		Subjects  json.RawMessage `json:"subjects"`
		Component *string         `json:"component"`
		Target    map[string]any  `json:"target"`
		Data      json.RawMessage `json:"data"`
	}
	dec := json.NewDecoder(bytes.NewReader(line))
	dec.DisallowUnknownFields()
	if err := dec.Decode(&got); err != nil {
		return []finding{{"json:unreadable", "the line cannot be read back as an audit event: " + err.Error()}}
	}
	var fs []finding
	str := func(name string, g *string, want []byte) {
		if g == nil {
			fs = append(fs, finding{"json:field-missing", name + " is missing from the line"})
		} else if *g != sanitize(string(want)) {
			fs = append(fs, finding{"json:field-differs", fmt.Sprintf("%s reads back as %q, written from %q", name, *g, want)})
		}
	}
	str("metadata.auditId", got.Metadata.AuditID, d.AuditID)
	str("type", got.Type, d.Type)
	str("source.type", got.Source.Type, d.SrcType)
	str("source.value", got.Source.Value, d.SrcValue)
	str("outcome", got.Outcome, d.Outcome)
	str("component", got.Component, d.Component)
	if got.LoggedAt == nil || !got.LoggedAt.Equal(d.when()) {
		fs = append(fs, finding{"json:field-differs", "loggedAt does not read back as the instant written"})
	} else if _, off := got.LoggedAt.Zone(); off != func() int { _, o := d.when().Zone(); return o }() {
		fs = append(fs, finding{"json:field-differs", "loggedAt reads back with another zone offset"})
	}
	amapCheck := func(name string, g map[string]any, m amap) {
		if len(m.E) == 0 {
			if g != nil {
				fs = append(fs, finding{"json:omitempty", name + " is written although the map is empty"})
			}
			return
		}
		want, ok := expAmap(m.E)
		if ok && !reflect.DeepEqual(any(g), want) {
			fs = append(fs, finding{"json:field-differs", fmt.Sprintf("%s reads back as %v, expected %v", name, g, want)})
		}
	}
	amapCheck("metadata.extra", got.Metadata.Extra, d.MetaExtra)
	amapCheck("source.extra", got.Source.Extra, d.SrcExtra)
	// subjects: no omitempty: a nil map is null, an empty one {}
	switch {
	case got.Subjects == nil:
		fs = append(fs, finding{"json:field-missing", "subjects is missing from the line"})
	case d.Subjects.Nil:
		if string(got.Subjects) != "null" {
			fs = append(fs, finding{"json:field-differs", "a nil subjects map is not written as null"})
		}
	default:
		var g map[string]any
		want, ok := expSmap(d.Subjects.E)
		if err := json.Unmarshal(got.Subjects, &g); err != nil || g == nil {
			fs = append(fs, finding{"json:field-differs", "subjects is not an object"})
		} else if ok && !reflect.DeepEqual(any(g), want) {
			fs = append(fs, finding{"json:field-differs", fmt.Sprintf("subjects reads back as %v, expected %v", g, want)})
		}
	}
	if len(d.Target.E) == 0 {
		if got.Target != nil {
			fs = append(fs, finding{"json:omitempty", "target is written although the map is empty"})
		}
	} else if want, ok := expSmap(d.Target.E); ok && !reflect.DeepEqual(any(got.Target), want) {
		fs = append(fs, finding{"json:field-differs", fmt.Sprintf("target reads back as %v, expected %v", got.Target, want)})
	}
	if d.Data == nil {
		if got.Data != nil {
			fs = append(fs, finding{"json:omitempty", "data is written although the pointer is nil"})
		}
	} else {
		var g any
		want, ok := expAny(*d.Data)
		if got.Data == nil {
			fs = append(fs, finding{"json:field-missing", "data is missing from the line"})
		} else if err := json.Unmarshal(got.Data, &g); err != nil {
			fs = append(fs, finding{"json:field-differs", "data cannot be read back"})
		} else if ok && !reflect.DeepEqual(g, want) {
			fs = append(fs, finding{"json:field-differs", fmt.Sprintf("data reads back as %v, expected %v", g, want)})
		}
	}
	return fs
}

// ---------- stages ----------

type replayDoc struct {
	Str    []byte      `json:"str,omitempty"`
	Event  *evDesc     `json:"event,omitempty"`
	Sshd   *sshdCase   `json:"sshd,omitempty"`
	Action *actionCase `json:"action,omitempty"`
	Dec    []byte      `json:"dec,omitempty"`
	Stage  string      `json:"stage"`
}

type sshdCase struct {
	Tok  []byte `json:"tok"`
	Line []byte `json:"line"`
	Form string `json:"form"`
}

type actionCase struct {
	Subjects smap     `json:"subjects"`
	SrcType  []byte   `json:"src_type"`
	SrcValue []byte   `json:"src_value"`
	SrcExtra []skv    `json:"src_extra"`
	Target   smap     `json:"target"`
	Unix     int64    `json:"unix"`
	Nanos    int64    `json:"nanos"`
	Session  []byte   `json:"session"`
	Result   []byte   `json:"result"`
	Action   []byte   `json:"action"`
	How      []byte   `json:"how"`
	Object   [][]byte `json:"object"`
	Args     [][]byte `json:"args"`
}

func runString(s []byte) ([][]byte, error) {
	w := &recW{}
	err := json.NewEncoder(w).Encode(string(s))
	return w.take(), err
}

func runEvent(d evDesc) ([][]byte, error) {
	ev, err := buildEvent(d)
	if err != nil {
		return nil, err
	}
	w := &recW{}
	err = auditevent.NewDefaultAuditEventWriter(w).Write(ev)
	return w.take(), err
}

const nodeName, machineID = "node-7", "mid-0123" // cfg0 of Model/SshdCheck.v

var sshdW = &recW{}
var sshdLogins = make(chan common.RemoteUserLogin)
var sshdProc = func() sshd.SshdProcessor {
	sshd.SetLogger(hutil.Logger(false))
	pm := metrics.NewPrometheusMetricsProviderForRegisterer(prometheus.NewRegistry())
	return sshd.NewSshdProcessor(context.Background(), sshdLogins, nodeName, machineID, auditevent.NewDefaultAuditEventWriter(sshdW), pm)
}()

func runSshd(c sshdCase) (calls [][]byte, err error) {
	ctx, cancel := context.WithCancel(context.Background())
	done := make(chan struct{})
	go func() {
		defer close(done)
		for {
			select {
			case <-sshdLogins:
			case <-ctx.Done():
				return
			}
		}
	}()
	defer func() {
		if r := recover(); r != nil {
			err = fmt.Errorf("panic: %v", r)
		}
		cancel()
		<-done
		calls = sshdW.take()
	}()
	err = sshdProc.ProcessSshdLogEntry(ctx, sshd.SshdLogEntry{Message: string(c.Line), PID: string(c.Tok)})
	return
}

func runAction(c actionCase) ([][]byte, error) {
	w := &recW{}
	tr := sessiontracker.NewSessionTracker(auditevent.NewDefaultAuditEventWriter(w), hutil.Logger(false))
	extra := map[string]any{}
	for _, e := range c.SrcExtra {
		extra[string(e.K)] = string(e.V)
	}
	if len(c.SrcExtra) == 0 {
		extra = nil
	}
	src := auditevent.NewAuditEvent(common.ActionLoginIdentifier,
		auditevent.EventSource{Type: string(c.SrcType), Value: string(c.SrcValue), Extra: extra},
		auditevent.OutcomeSucceeded, goSmap(c.Subjects), "sshd").WithTarget(goSmap(c.Target))
	const pid = 4242
	if err := tr.RemoteLogin(common.RemoteUserLogin{Source: src, PID: pid, CredUserID: "bob"}); err != nil {
		return nil, err
	}
	args := make([]string, len(c.Args))
	for i, a := range c.Args {
		args[i] = string(a)
	}
	if len(args) == 0 {
		args = nil
	}
	ev := &aucoalesce.Event{Timestamp: time.Unix(c.Unix, c.Nanos).UTC(), Type: auparse.AUDIT_LOGIN, Session: string(c.Session), Result: string(c.Result)}
	ev.Summary.Action, ev.Summary.How = string(c.Action), string(c.How)
	ev.Summary.Object = aucoalesce.Object{Type: string(c.Object[0]), Primary: string(c.Object[1]), Secondary: string(c.Object[2])}
	ev.Process.PID = fmt.Sprint(pid)
	ev.Process.Args = args
	err := tr.AuditdEvent(ev)
	return w.take(), err
}

func coqAction(c actionCase, line []byte) string {
	subj := coqSkv(c.Subjects.E)
	id := fmt.Sprintf("(ID %s %s %s %s %s)", subj, lit(c.SrcType), lit(c.SrcValue), coqSkv(c.SrcExtra), coqSkv(c.Target.E))
	t := time.Unix(c.Unix, c.Nanos).UTC()
	ce := fmt.Sprintf("(CE %s %s %s %s %s %s %s %s %s)", hutil.CoqZ(t.UnixNano()), lit(c.Session), lit(c.Result), lit(c.Action), lit(c.How),
		lit(c.Object[0]), lit(c.Object[1]), lit(c.Object[2]), coqStrs(c.Args))
	return fmt.Sprintf("(JCAction %s %s %s %s)", id, ce, lit([]byte(timeText(t))), lit(line))
}

// auditId and loggedAt of a written line, as texts (the random id and the clock reading of the real code)
func idAndTime(line []byte) (aid, when []byte, ok bool) {
	var g struct {
		Metadata struct {
			AuditID string `json:"auditId"`
		} `json:"metadata"`
		LoggedAt json.RawMessage `json:"loggedAt"`
	}
	if json.Unmarshal(line, &g) != nil || len(g.LoggedAt) < 2 {
		return nil, nil, false
	}
	return []byte(g.Metadata.AuditID), g.LoggedAt[1 : len(g.LoggedAt)-1], true
}

func main() {
	out := flag.String("out", ".", "output directory")
	n := flag.Int("n", 120, "number of generated events (strings: 4n, sshd lines: n, actions: n/2, decode: 2n)")
	replay := flag.String("replay", "", "replay file")
	flag.Parse()
	seed := hutil.SeedFromEnv()
	if *replay != "" {
		os.Exit(doReplay(*replay))
	}
	sum := hutil.NewSummary("C10", seed, ruleText)
	t0 := time.Now()
	cases := &hutil.CaseFile{Dir: *out, Stem: "cases_json",
		Header: "From Coq Require Import Ascii String List Bool Arith NArith ZArith.\nImport ListNotations.\nFrom AM Require Import Lib.Bytes Model.JsonEnc Model.JsonEncCheck.\nOpen Scope list_scope.\n",
		Footer: func(int) string { return "Definition M := Eval vm_compute in mismatches cases.\nPrint M.\n" }}
	pending := 0
	add := func(item string, rp replayDoc) {
		cases.AddDesc(item, rp)
		pending += len(item)
		if pending > shardBytes {
			cases.Flush()
			pending = 0
		}
	}
	fail := func(fs []finding, rp replayDoc) {
		for _, f := range fs {
			sum.FailKey("oracle", f.key, f.what, rp)
		}
	}
	g := &genCtx{r: hutil.NewRand(seed ^ 0x10C10), dist: sum.Dist}

	// ---- strings
	var strs [][]byte
	for b := 0; b < 256; b++ {
		strs = append(strs, []byte{byte(b)}, []byte{'a', byte(b), 'z'})
	}
	for _, f := range frags {
		strs = append(strs, []byte(f))
	}
	for i := 0; i < 4**n; i++ {
		strs = append(strs, g.str())
	}
	for _, s := range strs {
		rp := replayDoc{Stage: "strings", Str: s}
		calls, err := runString(s)
		if err != nil || len(calls) != 1 {
			sum.FailKey("harness", "json:string-encode", fmt.Sprintf("Encode of a string: %v, %d writes", err, len(calls)), rp)
			continue
		}
		var back string
		if json.Unmarshal(calls[0], &back) != nil || back != sanitize(string(s)) {
			fail([]finding{{"json:string-roundtrip", fmt.Sprintf("the string %q reads back as %q", s, back)}}, rp)
		}
		if bytes.Count(calls[0], []byte{'\n'}) != 1 {
			fail([]finding{{"json:newline-inside", "an encoded string holds a newline"}}, rp)
		}
		if len(s) <= 400 {
			add(fmt.Sprintf("JCStr %s %s %s %s", lit(s), lit(calls[0]), hutil.CoqBool(utf8.Valid(s)), lit([]byte(back))), rp)
		}
		sum.Count("s\x00"+string(s), len(s) > 0)
		sum.Dist("stage_strings")
	}

	// ---- events
	for i := 0; i < *n; i++ {
		d := genEvent(g)
		rp := replayDoc{Stage: "events", Event: &d}
		calls, err := runEvent(d)
		if err != nil {
			sum.FailKey("harness", "json:event-write", "the real writer rejected a generated event: "+err.Error(), rp)
			continue
		}
		fs := judgeFraming(calls)
		if len(calls) == 1 {
			fs = append(fs, judgeFields(d, calls[0])...)
		}
		fail(fs, rp)
		if len(calls) == 1 && len(calls[0]) <= 5000 {
			add(fmt.Sprintf("JCEv %s\n  %s", coqEvent(d), lit(calls[0])), rp)
		} else {
			sum.Dist("event_too_long_for_coq_oracle_only")
		}
		key, _ := json.Marshal(d)
		sum.Count(string(key), true)
		sum.Dist("stage_events")
		if i < 2 && len(calls) == 1 {
			sum.Sample(map[string]any{"stage": "events", "line": string(calls[0])})
		}
	}

	// ---- the real sshd processor
	for i := 0; i < *n; i++ {
		form, line := genSshdLine(g.r)
		tok := hutil.Pick(g.r, []string{"4242", "1", "99999", "x\"1", "<pid>", "12\xff", ""})
		if len(line) > 150 {
			line = line[:150]
		}
		c := sshdCase{Tok: []byte(tok), Line: []byte(line), Form: form}
		rp := replayDoc{Stage: "sshd", Sshd: &c}
		calls, err := runSshd(c)
		if err != nil {
			sum.FailKey("harness", "json:sshd-run", "the sshd processor returned an error with a working writer: "+err.Error(), rp)
			continue
		}
		var ws []string
		ok := true
		for _, ln := range calls {
			fail(judgeFraming([][]byte{ln}), rp)
			aid, when, okk := idAndTime(ln)
			if !okk {
				ok = false
				fail([]finding{{"json:unreadable", "a line written by the sshd processor cannot be read back"}}, rp)
				break
			}
			ws = append(ws, fmt.Sprintf("(%s, %s, %s)", lit(aid), lit(when), lit(ln)))
		}
		if ok {
			add(fmt.Sprintf("JCLogin %s %s %s", lit(c.Tok), lit(c.Line), hutil.CoqList(ws)), rp)
		}
		sum.Count("l\x00"+tok+"\x00"+line, len(calls) > 0)
		sum.Dist("stage_sshd")
		sum.Dist("sshd_form_" + form)
		if len(calls) > 0 {
			sum.Dist("sshd_line_wrote_event")
		}
		if i < 1 && len(calls) == 1 {
			sum.Sample(map[string]any{"stage": "sshd", "input": line, "line": string(calls[0])})
		}
	}

	// ---- the real correlator's toAuditEvent
	for i := 0; i < *n/2; i++ {
		c := genAction(g)
		rp := replayDoc{Stage: "actions", Action: &c}
		calls, err := runAction(c)
		if err != nil || len(calls) != 1 {
			sum.FailKey("harness", "json:action-run", fmt.Sprintf("the correlator did not write exactly one event for a login and its LOGIN record: %v, %d writes", err, len(calls)), rp)
			continue
		}
		fail(judgeFraming(calls), rp)
		if len(calls[0]) <= 5000 {
			add(coqAction(c, calls[0]), rp)
		} else {
			sum.Dist("action_too_long_for_coq_oracle_only")
		}
		key, _ := json.Marshal(c)
		sum.Count(string(key), true)
		sum.Dist("stage_actions")
		if len(c.Args) > 0 {
			sum.Dist("action_with_process_args")
		}
		if i < 1 {
			sum.Sample(map[string]any{"stage": "actions", "line": string(calls[0])})
		}
	}

	// ---- the decoder
	for i := 0; i < 2**n; i++ {
		l := genLiteral(g.r)
		rp := replayDoc{Stage: "decode", Dec: l}
		var back string
		r := "None"
		if err := json.Unmarshal(l, &back); err == nil {
			r = "(Some " + lit([]byte(back)) + ")"
			sum.Dist("literal_accepted")
		} else {
			sum.Dist("literal_rejected")
		}
		add(fmt.Sprintf("JCDec %s %s", lit(l), r), rp)
		sum.Count("d\x00"+string(l), r != "None")
		sum.Dist("stage_decode")
	}

	cases.Flush()
	sum.CaseFiles = append(sum.CaseFiles, cases.Files...)
	sum.Notes = append(sum.Notes, fmt.Sprintf("wall time %.1fs", time.Since(t0).Seconds()))
	sum.Write(*out)
}

func genAction(g *genCtx) actionCase {
	r := g.r
	var c actionCase
	c.Subjects = g.smap(false)
	c.SrcType, c.SrcValue = g.str(), g.str()
	if r.Bool() {
		c.SrcExtra = g.smap(false).E
	}
	c.Target = g.smap(true)
	c.Unix, c.Nanos = 1600000000+int64(r.Intn(100000000)), int64(r.Intn(1000))*1000000
	c.Session = g.str()
	for len(c.Session) == 0 || string(c.Session) == "unset" {
		c.Session = append(c.Session, 'x')
	}
	c.Result = hutil.Pick(r, [][]byte{[]byte("success"), []byte("fail"), []byte(""), g.str()})
	c.Action, c.How = g.str(), g.str()
	for i := 0; i < 3; i++ {
		if r.Chance(1, 3) {
			c.Object = append(c.Object, []byte{})
		} else {
			c.Object = append(c.Object, g.str())
		}
	}
	for i := r.Intn(4); i > 0; i-- {
		c.Args = append(c.Args, g.str())
	}
	return c
}

// JSON string literals (raw bytes valid UTF-8): well-formed ones with every kind of escape, and broken ones
func genLiteral(r *hutil.Rand) []byte {
	parts := []string{"a", "bob", " ", "/", "\\/", "\\\"", "\\\\", "\\b", "\\f", "\\n", "\\r", "\\t", "\\u0000", "\\u001f", "\\u0041", "\\u00e9", "\\u00E9", "\\u07ff", "\\u0800",
		"\\u2028", "\\u2029", "\\ufffd", "\\uFFFF", "\\ud83c\\udfdd", "\\uD83C\\uDFDD", "\\ud800", "\\udc00", "\\udbff\\udfff", "\\ud800\\ud800\\udc00", "\\ud800x", "\\ud800\\n", "\\udfff\\ud800",
		"é", "日本", "\U0001f3dd", "\u2028", "<", "&", "\x7f", "'"}
	bad := []string{"\"", "\\x", "\\u12", "\\u12g4", "\\", "\n", "\x00", "\x1f", "\\U0001f3dd", "\\a", "\\'"}
	var sb strings.Builder
	sb.WriteByte('"')
	for i := r.Intn(7); i > 0; i-- {
		sb.WriteString(hutil.Pick(r, parts))
	}
	broken := r.Intn(6)
	if broken == 0 {
		sb.WriteString(hutil.Pick(r, bad))
		for i := r.Intn(3); i > 0; i-- {
			sb.WriteString(hutil.Pick(r, parts))
		}
	}
	if broken != 1 {
		sb.WriteByte('"')
	}
	if broken == 2 {
		sb.WriteString(hutil.Pick(r, []string{"x", "\"", "\"\""}))
	}
	s := sb.String()
	if broken == 3 {
		s = s[1:]
	}
	return []byte(s)
}

const ruleText = "hostile byte strings (every single byte alone and between letters; fragments exercising each branch of appendString and of DecodeRuneInString: quotes, backslashes, control bytes, DEL, < > &, U+2028/U+2029 and their neighbours, runes at every width boundary, overlong forms, surrogates, values above U+10FFFF, truncated and interrupted sequences, lone continuation bytes, forged JSON fragments with newlines; random bytes; runs of all 256 bytes; long repetitions) " +
	"encoded as Go strings and placed in every field of generated audit events (maps with 0-6 distinct keys incl. keys needing escapes, keys equal up to case, prefixes of one another, keys that collide once invalid bytes are replaced; nil and empty maps; Extra values: strings, string slices, aucoalesce.Object with empty members, string maps, nested maps, nil; Data absent or json.Marshal of a map / other value; times over years 0-9999 with and without fraction, UTC and fixed offsets), written by auditevent.NewDefaultAuditEventWriter on a recording io.Writer; " +
	"log lines through the real sshd processor and logins + LOGIN records through the real correlator, both writing through the real writer; JSON string literals (all escapes, surrogate pairs and lone surrogates, broken ones) through json.Unmarshal; " +
	"the exact bytes of every Write call are compared with the Coq model (enc_string / enc_line / login_view / action_view / dec_string); oracle without the model: one Write per event, one newline at the end and none inside, no other control byte, valid JSON, every field reads back (invalid UTF-8 as U+FFFD); " +
	"non-trivial = non-empty string / an event / a line that wrote an event / an accepted literal; distinct by the full input"

func doReplay(path string) int {
	raw, err := os.ReadFile(path)
	if err != nil {
		fmt.Println("cannot read replay:", err)
		return 2
	}
	var rp struct {
		Replay replayDoc `json:"replay"`
	}
	if err := json.Unmarshal(raw, &rp); err != nil || rp.Replay.Stage == "" {
		fmt.Println("replay file carries no case (no failing input was found)")
		return 2
	}
	var fs []finding
	switch d := rp.Replay; d.Stage {
	case "strings":
		calls, err := runString(d.Str)
		var back string
		if err != nil || len(calls) != 1 || json.Unmarshal(calls[0], &back) != nil || back != sanitize(string(d.Str)) {
			fs = append(fs, finding{"json:string-roundtrip", fmt.Sprintf("the string %q reads back as %q", d.Str, back)})
		}
		if len(calls) == 1 && bytes.Count(calls[0], []byte{'\n'}) != 1 {
			fs = append(fs, finding{"json:newline-inside", "an encoded string holds a newline"})
		}
		fmt.Printf("written: %q\n", calls)
	case "events":
		calls, err := runEvent(*d.Event)
		if err != nil {
			fmt.Println("harness problem:", err)
			return 2
		}
		fs = judgeFraming(calls)
		if len(calls) == 1 {
			fs = append(fs, judgeFields(*d.Event, calls[0])...)
		}
		fmt.Printf("written: %q\nCoq view: %s\n", calls, coqEvent(*d.Event))
	case "sshd":
		calls, err := runSshd(*d.Sshd)
		if err != nil {
			fmt.Println("harness problem:", err)
			return 2
		}
		for _, ln := range calls {
			fs = append(fs, judgeFraming([][]byte{ln})...)
		}
		fmt.Printf("written: %q\n", calls)
	case "actions":
		calls, err := runAction(*d.Action)
		if err != nil {
			fmt.Println("harness problem:", err)
			return 2
		}
		fs = judgeFraming(calls)
		fmt.Printf("written: %q\n", calls)
	case "decode":
		var back string
		err := json.Unmarshal(d.Dec, &back)
		fmt.Printf("literal %q: %q, %v\n", d.Dec, back, err)
	}
	for _, f := range fs {
		fmt.Printf("REPRODUCED %s: %s\n", f.key, f.what)
	}
	if len(fs) > 0 {
		return 1
	}
	fmt.Println("not reproduced")
	return 0
}

var _ = sort.Strings
