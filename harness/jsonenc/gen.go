//go:build verif

package main

import (
	"fmt"
	"strings"
	"time"

	"github.com/metal-toolbox/audito-maldito/internal/verifharness/hutil"
)

// ---------- hostile strings ----------

// fragments every one of which exercises a branch of appendString / DecodeRuneInString
var frags = []string{
	"", "a", "bob", "root", "10.0.0.9", "/bin/sh", "UserLogin", " ", "  ",
	"\"", "\\", "\\\"", "\"}", "\\u0000", "\\n", "/", "'", "`",
	"\n", "\r", "\t", "\b", "\f", "\x00", "\x01", "\x1f", "\x7f", "\x0b", "\x1b[31m",
	"<", ">", "&", "<script>", "&amp;", "</",
	"\u2028", "\u2029", "\u2027", "\u202a", "\u2020", "\u00a0", "\u0080", "\u07ff", "\u0800", "\ufffd", "\uffff", "\ud7ff", "\ue000",
	"\U00010000", "\U0010ffff", "\U0001f3dd", "é", "日本", "ö", "ß", "Ω",
	"\xff", "\xfe", "\x80", "\xbf", "\xc0\xaf", "\xc1\xbf", "\xc2", "\xc2\x41", "\xe0\x80\xaf", "\xe0\x9f\xbf", "\xe0\xa0", "\xe2\x80", "\xe2\x80\x41",
	"\xed\xa0\x80", "\xed\xbf\xbf", "\xed\x9f\xbf", "\xf0\x80\x80\x80", "\xf0\x8f\xbf\xbf", "\xf0\x90\x80", "\xf0\x9f\x8f", "\xf4\x90\x80\x80", "\xf4\x8f\xbf\xbf",
	"\xf5\x80\x80\x80", "\xf8\x88\x80\x80\x80", "\xe2\x80\xa8\x80", "\xe2\x28\xa8", "\xe2\x80\x28",
	"\"}\n{\"metadata\":{\"auditId\":\"forged\"},\"type\":\"UserLogin\"}\n", "\",\"outcome\":\"succeeded", "}}\n", "null", "{}", "[]", "true",
}

func randBytes(r *hutil.Rand, n int) string {
	b := make([]byte, n)
	for i := range b {
		b[i] = byte(r.Intn(256))
	}
	return string(b)
}

var all256 = func() string {
	b := make([]byte, 256)
	for i := range b {
		b[i] = byte(i)
	}
	return string(b)
}()

// hostile returns a string and the name of the class it was drawn from.
func hostile(r *hutil.Rand) (string, string) {
	switch r.Intn(16) {
	case 0:
		return "", "empty"
	case 1, 2, 3:
		return hutil.Pick(r, []string{"bob", "root", "10.0.0.9", "4242", "sshd", "node-7", "/usr/bin/sudo", "executed", "alice@example.org"}), "plain"
	case 4, 5, 6, 7, 8:
		n := 1 + r.Intn(6)
		var sb strings.Builder
		for i := 0; i < n; i++ {
			sb.WriteString(hutil.Pick(r, frags))
		}
		return sb.String(), "fragments"
	case 9:
		return randBytes(r, 1+r.Intn(24)), "random-bytes"
	case 10:
		// a lead byte followed by random continuation-range or arbitrary bytes: every acceptRanges edge
		lead := []byte{0xc2, 0xdf, 0xe0, 0xe1, 0xec, 0xed, 0xee, 0xef, 0xf0, 0xf1, 0xf3, 0xf4}
		edge := []byte{0x7f, 0x80, 0x8f, 0x90, 0x9f, 0xa0, 0xbf, 0xc0}
		b := []byte{hutil.Pick(r, lead)}
		for i := r.Intn(4); i > 0; i-- {
			b = append(b, hutil.Pick(r, edge))
		}
		return "x" + string(b) + "y", "utf8-edges"
	case 11:
		if r.Chance(1, 4) {
			return all256, "all-256-bytes"
		}
		return all256[r.Intn(200) : 200+r.Intn(56)], "byte-run"
	case 12:
		if r.Chance(1, 30) {
			// very long
			n := 1000 + r.Intn(7000)
			unit := hutil.Pick(r, []string{"a", "\n", "\"", "\xff", "\u2028", "é", "<", "\\", "\U0001f3dd"})
			return strings.Repeat(unit, n/len(unit)), "very-long"
		}
		return strings.Repeat(hutil.Pick(r, frags), 1+r.Intn(40)), "repeated"
	case 13:
		// a valid rune of each width next to its neighbours
		rs := []rune{0, 0x1f, 0x20, 0x7e, 0x7f, 0x80, 0x7ff, 0x800, 0x2027, 0x2028, 0x2029, 0x202a, 0xd7ff, 0xe000, 0xfffd, 0xfffe, 0xffff, 0x10000, 0x10ffff}
		n := 1 + r.Intn(4)
		var sb strings.Builder
		for i := 0; i < n; i++ {
			sb.WriteRune(hutil.Pick(r, rs))
		}
		return sb.String(), "rune-edges"
	case 14:
		// a valid multi-byte sequence cut short, then more text
		s := hutil.Pick(r, []string{"é", "日", "\u2028", "\U0001f3dd"})
		return "k" + s[:1+r.Intn(len(s))] + hutil.Pick(r, []string{"", "z", "\"", "\x80"}), "truncated"
	}
	return hutil.Pick(r, frags), "one-fragment"
}

// ---------- event descriptions (JSON-able: []byte fields travel as base64 in replay files) ----------

type anyVal struct {
	Kind string   `json:"kind"` // str | strs | smap | amap | obj | nil
	S    []byte   `json:"s,omitempty"`
	L    [][]byte `json:"l,omitempty"`
	SM   []skv    `json:"sm,omitempty"`
	AM   []akv    `json:"am,omitempty"`
	O    [][]byte `json:"o,omitempty"` // type, primary, secondary
}

type skv struct {
	K []byte `json:"k"`
	V []byte `json:"v"`
}

type akv struct {
	K []byte `json:"k"`
	V anyVal `json:"v"`
}

type smap struct {
	Nil bool  `json:"nil,omitempty"`
	E   []skv `json:"e,omitempty"`
}

type amap struct {
	Nil bool  `json:"nil,omitempty"`
	E   []akv `json:"e,omitempty"`
}

type evDesc struct {
	AuditID   []byte  `json:"audit_id"`
	MetaExtra amap    `json:"meta_extra"`
	Type      []byte  `json:"type"`
	Unix      int64   `json:"unix"`
	Nanos     int64   `json:"nanos"`
	ZoneSec   int     `json:"zone_sec"`
	UTC       bool    `json:"utc"`
	SrcType   []byte  `json:"src_type"`
	SrcValue  []byte  `json:"src_value"`
	SrcExtra  amap    `json:"src_extra"`
	Outcome   []byte  `json:"outcome"`
	Subjects  smap    `json:"subjects"`
	Component []byte  `json:"component"`
	Target    smap    `json:"target"`
	Data      *anyVal `json:"data,omitempty"`
}

type genCtx struct {
	r    *hutil.Rand
	dist func(string)
}

func (g *genCtx) str() []byte {
	s, cls := hostile(g.r)
	g.dist("string_" + cls)
	return []byte(s)
}

// keys: distinct byte strings incl. keys needing escapes, keys equal up to case, prefixes of one another,
// keys that differ only in an invalid byte (they collide after sanitising)
func (g *genCtx) keys(n int) [][]byte {
	r := g.r
	seen := map[string]bool{}
	var out [][]byte
	for len(out) < n {
		var k string
		switch r.Intn(8) {
		case 0:
			k = hutil.Pick(r, []string{"key", "Key", "KEY", "kEy", "keY"})
		case 1:
			k = hutil.Pick(r, []string{"a", "ab", "abc", "a\x00", "a ", "", "b", "B", "_", "Z", "z"})
		case 2:
			k = hutil.Pick(r, []string{"k\"", "k\\", "k\n", "k<", "k&", "k\u2028", "k\xff", "k\xfe", "k\xc3", "ké", "k日", "k\U0001f3dd", "k\uff5e"})
		case 3:
			k = hutil.Pick(r, []string{"loggedAs", "userID", "pid", "host", "machine-id", "port", "dns", "shell", "action", "how", "object", "process_args"})
		default:
			s, _ := hostile(r)
			if len(s) > 40 {
				s = s[:40]
			}
			k = s
		}
		if !seen[k] {
			seen[k] = true
			out = append(out, []byte(k))
		}
	}
	return out
}

func (g *genCtx) nkeys() int {
	n := g.r.Intn(7)
	g.dist(fmt.Sprintf("map_keys_%d", n))
	return n
}

func (g *genCtx) smap(allowNil bool) smap {
	if allowNil && g.r.Chance(1, 6) {
		g.dist("string_map_nil")
		return smap{Nil: true}
	}
	var m smap
	for _, k := range g.keys(g.nkeys()) {
		m.E = append(m.E, skv{K: k, V: g.str()})
	}
	if len(m.E) == 0 {
		g.dist("string_map_empty_non_nil")
	}
	return m
}

func (g *genCtx) anyv(depth int) anyVal {
	r := g.r
	k := r.Intn(10)
	switch {
	case k < 5:
		g.dist("any_string")
		return anyVal{Kind: "str", S: g.str()}
	case k == 5:
		g.dist("any_string_slice")
		n := 1 + r.Intn(4)
		v := anyVal{Kind: "strs"}
		for i := 0; i < n; i++ {
			v.L = append(v.L, g.str())
		}
		return v
	case k == 6:
		g.dist("any_object_struct")
		v := anyVal{Kind: "obj"}
		for i := 0; i < 3; i++ {
			if r.Chance(1, 3) {
				v.O = append(v.O, []byte{})
			} else {
				v.O = append(v.O, g.str())
			}
		}
		return v
	case k == 7:
		g.dist("any_string_map")
		m := g.smap(false)
		return anyVal{Kind: "smap", SM: m.E}
	case k == 8 && depth < 2:
		g.dist("any_nested_map")
		v := anyVal{Kind: "amap"}
		for _, key := range g.keys(r.Intn(4)) {
			v.AM = append(v.AM, akv{K: key, V: g.anyv(depth + 1)})
		}
		return v
	}
	g.dist("any_nil")
	return anyVal{Kind: "nil"}
}

func (g *genCtx) amap() amap {
	if g.r.Chance(1, 5) {
		g.dist("any_map_nil")
		return amap{Nil: true}
	}
	var m amap
	for _, k := range g.keys(g.nkeys()) {
		m.E = append(m.E, akv{K: k, V: g.anyv(0)})
	}
	if len(m.E) == 0 {
		g.dist("any_map_empty_non_nil")
	}
	return m
}

func (g *genCtx) time() (int64, int64, int, bool) {
	r := g.r
	// years 0..9999 (time.Time.MarshalJSON fails outside)
	const minUnix, maxUnix = -62167219200, 253402300799
	var unix int64
	switch r.Intn(4) {
	case 0:
		unix = 1600000000 + int64(r.Intn(200000000))
	case 1:
		unix = minUnix + 86400 + int64(r.U64()%uint64(maxUnix-minUnix-2*86400))
	case 2:
		unix = hutil.Pick(r, []int64{0, minUnix + 86400, maxUnix - 86400, 951782400, 1709164800})
	default:
		unix = int64(r.Intn(2000000000))
	}
	var nanos int64
	switch r.Intn(4) {
	case 0:
		nanos = 0
	case 1:
		nanos = int64(r.Intn(1000)) * 1000000
	case 2:
		nanos = int64(r.Intn(1000000000))
	default:
		nanos = hutil.Pick(r, []int64{1, 10, 999999999, 500000000, 120000000})
	}
	zone, utc := 0, true
	if r.Chance(1, 3) {
		utc = false
		zone = (r.Intn(27*4) - 12*4) * 900 // -12:00 .. +14:45 in quarter hours
		g.dist("time_zone_offset")
	}
	if nanos == 0 {
		g.dist("time_no_fraction")
	}
	return unix, nanos, zone, utc
}

func (d evDesc) when() time.Time {
	t := time.Unix(d.Unix, d.Nanos)
	if d.UTC {
		return t.UTC()
	}
	return t.In(time.FixedZone("", d.ZoneSec))
}

func genEvent(g *genCtx) evDesc {
	r := g.r
	var d evDesc
	d.AuditID = g.str()
	d.MetaExtra = g.amap()
	d.Type = g.str()
	d.Unix, d.Nanos, d.ZoneSec, d.UTC = g.time()
	d.SrcType = g.str()
	d.SrcValue = g.str()
	d.SrcExtra = g.amap()
	d.Outcome = g.str()
	d.Subjects = g.smap(true)
	d.Component = g.str()
	d.Target = g.smap(true)
	switch r.Intn(5) {
	case 0:
		g.dist("data_absent")
	case 1, 2:
		g.dist("data_string_map")
		m := g.smap(false)
		d.Data = &anyVal{Kind: "smap", SM: m.E}
	case 3:
		g.dist("data_other_value")
		v := g.anyv(0)
		d.Data = &v
	default:
		g.dist("data_daemon_shape")
		d.Data = &anyVal{Kind: "smap", SM: []skv{{K: []byte("Alg"), V: g.str()}, {K: []byte("SSHKeySum"), V: g.str()}}}
	}
	return d
}

// ---------- sshd lines (real processor) ----------

// field text: what a client can put into a log line (no newline: the pipe framing never delivers one inside a record)
func lineField(r *hutil.Rand) string {
	switch r.Intn(6) {
	case 0:
		return hutil.Pick(r, []string{"bob", "root", "alice", "deploy"})
	case 1:
		return hutil.Pick(r, []string{"bo\"b", "b\\ob", "<bob>", "b&b", "b\u2028b", "b\xffb", "b\xc3", "bé", "日本", "\U0001f3dd", "b\x01b", "b\tb", "b\x7fb", "\xed\xa0\x80", "b b", "\"", "\\"})
	}
	n := 1 + r.Intn(4)
	var sb strings.Builder
	for i := 0; i < n; i++ {
		f := hutil.Pick(r, frags)
		if strings.ContainsAny(f, "\n") || len(f) > 12 {
			f = "x"
		}
		sb.WriteString(f)
	}
	return sb.String()
}

func genSshdLine(r *hutil.Rand) (form, line string) {
	u, src := lineField(r), hutil.Pick(r, []string{"10.0.0.9", "2001:db8::1", "h<o>st", "6.6.6.6"})
	if r.Chance(1, 4) {
		src = lineField(r)
	}
	port := fmt.Sprint(r.Intn(65536))
	sum := hutil.Pick(r, []string{"Zm9vYmFy", "abc+/=", "x\"y", "s<u>m", "s\xffm", "é"})
	switch r.Intn(16) {
	case 0:
		return "accepted-publickey", fmt.Sprintf("Accepted publickey for %s from %s port %s ssh2: ED25519 SHA256:%s", u, src, port, sum)
	case 1:
		return "accepted-publickey-cert", fmt.Sprintf("Accepted publickey for %s from %s port %s ssh2: RSA-CERT SHA256:%s ID %s (serial %d) CA RSA SHA256:%s", u, src, port, sum, lineField(r), r.Intn(1000), sum)
	case 2:
		return "accepted-publickey-padded", fmt.Sprintf("Accepted publickey for %s from %s port %s ssh2: ED25519 SHA256:%s %s", u, src, port, sum, lineField(r))
	case 3:
		return "accepted-password", fmt.Sprintf("Accepted password for %s from %s port %s ssh2", u, src, port)
	case 4:
		return "failed-password", fmt.Sprintf("Failed password for %s from %s port %s ssh2", u, src, port)
	case 5:
		return "invalid-user", fmt.Sprintf("Invalid user %s from %s port %s", u, hutil.Pick(r, []string{"10.0.0.9", "h<o>st", "s\"rc"}), port)
	case 6:
		return "not-in-allowusers", fmt.Sprintf("User %s from %s not allowed because not listed in AllowUsers", u, src)
	case 7:
		return "shell-missing", fmt.Sprintf("User %s not allowed because shell %s does not exist", u, lineField(r))
	case 8:
		return "root-refused", fmt.Sprintf("ROOT LOGIN REFUSED FROM %s port %s", src, port)
	case 9:
		return "bad-owner", fmt.Sprintf("Authentication refused for %s: bad owner or modes for %s", u, lineField(r))
	case 10:
		return "nasty-ptr", fmt.Sprintf("Nasty PTR record \"%s\" is set up for %s, ignoring", lineField(r), src)
	case 11:
		return "max-attempts", fmt.Sprintf("maximum authentication attempts exceeded for %s from %s port %s ssh2", u, src, port)
	case 12:
		return "revoked-key", fmt.Sprintf("Authentication key RSA %s revoked by file %s", sum, lineField(r))
	case 13:
		return "cert-invalid", fmt.Sprintf("Certificate invalid: %s", lineField(r))
	case 14:
		return "reverse-mapping", fmt.Sprintf("reverse mapping checking getaddrinfo for %s [%s] failed.", lineField(r), src)
	}
	return "no-match", "Connection closed by " + u
}
