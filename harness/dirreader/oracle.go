//go:build verif

package main

import (
	"bytes"
	"fmt"
	"sort"
	"strconv"
	"strings"
)

// The oracle: what C20 demands, computed from the generated case alone.

// parseLogName: "audit.log" -> live; "audit.log.<decimal>" -> n.
func parseLogName(s string) (n int, live bool, ok bool) {
	if s == "audit.log" {
		return 0, true, true
	}
	const p = "audit.log."
	if !strings.HasPrefix(s, p) || len(s) == len(p) {
		return 0, false, false
	}
	d := s[len(p):]
	for _, c := range d {
		if c < '0' || c > '9' {
			return 0, false, false
		}
	}
	v, err := strconv.Atoi(d)
	if err != nil {
		return 0, false, false
	}
	return v, false, true
}

// expectedOrder: the audit logs of the listing, larger number first, audit.log last.
func expectedOrder(dir []entry) []string {
	var nums []int
	live := false
	for _, e := range dir {
		if e.Dir {
			continue
		}
		n, isLive, ok := parseLogName(e.Name)
		switch {
		case !ok:
		case isLive:
			live = true
		default:
			nums = append(nums, n)
		}
	}
	sort.Sort(sort.Reverse(sort.IntSlice(nums)))
	var out []string
	for _, n := range nums {
		out = append(out, fmt.Sprintf("audit.log.%d", n))
	}
	if live {
		out = append(out, "audit.log")
	}
	return out
}

// completeLines: the newline-terminated lines of b without the newline, and the rest.
func completeLines(b []byte) ([]string, []byte) {
	var out []string
	for {
		i := bytes.IndexByte(b, '\n')
		if i < 0 {
			return out, b
		}
		out = append(out, string(b[:i]))
		b = b[i+1:]
	}
}

func content(dir []entry, name string) ([]byte, bool) {
	for _, e := range dir {
		if e.Name == name && !e.Dir {
			return e.Data.bytes(), true
		}
	}
	return nil, false
}

// startupAppended: the bytes appended to audit.log during start-up, in order.
func startupAppended(c caseDesc) []byte {
	var b []byte
	for _, s := range c.Startup {
		if s.Op == "append" {
			b = append(b, s.Data.bytes()...)
		}
	}
	return b
}

// effectiveDir: the directory with what was appended to audit.log during start-up counted as part of audit.log.
// Judged at the first Write event processed after start-up (runOne sends one), the property demands of a case with
// start-up appends exactly what it demands of this directory without them: the older files' lines, then every
// complete line of audit.log - whether the start-up read or that first event delivers a line is left open.
func effectiveDir(c caseDesc) []entry {
	extra := startupAppended(c)
	if len(extra) == 0 {
		return c.Dir
	}
	out := make([]entry, len(c.Dir))
	copy(out, c.Dir)
	for i, e := range out {
		if e.Name == "audit.log" && !e.Dir {
			out[i].Data = mkBlob(append(e.Data.bytes(), extra...))
		}
	}
	return out
}

func expectedInit(c caseDesc) [][]string {
	var out [][]string
	dir := effectiveDir(c)
	for _, name := range expectedOrder(dir) {
		b, _ := content(dir, name)
		ls, _ := completeLines(b)
		out = append(out, ls)
	}
	return out
}

// expectedSteps: per operation the lines it completes. pend is the unterminated rest in the
// current audit.log; rotation, re-creation and truncation discard it.
func expectedSteps(c caseDesc) [][]string {
	live, _ := content(effectiveDir(c), "audit.log")
	_, pend := completeLines(live)
	pend = append([]byte(nil), pend...)
	out := make([][]string, 0, len(c.Ops))
	for _, o := range c.Ops {
		switch o.Op {
		case "append":
			pend = append(pend, o.Data.bytes()...)
			var ls []string
			ls, pend = completeLines(pend)
			pend = append([]byte(nil), pend...)
			out = append(out, ls)
		case "rotate", "recreate", "truncate":
			pend = nil
			out = append(out, nil)
		default:
			out = append(out, nil)
		}
	}
	return out
}

type finding struct{ key, what string }

func flat(g [][]string) []string {
	var out []string
	for _, x := range g {
		out = append(out, x...)
	}
	return out
}

func eqStrs(a, b []string) bool {
	if len(a) != len(b) {
		return false
	}
	for i := range a {
		if a[i] != b[i] {
			return false
		}
	}
	return true
}

func indexOf(xs []string, x string) int {
	for i, y := range xs {
		if y == x {
			return i
		}
	}
	return -1
}

func short(s string) string {
	if len(s) > 48 {
		return fmt.Sprintf("%q...(%d bytes)", s[:32], len(s))
	}
	return fmt.Sprintf("%q", s)
}

// classify names the first difference between the lines expected and those delivered.
func classify(exp, got []string) (string, string) {
	i := 0
	for i < len(exp) && i < len(got) && exp[i] == got[i] {
		i++
	}
	switch {
	case i == len(exp) && i == len(got):
		return "", ""
	case i == len(got):
		return "lost-line", fmt.Sprintf("line %d %s was never delivered (%d expected, %d delivered)", i, short(exp[i]), len(exp), len(got))
	case strings.ContainsRune(got[i], '\n'):
		return "newline-in-line", fmt.Sprintf("delivered line %d %s contains a newline", i, short(got[i]))
	case indexOf(exp[i:], got[i]) > 0:
		return "lost-line", fmt.Sprintf("line %d %s was skipped: %s was delivered in its place", i, exp2(exp, i), short(got[i]))
	case got[i] != "" && indexOf(got[:i], got[i]) >= 0:
		return "duplicate-line", fmt.Sprintf("line %s was delivered again at position %d", short(got[i]), i)
	case i < len(exp) && (strings.HasPrefix(exp[i], got[i]) || strings.HasSuffix(exp[i], got[i])) && got[i] != exp[i]:
		return "partial-line-delivered", fmt.Sprintf("position %d: a part %s of line %s was delivered", i, short(got[i]), short(exp[i]))
	case i == len(exp):
		return "unexpected-line", fmt.Sprintf("%s was delivered at position %d although no such line was completed", short(got[i]), i)
	default:
		return "wrong-line", fmt.Sprintf("position %d: expected %s, delivered %s", i, short(exp[i]), short(got[i]))
	}
}

func exp2(exp []string, i int) string { return short(exp[i]) }

func sameSet(a, b []string) bool {
	x := append([]string(nil), a...)
	y := append([]string(nil), b...)
	sort.Strings(x)
	sort.Strings(y)
	return eqStrs(x, y)
}

func judge(c caseDesc, o observation) []finding {
	var fs []finding
	if o.Err != "" {
		fs = append(fs, finding{"reader:" + strings.SplitN(o.Err, ":", 2)[0], "the reader did not keep running: " + o.Err})
	}
	// names
	want := expectedOrder(c.Dir)
	sortOK := eqStrs(want, o.Sorted)
	if !sortOK {
		if sameSet(want, o.Sorted) {
			fs = append(fs, finding{"sort:numeric-order", fmt.Sprintf("sortLogNamesOldToNew returned %v, oldest first is %v", o.Sorted, want)})
		} else {
			fs = append(fs, finding{"sort:filter", fmt.Sprintf("sortLogNamesOldToNew returned %v, the audit logs listed are %v", o.Sorted, want)})
		}
	}
	// start-up: order in which the files were read, then the lines
	opens := o.InitOpens
	gotInit := flat(o.Init)
	if len(c.Startup) > 0 {
		// with activity during start-up the lines count up to the first Write event after start-up, and a file
		// opened once more meanwhile is judged by the lines that produced, not by the Open
		opens = firstOccurrences(opens)
		gotInit = append(gotInit, o.Flush...)
	}
	if !eqStrs(opens, want) {
		if sortOK || !eqStrs(opens, o.Sorted) {
			fs = append(fs, finding{"initial:order", fmt.Sprintf("initial files were read in the order %v, oldest first is %v", o.InitOpens, want)})
		}
		// otherwise: the consequence of the wrong sort reported above
	} else if k, what := classify(flat(expectedInit(c)), gotInit); k != "" {
		if len(c.Startup) > 0 {
			fs = append(fs, finding{"startup-activity:" + k, "events (and appends) arriving during start-up; up to the first Write event after start-up: " + what})
		} else {
			fs = append(fs, finding{"initial:" + k, "start-up: " + what})
		}
	}
	// tailing: operation by operation
	exp := expectedSteps(c)
	if k, what := classify(flat(exp), flat(o.Steps)); k != "" {
		if truncateBeforeAnyWrite(c) {
			// one input pattern, many symptoms (lost, partial or shifted lines): one stable key
			fs = append(fs, finding{"tail:truncate-right-after-startup", "audit.log had complete lines at start and its first change is a truncation; then " + k + ": " + what})
		} else {
			fs = append(fs, finding{"tail:" + k, "tailing: " + what})
		}
	} else {
		for i := range exp {
			if i >= len(o.Steps) || !eqStrs(exp[i], o.Steps[i]) {
				fs = append(fs, finding{"tail:wrong-moment", fmt.Sprintf("operation %d (%s): the lines it completes are %d, delivered with it were %d", i, c.Ops[i].Op, len(exp[i]), lenAt(o.Steps, i))})
				break
			}
		}
	}
	return fs
}

func firstOccurrences(xs []string) []string {
	var out []string
	for _, x := range xs {
		if indexOf(out, x) < 0 {
			out = append(out, x)
		}
	}
	return out
}

// truncateBeforeAnyWrite: audit.log holds complete lines at start, and it is truncated before
// anything was written to it and before any rotation.
func truncateBeforeAnyWrite(c caseDesc) bool {
	if len(c.Startup) > 0 {
		return false // a Write event was processed after start-up
	}
	live, _ := content(c.Dir, "audit.log")
	if ls, _ := completeLines(live); len(ls) == 0 {
		return false
	}
	for _, o := range c.Ops {
		switch {
		case o.Op == "truncate":
			return true
		case o.Op == "chmod", o.Op == "append" && len(o.Data.bytes()) == 0:
		default:
			return false
		}
	}
	return false
}

func lenAt(g [][]string, i int) int {
	if i < len(g) {
		return len(g[i])
	}
	return -1
}
