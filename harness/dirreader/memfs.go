//go:build verif

package main

import (
	"context"
	"errors"
	"io"
	"io/fs"
	"os"
	"sync"
	"time"

	"github.com/cenkalti/backoff/v4"

	"github.com/metal-toolbox/audito-maldito/processors/auditd/dirreader"
)

// memInode is a file's content; a handle keeps pointing at its inode after a rename.
type memInode struct {
	data []byte
}

// memFS is the in-memory file system handed to the real LogDirReader. Every Open is
// announced on the opens channel and blocks until the harness has taken note of it, which
// gives the harness an exact position of the Open in the stream of delivered lines.
type memFS struct {
	mu    sync.Mutex
	files map[string]*memInode
	opens chan string
	ctx   context.Context
	chunk int // a Read returns at most this many bytes
}

func (m *memFS) Open(p string) (dirreader.VerifFile, error) {
	select {
	case m.opens <- p:
	case <-m.ctx.Done():
		return nil, backoff.Permanent(m.ctx.Err())
	}
	m.mu.Lock()
	defer m.mu.Unlock()
	ino, ok := m.files[p]
	if !ok {
		return nil, backoff.Permanent(os.ErrNotExist)
	}
	return &memHandle{fs: m, ino: ino}, nil
}

type memHandle struct {
	fs     *memFS
	ino    *memInode
	pos    int64
	closed bool
}

func (h *memHandle) Stat() (fs.FileInfo, error) {
	h.fs.mu.Lock()
	defer h.fs.mu.Unlock()
	return memStat{size: int64(len(h.ino.data))}, nil
}

func (h *memHandle) Read(p []byte) (int, error) {
	h.fs.mu.Lock()
	defer h.fs.mu.Unlock()
	if h.closed {
		return 0, os.ErrClosed
	}
	if len(p) == 0 {
		return 0, nil
	}
	if h.pos >= int64(len(h.ino.data)) {
		return 0, io.EOF
	}
	src := h.ino.data[h.pos:]
	if len(src) > h.fs.chunk {
		src = src[:h.fs.chunk]
	}
	n := copy(p, src)
	h.pos += int64(n)
	return n, nil
}

// Seek behaves like os.File: positions beyond the end are allowed.
func (h *memHandle) Seek(off int64, whence int) (int64, error) {
	h.fs.mu.Lock()
	defer h.fs.mu.Unlock()
	if h.closed {
		return 0, os.ErrClosed
	}
	var np int64
	switch whence {
	case io.SeekStart:
		np = off
	case io.SeekCurrent:
		np = h.pos + off
	case io.SeekEnd:
		np = int64(len(h.ino.data)) + off
	default:
		return 0, errors.New("bad whence")
	}
	if np < 0 {
		return 0, errors.New("negative position")
	}
	h.pos = np
	return np, nil
}

func (h *memHandle) Close() error {
	h.closed = true
	return nil
}

type memStat struct{ size int64 }

func (s memStat) Name() string       { return "audit.log" }
func (s memStat) Size() int64        { return s.size }
func (s memStat) Mode() fs.FileMode  { return 0o600 }
func (s memStat) ModTime() time.Time { return time.Time{} }
func (s memStat) IsDir() bool        { return false }
func (s memStat) Sys() any           { return nil }
