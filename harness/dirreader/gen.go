//go:build verif

package main

import (
	"encoding/hex"
	"fmt"
	"strings"

	"github.com/metal-toolbox/audito-maldito/internal/verifharness/hutil"
)

// ---------- byte strings that stay small in JSON and in Coq ----------

// seg is a stretch of bytes: Text (printable ASCII) or Hex, repeated Rep times (0 = once).
type seg struct {
	Text string `json:"t,omitempty"`
	Hex  string `json:"x,omitempty"`
	Rep  int    `json:"n,omitempty"`
}

type blob []seg

func (b blob) bytes() []byte {
	var out []byte
	for _, s := range b {
		unit := []byte(s.Text)
		if s.Hex != "" {
			unit, _ = hex.DecodeString(s.Hex)
		}
		n := s.Rep
		if n == 0 {
			n = 1
		}
		for i := 0; i < n; i++ {
			out = append(out, unit...)
		}
	}
	return out
}

func printable(b []byte) bool {
	for _, c := range b {
		if c < 0x20 || c > 0x7e {
			return false
		}
	}
	return true
}

func litSeg(b []byte, rep int) seg {
	if printable(b) {
		return seg{Text: string(b), Rep: rep}
	}
	return seg{Hex: hex.EncodeToString(b), Rep: rep}
}

const minRun = 24

// mkBlob run-length encodes runs of one byte of at least minRun.
func mkBlob(b []byte) blob {
	var out blob
	lit := 0
	i := 0
	for i < len(b) {
		j := i
		for j < len(b) && b[j] == b[i] {
			j++
		}
		if j-i >= minRun {
			if lit < i {
				out = append(out, litSeg(b[lit:i], 0))
			}
			out = append(out, litSeg(b[i:i+1], j-i))
			lit = j
		}
		i = j
	}
	if lit < len(b) {
		out = append(out, litSeg(b[lit:], 0))
	}
	return out
}

// coqSegs prints a byte string as a list of Model/DirReaderCheck.v segments.
func coqSegs(b []byte) string {
	var items []string
	for _, s := range mkBlob(b) {
		unit := []byte(s.Text)
		if s.Hex != "" {
			unit, _ = hex.DecodeString(s.Hex)
		}
		h := hex.EncodeToString(unit)
		if s.Rep > 1 {
			items = append(items, fmt.Sprintf("R %d \"%s\"", s.Rep, h))
		} else {
			items = append(items, fmt.Sprintf("H \"%s\"", h))
		}
	}
	return "[" + strings.Join(items, "; ") + "]"
}

// ---------- case description (also the replay format) ----------

type entry struct {
	Name string `json:"name"`
	Dir  bool   `json:"is_dir,omitempty"`
	Data blob   `json:"data,omitempty"`
}

type opDesc struct {
	Op   string `json:"op"` // append | rotate | recreate | truncate | chmod
	Data blob   `json:"data,omitempty"`
}

// startOp is activity DURING start-up: injected once the Open of initial file number AtFile (reading order, 0 =
// oldest) has been announced and After of its lines have been received (AtFile -1: at once, before any file has
// been opened); positions never reached fall at the end of start-up.  append: bytes appended to audit.log + Write event; chmod: Chmod event for audit.log (also: a Write
// event without any new byte = append without data); other-name: a Write event for another name of the directory.
type startOp struct {
	AtFile int    `json:"at_file"`
	After  int    `json:"after_lines"`
	Op     string `json:"op"`
	Name   string `json:"name,omitempty"`
	Data   blob   `json:"data,omitempty"`
}

type caseDesc struct {
	Dir     []entry   `json:"dir"`
	Startup []startOp `json:"startup,omitempty"`
	Ops     []opDesc  `json:"ops"`
	Chunk   int       `json:"read_chunk"` // a Read of the in-memory file returns at most this many bytes
}

// ---------- generator ----------

type gen struct {
	r       *hutil.Rand
	sum     *hutil.Summary
	lineNo  int
	pending bool // the live file ends in an unterminated rest
}

var payloadAlphabet = []byte("abcdefghijklmnopqrstuvwxyz0123456789 =:\"'/\t\r\x00\xff\xc3\xa9")

func (g *gen) line(tag string) []byte {
	g.lineNo++
	b := []byte(fmt.Sprintf("%s%d", tag, g.lineNo))
	n := g.r.Intn(14)
	if n > 0 {
		b = append(b, ' ')
	}
	for i := 0; i < n; i++ {
		b = append(b, hutil.Pick(g.r, payloadAlphabet))
	}
	return b
}

func (g *gen) longLine(n int) []byte {
	g.lineNo++
	b := []byte(fmt.Sprintf("long%d:", g.lineNo))
	fill := hutil.Pick(g.r, []byte("xyz#"))
	for len(b) < n {
		b = append(b, fill)
	}
	return b
}

// fileContent: k complete lines and possibly an unterminated rest.
func (g *gen) fileContent(tag string, maxLines int) []byte {
	var b []byte
	k := g.r.Intn(maxLines + 1)
	for i := 0; i < k; i++ {
		if g.r.Chance(1, 10) {
			b = append(b, '\n') // empty line
			continue
		}
		b = append(b, g.line(tag)...)
		b = append(b, '\n')
	}
	if g.r.Chance(1, 4) {
		b = append(b, g.line(tag+"rest")...)
	}
	return b
}

func (g *gen) rotNumbers(sum *hutil.Summary) []int {
	r := g.r
	var nums []int
	mode := r.Intn(10)
	switch {
	case mode == 0: // none
	case mode <= 3: // contiguous 1..k, k < 10
		k := 1 + r.Intn(9)
		for i := 1; i <= k; i++ {
			nums = append(nums, i)
		}
	case mode <= 6: // contiguous 1..k, 10 <= k <= 25
		k := 10 + r.Intn(16)
		for i := 1; i <= k; i++ {
			nums = append(nums, i)
		}
	default: // sparse, up to 999, possibly 0
		k := 1 + r.Intn(25)
		seen := map[int]bool{}
		for len(nums) < k {
			var n int
			switch r.Intn(4) {
			case 0:
				n = r.Intn(10)
			case 1:
				n = 10 + r.Intn(90)
			case 2:
				n = 100 + r.Intn(900)
			default:
				n = hutil.Pick(r, []int{9, 10, 11, 99, 100, 101, 998, 999, 19, 20, 2})
			}
			if !seen[n] {
				seen[n] = true
				nums = append(nums, n)
			}
		}
	}
	return nums
}

func shuffle[T any](r *hutil.Rand, xs []T) {
	for i := len(xs) - 1; i > 0; i-- {
		j := r.Intn(i + 1)
		xs[i], xs[j] = xs[j], xs[i]
	}
}

var strayNames = []string{"syslog", "audit.lo", "xaudit.log", "Audit.log", "audit", "audit.lo_", ".audit.log.swp"}

// fixedCases come first: the smallest instances of the situations the property names, so
// that a finding is first reported on an input that can be read at a glance.
var fixedCases = []caseDesc{
	{ // ten rotated files: audit.log.10 is older than audit.log.9
		Dir: []entry{{Name: "audit.log", Data: mkBlob([]byte("live\n"))}, {Name: "audit.log.9", Data: mkBlob([]byte("nine\n"))},
			{Name: "audit.log.10", Data: mkBlob([]byte("ten\n"))}},
		Chunk: 4096,
	},
	{ // truncation is the first change after start-up
		Dir:   []entry{{Name: "audit.log", Data: mkBlob([]byte("old\n"))}},
		Ops:   []opDesc{{Op: "truncate"}, {Op: "append", Data: mkBlob([]byte("new\n"))}},
		Chunk: 4096,
	},
	{ // a line written in three pieces, rotation with an unterminated rest, truncation
		Dir: []entry{{Name: "audit.log.1", Data: mkBlob([]byte("r1\n"))}, {Name: "audit.log", Data: mkBlob([]byte("a\nb"))}},
		Ops: []opDesc{{Op: "append", Data: mkBlob([]byte("c"))}, {Op: "append", Data: mkBlob([]byte("d"))}, {Op: "append", Data: mkBlob([]byte("\ne\n\nf"))},
			{Op: "rotate"}, {Op: "append", Data: mkBlob([]byte("g\nh"))}, {Op: "truncate"}, {Op: "append", Data: mkBlob([]byte("i\n"))}},
		Chunk: 1,
	},
	{ // a line is appended (Write event) while the start-up read of audit.log is handing out its lines
		Dir:     []entry{{Name: "audit.log", Data: mkBlob([]byte("a\nb\nc\n"))}},
		Startup: []startOp{{AtFile: 0, After: 1, Op: "append", Data: mkBlob([]byte("d\n"))}},
		Ops:     []opDesc{{Op: "append", Data: mkBlob([]byte("e\n"))}},
		Chunk:   4096,
	},
	{ // the same while an older file is being read, right when the read of audit.log starts, and split over two appends
		Dir: []entry{{Name: "audit.log.1", Data: mkBlob([]byte("r1\nr2\n"))}, {Name: "audit.log", Data: mkBlob([]byte("a\nb"))}},
		Startup: []startOp{{AtFile: 0, After: 1, Op: "append", Data: mkBlob([]byte("c\nd"))}, {AtFile: 1, After: 0, Op: "append", Data: mkBlob([]byte("e\n"))},
			{AtFile: 1, After: 2, Op: "chmod"}, {AtFile: 1, After: 9, Op: "append", Data: mkBlob([]byte("f\ng"))}},
		Ops:   []opDesc{{Op: "append", Data: mkBlob([]byte("h\n"))}, {Op: "rotate"}, {Op: "append", Data: mkBlob([]byte("i\n"))}},
		Chunk: 7,
	},
}

func genCase(r *hutil.Rand, idx int, sum *hutil.Summary) caseDesc {
	if idx < len(fixedCases) {
		sum.Dist("fixed_case")
		return fixedCases[idx]
	}
	g := &gen{r: r, sum: sum}
	var c caseDesc
	c.Chunk = hutil.Pick(r, []int{1 << 30, 1 << 30, 4096, 1000, 7, 1})

	// directory at start
	nums := g.rotNumbers(sum)
	used := map[int]bool{}
	for _, n := range nums {
		used[n] = true
		c.Dir = append(c.Dir, entry{Name: fmt.Sprintf("audit.log.%d", n), Data: mkBlob(g.fileContent(fmt.Sprintf("r%d-", n), 3))})
	}
	livePresent := !r.Chance(1, 12)
	if livePresent {
		live := g.fileContent("live", 4)
		c.Dir = append(c.Dir, entry{Name: "audit.log", Data: mkBlob(live)})
		g.pending = len(live) > 0 && live[len(live)-1] != '\n'
	}
	for i, k := 0, r.Intn(3); i < k; i++ {
		if r.Bool() {
			c.Dir = append(c.Dir, entry{Name: strayNames[(idx+i)%len(strayNames)]})
		} else {
			n := 1000 + r.Intn(50) + i*50 // a directory that looks like a rotated log
			c.Dir = append(c.Dir, entry{Name: fmt.Sprintf("audit.log.%d", n), Dir: true})
		}
	}
	shuffle(r, c.Dir)

	// activity during start-up (two cases in five): appends to audit.log with their Write events, Write events
	// without new bytes, Chmod events, events for other names - while an older file is read, between files, right
	// when the read of audit.log starts, after some of its lines, after all of them
	nFiles := len(nums) + btoi(livePresent)
	if nFiles > 0 && r.Chance(2, 5) {
		liveLines := 0
		if livePresent {
			ls, _ := completeLines(c.Dir[indexOfName(c.Dir, "audit.log")].Data.bytes())
			liveLines = len(ls)
		}
		for i, k := 0, 1+r.Intn(4); i < k; i++ {
			var so startOp
			if r.Chance(3, 5) {
				so.AtFile = nFiles - 1 // the last file read: audit.log when it exists
				so.After = r.Intn(liveLines + 2)
			} else {
				so.AtFile = r.Intn(nFiles+1) - 1 // -1: before the first file is opened
				so.After = r.Intn(4)
			}
			w := r.Intn(10)
			switch {
			case !livePresent || w >= 8:
				if r.Bool() {
					so.Op = "chmod"
				} else {
					so.Op = "other-name"
					so.Name = hutil.Pick(r, []string{"audit.log.1", "audit.log.2", "syslog", "audit.lo", "audit.log.swp"})
				}
			case w < 4: // whole lines
				so.Op = "append"
				var b []byte
				for j, m := 0, 1+r.Intn(3); j < m; j++ {
					b = append(b, g.line("S")...)
					b = append(b, '\n')
				}
				so.Data = mkBlob(b)
			case w < 6: // ends mid-line
				so.Op = "append"
				b := g.line("SP")
				if r.Bool() {
					b = append(append(g.line("S"), '\n'), b...)
				}
				so.Data = mkBlob(b)
			case w < 7: // newline only
				so.Op = "append"
				so.Data = mkBlob([]byte("\n"))
			default: // Write event, nothing new
				so.Op = "append"
			}
			c.Startup = append(c.Startup, so)
		}
		// in position order (stable: the generated order decides among equals)
		for i := 1; i < len(c.Startup); i++ {
			for j := i; j > 0 && (c.Startup[j].AtFile < c.Startup[j-1].AtFile ||
				(c.Startup[j].AtFile == c.Startup[j-1].AtFile && c.Startup[j].After < c.Startup[j-1].After)); j-- {
				c.Startup[j], c.Startup[j-1] = c.Startup[j-1], c.Startup[j]
			}
		}
		sum.Dist("startup_activity")
		for _, so := range c.Startup {
			sum.Dist("startup_op_" + so.Op)
			if so.AtFile == nFiles-1 {
				sum.Dist("startup_op_during_last_initial_file")
			}
		}
	}

	// operations
	nOps := r.Intn(13)
	if idx%11 == 0 {
		nOps = 0
	}
	for len(c.Ops) < nOps {
		w := r.Intn(100)
		switch {
		case w < 30: // whole lines
			var b []byte
			for i, k := 0, 1+r.Intn(3); i < k; i++ {
				b = append(b, g.line("L")...)
				b = append(b, '\n')
			}
			g.pending = false
			g.appendSplit(&c, b, "append_lines")
		case w < 48: // partial: no newline at all
			b := g.line("P")
			g.pending = true
			c.Ops = append(c.Ops, opDesc{Op: "append", Data: mkBlob(b)})
			sum.Dist("op_append_partial")
		case w < 56: // only the newline (completes a pending rest, or an empty line)
			g.pending = false
			c.Ops = append(c.Ops, opDesc{Op: "append", Data: mkBlob([]byte("\n"))})
			sum.Dist("op_append_newline_only")
		case w < 66: // several lines, some empty, ending mid-line
			var b []byte
			for i, k := 0, 2+r.Intn(4); i < k; i++ {
				if r.Chance(1, 3) {
					b = append(b, '\n')
				} else {
					b = append(b, g.line("M")...)
					b = append(b, '\n')
				}
			}
			g.pending = false
			if r.Bool() {
				b = append(b, g.line("Mrest")...)
				g.pending = true
			}
			g.appendSplit(&c, b, "append_multi")
		case w < 69: // nothing appended, Write event all the same
			c.Ops = append(c.Ops, opDesc{Op: "append"})
			sum.Dist("op_append_empty")
		case w < 76: // long line
			n := hutil.Pick(r, []int{4095, 4096, 4097, 4200, 8191, 8192, 8193, 9000, 12289, 16500})
			b := append(g.longLine(n), '\n')
			if r.Chance(1, 3) {
				b = append(b, g.line("afterlong")...)
				b = append(b, '\n')
			}
			g.pending = false
			switch {
			case n > 8192:
				sum.Dist("line_longer_than_8192")
			case n > 4096:
				sum.Dist("line_longer_than_4096")
			default:
				sum.Dist("line_about_4096")
			}
			g.appendSplit(&c, b, "append_long")
		case w < 85:
			g.pending = false
			c.Ops = append(c.Ops, opDesc{Op: "rotate"})
			sum.Dist("op_rotate")
		case w < 88:
			g.pending = false
			c.Ops = append(c.Ops, opDesc{Op: "recreate"})
			sum.Dist("op_recreate")
		case w < 96:
			g.pending = false
			c.Ops = append(c.Ops, opDesc{Op: "truncate"})
			sum.Dist("op_truncate")
		default:
			c.Ops = append(c.Ops, opDesc{Op: "chmod"})
			sum.Dist("op_chmod")
		}
	}
	return c
}

func indexOfName(dir []entry, name string) int {
	for i, e := range dir {
		if e.Name == name && !e.Dir {
			return i
		}
	}
	return -1
}

// appendSplit appends b in one piece or cut at random places into two or three appends.
func (g *gen) appendSplit(c *caseDesc, b []byte, kind string) {
	pieces := 1
	if g.r.Chance(2, 5) && len(b) >= 2 {
		pieces = 2 + g.r.Intn(2)
	}
	cuts := []int{0}
	for i := 1; i < pieces; i++ {
		cuts = append(cuts, 1+g.r.Intn(len(b)-1))
	}
	cuts = append(cuts, len(b))
	// sort the few cut points
	for i := range cuts {
		for j := i + 1; j < len(cuts); j++ {
			if cuts[j] < cuts[i] {
				cuts[i], cuts[j] = cuts[j], cuts[i]
			}
		}
	}
	n := 0
	for i := 0; i+1 < len(cuts); i++ {
		if cuts[i] == cuts[i+1] {
			continue
		}
		c.Ops = append(c.Ops, opDesc{Op: "append", Data: mkBlob(b[cuts[i]:cuts[i+1]])})
		n++
	}
	g.sum.Dist("op_" + kind)
	if n > 1 {
		g.sum.Dist(fmt.Sprintf("append_cut_into_%d", n))
	}
}
