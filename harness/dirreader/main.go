//go:build verif

// Harness for the directory reader property (C20). Each generated case is a directory
// listing with file contents and a sequence of changes of audit.log. The case is run on the
// REAL code: sortLogNamesOldToNew, the LogDirReader loop, rotatingFile.read, readLines — over
// an in-memory file system and a hand-fed event channel. Every file-system event is processed
// before the next change: after each event a barrier event for another file name is sent on
// the same unbuffered channel; the loop takes it only after it has finished the previous one.
// Lines, Open announcements and the event send are all served by ONE goroutine (pump), so the
// position of every Open and of every barrier in the stream of delivered lines is exact; no
// sleeps, timeouts only as a hang detector.
package main

import (
	"context"
	"encoding/json"
	"errors"
	"flag"
	"fmt"
	"os"
	"path/filepath"
	"strings"
	"time"

	"github.com/fsnotify/fsnotify"

	"github.com/metal-toolbox/audito-maldito/internal/verifharness/hutil"
	"github.com/metal-toolbox/audito-maldito/processors/auditd/dirreader"
)

const dirPath = "/var/log/audit"
const hangAfter = 20 * time.Second

var mainLog = filepath.Join(dirPath, "audit.log")

type observation struct {
	Sorted    []string   `json:"sorted_names"`
	InitOpens []string   `json:"initial_read_order"`
	Init      [][]string `json:"-"`
	Steps     [][]string `json:"-"`
	Flush     []string   `json:"-"` // lines delivered with the first Write event after start-up (cases with start-up activity)
	FlushShow [][]string `json:"lines_with_first_event_after_startup,omitempty"`
	InitShow  [][]string `json:"initial_lines"`
	StepShow  [][]string `json:"tail_lines_per_operation"`
	Err       string     `json:"error,omitempty"`
}

type driver struct {
	rd     *dirreader.LogDirReader
	fs     *memFS
	events chan fsnotify.Event
	done   chan error
	exited bool
	phase  int // 0 start-up, 1 between operations, 2 inside an operation, 3 first event after a start-up with activity
	obs    *observation
	stray  int
}

func (h *driver) onLine(l string) {
	switch h.phase {
	case 0:
		if n := len(h.obs.Init); n > 0 {
			h.obs.Init[n-1] = append(h.obs.Init[n-1], l)
		} else {
			h.stray++
		}
	case 2:
		n := len(h.obs.Steps)
		h.obs.Steps[n-1] = append(h.obs.Steps[n-1], l)
	case 3:
		h.obs.Flush = append(h.obs.Flush, l)
	default:
		h.stray++
	}
}

func (h *driver) onOpen(p string) {
	if h.phase == 0 {
		h.obs.InitOpens = append(h.obs.InitOpens, filepath.Base(p))
		h.obs.Init = append(h.obs.Init, nil)
	}
}

// pump serves the reader until the event has been taken (ev != nil) or until is closed.
func (h *driver) pump(ev *fsnotify.Event, until <-chan struct{}) error {
	_, err := h.pumpOpt(ev, until, true, false, hangAfter)
	return err
}

// pumpOpt: lines are received only when drain is set (otherwise whoever delivers a line stays blocked in its send:
// the consumer of Lines() is "not draining"); with one set it returns after one line / Open has been served.
// timedOut: nothing ended the wait within limit (an error only when the limit is the hang detector's).
func (h *driver) pumpOpt(ev *fsnotify.Event, until <-chan struct{}, drain, one bool, limit time.Duration) (timedOut bool, err error) {
	if h.exited {
		return false, errors.New("exited")
	}
	var sendCh chan<- fsnotify.Event
	var e fsnotify.Event
	if ev != nil {
		sendCh = h.events
		e = *ev
	}
	var lines <-chan string
	if drain {
		lines = h.rd.Lines()
	}
	timer := time.NewTimer(limit)
	defer timer.Stop()
	for {
		select {
		case sendCh <- e:
			return false, nil
		case <-until:
			return false, nil
		case l := <-lines:
			h.onLine(l)
			if one {
				return false, nil
			}
		case p := <-h.fs.opens:
			h.onOpen(p)
			if one {
				return false, nil
			}
		case err := <-h.done:
			h.exited = true
			return false, fmt.Errorf("exited: the reader loop returned: %v", err)
		case <-timer.C:
			if limit < hangAfter {
				return true, nil
			}
			return true, fmt.Errorf("hang: the reader neither took the next event nor delivered a line for %s", hangAfter)
		}
	}
}

// event delivers one event for audit.log and waits until the loop has processed it.
func (h *driver) event(op fsnotify.Op, name string) error {
	if err := h.pump(&fsnotify.Event{Name: name, Op: op}, nil); err != nil {
		return err
	}
	return h.pump(&fsnotify.Event{Name: filepath.Join(dirPath, ".verif-barrier"), Op: fsnotify.Chmod}, nil)
}

func (h *driver) setFile(name string, ino *memInode) {
	h.fs.mu.Lock()
	defer h.fs.mu.Unlock()
	if ino == nil {
		delete(h.fs.files, name)
	} else {
		h.fs.files[name] = ino
	}
}

func (h *driver) apply(o opDesc) error {
	switch o.Op {
	case "append":
		h.fs.mu.Lock()
		ino := h.fs.files[mainLog]
		ino.data = append(ino.data, o.Data.bytes()...)
		h.fs.mu.Unlock()
		return h.event(fsnotify.Write, mainLog)
	case "truncate":
		h.fs.mu.Lock()
		ino := h.fs.files[mainLog]
		ino.data = ino.data[:0]
		h.fs.mu.Unlock()
		return h.event(fsnotify.Write, mainLog)
	case "rotate":
		// rename audit.log -> audit.log.1, then create an empty audit.log (events as logged in
		// the comment of rotatingFile.read)
		h.fs.mu.Lock()
		old := h.fs.files[mainLog]
		h.fs.mu.Unlock()
		h.setFile(mainLog, nil)
		h.setFile(mainLog+".1", old)
		if err := h.event(fsnotify.Rename, mainLog); err != nil {
			return err
		}
		if err := h.event(fsnotify.Create, mainLog+".1"); err != nil {
			return err
		}
		h.setFile(mainLog, &memInode{})
		if err := h.event(fsnotify.Create, mainLog); err != nil {
			return err
		}
		return h.event(fsnotify.Chmod, mainLog)
	case "recreate":
		h.setFile(mainLog, nil)
		if err := h.event(fsnotify.Remove, mainLog); err != nil {
			return err
		}
		h.setFile(mainLog, &memInode{})
		return h.event(fsnotify.Create, mainLog)
	case "chmod":
		return h.event(fsnotify.Chmod, mainLog)
	}
	return fmt.Errorf("harness: unknown operation %q", o.Op)
}

// noDrainFor: how long an event injected during start-up is offered while nobody receives from Lines().  The
// unchanged reader takes it at once (its loop is in its select while a goroutine of its own delivers the lines);
// a reader that cannot take events while a line is pending is not wrong for that: after this time the lines are
// received again.
const noDrainFor = 300 * time.Millisecond

// startup serves the reader until InitFilesDone is closed and injects the case's start-up activity at its
// positions: once the Open of initial file number AtFile (in reading order) has been announced and After of its
// lines have been received — the goroutine delivering that file is then blocked in the send of its next line (or
// about to open / finish).  An injection = the change (an append to audit.log, or none) + its event, offered
// WITHOUT receiving lines, + the barrier event (lines received again), so that each event is processed before the
// next change.  Activity whose position is never reached is injected at the end of start-up.  With activity, one
// more Write event for audit.log follows start-up (phase 3): what was appended meanwhile and not read by the
// initial read is due then at the latest.
func (h *driver) startup(c caseDesc) error {
	next := 0
	due := func(s startOp) bool {
		if s.AtFile < 0 {
			return true
		}
		file := len(h.obs.InitOpens) - 1
		if file < 0 {
			return false
		}
		return file > s.AtFile || (file == s.AtFile && len(h.obs.Init[file]) >= s.After)
	}
	over := false
	for !over {
		for next < len(c.Startup) && due(c.Startup[next]) {
			if err := h.inject(c.Startup[next]); err != nil {
				return err
			}
			next++
		}
		select {
		case <-h.rd.InitFilesDone():
			over = true
		default:
			if _, err := h.pumpOpt(nil, h.rd.InitFilesDone(), true, true, hangAfter); err != nil {
				return err
			}
		}
	}
	for ; next < len(c.Startup); next++ {
		if err := h.inject(c.Startup[next]); err != nil {
			return err
		}
	}
	if len(c.Startup) > 0 {
		h.fs.mu.Lock()
		_, live := h.fs.files[mainLog]
		h.fs.mu.Unlock()
		if live {
			h.phase = 3
			if err := h.event(fsnotify.Write, mainLog); err != nil {
				return err
			}
		}
	}
	return nil
}

func (h *driver) inject(s startOp) error {
	ev := fsnotify.Event{Name: mainLog, Op: fsnotify.Write}
	switch s.Op {
	case "append":
		h.fs.mu.Lock()
		ino, ok := h.fs.files[mainLog]
		if ok {
			ino.data = append(ino.data, s.Data.bytes()...)
		}
		h.fs.mu.Unlock()
		if !ok {
			return errors.New("harness: start-up append without audit.log")
		}
	case "chmod":
		ev.Op = fsnotify.Chmod
	case "other-name":
		ev = fsnotify.Event{Name: filepath.Join(dirPath, s.Name), Op: fsnotify.Write}
	default:
		return fmt.Errorf("harness: unknown start-up operation %q", s.Op)
	}
	timedOut, err := h.pumpOpt(&ev, nil, false, false, noDrainFor)
	if err != nil {
		return err
	}
	if timedOut {
		if err := h.pump(&ev, nil); err != nil {
			return err
		}
	}
	return h.pump(&fsnotify.Event{Name: filepath.Join(dirPath, ".verif-barrier"), Op: fsnotify.Chmod}, nil)
}

func showLines(g [][]string) [][]string {
	out := make([][]string, len(g))
	for i, ls := range g {
		out[i] = []string{}
		for _, l := range ls {
			if len(l) > 48 {
				l = fmt.Sprintf("%s...(%d bytes)", l[:32], len(l))
			}
			out[i] = append(out[i], l)
		}
	}
	return out
}

// runOne runs the case on the real reader.
func runOne(c caseDesc) observation {
	ctx, cancel := context.WithCancel(context.Background())
	defer cancel()
	chunk := c.Chunk
	if chunk <= 0 {
		chunk = 1 << 30
	}
	mfs := &memFS{files: map[string]*memInode{}, opens: make(chan string), ctx: ctx, chunk: chunk}
	var names []string
	var isDir []bool
	for _, e := range c.Dir {
		names = append(names, e.Name)
		isDir = append(isDir, e.Dir)
		if !e.Dir {
			mfs.files[filepath.Join(dirPath, e.Name)] = &memInode{data: e.Data.bytes()}
		}
	}
	var obs observation
	events := make(chan fsnotify.Event)
	rd, initNames := dirreader.VerifStart(ctx, dirPath, names, isDir, mfs, events)
	obs.Sorted = initNames
	h := &driver{rd: rd, fs: mfs, events: events, done: make(chan error, 1), obs: &obs}
	go func() { h.done <- rd.Wait() }()

	err := h.startup(c)
	h.phase = 1
	if err == nil {
		if _, ok := mfs.files[mainLog]; !ok {
			// no live file at start: it appears now
			h.setFile(mainLog, &memInode{})
			err = h.event(fsnotify.Create, mainLog)
		}
	}
	for _, o := range c.Ops {
		if err != nil {
			break
		}
		obs.Steps = append(obs.Steps, nil)
		h.phase = 2
		err = h.apply(o)
		h.phase = 1
	}
	if err != nil {
		obs.Err = err.Error()
	} else if h.stray > 0 {
		obs.Err = fmt.Sprintf("stray: %d lines were delivered outside start-up and outside any operation", h.stray)
	}
	// shut down
	cancel()
	if !h.exited {
		timer := time.NewTimer(hangAfter)
		defer timer.Stop()
	drain:
		for {
			select {
			case <-h.done:
				break drain
			case <-rd.Lines():
			case <-mfs.opens:
			case <-timer.C:
				if obs.Err == "" {
					obs.Err = "hang: the reader did not stop after cancellation"
				}
				break drain
			}
		}
	}
	if len(c.Startup) > 0 {
		obs.FlushShow = showLines([][]string{obs.Flush})
	}
	obs.InitShow = showLines(obs.Init)
	obs.StepShow = showLines(obs.Steps)
	return obs
}

// ---------- Coq rendering ----------

func coqName(s string, dir bool) string {
	if dir {
		return "Other"
	}
	n, live, ok := parseLogName(s)
	switch {
	case !ok:
		return "Other"
	case live:
		return "Live"
	}
	return fmt.Sprintf("Rot %d", n)
}

func coqGroup(ls []string) string {
	var b []byte
	for _, l := range ls {
		b = append(b, l...)
		b = append(b, '\n')
	}
	return fmt.Sprintf("(%d, %s)", len(ls), coqSegs(b))
}

func coqCase(c caseDesc, o observation) (string, string) {
	var dir, ops, sorted, init, steps []string
	// activity during start-up (the model has none): what was appended then counts as content of audit.log at start,
	// the lines delivered with the first Write event after start-up count as read at start, and that event is an
	// append of nothing that delivers nothing
	flushed := len(c.Startup) > 0 && len(o.Init) > 0 && indexOfName(c.Dir, "audit.log") >= 0
	if flushed {
		ops = append(ops, "A "+coqSegs(nil))
		steps = append(steps, coqGroup(nil))
	}
	for _, e := range effectiveDir(c) {
		data := e.Data.bytes()
		if e.Dir {
			data = nil
		}
		dir = append(dir, fmt.Sprintf("(%s, %s)", coqName(e.Name, e.Dir), coqSegs(data)))
	}
	for _, op := range c.Ops {
		switch op.Op {
		case "append":
			ops = append(ops, "A "+coqSegs(op.Data.bytes()))
		case "rotate":
			ops = append(ops, "Ro")
		case "recreate":
			ops = append(ops, "Rc")
		case "truncate":
			ops = append(ops, "Tr")
		case "chmod":
			ops = append(ops, "Ch")
		}
	}
	for _, s := range o.Sorted {
		if _, _, ok := parseLogName(s); !ok {
			return "", "the sort returned a name that is not an audit log name: " + s
		}
		sorted = append(sorted, coqName(s, false))
	}
	groups := o.Init
	if len(c.Startup) > 0 {
		// an event processed at the very end of start-up opens audit.log once more: one group per file, a file's
		// later reads (and the lines of the first Write event after start-up) added to its group
		var order []string
		byName := map[string][]string{}
		for i, g := range o.Init {
			name := o.InitOpens[i]
			if _, seen := byName[name]; !seen {
				order = append(order, name)
			}
			byName[name] = append(append([]string{}, byName[name]...), g...)
		}
		if flushed {
			byName["audit.log"] = append(append([]string{}, byName["audit.log"]...), o.Flush...)
		}
		groups = nil
		for _, name := range order {
			groups = append(groups, byName[name])
		}
	}
	for _, g := range groups {
		init = append(init, coqGroup(g))
	}
	for _, g := range o.Steps {
		steps = append(steps, coqGroup(g))
	}
	return fmt.Sprintf("Case %s\n  %s\n  %s\n  %s\n  %s", hutil.CoqList(dir), hutil.CoqList(ops), hutil.CoqList(sorted),
		hutil.CoqList(init), hutil.CoqList(steps)), ""
}

// ---------- main ----------

const ruleText = "directory listings with 0-25 rotated files (contiguous 1..k below and above 10, sparse numbers up to 999, listed in random order, " +
	"stray names and directories that look like rotated logs, audit.log present or absent), file contents with complete, empty and unterminated lines; " +
	"0-12 operations on audit.log: appends of whole lines, partial lines, several lines, newline only, nothing, lines around and beyond 4096 and 8192 bytes, " +
	"each possibly cut into 2-3 appends at random places; rotate (rename+create), remove+create, truncate, chmod; in two cases of five activity DURING start-up " +
	"(appends to audit.log with their Write events, Write events without new bytes, Chmod events, events for other names; while an older file is read, between files, " +
	"right when the read of audit.log starts, after some or all of its lines; the event is offered while nobody receives from Lines(); then one Write event after start-up); reads of the in-memory file return " +
	"at most 1, 7, 1000, 4096 or all bytes; every case runs on the real sortLogNamesOldToNew / LogDirReader loop / rotatingFile.read / readLines with each " +
	"event processed before the next change; the oracle is computed from the case alone; non-trivial = at least two audit logs at start or an operation that completes a line; distinct by case content"

func bucket(n int) string {
	switch {
	case n == 0:
		return "0"
	case n < 10:
		return "1-9"
	case n < 20:
		return "10-19"
	}
	return "20-25"
}

func describe(c caseDesc, sum *hutil.Summary) (nontrivial bool) {
	nRot, maxN, live := 0, -1, false
	for _, e := range c.Dir {
		if e.Dir {
			sum.Dist("dir_entry_directory")
			continue
		}
		n, isLive, ok := parseLogName(e.Name)
		switch {
		case !ok:
			sum.Dist("dir_entry_stray_name")
		case isLive:
			live = true
		default:
			nRot++
			if n > maxN {
				maxN = n
			}
		}
	}
	sum.Dist("rotated_files_" + bucket(nRot))
	if maxN >= 10 {
		sum.Dist("has_suffix_10_or_more")
	}
	if maxN >= 100 {
		sum.Dist("has_suffix_100_or_more")
	}
	if !live {
		sum.Dist("no_audit_log_at_start")
	}
	sum.Dist(fmt.Sprintf("read_chunk_%d", c.Chunk))
	sum.Dist(fmt.Sprintf("ops_%s", bucket(len(c.Ops))))
	completes := false
	for _, ls := range expectedSteps(c) {
		if len(ls) > 0 {
			completes = true
		}
	}
	if len(c.Ops) > 0 && c.Ops[0].Op == "truncate" {
		sum.Dist("first_op_truncate")
	}
	return nRot+btoi(live) >= 2 || completes
}

func btoi(b bool) int {
	if b {
		return 1
	}
	return 0
}

func main() {
	out := flag.String("out", "", "output directory")
	n := flag.Int("n", 200, "number of cases")
	replay := flag.String("replay", "", "replay file")
	_ = flag.String("prop", "C20", "property (only C20)")
	flag.Parse()
	if *replay != "" {
		os.Exit(doReplay(*replay))
	}
	if *out == "" {
		fmt.Println("usage: h_dirreader -out DIR [-n N] [-replay FILE]")
		os.Exit(2)
	}
	seed := hutil.SeedFromEnv()
	r := hutil.NewRand(seed ^ 0xC20C20)
	sum := hutil.NewSummary("C20", seed, ruleText)
	cases := &hutil.CaseFile{Dir: *out, Stem: "cases_dirreader", PerFile: 40,
		Header: "From Coq Require Import Ascii String List Bool Arith NArith.\nImport ListNotations.\nFrom AM Require Import Lib.Bytes Model.DirReader Model.DirReaderCheck.\n",
		Footer: func(int) string { return "Definition M := Eval vm_compute in mismatches cases.\nPrint M.\n" }}
	perKey := map[string]int{}
	hangs := 0
	for i := 0; i < *n; i++ {
		if hangs >= 2 {
			// each hang costs the detector's time twice (event, then shutdown): two cases say enough
			sum.Notes = append(sum.Notes, fmt.Sprintf("exploration stopped after case %d: the reader hung in %d cases", i, hangs))
			break
		}
		c := genCase(r, i, sum)
		o := runOne(c)
		if strings.HasPrefix(o.Err, "hang") {
			hangs++
		}
		nontrivial := describe(c, sum)
		raw, _ := json.Marshal(c)
		sum.Count(string(raw), nontrivial)
		findings := judge(c, o)
		keys := []string{}
		for _, f := range findings {
			keys = append(keys, f.key)
		}
		rendered, bad := coqCase(c, o)
		switch {
		case o.Err != "" && !strings.HasPrefix(o.Err, "stray"):
			// nothing comparable was observed to the end; judged by the oracle only
			sum.Dist("not_sent_to_model_reader_stopped")
		case bad != "":
			sum.FailKey("harness", "uninterpretable", "cannot interpret what the implementation produced: "+bad, map[string]any{"case": c, "observed": o})
		default:
			// the description carries the oracle's verdict, so that a mismatching index can be
			// read together with it
			cases.AddDesc(rendered, map[string]any{"case": c, "oracle": keys})
		}
		for _, f := range findings {
			// the summary keeps ten failures per kind: at most three per key, so that one
			// frequent finding does not hide the others; the totals are in the distribution
			if perKey[f.key] < 3 {
				sum.FailKey("oracle", f.key, f.what, map[string]any{"case": c, "observed": o})
			}
			perKey[f.key]++
			sum.Dist("oracle_" + f.key)
		}
		if i < 3 {
			sum.Sample(map[string]any{"case": c, "observed": o})
		}
	}
	cases.Flush()
	sum.CaseFiles = cases.Files
	sum.Write(*out)
}

func doReplay(path string) int {
	raw, err := os.ReadFile(path)
	if err != nil {
		fmt.Println("cannot read replay:", err)
		return 2
	}
	var rp struct {
		Replay struct {
			Case *caseDesc `json:"case"`
		} `json:"replay"`
	}
	if err := json.Unmarshal(raw, &rp); err != nil || rp.Replay.Case == nil {
		fmt.Println("replay file carries no case (no failing input was found)")
		return 2
	}
	c := *rp.Replay.Case
	// activity during start-up meets goroutines of the reader: the interleaving is forced as far as the seams allow,
	// a few repetitions cover the rest
	reps := 1
	if len(c.Startup) > 0 {
		reps = 5
	}
	for k := 0; k < reps; k++ {
		o := runOne(c)
		fs := judge(c, o)
		for _, f := range fs {
			fmt.Printf("REPRODUCED %s: %s\n", f.key, f.what)
		}
		if len(fs) > 0 {
			return 1
		}
	}
	fmt.Println("not reproduced")
	return 0
}
