//go:build verif

package main

import (
	"fmt"
	"strings"

	"github.com/metal-toolbox/audito-maldito/internal/verifharness/hutil"
)

// ---------- the pieces of an audit log line ----------

// parts: "type=" T " " "msg=" lead "audit" "(" sec "." msec ":" seq ")" rest
type parts struct {
	Pre, Typ, Gap, Msg, Lead, Word, Open, Sec, Dot, Msec, Colon, Seq, Close, Rest string
}

func (p parts) String() string {
	return p.Pre + p.Typ + p.Gap + p.Msg + p.Lead + p.Word + p.Open + p.Sec + p.Dot + p.Msec + p.Colon + p.Seq + p.Close + p.Rest
}

// record bodies of the types the daemon's generators use (harness/daemon, harness/auditproc, harness/render,
// harness/sshd/auditframe.go); %d = pid, ses; some with the ENRICHED trailer (0x1d separator)
type tmpl struct {
	Typ  string
	Body string
}

var templates = []tmpl{
	{"SYSCALL", `arch=c000003e syscall=59 success=yes exit=0 a0=56430ae99960 a1=56430aea8040 a2=56430aef7f30 a3=8 items=2 ppid=1 pid=%d auid=1000 uid=1000 gid=1000 euid=1000 suid=1000 fsuid=1000 egid=1000 sgid=1000 fsgid=1000 tty=pts0 ses=%d comm="ls" exe="/usr/bin/ls" key=(null)`},
	{"SYSCALL", `arch=c000003e syscall=59 success=yes exit=0 a0=1 a1=2 a2=3 a3=8 items=2 ppid=1 pid=%d auid=1000 uid=0 gid=0 tty=pts0 ses=%d comm="ls" exe="/usr/bin/ls" key=(null)` + "\x1d" + `ARCH=x86_64 SYSCALL=execve AUID="someuser" UID="root" GID="root"`},
	{"EXECVE", `argc=2 a0="ls" a1="-la"`},
	{"CWD", `cwd="/home/u"`},
	{"PATH", `item=0 name="/usr/bin/ls" inode=1442550 dev=fd:00 mode=0100755 ouid=0 ogid=0 rdev=00:00 nametype=NORMAL cap_fp=0 cap_fi=0 cap_fe=0 cap_fver=0 cap_frootid=0`},
	{"PATH", `item=1 name="/lib64/ld-linux-x86-64.so.2" inode=1448144 dev=fd:00 mode=0100755 ouid=0 ogid=0 rdev=00:00 nametype=NORMAL cap_fp=0 cap_fi=0 cap_fe=0 cap_fver=0 cap_frootid=0` + "\x1d" + `OUID="root" OGID="root"`},
	{"PROCTITLE", `proctitle=6C73002D6C61`},
	{"EOE", ``},
	{"LOGIN", `pid=%d uid=0 old-auid=4294967295 auid=1000 tty=(none) old-ses=4294967295 ses=%d res=1`},
	{"LOGIN", `pid=%d uid=0 old-auid=4294967295 auid=1000 tty=(none) old-ses=4294967295 ses=%d res=1` + "\x1d" + `UID="root" OLD-AUID="unset" AUID="someuser"`},
	{"USER_START", `pid=%d uid=0 auid=1000 ses=%d msg='op=PAM:session_open grantors=pam_unix acct="root" exe="/usr/sbin/sshd" hostname=10.0.0.1 addr=10.0.0.1 terminal=ssh res=success'`},
	{"USER_END", `pid=%d uid=0 auid=1000 ses=%d msg='op=PAM:session_close grantors=pam_unix acct="u" exe="/usr/sbin/sshd" hostname=10.0.0.1 addr=10.0.0.1 terminal=ssh res=success'` + "\x1d" + `UID="root" AUID="someuser"`},
	{"USER_LOGIN", `pid=%d uid=0 auid=1000 ses=%d msg='op=login id=1000 exe="/usr/sbin/sshd" hostname=10.0.0.1 addr=10.0.0.1 terminal=/dev/pts/3 res=success'`},
	{"USER_CMD", `pid=%d uid=1000 auid=1000 ses=%d msg='cwd="/home/someuser" cmd=6C73202D6C61 exe="/usr/bin/sudo" terminal=pts/3 res=success'`},
	{"USER_CMD", `pid=%d uid=1000 auid=1000 ses=%d msg='cwd="/home/someuser" cmd=73797374656D63746C20737461747573 exe="/usr/bin/sudo" terminal=pts/3 res=success'` + "\x1d" + `UID="someuser" AUID="someuser"`},
	{"CRED_DISP", `pid=%d uid=0 auid=1000 ses=%d msg='op=PAM:setcred grantors=pam_unix acct="u" exe="/usr/sbin/sshd" hostname=1.2.3.4 addr=1.2.3.4 terminal=ssh res=success'`},
	{"CRED_ACQ", `pid=%d uid=0 auid=1000 ses=%d msg='op=PAM:setcred grantors=pam_unix acct="u" exe="/usr/sbin/sshd" hostname=1.2.3.4 addr=1.2.3.4 terminal=ssh res=success'`},
	{"USER_AUTH", `pid=%d uid=0 auid=4294967295 ses=%d msg='op=pubkey_auth grantors=auth-key acct="u" exe="/usr/sbin/sshd" hostname=? addr=1.2.3.4 terminal=? res=success'`},
	{"USER_ACCT", `pid=%d uid=0 auid=4294967295 ses=%d msg='op=PAM:accounting grantors=pam_unix acct="u" exe="/usr/sbin/sshd" hostname=1.2.3.4 addr=1.2.3.4 terminal=ssh res=success'`},
	{"CRYPTO_KEY_USER", `pid=%d uid=0 auid=1000 ses=%d msg='op=destroy kind=server fp=SHA256:aa:bb direction=? spid=4242 suid=0  exe="/usr/sbin/sshd" hostname=? addr=? terminal=? res=success'`},
	{"SERVICE_START", `pid=1 uid=0 auid=4294967295 ses=4294967295 msg='unit=sshd comm="systemd" exe="/usr/lib/systemd/systemd" hostname=? addr=? terminal=? res=success'`},
	{"AVC", `avc:  denied  { read } for  pid=%d comm="cat" name="shadow" dev="dm-0" ino=%d scontext=u:r:t:s0 tcontext=u:object_r:shadow_t:s0 tclass=file permissive=0`},
	{"NOT_A_TYPE", `pid=%d ses=%d`},
}

func fill(r *hutil.Rand, body string) string {
	if strings.Count(body, "%d") == 2 {
		return fmt.Sprintf(body, 1000+r.Intn(60000), 1+r.Intn(5000))
	}
	return body
}

// ---------- numbers ----------

var asciiSpaces = []string{" ", "\t", "\n", "\v", "\f", "\r"}

// number strings around every limit the parser has, and the malformed shapes
var numLimits = []string{
	"0", "1", "9", "10", "65535", "65536", "65534", "4294967295", "4294967296", "4294967294",
	"9223372036854775807", "9223372036854775808", "9223372036854775806", "9223372036854775809",
	"18446744073709551615", "18446744073709551616", "18446744073709551614", "18446744073709551610", "18446744073709551609",
	"1844674407370955161", "1844674407370955162", "18446744073709551619", "18446744073709551620",
	"99999999999999999999", "100000000000000000000", "123456789012345678901234567890",
	"2147483647", "2147483648", "32767", "32768", "255", "256", "999", "1000",
}

var numWeird = []string{
	"", "+", "-", "+-1", "-+1", "--1", "++1", " 1", "1 ", "1_000", "_1", "1_", "0x1f", "0X1F", "1f", "0b1", "0o7", "1e3", "1.5", "a", "z",
	"١٢٣", "１２", "1\x00", "\x001", "1\xff", "\xc2\xa01", "12a", "a12", "99999999999999999999x", "9x99999999999999999999",
	"18446744073709551616x", "-", "+0", "-0", "00", "000", "0000000000000000000000000000000000000001", "١", "1١",
}

func randDigits(r *hutil.Rand, n int) string {
	b := make([]byte, n)
	for i := range b {
		b[i] = byte('0' + r.Intn(10))
	}
	return string(b)
}

// numString: (text, class)
func numString(r *hutil.Rand) (string, string) {
	switch r.Intn(12) {
	case 0, 1:
		return hutil.Pick(r, numLimits), "limit"
	case 2:
		return "-" + hutil.Pick(r, numLimits), "neg-limit"
	case 3:
		return "+" + hutil.Pick(r, numLimits), "plus-limit"
	case 4:
		return strings.Repeat("0", 1+r.Intn(25)) + hutil.Pick(r, numLimits), "leading-zeros-limit"
	case 5, 6:
		return hutil.Pick(r, numWeird), "malformed"
	case 7:
		return randDigits(r, 1+r.Intn(24)), "random-digits"
	case 8:
		s := randDigits(r, 1+r.Intn(12))
		k := r.Intn(len(s) + 1)
		return s[:k] + hutil.Pick(r, []string{"_", " ", "x", "-", "+", ".", ":", "\x00", "\xff", "e", "٣"}) + s[k:], "digit-with-intruder"
	case 9:
		return hutil.Pick(r, []string{"-", "+"}) + randDigits(r, 1+r.Intn(21)), "signed-random"
	default:
		return fmt.Sprint(r.U64() >> uint(r.Intn(64))), "random-u64"
	}
}

// ---------- lines ----------

type lineCase struct {
	Class string   // how the line was built
	Line  string   // the line without the variants' padding
	Vars  [][2]string // (prefix, suffix) variants, the first is ("", "")
	// by-construction expectation ("" = none): "ok" with the fields below, "header", "type"
	Expect  string
	ETyp    string // type name as generated (looked up in the library's table by the oracle)
	ESec    int64
	EMsec   int64
	ESeq    uint32
	ERaw    string
	EOffset int
}

var wsSuffixes = []string{"\n", "\r\n", " ", "\t", " \n", "\n\n", "\v", "\f", "\r", "  \t \n", " \r\n"}
var otherSuffixes = []string{"\xc2\xa0", "\xc2\x85", "\xe2\x80\x83", "\xe3\x80\x80", "\x85", "\xa0", "\xe1\x9a\x80\n", "x", "\x00", "\n\xc2\xa0\n", "\xe2\x80\xa8", "\xff", "\xc2", "é\n", "\xe2\x80"}
var prefixes = []string{" ", "\n", "\t", "  ", "x", "12345", "\xc2\xa0", "\xef\xbb\xbf"}

func stdVars(r *hutil.Rand, rich bool) [][2]string {
	v := [][2]string{{"", ""}, {"", "\n"}}
	v = append(v, [2]string{"", hutil.Pick(r, wsSuffixes)})
	if rich {
		v = append(v, [2]string{"", hutil.Pick(r, wsSuffixes)})
		v = append(v, [2]string{"", hutil.Pick(r, otherSuffixes)})
		if r.Chance(1, 2) {
			v = append(v, [2]string{hutil.Pick(r, prefixes), hutil.Pick(r, []string{"", "\n"})})
		}
	}
	return v
}

func wellFormed(r *hutil.Rand, names []string) (parts, lineCase) {
	t := hutil.Pick(r, templates[:len(templates)-1])
	typ := t.Typ
	if r.Chance(1, 6) {
		typ = hutil.Pick(r, names) // any name of the library's table
	}
	sec := int64(1600000000 + r.Intn(200000000))
	msec := int64(r.Intn(1000))
	seq := uint32(r.U64())
	switch r.Intn(6) {
	case 0:
		seq = uint32(r.Intn(100000))
	case 1:
		seq = hutil.Pick(r, []uint32{0, 1, 4294967295, 4294967294, 16777215, 16777216, 2147483648})
	}
	body := fill(r, t.Body)
	p := parts{Pre: "type=", Typ: typ, Gap: " ", Msg: "msg=", Word: "audit", Open: "(", Sec: fmt.Sprint(sec), Dot: ".",
		Msec: fmt.Sprintf("%03d", msec), Colon: ":", Seq: fmt.Sprint(seq), Close: ")", Rest: ": " + body}
	c := lineCase{Class: "well-formed", Expect: "ok", ETyp: typ, ESec: sec, EMsec: msec, ESeq: seq, EOffset: 1}
	return p, c
}

func caseify(s string, r *hutil.Rand) string {
	b := []byte(s)
	for i := range b {
		if b[i] >= 'A' && b[i] <= 'Z' && r.Bool() {
			b[i] += 'a' - 'A'
		}
	}
	return string(b)
}

// mutations: each returns the class; expectation is cleared unless the mutation keeps / knows it
var mutations = []func(r *hutil.Rand, p *parts, c *lineCase) string{
	func(r *hutil.Rand, p *parts, c *lineCase) string { p.Msg = ""; c.Expect = ""; return "msg=-missing" },
	func(r *hutil.Rand, p *parts, c *lineCase) string {
		// accepted: the second "msg=" is the beginning of the message text (RawData starts with it)
		p.Word = "msg=" + p.Word
		return "msg=-doubled"
	},
	func(r *hutil.Rand, p *parts, c *lineCase) string {
		p.Rest += " msg=audit(1.002:3): x"
		c.Expect = ""
		return "msg=-second-later"
	},
	func(r *hutil.Rand, p *parts, c *lineCase) string {
		// "msg=" inside the type position
		p.Typ = hutil.Pick(r, []string{"msg=", "Xmsg=", "SYSCALL msg=audit(1.2:3) ", "A msg="})
		c.Expect = ""
		return "msg=-in-type-position"
	},
	func(r *hutil.Rand, p *parts, c *lineCase) string {
		p.Pre, p.Typ, p.Gap = "", "", ""
		c.Expect = "header"
		return "msg=-at-index-0"
	},
	func(r *hutil.Rand, p *parts, c *lineCase) string {
		k := r.Intn(7)
		p.Pre, p.Typ, p.Gap = strings.Repeat("x", k), "", ""
		c.Expect = ""
		return fmt.Sprintf("msg=-at-index-%d", k)
	},
	func(r *hutil.Rand, p *parts, c *lineCase) string {
		p.Pre = hutil.Pick(r, []string{"TYPE=", "typ==", "12345", "     ", "\x00\x00\x00\x00\x00", "node=", "tYpE=", "\xff\xfe\xfd\xfc\xfb"})
		return "no-type=-prefix-5-bytes" // still parses: the first five bytes are skipped unchecked
	},
	func(r *hutil.Rand, p *parts, c *lineCase) string {
		p.Pre = hutil.Pick(r, []string{"", "type", "type= ", " type=", "node=x type=", "t="})
		c.Expect = ""
		return "type=-prefix-other-length"
	},
	func(r *hutil.Rand, p *parts, c *lineCase) string {
		p.Gap = hutil.Pick(r, []string{"", "  ", "\t", "\n", "X", " \t"})
		c.Expect = ""
		return "gap-before-msg="
	},
	func(r *hutil.Rand, p *parts, c *lineCase) string {
		p.Lead = hutil.Pick(r, []string{" ", "\t", "\n", "  \t", "\r\n", "\v\f"})
		return "white-space-after-msg=" // trimmed: same message
	},
	func(r *hutil.Rand, p *parts, c *lineCase) string {
		p.Lead = hutil.Pick(r, []string{"\xc2\xa0", " \xc2\xa0", "\xc2\x85", "\xe2\x80\x83 ", "\x85", "\xa0", "\xff", "\xe3\x80\x80"})
		c.Expect = ""
		return "non-ascii-after-msg="
	},
	func(r *hutil.Rand, p *parts, c *lineCase) string {
		p.Word = hutil.Pick(r, []string{"", "AUDIT", "x", "audit audit", "a.b:c)"})
		c.Expect = ""
		return "word-before-paren"
	},
	func(r *hutil.Rand, p *parts, c *lineCase) string {
		p.Word = hutil.Pick(r, []string{"(", "((", "audit(x", "a(1.2:3) "})
		c.Expect = ""
		return "second-paren-before-header"
	},
	func(r *hutil.Rand, p *parts, c *lineCase) string {
		switch r.Intn(4) {
		case 0:
			p.Open = ""
		case 1:
			p.Dot = ""
		case 2:
			p.Colon = ""
		default:
			p.Close = ""
		}
		c.Expect = ""
		return "delimiter-missing"
	},
	func(r *hutil.Rand, p *parts, c *lineCase) string {
		switch r.Intn(5) {
		case 0:
			p.Dot, p.Colon = p.Colon, p.Dot
		case 1:
			p.Open, p.Close = p.Close, p.Open
		case 2:
			p.Colon, p.Close = p.Close, p.Colon
		case 3:
			p.Dot = ","
		default:
			p.Open, p.Dot = p.Dot, p.Open
		}
		c.Expect = ""
		return "delimiters-reordered"
	},
	func(r *hutil.Rand, p *parts, c *lineCase) string {
		switch r.Intn(4) {
		case 0:
			p.Open = "(("
		case 1:
			p.Dot = ".."
		case 2:
			p.Colon = "::"
		default:
			p.Close = "))"
		}
		c.Expect = ""
		return "delimiter-doubled"
	},
	func(r *hutil.Rand, p *parts, c *lineCase) string {
		s, cl := numString(r)
		p.Sec = s
		c.Expect = ""
		return "sec:" + cl
	},
	func(r *hutil.Rand, p *parts, c *lineCase) string {
		s, cl := numString(r)
		p.Msec = s
		c.Expect = ""
		return "msec:" + cl
	},
	func(r *hutil.Rand, p *parts, c *lineCase) string {
		s, cl := numString(r)
		p.Seq = s
		c.Expect = ""
		return "seq:" + cl
	},
	func(r *hutil.Rand, p *parts, c *lineCase) string {
		// accepted variations of the numbers: sign and leading zeros on the int64 fields, leading zeros on the sequence
		switch r.Intn(4) {
		case 0:
			p.Sec = "+" + p.Sec
		case 1:
			p.Sec = "-" + p.Sec
			c.ESec = -c.ESec
		case 2:
			p.Sec = strings.Repeat("0", 1+r.Intn(30)) + p.Sec
		default:
			p.Seq = strings.Repeat("0", 1+r.Intn(30)) + p.Seq
		}
		return "number-sign-or-zeros"
	},
	func(r *hutil.Rand, p *parts, c *lineCase) string {
		// msec field not three digits: 7 -> 7 ms; 1234 -> 1 s 234 ms; negative; huge (int64 product wraps)
		p.Msec = hutil.Pick(r, []string{"7", "70", "1234", "999999", "-1", "-1000", "9223372036854", "9223372036855", "9223372036854775807", "-9223372036854775808", "18446744073710", "+5"})
		c.Expect = ""
		return "msec-not-three-digits"
	},
	func(r *hutil.Rand, p *parts, c *lineCase) string {
		n := hutil.Pick(r, []string{"0", "1", "1329", "65535", "65536", "99999", "-1", "+1", "", " 1", "1 ", "0x10", "00012", "1_0", "18446744073709551616", "12a", "١"})
		form := hutil.Pick(r, []string{"UNKNOWN[%s]", "unknown[%s]", "Unknown[%s]", "[%s]", "X[%s]Y", "UNKNOWN[%s", "UNKNOWN%s]", "UNKNOWN[[%s]", "UNKNOWN[%s]]", "UNKNOWN]%s[", "A[B[%s]]", "SYSCALL[%s]"})
		p.Typ = fmt.Sprintf(form, n)
		c.Expect = ""
		return "type-UNKNOWN[n]-form"
	},
	func(r *hutil.Rand, p *parts, c *lineCase) string {
		p.Typ = caseify(p.Typ, r)
		return "type-mixed-case" // ToUpper: same type
	},
	func(r *hutil.Rand, p *parts, c *lineCase) string {
		p.Typ = strings.ToLower(p.Typ)
		return "type-lower-case"
	},
	func(r *hutil.Rand, p *parts, c *lineCase) string {
		p.Typ = hutil.Pick(r, []string{"", "NOT_A_TYPE", "SYSCALL2", "SYS CALL", " SYSCALL", "SYSCALL\x00", "1300", "SYSCALL=", "type=SYSCALL"})
		c.Expect = "type"
		return "type-unknown"
	},
	func(r *hutil.Rand, p *parts, c *lineCase) string {
		p.Typ = hutil.Pick(r, []string{"\xc5\xbfyscall", "SYSCALL\xff", "\xc3\xa9", "U\xc5\xbfER_CMD", "\x80", "LOGIN\xc2\xa0", "ｓyscall", "\xc4\xb1"})
		c.Expect = ""
		return "type-non-ascii"
	},
	func(r *hutil.Rand, p *parts, c *lineCase) string {
		// very long line: the body is padded with a run
		n := hutil.Pick(r, []int{5000, 16384, 40000, 70000})
		p.Rest += " pad=" + strings.Repeat("A", n) + " end=1"
		return "very-long-line"
	},
	func(r *hutil.Rand, p *parts, c *lineCase) string {
		p.Rest += hutil.Pick(r, []string{"\x00", " \x00\x00 x", " a=\xff\xfe b", " \xc3\x28 z", " k=\xed\xa0\x80 v", "\x00\n\x00q"})
		return "nul-or-invalid-utf8-in-body"
	},
	func(r *hutil.Rand, p *parts, c *lineCase) string {
		p.Rest += hutil.Pick(r, []string{"\xc2\xa0", " \xe2\x80\x83", "\xc3\xa9", "\xff", " \x85", "é "})
		c.Expect = ""
		return "body-ends-non-ascii"
	},
	func(r *hutil.Rand, p *parts, c *lineCase) string {
		p.Rest += hutil.Pick(r, []string{" ", "\t\t", " \n ", "\r"})
		return "body-ends-in-white-space" // trimmed away
	},
	func(r *hutil.Rand, p *parts, c *lineCase) string {
		p.Rest = hutil.Pick(r, []string{"", ":", " ", "x", "xyz", ")", "):", "\x1dA=b", "no-colon-or-space-here"})
		c.Expect = ""
		return "short-rest-after-header"
	},
	func(r *hutil.Rand, p *parts, c *lineCase) string {
		// truncated somewhere
		s := p.String()
		k := r.Intn(len(s) + 1)
		*p = parts{Pre: s[:k]}
		c.Expect = ""
		return "truncated"
	},
	func(r *hutil.Rand, p *parts, c *lineCase) string {
		n := 1 + r.Intn(40)
		b := make([]byte, n)
		for i := range b {
			b[i] = hutil.Pick(r, []byte("type=msg=audit(.:) \n\t09azAZ[]+-_\x00\x80\xc2\xa0\xff"))
		}
		*p = parts{Pre: string(b)}
		c.Expect = ""
		return "random-bytes-from-the-syntax-alphabet"
	},
	func(r *hutil.Rand, p *parts, c *lineCase) string {
		*p = parts{Pre: hutil.Pick(r, []string{"", "\n", " ", "\r\n", "type=", "msg=", "type= msg=", "type=  msg=", "type=X msg=", "type=EOE msg=", "type=EOE msg=()", "type=EOE msg=(.:)", "type=EOE msg=(0.0:0)", "type=EOE msg=(-0.+0:0)", "xxxxxmsg=(1.1:1)", "xxxxx msg=(1.1:1)", "xxxxxEOE msg=(1.1:1)"})}
		c.Expect = ""
		return "tiny-lines"
	},
}

func genLine(r *hutil.Rand, i int, names []string) lineCase {
	p, c := wellFormed(r, names)
	if i%3 != 0 {
		m := mutations[(i/3*2+i%3-1)%len(mutations)]
		if r.Chance(1, 4) {
			m = hutil.Pick(r, mutations)
		}
		c.Class = m(r, &p, &c)
		if r.Chance(1, 12) {
			c.Class += "+" + hutil.Pick(r, mutations)(r, &p, &c)
			c.Expect = ""
		}
	}
	c.Line = p.String()
	if c.Expect == "ok" {
		// RawData: from the word before '(' on, ASCII white space trimmed at the end; offset: ':' follows ')'
		raw := p.Word + p.Open + p.Sec + p.Dot + p.Msec + p.Colon + p.Seq + p.Close + p.Rest
		c.ERaw = strings.TrimRight(raw, " \t\n\v\f\r")
		if p.Rest == "" {
			c.EOffset = -1
		}
	}
	c.Vars = stdVars(r, i%3 != 1 || r.Chance(1, 3))
	if len(c.Line) > 4000 {
		c.Vars = c.Vars[:2]
	}
	return c
}

// ---------- type names ----------

func genTypeName(r *hutil.Rand, i int, names []string) (string, string) {
	switch i % 6 {
	case 0:
		return names[(i/6)%len(names)], "table-name"
	case 1:
		return strings.ToLower(names[(i/6*7+3)%len(names)]), "table-name-lower"
	case 2:
		return caseify(hutil.Pick(r, names), r), "table-name-mixed"
	case 3:
		n, _ := numString(r)
		if r.Chance(1, 2) {
			n = fmt.Sprint(r.Intn(70000))
		}
		return fmt.Sprintf(hutil.Pick(r, []string{"UNKNOWN[%s]", "unknown[%s]", "[%s]", "x[%s]y", "[%s", "%s]", "[[%s]", "[%s]]", "]%s[", "a[b[%s]]", "[%s][1]", "[]%s"}), n), "bracket-form"
	case 4:
		return hutil.Pick(r, []string{"", " ", "SYSCALL ", " SYSCALL", "SYS_CALL", "NOPE", "[", "]", "[]", "][", "[1]", "[1329]", "[65535]", "[65536]", "UNKNOWN", "UNKNOWN[]", "\x00", "syscall\x00"}), "other"
	default:
		return hutil.Pick(r, []string{"\xc5\xbfyscall", "\xc5\xbfYSCALL", "SYSCALL\xff", "\xc3\xa9", "unknown[\xd9\xa1]", "[1]\xff", "\xc4\xb1", "LOG\xc4\xb0N", "K\xe2\x84\xaa"}), "non-ascii"
	}
}

// ---------- TrimSpace inputs ----------

func genTrim(r *hutil.Rand) string {
	pieces := []string{" ", "\t", "\n", "\v", "\f", "\r", "a", "(", "x y", "\x00", "\x1c", "\x1f", "\x7f", "\xc2\xa0", "\xc2\x85", "\x85", "\xa0", "\xe2\x80\x83", "\xe3\x80\x80", "\xff", "\xc3\xa9", "\xe1\x9a\x80", "\xc2"}
	n := r.Intn(7)
	var sb strings.Builder
	for k := 0; k < n; k++ {
		if r.Chance(1, 2) {
			sb.WriteString(hutil.Pick(r, pieces[:6]))
		} else {
			sb.WriteString(hutil.Pick(r, pieces))
		}
	}
	return sb.String()
}

// ---------- time.Unix inputs ----------

var timeVals = []int64{0, 1, -1, 999, 1000, 1001, -999, -1000, -1001, 1690000000, 9223372036854, 9223372036855, -9223372036854, -9223372036855,
	9223372036854775807, -9223372036854775808, 9223372036854775806, -9223372036854775807, 18446744073709, 18446744073710, 4611686018427387904, 1 << 32, 123456789}

// the lines of the Examples in coq/Props/C07.v and coq/Props/C15.v, verbatim: part of every run, so that what the
// examples show of the model is compared with the real parser each time
var propsExamples = []string{
	"type=SYSCALL msg=audit(1690000000.123:4242): arch=c000003e syscall=59 success=yes",
	"type=EOE msg=  audit(1.002:3): ", "type=EOE msg=audit(1.002:3): ", " type=EOE msg=audit(1.002:3): ", "type=EOE  msg=audit(1.002:3): ",
	"\n", "", "type=EOE msg=audit(1.002:3): x\xc2\xa0",
	"type=SYSCALL msg=audit(1690000000.007:4294967295): arch=c000003e syscall=59 success=yes exit=0",
	"12345SYSCALL msg=audit(1.002:3): x", "node=SYSCALL msg=audit(1.002:3): x",
	"type=A msg= msg=audit(1.002:3): x", "type=msg=audit(1.002:3): x", "type=EOE msg=msg=audit(1.002:3): x",
	"type=EOE msg=(audit(1.002:3): x", "type=EOE msg=x(1.002:3) audit(4.005:6): y",
	"type=USER_CMD msg=audit(1.002:3): pid=1 res=success\x1dUID=\"root\"",
	"type=EOE msg=audit(-5.+07:0003):", "type=EOE msg=audit(1.002:+3):", "type=EOE msg=audit(1_0.002:3):", "type=EOE msg=audit(0x10.002:3):",
	"type=EOE msg=audit(1.002: 3):", "type=EOE msg=audit(1.002:4294967295):", "type=EOE msg=audit(1.002:4294967296):",
	"type=EOE msg=audit(9223372036854775807.002:3):", "type=EOE msg=audit(9223372036854775808.002:3):", "type=EOE msg=audit(-9223372036854775808.002:3):",
	"type=EOE msg=audit(10.7:3):", "type=EOE msg=audit(10.1234:3):", "type=EOE msg=audit(10.-1:3):",
	"type=syscall msg=audit(1.002:3):", "type=UNKNOWN[1329] msg=audit(1.002:3):", "type=x[7]y msg=audit(1.002:3):",
	"type=UNKNOWN[65536] msg=audit(1.002:3):", "type=UNKNOWN[+1] msg=audit(1.002:3):", "type=NOPE msg=audit(1.002:3):",
	"type= msg=audit(1.002:3):", "type=msg=audit(1.002:3):",
}
