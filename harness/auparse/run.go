//go:build verif

package main

import (
	"encoding/hex"
	"errors"
	"fmt"
	"reflect"
	"sort"
	"strconv"
	"strings"
	"time"
	_ "unsafe" // go:linkname

	"github.com/elastic/go-libaudit/v2/auparse"

	"github.com/metal-toolbox/audito-maldito/internal/verifharness/hutil"
)

// The library's own table and error values (unexported): read, never written.  If the library renames
// them the harness no longer links and the check reports a harness-build failure (fails closed).
//
//go:linkname libNameToType github.com/elastic/go-libaudit/v2/auparse.auditMessageNameToType
var libNameToType map[string]auparse.AuditMessageType

//go:linkname libErrHeader github.com/elastic/go-libaudit/v2/auparse.errInvalidAuditHeader
var libErrHeader error

//go:linkname libErrType github.com/elastic/go-libaudit/v2/auparse.errInvalidAuditMessageTypName
var libErrType error

// ---------- observation of one ParseLogLine call ----------

type obs struct {
	Cls    string // "ok", "header", "type", "other", "panic"
	Err    string
	Typ    uint16
	Unix   int64
	Nano   int
	Seq    uint32
	Offset int64
	Raw    string
	TS     time.Time
}

func (o obs) brief() map[string]any {
	if o.Cls != "ok" {
		return map[string]any{"class": o.Cls, "err": o.Err}
	}
	raw := o.Raw
	if len(raw) > 200 {
		raw = raw[:200] + "..."
	}
	return map[string]any{"class": "ok", "type": o.Typ, "unix": o.Unix, "nano": o.Nano, "seq": o.Seq, "offset": o.Offset, "raw_hex": hex.EncodeToString([]byte(raw))}
}

func errClass(err error) string {
	switch {
	case err == libErrHeader && err.Error() == "invalid audit message header":
		return "header"
	case err == libErrType && err.Error() == "invalid message type":
		return "type"
	}
	return "other"
}

func observe(line string) (o obs) {
	defer func() {
		if p := recover(); p != nil {
			o = obs{Cls: "panic", Err: fmt.Sprint(p)}
		}
	}()
	m, err := auparse.ParseLogLine(line)
	if err != nil {
		return obs{Cls: errClass(err), Err: err.Error()}
	}
	if m == nil {
		return obs{Cls: "other", Err: "nil message and nil error"}
	}
	off := reflect.ValueOf(m).Elem().FieldByName("offset").Int()
	return obs{Cls: "ok", Typ: uint16(m.RecordType), Unix: m.Timestamp.Unix(), Nano: m.Timestamp.Nanosecond(), Seq: m.Sequence,
		Offset: off, Raw: m.RawData, TS: m.Timestamp}
}

// same: deep equality of two observations (the AuditMessage's fields incl. RawData, or the same error value)
func same(a, b obs) bool {
	if a.Cls != b.Cls {
		return false
	}
	if a.Cls != "ok" {
		return a.Err == b.Err
	}
	return a.Typ == b.Typ && a.Unix == b.Unix && a.Nano == b.Nano && a.Seq == b.Seq && a.Offset == b.Offset && a.Raw == b.Raw &&
		a.TS.Equal(b.TS) && a.TS == b.TS
}

func isASCIISpace(b byte) bool { return b == ' ' || (b >= 9 && b <= 13) }

func allASCIISpace(s string) bool {
	for i := 0; i < len(s); i++ {
		if !isASCIISpace(s[i]) {
			return false
		}
	}
	return true
}

// unmFlag: may the line be outside the modelled domain?  From the bytes alone: a byte >= 0x80 in the type-name
// position, or at either end of the text behind the first "msg=" once its ASCII white space is removed.
func unmFlag(line string) bool {
	i := strings.Index(line, "msg=")
	if i < 6 {
		return false
	}
	for k := 5; k < i-1; k++ {
		if line[k] >= 0x80 {
			return true
		}
	}
	return edgeNonASCII(line[i+4:])
}

func edgeNonASCII(s string) bool {
	a, b := 0, len(s)
	for a < b && isASCIISpace(s[a]) {
		a++
	}
	for b > a && isASCIISpace(s[b-1]) {
		b--
	}
	return a < b && (s[a] >= 0x80 || s[b-1] >= 0x80)
}

func hasNonASCII(s string) bool {
	for i := 0; i < len(s); i++ {
		if s[i] >= 0x80 {
			return true
		}
	}
	return false
}

// ---------- oracles ----------

type failure struct{ key, what string }

// judgeLine: (1) property C07, auditd half: every variant that only appends ASCII white space gives the result of the
// bare line; (2) by construction: a well-formed line yields exactly the generated fields, a line built to fail
// fails with the expected error; (3) the parser never panics.
func judgeLine(c lineCase, os []obs) []failure {
	var fs []failure
	base := os[0]
	for k, v := range c.Vars {
		if os[k].Cls == "panic" {
			fs = append(fs, failure{"audit-parser-panic", fmt.Sprintf("ParseLogLine panicked (%s) on %q", os[k].Err, clip(v[0]+c.Line+v[1]))})
		}
		if k > 0 && v[0] == "" && allASCIISpace(v[1]) && !same(base, os[k]) {
			fs = append(fs, failure{"audit-trailing-white-space", fmt.Sprintf("line %q: bare -> %v, with suffix %q -> %v", clip(c.Line), base.brief(), v[1], os[k].brief())})
		}
	}
	switch c.Expect {
	case "ok":
		want, ok := libNameToType[strings.ToUpper(c.ETyp)]
		ts := time.Unix(c.ESec, c.EMsec*int64(time.Millisecond))
		if !ok || base.Cls != "ok" || base.Typ != uint16(want) || base.Seq != c.ESeq || !base.TS.Equal(ts) || base.Raw != c.ERaw || base.Offset != int64(c.EOffset) {
			fs = append(fs, failure{"audit-well-formed-fields", fmt.Sprintf("well-formed line %q (type %s sec %d msec %d seq %d): got %v", clip(c.Line), c.ETyp, c.ESec, c.EMsec, c.ESeq, base.brief())})
		}
	case "header", "type":
		if base.Cls != c.Expect {
			fs = append(fs, failure{"audit-malformed-accepted", fmt.Sprintf("line %q built to fail with the %s error: got %v", clip(c.Line), c.Expect, base.brief())})
		}
	}
	return fs
}

func clip(s string) string {
	if len(s) > 300 {
		return s[:300] + "..."
	}
	return s
}

// ---------- Coq printers ----------

type rleSeg struct {
	Rep  int
	Byte byte
	Lit  []byte
}

func rle(b []byte) []rleSeg {
	var out []rleSeg
	var lit []byte
	flush := func() {
		if len(lit) > 0 {
			out = append(out, rleSeg{Lit: lit})
			lit = nil
		}
	}
	for i := 0; i < len(b); {
		j := i
		for j < len(b) && b[j] == b[i] {
			j++
		}
		if j-i >= 24 {
			flush()
			out = append(out, rleSeg{Rep: j - i, Byte: b[i]})
		} else {
			lit = append(lit, b[i:j]...)
		}
		i = j
	}
	flush()
	return out
}

func coqEnc(b []byte) string {
	var items []string
	for _, s := range rle(b) {
		if s.Rep > 0 {
			items = append(items, fmt.Sprintf("R %d %d", s.Rep, s.Byte))
		} else {
			items = append(items, "L "+hutil.CoqBytes(s.Lit))
		}
	}
	return hutil.CoqList(items)
}

func coqObs(full string, o obs) string {
	switch o.Cls {
	case "ok":
		raw := "RawLit " + coqEnc([]byte(o.Raw))
		if k := strings.Index(full, o.Raw); k >= 0 && full[k:k+len(o.Raw)] == o.Raw {
			raw = fmt.Sprintf("RawSub %d %d", k, len(o.Raw))
		}
		return fmt.Sprintf("OOk %d %s %s %d %s (%s)", o.Typ, hutil.CoqZ(o.Unix), hutil.CoqZ(int64(o.Nano)), o.Seq, hutil.CoqZ(o.Offset), raw)
	case "header":
		return "OErrHeader"
	case "type":
		return "OErrType"
	}
	return "OOther"
}

func coqLine(c lineCase, os []obs) string {
	var vars []string
	for k, v := range c.Vars {
		full := v[0] + c.Line + v[1]
		vars = append(vars, fmt.Sprintf("AVar %s %s %s (%s)", hutil.CoqStr(v[0]), hutil.CoqStr(v[1]), hutil.CoqBool(unmFlag(full)), coqObs(full, os[k])))
	}
	return fmt.Sprintf("ALine %s %s", coqEnc([]byte(c.Line)), hutil.CoqList(vars))
}

func coqType(name string) (string, string) {
	t, err := auparse.GetAuditMessageType(name)
	o, cls := "OTypOther", "other"
	switch {
	case err == nil:
		o, cls = fmt.Sprintf("(OTyp %d)", uint16(t)), "ok"
	case errClass(err) == "type":
		o, cls = "OTypErr", "error"
	}
	return fmt.Sprintf("AType %s %s %s", hutil.CoqStr(name), hutil.CoqBool(hasNonASCII(name)), o), cls
}

func numErr(err error) string {
	var ne *strconv.NumError
	switch {
	case err == nil:
		return ""
	case errors.As(err, &ne) && errors.Is(err, strconv.ErrSyntax):
		return "OSyntax"
	case errors.As(err, &ne) && errors.Is(err, strconv.ErrRange):
		return "ORange"
	}
	return "ONumOther"
}

// coqNum: strconv.ParseInt(s, 10, bits) / ParseUint(s, 10, bits); a uint64 result is printed as a decimal Z literal
func coqNum(signed bool, bits int, s string) (string, string) {
	var o string
	if signed {
		v, err := strconv.ParseInt(s, 10, bits)
		if o = numErr(err); o == "" {
			o = "(ONum " + hutil.CoqZ(v) + ")"
		}
	} else {
		v, err := strconv.ParseUint(s, 10, bits)
		if o = numErr(err); o == "" {
			o = fmt.Sprintf("(ONum (%d)%%Z)", v)
		}
	}
	cls := "ok"
	if o == "OSyntax" || o == "ORange" || o == "ONumOther" {
		cls = o
	}
	return fmt.Sprintf("ANum %s %d %s %s", hutil.CoqBool(signed), bits, hutil.CoqStr(s), o), cls
}

func coqTrim(s string) string {
	return fmt.Sprintf("ATrim %s %s %s", hutil.CoqStr(s), hutil.CoqBool(edgeNonASCII(s)), hutil.CoqStr(strings.TrimSpace(s)))
}

func coqTime(sec, msec int64) string {
	t := time.Unix(sec, msec*int64(time.Millisecond)).UTC()
	return fmt.Sprintf("ATime %s %s %s %s", hutil.CoqZ(sec), hutil.CoqZ(msec), hutil.CoqZ(t.Unix()), hutil.CoqZ(int64(t.Nanosecond())))
}

// coqTable: the library's map, sorted by name
func coqTable() (string, []string) {
	names := make([]string, 0, len(libNameToType))
	for k := range libNameToType {
		names = append(names, k)
	}
	sort.Strings(names)
	items := make([]string, 0, len(names))
	for _, k := range names {
		items = append(items, fmt.Sprintf("(%s, %d%%N)", hutil.CoqStr(k), uint16(libNameToType[k])))
	}
	return "Definition tbl : list (str * N) := [\n" + strings.Join(items, ";\n") + "\n].\n", names
}
