//go:build verif

// Harness for the auparse line-parser model (C07 auditd half, C15 "unparsable line"; coq/Model/Auparse.v):
// runs the REAL auparse.ParseLogLine / GetAuditMessageType of the go-libaudit version /repo's go.mod resolves
// to, and the real strconv.ParseInt / ParseUint, strings.TrimSpace and time.Unix, on generated inputs,
// judges the runs by oracles known from the construction of the input (a line and the same line followed by
// ASCII white space give the same message; a well-formed line yields exactly the generated fields; no panic),
// and writes what was observed as Coq case files for Model/AuparseCheck.v, where the model must return the
// same values for the same bytes.
package main

import (
	"encoding/hex"
	"encoding/json"
	"flag"
	"fmt"
	"os"
	"runtime"
	"runtime/debug"
	"strings"
	"time"

	"github.com/metal-toolbox/audito-maldito/internal/verifharness/hutil"
)

const shardBytes = 45_000 // Coq elaborates literals at about 20 KB/s

type lineReplay struct {
	Class   string      `json:"class"`
	LineHex string      `json:"line_hex"`
	Vars    [][2]string `json:"variants_hex"`
	Expect  string      `json:"expect,omitempty"`
	ETyp    string      `json:"type,omitempty"`
	ESec    int64       `json:"sec,omitempty"`
	EMsec   int64       `json:"msec,omitempty"`
	ESeq    uint32      `json:"seq,omitempty"`
	ERawHex string      `json:"raw_hex,omitempty"`
	EOffset int         `json:"offset,omitempty"`
}

type replayDoc struct {
	Auparse *lineReplay `json:"auparse,omitempty"`
	Kind    string      `json:"kind,omitempty"` // for the non-line cases: what it is
	Input   string      `json:"input_hex,omitempty"`
}

func toReplay(c lineCase) *lineReplay {
	r := &lineReplay{Class: c.Class, LineHex: hex.EncodeToString([]byte(c.Line)), Expect: c.Expect, ETyp: c.ETyp, ESec: c.ESec, EMsec: c.EMsec,
		ESeq: c.ESeq, ERawHex: hex.EncodeToString([]byte(c.ERaw)), EOffset: c.EOffset}
	if len(c.Line) > 4000 {
		// long lines are runs: keep the replay small
		r.LineHex = ""
		r.Class += fmt.Sprintf(" (line of %d bytes not stored; regenerate with the seed)", len(c.Line))
	}
	for _, v := range c.Vars {
		r.Vars = append(r.Vars, [2]string{hex.EncodeToString([]byte(v[0])), hex.EncodeToString([]byte(v[1]))})
	}
	return r
}

func fromReplay(r *lineReplay) (lineCase, error) {
	unhex := func(s string) (string, error) { b, err := hex.DecodeString(s); return string(b), err }
	c := lineCase{Class: r.Class, Expect: r.Expect, ETyp: r.ETyp, ESec: r.ESec, EMsec: r.EMsec, ESeq: r.ESeq, EOffset: r.EOffset}
	var err error
	if c.Line, err = unhex(r.LineHex); err != nil {
		return c, err
	}
	if c.ERaw, err = unhex(r.ERawHex); err != nil {
		return c, err
	}
	for _, v := range r.Vars {
		a, e1 := unhex(v[0])
		b, e2 := unhex(v[1])
		if e1 != nil || e2 != nil {
			return c, fmt.Errorf("bad variant")
		}
		c.Vars = append(c.Vars, [2]string{a, b})
	}
	if len(c.Vars) == 0 {
		c.Vars = [][2]string{{"", ""}, {"", "\n"}}
	}
	return c, nil
}

func runLine(c lineCase) []obs {
	os := make([]obs, len(c.Vars))
	for k, v := range c.Vars {
		os[k] = observe(v[0] + c.Line + v[1])
	}
	return os
}

func libVersion() string {
	bi, ok := debug.ReadBuildInfo()
	if !ok {
		return "unknown"
	}
	for _, d := range bi.Deps {
		if d.Path == "github.com/elastic/go-libaudit/v2" {
			if d.Replace != nil {
				return d.Replace.Path + "@" + d.Replace.Version + " " + d.Replace.Sum
			}
			return d.Path + "@" + d.Version + " " + d.Sum
		}
	}
	return "not among the build's dependencies"
}

func main() {
	out := flag.String("out", "", "output directory")
	prop := flag.String("prop", "C07", "property the stage is run for (C07 or C15)")
	n := flag.Int("n", 360, "number of generated lines")
	nn := flag.Int("nums", 260, "number of strconv cases")
	nt := flag.Int("types", 150, "number of GetAuditMessageType cases")
	ns := flag.Int("trims", 120, "number of TrimSpace cases")
	replay := flag.String("replay", "", "replay file")
	flag.Parse()
	seed := hutil.SeedFromEnv()
	if *out == "" {
		*out = "."
	}
	if *replay != "" {
		os.Exit(doReplay(*replay))
	}
	t0 := time.Now()
	sum := hutil.NewSummary(*prop, seed, ruleText)
	r := hutil.NewRand(seed ^ 0xA0FA75E)
	tblDef, names := coqTable()
	if len(names) == 0 || libErrHeader == nil || libErrType == nil {
		sum.Fail("harness", "the library's table / error values are not reachable", nil)
		sum.Write(*out)
		os.Exit(1)
	}
	cases := &hutil.CaseFile{Dir: *out, Stem: "cases_auparse",
		Header: "From Coq Require Import Ascii String List Bool Arith NArith ZArith.\nImport ListNotations.\nFrom AM Require Import Lib.Bytes Model.Auparse Model.AuparseCheck.\n" + tblDef,
		Footer: func(int) string { return "Definition M := Eval vm_compute in auparse_mismatches tbl cases.\nPrint M.\n" }}
	pending := 0
	add := func(item string, d replayDoc) {
		cases.AddDesc(item, d)
		pending += len(item)
		if pending > shardBytes {
			cases.Flush()
			pending = 0
		}
	}

	// ---- lines
	for i := 0; i < *n; i++ {
		c := genLine(r, i, names)
		os := runLine(c)
		for _, f := range judgeLine(c, os) {
			sum.FailKey("oracle", f.key, f.what, replayDoc{Auparse: toReplay(c)})
		}
		add(coqLine(c, os), replayDoc{Auparse: toReplay(c)})
		sum.Dist("line_" + c.Class)
		sum.Dist("result_" + os[0].Cls)
		for k, v := range c.Vars {
			full := v[0] + c.Line + v[1]
			sum.Count(full, strings.Index(full, "msg=") >= 6)
			if k > 0 {
				switch {
				case v[0] != "":
					sum.Dist("variant_prefix")
				case allASCIISpace(v[1]):
					sum.Dist("variant_ascii_white_space_suffix")
				default:
					sum.Dist("variant_other_suffix")
				}
			}
			if unmFlag(full) {
				sum.Dist("flagged_possibly_outside_the_modelled_domain")
			}
		}
		switch {
		case len(c.Line) > 4000:
			sum.Dist("length_over_4000")
		case len(c.Line) > 200:
			sum.Dist("length_201-4000")
		default:
			sum.Dist("length_upto_200")
		}
		if i < 3 {
			sum.Sample(map[string]any{"class": c.Class, "line": clip(c.Line), "variants": len(c.Vars), "result": os[0].brief()})
		}
	}

	// ---- the lines of the Props examples
	for _, l := range propsExamples {
		c := lineCase{Class: "props-example", Line: l, Vars: [][2]string{{"", ""}, {"", "\n"}, {"", " \r\n"}}}
		os := runLine(c)
		for _, f := range judgeLine(c, os) {
			sum.FailKey("oracle", f.key, f.what, replayDoc{Auparse: toReplay(c)})
		}
		add(coqLine(c, os), replayDoc{Auparse: toReplay(c)})
		sum.Dist("line_" + c.Class)
		sum.Dist("result_" + os[0].Cls)
		sum.Count(l, strings.Index(l, "msg=") >= 6)
	}

	// ---- type names
	for i := 0; i < *nt; i++ {
		name, cl := genTypeName(r, i, names)
		item, res := coqType(name)
		add(item, replayDoc{Kind: "GetAuditMessageType", Input: hex.EncodeToString([]byte(name))})
		sum.Count("type:"+name, true)
		sum.Dist("typename_" + cl + "_" + res)
	}

	// ---- strconv
	kinds := []struct {
		signed bool
		bits   int
	}{{true, 64}, {false, 32}, {false, 16}, {false, 64}, {true, 64}, {false, 32}}
	for i := 0; i < *nn; i++ {
		k := kinds[i%len(kinds)]
		s, cl := numString(r)
		item, res := coqNum(k.signed, k.bits, s)
		add(item, replayDoc{Kind: fmt.Sprintf("strconv signed=%v bits=%d", k.signed, k.bits), Input: hex.EncodeToString([]byte(s))})
		sum.Count(fmt.Sprintf("num:%v:%d:%s", k.signed, k.bits, s), true)
		sum.Dist(fmt.Sprintf("num_%s_%s", cl, res))
	}
	// every limit string against every kind
	for _, s := range append(append([]string{}, numLimits...), numWeird...) {
		for _, k := range kinds[:4] {
			for _, sg := range []string{"", "-", "+"} {
				if sg != "" && (len(s) < 15 || !k.signed) {
					continue
				}
				item, _ := coqNum(k.signed, k.bits, sg+s)
				add(item, replayDoc{Kind: fmt.Sprintf("strconv signed=%v bits=%d", k.signed, k.bits), Input: hex.EncodeToString([]byte(sg + s))})
				sum.Count(fmt.Sprintf("num:%v:%d:%s", k.signed, k.bits, sg+s), true)
				sum.Dist("num_table_of_limits")
			}
		}
	}

	// ---- TrimSpace
	for i := 0; i < *ns; i++ {
		s := genTrim(r)
		add(coqTrim(s), replayDoc{Kind: "strings.TrimSpace", Input: hex.EncodeToString([]byte(s))})
		sum.Count("trim:"+s, true)
		if edgeNonASCII(s) {
			sum.Dist("trim_unicode_fallback")
		} else {
			sum.Dist("trim_ascii")
		}
	}

	// ---- time.Unix
	for _, sec := range timeVals {
		for _, msec := range timeVals {
			if (sec+msec)%3 == 0 || msec < 2000 && msec > -2000 {
				add(coqTime(sec, msec), replayDoc{Kind: "time.Unix", Input: fmt.Sprintf("%d %d", sec, msec)})
				sum.Count(fmt.Sprintf("time:%d:%d", sec, msec), true)
				sum.Dist("time_unix")
			}
		}
	}

	cases.Flush()
	sum.CaseFiles = append(sum.CaseFiles, cases.Files...)
	lv := libVersion()
	sum.Distribution["ran_against_"+lv+"_"+runtime.Version()+fmt.Sprintf("_table_of_%d_names", len(names))] = sum.Evaluations
	sum.Notes = append(sum.Notes, "library "+lv, "go version "+runtime.Version(), fmt.Sprintf("wall time %.1fs", time.Since(t0).Seconds()))
	sum.Write(*out)
}


const ruleText = "the real auparse.ParseLogLine on generated audit log lines: well-formed records of every type the daemon's generators use (SYSCALL, EXECVE, CWD, PATH, PROCTITLE, EOE, LOGIN, USER_START, USER_END, USER_LOGIN, USER_CMD, CRED_DISP, CRED_ACQ, USER_AUTH, USER_ACCT, CRYPTO_KEY_USER, SERVICE_START, AVC; with and without the ENRICHED trailer) and of random names of the library's table, " +
	"each bare and with suffixes (newline, CR LF, blanks, tabs, VT, FF; NBSP, NEL, EM SPACE, IDEOGRAPHIC SPACE, lone 0x85 / 0xa0 / 0xff bytes, NUL) and prefixes; two lines in three carry a mutation of one syntactic element: " +
	"'msg=' missing / doubled / a second one later / inside the type position / at index 0..6, the first five bytes replaced or of another length, the gap before 'msg=', white space or non-ASCII space after 'msg=', the word before '(' changed, a second '(' before the header, '(' '.' ':' ')' missing / reordered / doubled, " +
	"each of the three numbers replaced by values at and beyond the int64 / uint64 / uint32 / uint16 limits, signs, leading zeros, underscores, hex, exponent, empty, blanks, NUL, non-ASCII digits, digits with one intruder; millisecond fields of other widths and magnitudes (int64 product wraps); " +
	"UNKNOWN[n] forms of the type, lower / mixed case, unknown and non-ASCII type names (long s, dotless i, Kelvin sign, invalid UTF-8); bodies of 5 000 to 70 000 bytes, NUL and invalid UTF-8 in the body, bodies ending in white space or non-ASCII bytes, short rests behind the header, truncations, random strings over the syntax alphabet, tiny lines; " +
	"plus GetAuditMessageType on table names (all cases) and bracket forms, strconv.ParseInt / ParseUint (base 10, bit sizes 64 / 32 / 16) on the same number shapes and on a table of every limit, strings.TrimSpace on strings over white space / control / non-ASCII pieces, time.Unix(sec, msec*1e6) at the int64 edges; " +
	"oracles from the construction alone: a line followed only by ASCII white space gives the very result of the bare line (deep equality incl. RawData and offset, same error value); a well-formed line gives exactly the generated type / time / sequence / raw text / offset; lines built to fail fail with the expected error; ParseLogLine never panics; " +
	"non-trivial = the line holds 'msg=' at index >= 6 (the header / type stages are reached); distinct by the bytes of the full line"

func doReplay(path string) int {
	raw, err := os.ReadFile(path)
	if err != nil {
		fmt.Println("cannot read replay:", err)
		return 2
	}
	var rp struct {
		Replay replayDoc `json:"replay"`
	}
	if err := json.Unmarshal(raw, &rp); err != nil || rp.Replay.Auparse == nil || rp.Replay.Auparse.LineHex == "" {
		fmt.Println("replay file carries no line (no failing input was found, or the line was too long to store)")
		return 2
	}
	c, err := fromReplay(rp.Replay.Auparse)
	if err != nil {
		fmt.Println("bad replay:", err)
		return 2
	}
	fs := judgeLine(c, runLine(c))
	for _, f := range fs {
		fmt.Printf("REPRODUCED %s: %s\n", f.key, f.what)
	}
	if len(fs) > 0 {
		return 1
	}
	fmt.Println("not reproduced")
	return 0
}
