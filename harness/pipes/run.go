//go:build verif

package main

import (
	"bytes"
	"context"
	"errors"
	"fmt"
	"io"
	"os"
	"path/filepath"
	"strconv"
	"strings"
	"syscall"
	"time"

	"go.uber.org/zap"

	"github.com/metal-toolbox/audito-maldito/ingesters/namedpipe"
	"github.com/metal-toolbox/audito-maldito/internal/health"
	"github.com/metal-toolbox/audito-maldito/internal/verifharness/hutil"
)

var errSentinel = errors.New("injected callback failure")

const caseTimeout = 10 * time.Second

// closerWait bounds how long a failing callback waits for the effects of a cancellation (the context being
// done, the close-on-cancel goroutine having closed the reader's end) before it returns its error anyway.
const closerWait = 50 * time.Millisecond

// readerPresent: does this process hold a descriptor opened read-only on the FIFO at path?  (Ingest runs in
// this process; the harness itself only ever opens FIFOs for writing, or O_RDWR in its time-out path.)
func readerPresent(path string) (present, known bool) {
	ents, err := os.ReadDir("/proc/self/fd")
	if err != nil {
		return false, false
	}
	for _, e := range ents {
		t, err := os.Readlink("/proc/self/fd/" + e.Name())
		if err != nil || t != path {
			continue
		}
		info, err := os.ReadFile("/proc/self/fdinfo/" + e.Name())
		if err != nil {
			continue
		}
		for _, ln := range strings.Split(string(info), "\n") {
			if f := strings.Fields(ln); len(f) == 2 && f[0] == "flags:" {
				if v, err := strconv.ParseUint(f[1], 8, 64); err == nil && v&uint64(syscall.O_ACCMODE) == uint64(syscall.O_RDONLY) {
					return true, true
				}
			}
		}
	}
	return false, true
}

// waitReaderGone polls until no read-only descriptor on the FIFO is left in this process, at most d.
func waitReaderGone(path string, d time.Duration) bool {
	deadline := time.Now().Add(d)
	for {
		present, known := readerPresent(path)
		if known && !present {
			return true
		}
		if !known || time.Now().After(deadline) {
			if !known {
				time.Sleep(d)
			}
			return false
		}
		time.Sleep(200 * time.Microsecond)
	}
}

// pipeObs is what the real Ingest did on one case.
type pipeObs struct {
	Recs     [][]byte `json:"-"`
	NRecs    int      `json:"records_delivered"`
	Ret      string   `json:"ret"`       // cb | cb-wrapped | eof | eof-wrapped | nil | other:<msg>
	FailedAt int      `json:"failed_at"` // call index at which the callback returned the sentinel, -1 if it never did
	WriteErr string   `json:"write_err,omitempty"`
	Written  int      `json:"bytes_written"`
	Harness  string   `json:"harness_problem,omitempty"`
	// Hang: Ingest had not returned caseTimeout after the point at which it must return (every writer has closed its
	// end: end of stream; or the callback has returned its error while the writer holds its end open). An ORACLE
	// failure (C12: "end-of-stream is returned as an error rather than ignored", "delivery stops at the first
	// callback error, which is returned"), confirmed by the framework through the replay mode before it counts.
	Hang string `json:"hang,omitempty"`
	// cancellation cases: the reader's descriptor was seen to be gone before the callback returned its error
	CloserSeen bool `json:"closer_seen,omitempty"`
}

func classify(err error) string {
	switch {
	case err == nil:
		return "nil"
	case err == errSentinel:
		return "cb"
	case errors.Is(err, errSentinel):
		return "cb-wrapped"
	case err == io.EOF:
		return "eof"
	case errors.Is(err, io.EOF):
		return "eof-wrapped"
	}
	return "other:" + err.Error()
}

// runPipe feeds the case through a real FIFO to the real Ingest.
func runPipe(tmp string, c pipeCase, idx int) pipeObs {
	obs := pipeObs{FailedAt: -1}
	path := filepath.Join(tmp, "fifo"+strconv.Itoa(idx))
	if real, err := filepath.EvalSymlinks(tmp); err == nil { // the form /proc/self/fd shows
		if abs, err := filepath.Abs(real); err == nil {
			path = filepath.Join(abs, "fifo"+strconv.Itoa(idx))
		}
	}
	_ = os.Remove(path)
	if err := syscall.Mkfifo(path, 0o600); err != nil {
		obs.Harness = "mkfifo: " + err.Error()
		return obs
	}
	defer os.Remove(path)
	stream := expandSegs(c.Stream)
	sizes := writeSizes(c)
	total := 0
	for _, s := range sizes {
		total += s
	}
	if total != len(stream) {
		obs.Harness = fmt.Sprintf("write sizes add up to %d, stream has %d bytes", total, len(stream))
		return obs
	}
	sleepAt := map[int]bool{}
	for _, k := range c.SleepAt {
		sleepAt[k] = true
	}

	ctx, cancel := context.WithCancel(context.Background())
	defer cancel() // also ends Ingest's close-on-cancel goroutine
	ing := namedpipe.NewNamedPipeIngester(zap.NewNop().Sugar(), health.NewHealth())

	var recs [][]byte
	calls, failedAt := 0, -1
	cancelled := false // the case itself cancelled Ingest's context
	askCancel := make(chan struct{})
	if c.Cancel == "outside" {
		go func() { // some other part of the program cancels the worker while its callback is running
			select {
			case <-askCancel:
				cancel()
			case <-ctx.Done():
			}
		}()
	}
	cb := func(cbCtx context.Context, line string) error {
		k := calls
		calls++
		recs = append(recs, []byte(line))
		if c.Cancel == "earlier" && k == c.CancelAt {
			// cancelled during a successful callback: whether Ingest gets to the failing record at all is up to it
			cancelled = true
			cancel()
			if c.WaitCloser {
				obs.CloserSeen = waitReaderGone(path, closerWait)
			}
			return nil
		}
		if k == c.FailAt {
			failedAt = k
			cancelled = cancelled || c.Cancel != ""
			switch c.Cancel {
			case "in-callback":
				cancel()
			case "outside":
				close(askCancel)
				select {
				case <-cbCtx.Done():
				case <-time.After(closerWait):
				}
			}
			if c.Cancel != "" && c.WaitCloser {
				obs.CloserSeen = waitReaderGone(path, closerWait)
			}
			return errSentinel
		}
		return nil
	}
	ingDone := make(chan error, 1)
	ingReturned := make(chan struct{})
	go func() {
		err := ing.Ingest(ctx, path, byte(c.Delim), cb)
		close(ingReturned)
		ingDone <- err
	}()
	// hold_open: the writer closes its end only after Ingest has returned (only when Ingest is going to return
	// without seeing the end of the stream, i.e. when the callback fails at a record the stream has)
	hold := c.HoldOpen && c.FailAt >= 0 && c.FailAt < bytes.Count(stream, []byte{byte(c.Delim)})

	type wres struct {
		n   int
		err error
	}
	wDone := make(chan wres, 1)
	wFile := make(chan *os.File, 1)
	go func() {
		f, err := os.OpenFile(path, os.O_WRONLY, 0)
		if err != nil {
			wFile <- nil
			wDone <- wres{0, err}
			return
		}
		wFile <- f
		off, n := 0, 0
		for i, s := range sizes {
			k, err := f.Write(stream[off : off+s])
			n += k
			if err != nil {
				f.Close()
				wDone <- wres{n, err}
				return
			}
			off += s
			if sleepAt[i] {
				time.Sleep(time.Duration(c.SleepUs) * time.Microsecond)
			}
		}
		if hold {
			select {
			case <-ingReturned:
			case <-time.After(caseTimeout):
			}
		}
		wDone <- wres{n, f.Close()}
	}()

	deadline := time.After(caseTimeout)
	var ingErr error
	var w wres
	gotIng, gotW := false, false
	for !(gotIng && gotW) {
		select {
		case ingErr = <-ingDone:
			gotIng = true
		case w = <-wDone:
			gotW = true
		case <-deadline:
			// unblock whatever is stuck: cancel the reader, open the FIFO from both sides
			// without blocking so that pending open(2) calls return, close the writer
			if !gotIng && gotW && w.err == nil {
				obs.Hang = fmt.Sprintf("every writer closed its end of the pipe (%d bytes written), Ingest had not returned %s later: end of stream ignored", w.n, caseTimeout)
			} else if !gotIng && hold {
				obs.Hang = fmt.Sprintf("the callback was to fail at record %d while the writer keeps its end open, Ingest had not returned after %s", c.FailAt, caseTimeout)
			} else {
				obs.Harness = fmt.Sprintf("case did not finish within %s (ingest returned: %v, writer finished: %v)", caseTimeout, gotIng, gotW)
			}
			cancel()
			if fd, err := syscall.Open(path, syscall.O_RDWR|syscall.O_NONBLOCK, 0); err == nil {
				defer syscall.Close(fd)
			}
			select {
			case f := <-wFile:
				if f != nil {
					f.Close()
				}
			case <-time.After(time.Second):
			}
			grace := time.After(2 * time.Second)
			for !(gotIng && gotW) {
				select {
				case <-ingDone:
					gotIng = true
				case <-wDone:
					gotW = true
				case <-grace:
					return obs // the goroutines are abandoned; they hold nothing the next case needs
				}
			}
			return obs
		}
	}
	obs.Recs = recs
	obs.NRecs = len(recs)
	obs.Ret = classify(ingErr)
	obs.FailedAt = failedAt
	obs.Written = w.n
	if w.err != nil {
		obs.WriteErr = w.err.Error()
		// the only legitimate reason for a failed write: the reader went away after the callback failed or after
		// the case cancelled the reader's context
		if !((failedAt >= 0 || cancelled) && errors.Is(w.err, syscall.EPIPE)) {
			obs.Harness = "writer failed: " + w.err.Error()
		}
	}
	return obs
}

// ---------- oracle: computed from the generated stream alone ----------

type failure struct {
	key  string
	what string
}

func strip1(b []byte, d byte) []byte {
	if n := len(b); n > 0 && b[n-1] == d {
		return b[:n-1]
	}
	return b
}

func short(b []byte) string {
	if len(b) > 48 {
		return fmt.Sprintf("%q... (%d bytes)", b[:48], len(b))
	}
	return fmt.Sprintf("%q", b)
}

func judgePipe(c pipeCase, o pipeObs) []failure {
	stream := expandSegs(c.Stream)
	d := byte(c.Delim)
	var bodies [][]byte
	rest := stream
	for {
		i := bytes.IndexByte(rest, d)
		if i < 0 {
			break
		}
		bodies = append(bodies, rest[:i])
		rest = rest[i+1:]
	}
	tail := rest
	want := len(bodies)
	failing := c.FailAt >= 0 && c.FailAt < len(bodies)
	if failing {
		want = c.FailAt + 1
	}
	var fs []failure
	if c.Cancel == "earlier" && c.CancelAt < len(bodies) {
		return judgeCancelledEarlier(c, o, bodies, tail)
	}
	// contents and order of what was delivered, as far as both sides go
	for i := 0; i < len(o.Recs) && i < want; i++ {
		if got := strip1(o.Recs[i], d); !bytes.Equal(got, bodies[i]) {
			fs = append(fs, failure{"framing:record-content", fmt.Sprintf("record %d delivered as %s, the stream has %s there", i, short(got), short(bodies[i]))})
			break
		}
	}
	switch {
	case len(o.Recs) == want:
	case failing && len(o.Recs) > want:
		fs = append(fs, failure{"framing:delivery-after-error", fmt.Sprintf("callback failed at record %d but was called %d times", c.FailAt, len(o.Recs))})
	case !failing && len(o.Recs) == want+1 && bytes.Equal(o.Recs[want], tail):
		fs = append(fs, failure{"framing:tail-delivered", fmt.Sprintf("the unterminated tail %s was delivered as a record", short(tail))})
	default:
		fs = append(fs, failure{"framing:record-count", fmt.Sprintf("%d records delivered, the stream has %d terminated records to deliver (callback fails at %d)", len(o.Recs), want, c.FailAt)})
	}
	if failing {
		if o.Ret != "cb" {
			fs = append(fs, failure{"framing:callback-error-not-returned", fmt.Sprintf("callback returned its error at record %d, Ingest returned %s", c.FailAt, o.Ret)})
		}
	} else {
		switch o.Ret {
		case "eof", "eof-wrapped":
		case "nil":
			fs = append(fs, failure{"framing:eof-not-error", "the writer closed the pipe and Ingest returned nil"})
		default:
			fs = append(fs, failure{"framing:unexpected-error", "the writer closed the pipe and Ingest returned " + o.Ret})
		}
	}
	return fs
}

// judgeCancelledEarlier: the context was cancelled during the successful callback for record CancelAt (< FailAt).
// What Ingest does about the cancellation is not C12's business (C13): it may stop anywhere from there on, with any
// error.  What stays C12's: what it delivers is the stream's records, in order, once; it does not go past the
// failing record nor deliver the tail; it does not return nil; and IF the callback did return its error, that
// error is what comes back.
func judgeCancelledEarlier(c pipeCase, o pipeObs, bodies [][]byte, tail []byte) []failure {
	d := byte(c.Delim)
	failing := c.FailAt >= 0 && c.FailAt < len(bodies)
	limit := len(bodies)
	if failing {
		limit = c.FailAt + 1
	}
	var fs []failure
	for i := 0; i < len(o.Recs) && i < limit; i++ {
		if got := strip1(o.Recs[i], d); !bytes.Equal(got, bodies[i]) {
			fs = append(fs, failure{"framing:record-content", fmt.Sprintf("record %d delivered as %s, the stream has %s there", i, short(got), short(bodies[i]))})
			break
		}
	}
	switch {
	case len(o.Recs) > limit && failing:
		fs = append(fs, failure{"framing:delivery-after-error", fmt.Sprintf("callback failed at record %d but was called %d times", c.FailAt, len(o.Recs))})
	case len(o.Recs) == limit+1 && bytes.Equal(o.Recs[limit], tail):
		fs = append(fs, failure{"framing:tail-delivered", fmt.Sprintf("the unterminated tail %s was delivered as a record", short(tail))})
	case len(o.Recs) > limit:
		fs = append(fs, failure{"framing:record-count", fmt.Sprintf("%d records delivered, the stream has %d terminated records", len(o.Recs), limit)})
	case len(o.Recs) <= c.CancelAt:
		fs = append(fs, failure{"framing:record-count", fmt.Sprintf("%d records delivered although the callback for record %d ran (and cancelled the context)", len(o.Recs), c.CancelAt)})
	}
	switch {
	case o.FailedAt >= 0 && o.Ret != "cb":
		fs = append(fs, failure{"framing:callback-error-not-returned", fmt.Sprintf("callback returned its error at record %d (the context had been cancelled during the callback for record %d), Ingest returned %s", c.FailAt, c.CancelAt, o.Ret)})
	case o.FailedAt < 0 && (o.Ret == "cb" || o.Ret == "cb-wrapped"):
		fs = append(fs, failure{"framing:unexpected-error", "Ingest returned the callback's error although the callback never returned it"})
	case o.FailedAt < 0 && o.Ret == "nil":
		fs = append(fs, failure{"framing:eof-not-error", "Ingest returned nil after its context was cancelled in the middle of the stream"})
	}
	return fs
}

// inModel: the Coq model knows nothing of cancellation.  Cases in which the context is cancelled during a
// SUCCESSFUL callback have more than one admissible outcome and are judged by the oracle alone.
func inModel(c pipeCase) bool { return c.Cancel != "earlier" }

// ---------- Coq rendering ----------

func coqPipeCase(c pipeCase, o pipeObs) string {
	stream := expandSegs(c.Stream)
	var all []byte
	var lens []int
	for _, r := range o.Recs {
		all = append(all, r...)
		lens = append(lens, len(r))
	}
	fail := "None"
	if c.FailAt >= 0 {
		fail = fmt.Sprintf("(Some %d)", c.FailAt)
	}
	ret := "OOther"
	switch o.Ret {
	case "cb":
		ret = fmt.Sprintf("(OCb %d)", o.FailedAt)
	case "eof", "eof-wrapped":
		ret = "OEof"
	}
	return fmt.Sprintf("FCase %s %s %d %s %s %s %s", coqEnc(stream), coqPairsN(c.Writes), c.Delim, fail, coqEnc(all), coqListN(lens), ret)
}

var _ = hutil.CoqBool
