//go:build verif

package main

import (
	"encoding/hex"
	"fmt"
	"strings"

	"github.com/metal-toolbox/audito-maldito/internal/verifharness/hutil"
)

// seg is one piece of a run-length description of a byte string: either a literal (hex) or
// Rep copies of Byte.
type seg struct {
	Hex  string `json:"hex,omitempty"`
	Rep  int    `json:"rep,omitempty"`
	Byte int    `json:"byte,omitempty"`
}

// pipeCase is one generated input: the stream, how the writer splits it into write calls,
// where it pauses, and the record index at which the callback fails (-1: never).
type pipeCase struct {
	Shape   string   `json:"shape"`
	Policy  string   `json:"policy"`
	Delim   int      `json:"delim"`
	Stream  []seg    `json:"stream"`
	Writes  [][2]int `json:"writes"`   // (size, count) in order; sizes add up to the stream length
	SleepAt []int    `json:"sleep_at"` // indices of writes after which the writer pauses
	SleepUs int      `json:"sleep_us"`
	FailAt  int      `json:"fail_at"`
	// What else the failing callback does before it returns its error (cancel.go).  None of it changes what
	// the property demands: records 0..FailAt delivered, exactly the callback's error returned.
	Cancel     string `json:"cancel,omitempty"`      // "" | in-callback | outside | earlier: who cancels Ingest's context, and when
	CancelAt   int    `json:"cancel_at,omitempty"`   // earlier: the callback for record CancelAt (< FailAt) cancels and returns nil
	WaitCloser bool   `json:"wait_closer,omitempty"` // wait (bounded) until the reader's descriptor on the FIFO is gone before returning the error
	HoldOpen   bool   `json:"hold_open,omitempty"`   // the writer keeps its end open until Ingest has returned (no end-of-stream in sight)
}

func expandSegs(ss []seg) []byte {
	var out []byte
	for _, s := range ss {
		if s.Rep > 0 {
			for i := 0; i < s.Rep; i++ {
				out = append(out, byte(s.Byte))
			}
		} else {
			b, err := hex.DecodeString(s.Hex)
			if err != nil {
				panic(err)
			}
			out = append(out, b...)
		}
	}
	return out
}

// rle is a plain run-length encoder: runs of at least minRun equal bytes become Rep segments.
// It is applied to whatever bytes it is given (generated or observed), so it loses nothing.
const minRun = 24

func rle(b []byte) []seg {
	var out []seg
	lit := 0 // start of the pending literal
	i := 0
	for i < len(b) {
		j := i
		for j < len(b) && b[j] == b[i] {
			j++
		}
		if j-i >= minRun {
			if lit < i {
				out = append(out, seg{Hex: hex.EncodeToString(b[lit:i])})
			}
			out = append(out, seg{Rep: j - i, Byte: int(b[i])})
			lit = j
		}
		i = j
	}
	if lit < len(b) {
		out = append(out, seg{Hex: hex.EncodeToString(b[lit:])})
	}
	return out
}

func coqEnc(b []byte) string {
	var items []string
	for _, s := range rle(b) {
		if s.Rep > 0 {
			items = append(items, fmt.Sprintf("R %d %d", s.Rep, s.Byte))
		} else {
			items = append(items, "L (hx \""+s.Hex+"\")")
		}
	}
	return hutil.CoqList(items)
}

func coqPairsN(ps [][2]int) string {
	var items []string
	for _, p := range ps {
		items = append(items, fmt.Sprintf("(%d,%d)%%N", p[0], p[1]))
	}
	return hutil.CoqList(items)
}

func coqListN(xs []int) string {
	var sb strings.Builder
	sb.WriteString("[")
	for i, x := range xs {
		if i > 0 {
			sb.WriteString(";")
		}
		fmt.Fprintf(&sb, "%d", x)
	}
	sb.WriteString("]%N")
	return sb.String()
}

// ---------- generation ----------

var shapes = []string{"small", "many", "long", "boundary", "degenerate", "small", "many", "long"}
var delims = []int{'\n', '\n', '\n', '\n', 0, ' ', 0xff, ';', '\r'}
var cancelKinds = []string{"in-callback", "outside", "in-callback", "outside", "earlier"}
var policies = []string{"one", "bytewise", "tiny", "random", "blocks", "per-record", "before-delim", "two"}

// interesting lengths around bufio's 4096-byte buffer and the 64 KiB pipe capacity
var edgeLens = []int{4094, 4095, 4096, 4097, 8191, 8192, 8193, 16384, 65535, 65536, 65537, 131072, 3 * 65536}

func randByte(r *hutil.Rand, delim int) byte {
	for {
		var b int
		switch r.Intn(8) {
		case 0:
			b = 0
		case 1:
			b = 0xff
		case 2:
			b = int(hutil.Pick(r, []byte{' ', '\n', '\r', '\t', ';', 0x7f, 0x80}))
		case 3, 4:
			b = 'a' + r.Intn(26)
		default:
			b = r.Intn(256)
		}
		if b != delim {
			return byte(b)
		}
	}
}

func shortBody(r *hutil.Rand, delim, max int) []byte {
	n := r.Intn(max + 1)
	b := make([]byte, n)
	for i := range b {
		b[i] = randByte(r, delim)
	}
	return b
}

// longBody: n bytes made of long runs with occasional short literal pieces between them
func longBody(r *hutil.Rand, delim, n int) []byte {
	b := make([]byte, 0, n)
	for len(b) < n {
		left := n - len(b)
		if r.Chance(1, 4) {
			k := 1 + r.Intn(6)
			if k > left {
				k = left
			}
			for ; k > 0; k-- {
				b = append(b, randByte(r, delim))
			}
			continue
		}
		k := 100 + r.Intn(70000)
		if k > left {
			k = left
		}
		c := randByte(r, delim)
		for i := 0; i < k; i++ {
			b = append(b, c)
		}
	}
	return b[:n]
}

func genPipeCase(r *hutil.Rand, i int) pipeCase {
	c := pipeCase{Shape: shapes[i%len(shapes)], Delim: hutil.Pick(r, delims)}
	var bodies [][]byte
	var tail []byte
	switch c.Shape {
	case "small":
		for k := r.Intn(9); k > 0; k-- {
			bodies = append(bodies, shortBody(r, c.Delim, 20))
		}
		if r.Bool() {
			tail = shortBody(r, c.Delim, 12)
		}
	case "many":
		for k := 30 + r.Intn(220); k > 0; k-- {
			max := 6
			if r.Chance(1, 20) {
				max = 60
			}
			if r.Chance(1, 4) {
				max = 0
			}
			bodies = append(bodies, shortBody(r, c.Delim, max))
		}
		if r.Bool() {
			tail = shortBody(r, c.Delim, 30)
		}
	case "long":
		nb := 1 + r.Intn(4)
		big := r.Intn(nb)
		for k := 0; k < nb; k++ {
			if k == big || r.Chance(1, 5) {
				n := 4000 + r.Intn(3*65536-4000+1)
				if r.Bool() {
					n = hutil.Pick(r, edgeLens)
				}
				bodies = append(bodies, longBody(r, c.Delim, n))
			} else {
				bodies = append(bodies, shortBody(r, c.Delim, 40))
			}
		}
		switch r.Intn(4) {
		case 0:
			tail = longBody(r, c.Delim, 4000+r.Intn(70000))
		case 1:
			tail = shortBody(r, c.Delim, 10)
		}
	case "boundary":
		// records whose delimiter falls on / next to a multiple of the reader's buffer size
		for k := 1 + r.Intn(4); k > 0; k-- {
			n := hutil.Pick(r, []int{4094, 4095, 4096, 4097, 8191, 8192})
			bodies = append(bodies, longBody(r, c.Delim, n))
			if r.Bool() {
				bodies = append(bodies, shortBody(r, c.Delim, 3))
			}
		}
		if r.Bool() {
			tail = longBody(r, c.Delim, hutil.Pick(r, []int{1, 4095, 4096, 4097}))
		}
	case "degenerate":
		switch r.Intn(5) {
		case 0: // empty stream
		case 1: // only a tail
			tail = shortBody(r, c.Delim, 30)
			if len(tail) == 0 {
				tail = []byte{randByte(r, c.Delim)}
			}
		case 2: // only delimiters
			for k := 1 + r.Intn(40); k > 0; k-- {
				bodies = append(bodies, nil)
			}
		case 3: // one record, nothing else
			bodies = append(bodies, shortBody(r, c.Delim, 10))
		case 4: // delimiters then a tail
			for k := 1 + r.Intn(5); k > 0; k-- {
				bodies = append(bodies, nil)
			}
			tail = shortBody(r, c.Delim, 5)
		}
	}
	var stream []byte
	var ends []int // offsets just after each delimiter
	for _, b := range bodies {
		stream = append(stream, b...)
		stream = append(stream, byte(c.Delim))
		ends = append(ends, len(stream))
	}
	stream = append(stream, tail...)
	c.Stream = rle(stream)

	// callback failure index: systematic over the record indices, and beyond
	switch (i / len(shapes)) % 3 {
	case 0:
		c.FailAt = -1
	case 1:
		c.FailAt = (i / (3 * len(shapes))) % (len(bodies) + 1)
		if c.Shape == "many" || r.Chance(1, 3) {
			c.FailAt = r.Intn(len(bodies) + 2)
		}
	case 2:
		if r.Bool() {
			c.FailAt = -1
		} else {
			c.FailAt = r.Intn(len(bodies) + 2)
		}
	}

	// the error on the LAST record (end of stream next, or the tail) more often than chance would have it
	if c.FailAt >= 0 && len(bodies) > 0 && r.Chance(1, 5) {
		c.FailAt = len(bodies) - 1
	}
	// the failing callback may also see / cause the cancellation of Ingest's context before it returns its error
	if c.FailAt >= 0 && r.Chance(3, 5) {
		c.Cancel = hutil.Pick(r, cancelKinds)
		c.WaitCloser = r.Chance(3, 4)
		c.HoldOpen = r.Bool()
		if c.Cancel == "earlier" {
			// the cancellation comes in during an earlier, successful callback (mostly the one just before)
			if c.FailAt == 0 {
				c.Cancel = "in-callback"
			} else if c.CancelAt = c.FailAt - 1; r.Bool() {
				c.CancelAt = r.Intn(c.FailAt)
			}
		}
	}

	// partition into writes
	c.Policy = policies[(i/len(shapes)+i)%len(policies)]
	if c.Policy == "bytewise" && len(stream) > 3000 {
		c.Policy = "blocks"
	}
	if (c.Policy == "tiny") && len(stream) > 20000 {
		c.Policy = "random"
	}
	var sizes []int
	n := len(stream)
	switch c.Policy {
	case "one":
		if n > 0 {
			sizes = []int{n}
		}
	case "two":
		if n > 0 {
			k := r.Intn(n + 1)
			if k > 0 {
				sizes = append(sizes, k)
			}
			if n-k > 0 {
				sizes = append(sizes, n-k)
			}
		}
	case "bytewise":
		for k := 0; k < n; k++ {
			sizes = append(sizes, 1)
		}
	case "tiny":
		for left := n; left > 0; {
			k := 1 + r.Intn(16)
			if k > left {
				k = left
			}
			sizes = append(sizes, k)
			left -= k
		}
	case "random":
		for left := n; left > 0; {
			max := hutil.Pick(r, []int{8, 100, 5000, 70000, 200000})
			k := 1 + r.Intn(max)
			if k > left {
				k = left
			}
			sizes = append(sizes, k)
			left -= k
		}
	case "blocks":
		bs := hutil.Pick(r, []int{7, 512, 4095, 4096, 4097, 65536, 100000})
		for left := n; left > 0; {
			k := bs
			if k > left {
				k = left
			}
			sizes = append(sizes, k)
			left -= k
		}
	case "per-record", "before-delim":
		prev := 0
		for _, e := range ends {
			cut := e
			if c.Policy == "before-delim" {
				cut = e - 1 // the delimiter starts the next write
			}
			if cut > prev {
				sizes = append(sizes, cut-prev)
				prev = cut
			}
		}
		if n > prev {
			sizes = append(sizes, n-prev)
		}
	}
	for _, s := range sizes {
		if k := len(c.Writes); k > 0 && c.Writes[k-1][0] == s {
			c.Writes[k-1][1]++
		} else {
			c.Writes = append(c.Writes, [2]int{s, 1})
		}
	}
	if len(sizes) > 0 && (r.Chance(2, 3) || i%40 == 7) {
		for k := 1 + r.Intn(3); k > 0; k-- {
			c.SleepAt = append(c.SleepAt, r.Intn(len(sizes)))
		}
		c.SleepUs = 100 + r.Intn(1500)
		if i%40 == 7 {
			// a long silence in the middle of the stream, INSIDE a record whenever a write ends inside one: a producer
			// that stalls must not change what is delivered, however long the stall is compared with whatever
			// interval the reader may poll at (magnitudes in rotation: 0.13-0.19 s, 0.55-0.7 s, 1.1-1.3 s)
			c.SleepAt = c.SleepAt[:1]
			isEnd := map[int]bool{}
			lastEnd := 0
			for _, e := range ends {
				isEnd[e] = true
				lastEnd = e
			}
			var inside []int
			off := 0
			for k, s := range sizes {
				off += s
				if !isEnd[off] && off < lastEnd {
					inside = append(inside, k)
				}
			}
			if len(inside) > 0 {
				c.SleepAt[0] = hutil.Pick(r, inside)
			}
			switch (i / 40) % 4 {
			case 1:
				c.SleepUs = 550000 + r.Intn(150000)
			case 3:
				c.SleepUs = 1100000 + r.Intn(200000)
			default:
				c.SleepUs = 130000 + r.Intn(60000)
			}
		}
	}
	return c
}

func writeSizes(c pipeCase) []int {
	var sizes []int
	for _, w := range c.Writes {
		for k := 0; k < w[1]; k++ {
			sizes = append(sizes, w[0])
		}
	}
	return sizes
}
