//go:build verif

package main

import (
	"fmt"
	"strings"

	"github.com/metal-toolbox/audito-maldito/ingesters/syslog"
	"github.com/metal-toolbox/audito-maldito/internal/verifharness/hutil"
)

// syslogCase is one generated entry for ParseSyslogMessage. For the "framed" form the entry
// is Tok + " " + Pad spaces + Msg and the expected result is (Tok, Msg).
type syslogCase struct {
	Form  string `json:"form"`
	Entry string `json:"entry"`
	Tok   string `json:"tok,omitempty"`
	Pad   int    `json:"pad,omitempty"`
	Msg   string `json:"msg,omitempty"`
}

type syslogObs struct {
	PID string `json:"pid"`
	Msg string `json:"message"`
}

var syslogForms = []string{"framed", "framed", "framed", "framed-nl", "nospace", "empty", "leading-space", "spaces-only", "bytes"}

func word(r *hutil.Rand) string {
	switch r.Intn(6) {
	case 0:
		return hutil.Pick(r, []string{"Accepted", "publickey", "for", "from", "port", "ssh2:", "Failed", "password", "invalid", "user"})
	case 1:
		return hutil.Pick(r, []string{"ü", "日本", "\t", "\x00", "\xff", "a\nb", "'", "\""})
	}
	n := 1 + r.Intn(8)
	b := make([]byte, n)
	for i := range b {
		b[i] = byte('!' + r.Intn(94))
	}
	return string(b)
}

func genSyslogCase(r *hutil.Rand, i int) syslogCase {
	c := syslogCase{Form: syslogForms[i%len(syslogForms)]}
	switch c.Form {
	case "framed", "framed-nl":
		c.Tok = hutil.Pick(r, []string{"", "1", "4242", "-7", "99999999999999999999", "abc", "12x"})
		if r.Chance(1, 3) {
			c.Tok = word(r)
			c.Tok = strings.ReplaceAll(c.Tok, " ", "")
		}
		c.Pad = hutil.Pick(r, []int{0, 0, 0, 1, 2, 5})
		var sb strings.Builder
		for k := r.Intn(8); k > 0; k-- {
			sb.WriteString(word(r))
			if k > 1 || r.Chance(1, 4) { // internal runs of spaces, sometimes trailing ones
				sb.WriteString(strings.Repeat(" ", 1+r.Intn(3)))
			}
		}
		c.Msg = sb.String()
		if c.Form == "framed-nl" {
			c.Msg += "\n"
		}
		c.Entry = c.Tok + " " + strings.Repeat(" ", c.Pad) + c.Msg
	case "nospace":
		c.Entry = strings.ReplaceAll(word(r)+word(r), " ", "")
	case "empty":
		c.Entry = ""
	case "leading-space":
		c.Entry = strings.Repeat(" ", 1+r.Intn(3)) + word(r) + " " + word(r)
	case "spaces-only":
		c.Entry = strings.Repeat(" ", 1+r.Intn(5))
	case "bytes":
		n := r.Intn(30)
		b := make([]byte, n)
		for k := range b {
			if r.Chance(1, 4) {
				b[k] = ' '
			} else {
				b[k] = byte(r.Intn(256))
			}
		}
		c.Entry = string(b)
	}
	return c
}

func runSyslog(c syslogCase) syslogObs {
	var si syslog.SyslogIngester
	e := si.ParseSyslogMessage(c.Entry)
	return syslogObs{PID: e.PID, Msg: e.Message}
}

// oracle from the generated parts alone
func judgeSyslog(c syslogCase, o syslogObs) []failure {
	switch {
	case strings.HasPrefix(c.Form, "framed"):
		if strings.HasPrefix(c.Msg, " ") || strings.Contains(c.Tok, " ") {
			return nil
		}
		if o.PID != c.Tok || o.Msg != c.Msg {
			return []failure{{"syslog:fields", fmt.Sprintf("entry %q parsed as (%q, %q); it was built from token %q, %d extra spaces and message %q", c.Entry, o.PID, o.Msg, c.Tok, c.Pad, c.Msg)}}
		}
	case !strings.Contains(c.Entry, " "):
		if o.PID != "" || o.Msg != "" {
			return []failure{{"syslog:no-space", fmt.Sprintf("entry %q has no space but parsed as (%q, %q)", c.Entry, o.PID, o.Msg)}}
		}
	}
	return nil
}

func coqSyslogCase(c syslogCase, o syslogObs) string {
	return fmt.Sprintf("YCase %s %s %s", hutil.CoqStr(c.Entry), hutil.CoqStr(o.PID), hutil.CoqStr(o.Msg))
}
