//go:build verif

package main

import (
	"fmt"
	"github.com/metal-toolbox/audito-maldito/processors/auditd"
	"strings"

	"github.com/metal-toolbox/audito-maldito/internal/verifharness/hutil"
)

// ---------- generated cases (concrete: a replay file holds exactly this) ----------

// Item is one step of a case.
type Item struct {
	Kind string `json:"kind"`           // line | tick | pause | login | cancel | sync (buffered channel: wait until the queued lines have been processed)
	Hold bool   `json:"hold,omitempty"` // buffered channel: keep the callback of this line's event waiting until the rest of the batch is queued
	Text string `json:"text,omitempty"`
	// generator's knowledge about a line (the oracle uses only this, never the parser)
	Empty bool   `json:"empty,omitempty"`
	Bad   string `json:"bad,omitempty"` // kind of malformation
	Seq   uint32 `json:"seq,omitempty"`
	Typ   string `json:"typ,omitempty"`
	Ses   string `json:"ses,omitempty"`
	// login
	Login *Login `json:"login,omitempty"`
}

type Login struct {
	ID      int    `json:"id"`
	PID     int    `json:"pid"`
	Invalid string `json:"invalid,omitempty"` // "" | zeropid | nocred | nosource
}

type Case struct {
	Level     int    `json:"level"`
	Mode      string `json:"mode"`
	MaxSz     int    `json:"maxsz,omitempty"`
	TimeoutMs int    `json:"timeout_ms,omitempty"`
	PauseMs   int    `json:"pause_ms,omitempty"`
	FailAt    []int  `json:"fail_at,omitempty"`
	AfterSec  int64  `json:"after_sec,omitempty"`               // level 1: the After filter (0 = zero time)
	Debug     bool   `json:"debug_logging,omitempty"`           // audit processor (and its correlator) log at DEBUG level
	Transient bool   `json:"transient,omitempty"`               // level 2: only the write after Budget successful ones fails, later writes succeed again
	Budget    int    `json:"budget"`                            // level 2: successful writes before failing (-1 = never fails)
	Buf       int    `json:"audits_channel_capacity,omitempty"` // > 0: the lines go through a buffered channel in batches (backlog.go)
	Items     []Item `json:"items"`
	// preconditions of the grouping oracle, as known to the generator
	LateRecord bool `json:"late_record,omitempty"` // a record follows its event's terminator
	Unordered  bool `json:"unordered,omitempty"`   // sequence numbers not increasing with event start
}

// ---------- audit record templates (shapes taken from processors/auditd/testdata) ----------

const baseSec = 1668460000

type kev struct {
	seq  uint32
	sec  int64
	ms   int
	ses  string
	pid  int
	recs []Item
}

func hdr(e *kev) string { return fmt.Sprintf("audit(%d.%03d:%d)", e.sec, e.ms, e.seq) }

func mk(e *kev, typ, body string) Item {
	return Item{Kind: "line", Text: "type=" + typ + " msg=" + hdr(e) + ": " + body, Seq: e.seq, Typ: typ, Ses: e.ses}
}

var cmds = []struct{ comm, exe, a1, title string }{
	{"ls", "/usr/bin/ls", "--color=auto", "6C73002D2D636F6C6F723D6175746F"},
	{"cat", "/usr/bin/cat", "/etc/resolv.conf", "636174002F6574632F7265736F6C762E636F6E66"},
	{"uname", "/usr/bin/uname", "-p", "756E616D65002D70"},
	{"ethtool", "/usr/sbin/ethtool", "-T", "2F7573722F7362696E2F657468746F6F6C002D54"},
}

func auidOf(ses string) string {
	if ses == "4294967295" {
		return "4294967295"
	}
	return "1000"
}

// kernelEvent: SYSCALL [EXECVE] CWD PATH{1,2} PROCTITLE [EOE]; term: "proctitle+eoe" | "proctitle" | "eoe" | "none"
func kernelEvent(r *hutil.Rand, e *kev, term string) {
	c := hutil.Pick(r, cmds)
	nPath := 1 + r.Intn(2)
	e.recs = append(e.recs, mk(e, "SYSCALL", fmt.Sprintf("arch=c000003e syscall=59 success=yes exit=0 a0=56430ae99960 a1=56430aea8040 a2=56430aef7f30 a3=8 items=%d ppid=%d pid=%d auid=%s uid=1000 gid=1000 euid=1000 suid=1000 fsuid=1000 egid=1000 sgid=1000 fsgid=1000 tty=pts3 ses=%s comm=%q exe=%q key=\"operator-commands\"\x1dARCH=x86_64 SYSCALL=execve AUID=\"someuser\" UID=\"someuser\" GID=\"someuser\" EUID=\"someuser\" SUID=\"someuser\" FSUID=\"someuser\" EGID=\"someuser\" SGID=\"someuser\" FSGID=\"someuser\"",
		nPath, e.pid-1, e.pid, auidOf(e.ses), e.ses, c.comm, c.exe)))
	if r.Chance(3, 4) {
		e.recs = append(e.recs, mk(e, "EXECVE", fmt.Sprintf("argc=2 a0=%q a1=%q", c.comm, c.a1)))
	}
	e.recs = append(e.recs, mk(e, "CWD", `cwd="/home/someuser"`))
	e.recs = append(e.recs, mk(e, "PATH", fmt.Sprintf("item=0 name=%q inode=1442550 dev=fd:00 mode=0100755 ouid=0 ogid=0 rdev=00:00 nametype=NORMAL cap_fp=0 cap_fi=0 cap_fe=0 cap_fver=0 cap_frootid=0\x1dOUID=\"root\" OGID=\"root\"", c.exe)))
	if nPath == 2 {
		e.recs = append(e.recs, mk(e, "PATH", `item=1 name="/lib64/ld-linux-x86-64.so.2" inode=1448144 dev=fd:00 mode=0100755 ouid=0 ogid=0 rdev=00:00 nametype=NORMAL cap_fp=0 cap_fi=0 cap_fe=0 cap_fver=0 cap_frootid=0`+"\x1d"+`OUID="root" OGID="root"`))
	}
	if term == "proctitle+eoe" || term == "proctitle" {
		e.recs = append(e.recs, mk(e, "PROCTITLE", "proctitle="+c.title))
	}
	if term == "proctitle+eoe" || term == "eoe" {
		eoe := mk(e, "EOE", "")
		eoe.Text = strings.TrimRight(eoe.Text, " ")
		e.recs = append(e.recs, eoe)
	}
}

var singleTypes = []string{"USER_LOGIN", "USER_START", "USER_END", "CRED_ACQ", "USER_ACCT", "USER_CMD", "SERVICE_START", "CRED_REFR"}

func singleEvent(e *kev, typ string) {
	switch typ {
	case "LOGIN":
		e.recs = append(e.recs, mk(e, "LOGIN", fmt.Sprintf("pid=%d uid=0 old-auid=4294967295 auid=1000 tty=(none) old-ses=4294967295 ses=%s res=1\x1dUID=\"root\" OLD-AUID=\"unset\" AUID=\"someuser\"", e.pid, e.ses)))
	case "LOGIN_BADPID":
		it := mk(e, "LOGIN", fmt.Sprintf("pid=x%d uid=0 old-auid=4294967295 auid=1000 tty=(none) old-ses=4294967295 ses=%s res=1\x1dUID=\"root\" OLD-AUID=\"unset\" AUID=\"someuser\"", e.pid, e.ses))
		e.recs = append(e.recs, it)
	case "USER_CMD":
		e.recs = append(e.recs, mk(e, typ, fmt.Sprintf("pid=%d uid=1000 auid=%s ses=%s msg='cwd=\"/home/someuser\" cmd=73797374656D63746C20737461747573 exe=\"/usr/bin/sudo\" terminal=pts/3 res=success'\x1dUID=\"someuser\" AUID=\"someuser\"", e.pid, auidOf(e.ses), e.ses)))
	case "SERVICE_START":
		e.recs = append(e.recs, mk(e, typ, fmt.Sprintf("pid=1 uid=0 auid=4294967295 ses=4294967295 msg='unit=user@%d comm=\"systemd\" exe=\"/usr/lib/systemd/systemd\" hostname=? addr=? terminal=? res=success'\x1dUID=\"root\" AUID=\"unset\"", e.pid)))
	default:
		op := map[string]string{"USER_LOGIN": "login id=1000", "USER_START": "PAM:session_open grantors=pam_loginuid,pam_env,pam_permit,pam_umask,pam_unix,pam_limits acct=\"someuser\"",
			"USER_END": "PAM:session_close grantors=pam_selinux,pam_loginuid,pam_keyinit acct=\"someuser\"", "CRED_ACQ": "PAM:setcred grantors=pam_permit,pam_cap acct=\"someuser\"",
			"CRED_DISP": "PAM:setcred grantors=pam_permit acct=\"someuser\"", "USER_ACCT": "PAM:accounting grantors=pam_permit acct=\"someuser\"", "CRED_REFR": "PAM:setcred grantors=pam_permit acct=\"someuser\""}[typ]
		e.recs = append(e.recs, mk(e, typ, fmt.Sprintf("pid=%d uid=0 auid=%s ses=%s msg='op=%s exe=\"/usr/sbin/sshd\" hostname=127.0.0.1 addr=127.0.0.1 terminal=ssh res=success'\x1dUID=\"root\" AUID=\"someuser\"", e.pid, auidOf(e.ses), e.ses, op)))
	}
}

// merge interleaves the records of the events at random, keeping each event's own order.
func merge(r *hutil.Rand, evs []*kev) []Item {
	idx := make([]int, len(evs))
	var out []Item
	for {
		var live []int
		for i, e := range evs {
			if idx[i] < len(e.recs) {
				live = append(live, i)
			}
		}
		if len(live) == 0 {
			return out
		}
		i := hutil.Pick(r, live)
		out = append(out, evs[i].recs[idx[i]])
		idx[i]++
	}
}

func malformed(r *hutil.Rand, e *kev) Item {
	kind := hutil.Pick(r, []string{"garbage", "truncated-header", "no-msg", "bad-type", "bad-seq", "no-type"})
	var t string
	switch kind {
	case "garbage":
		t = fmt.Sprintf("\x00\x01 not an audit record %d ~~~", e.seq)
	case "truncated-header":
		t = fmt.Sprintf("type=SYSCALL msg=audit(%d.%03d:%d", e.sec, e.ms, e.seq)
	case "no-msg":
		t = fmt.Sprintf("type=SYSCALL arch=c000003e syscall=59 success=yes exit=0 pid=%d", e.pid)
	case "bad-type":
		t = fmt.Sprintf("type=NOT_A_TYPE msg=audit(%d.%03d:%d): pid=%d", e.sec, e.ms, e.seq, e.pid)
	case "bad-seq":
		t = fmt.Sprintf("type=CWD msg=audit(%d.%03d:seq%d): cwd=\"/\"", e.sec, e.ms, e.seq)
	case "no-type":
		t = fmt.Sprintf("msg=audit(%d.%03d:%d): cwd=\"/\"", e.sec, e.ms, e.seq)
	}
	return Item{Kind: "line", Text: t, Bad: kind}
}

type genState struct {
	r     *hutil.Rand
	seq   uint32
	ord   int64
	pid   int
	gap   bool
	shuf  bool
	spare []uint32
	// "far" mode: a second cluster of sequence numbers, more than 2^24-1 above the first; each new event takes its
	// number from one of the two
	far    bool
	seqFar uint32
}

func (g *genState) newEv(ses string, pid int) *kev {
	g.ord++
	step := uint32(1)
	if g.gap && g.r.Chance(1, 4) {
		step += uint32(1 + g.r.Intn(5))
	}
	seq := g.seq + step // uint32: wraps from 2^32-1 to 0
	if g.far && g.r.Bool() {
		g.seqFar += step
		seq = g.seqFar
	} else {
		g.seq = seq
	}
	if pid == 0 {
		g.pid += 1 + g.r.Intn(7)
		pid = g.pid
	}
	return &kev{seq: seq, sec: baseSec + g.ord, ms: g.r.Intn(1000), ses: ses, pid: pid}
}

// block: 1..3 kernel events interleaved
func (g *genState) kernelBlock(n int, ses func() string, term func() string) ([]Item, []*kev) {
	var evs []*kev
	for i := 0; i < n; i++ {
		e := g.newEv(ses(), 0)
		kernelEvent(g.r, e, term())
		evs = append(evs, e)
	}
	if g.shuf && n > 1 && g.r.Chance(1, 2) {
		// the event that starts later carries the lower sequence number
		a, b := 0, n-1
		sa, sb := evs[a].seq, evs[b].seq
		reseq(evs[a], sb)
		reseq(evs[b], sa)
	}
	return merge(g.r, evs), evs
}

func reseq(e *kev, s uint32) {
	old := fmt.Sprintf(":%d)", e.seq)
	nw := fmt.Sprintf(":%d)", s)
	e.seq = s
	for i := range e.recs {
		e.recs[i].Text = strings.Replace(e.recs[i].Text, old, nw, 1)
		e.recs[i].Seq = s
	}
}

func insertAt(items []Item, pos int, it Item) []Item {
	items = append(items, Item{})
	copy(items[pos+1:], items[pos:])
	items[pos] = it
	return items
}

func sprinkleEmpty(r *hutil.Rand, items []Item) []Item {
	n := r.Intn(4)
	for i := 0; i < n; i++ {
		items = insertAt(items, r.Intn(len(items)+1), Item{Kind: "line", Empty: true})
	}
	return items
}

// padSomeLine makes one record of the stream long: a quoted path value is padded so that the record's length falls
// near one of the sizes at which buffers end (audit's own 8970-byte message limit and its 255-byte margin, bufio's
// 4096, 16 KiB, a pipe's 64 KiB) or anywhere below 20000 bytes.  A long record is a record like any other.
func padSomeLine(r *hutil.Rand, items []Item) {
	var cand []int
	for i, it := range items {
		if it.Kind == "line" && !it.Empty && it.Bad == "" && (it.Typ == "PATH" || it.Typ == "CWD" || it.Typ == "USER_CMD") && strings.Contains(it.Text, "=\"/") {
			cand = append(cand, i)
		}
	}
	if len(cand) == 0 {
		return
	}
	i := hutil.Pick(r, cand)
	target := hutil.Pick(r, []int{4096, 8192, 8970, 9225, 9226, 16384, 65536}) + r.Intn(9) - 4
	if r.Chance(1, 3) {
		target = 300 + r.Intn(20000)
	}
	n := target - len(items[i].Text)
	if n <= 0 {
		return
	}
	pad := make([]byte, n)
	for k := range pad {
		pad[k] = "abcdefghijklmnopqrstuvwxyz0123456789-_."[(k*7+n)%39]
	}
	items[i].Text = strings.Replace(items[i].Text, "=\"/", "=\"/"+string(pad)+"/", 1)
}

// ---------- level 1 ----------

var l1Modes = []string{"clean", "badline", "badline", "faults", "faults", "after", "smallmax", "smallmax", "unterminated", "late", "expiry", "gaps", "wrap", "far"}

// orderBySource: the stream's sequence numbers are not inside one window of 2^24 (they straddle the 2^32 wrap or form two
// clusters further apart than 2^24-1), so go-libaudit's Less is not the plain order; the case is compared with the
// model ordered by the source's comparison (A1W in the case file).  Both modes keep ALL numbers of the stream in two
// clusters of diameter < 2^24 lying further apart than 2^24-1: there Less is a strict total order and sort.Sort's
// result is determined.  Three or more far-apart clusters (where Less is not transitive and the result of sort.Sort
// depends on its algorithm) are left out.
func orderBySource(mode string) bool { return mode == "wrap" || mode == "far" }

func genL1(r *hutil.Rand, i int) Case {
	mode := l1Modes[i%len(l1Modes)]
	// the reassembler is built with the daemon's own in-flight limit (smallmax overrides it below)
	c := Case{Level: 1, Mode: mode, MaxSz: auditd.VerifC15MaxEventsInFlight, TimeoutMs: 2000, Budget: -1}
	g := &genState{r: r, seq: uint32(30000 + r.Intn(100000)), pid: 2000 + r.Intn(20000)}
	g.gap = mode == "gaps" || r.Chance(1, 5)
	g.shuf = mode == "gaps" || r.Chance(1, 6)
	switch mode {
	case "wrap":
		// the first events are numbered just below 2^32, the later ones from 0 on
		g.seq = uint32(1<<32 - 1 - r.Intn(12))
	case "far":
		// the lower cluster grows by at most 6 per event and a case has fewer than 30 events: it stays below seq+farMargin,
		// so every number of the upper cluster is more than maxSortRange = 2^24-1 above every number of the lower one
		// (a stream in which only SOME cross pairs are further apart than 2^24-1 makes Less cyclic: sort.Sort's result
		// then depends on its algorithm; found when this generator first drew such streams, and left out)
		const farMargin = 200
		g.far = true
		g.seqFar = g.seq + farMargin + 1<<24 + uint32(r.Intn(1<<26))
		if r.Chance(1, 4) {
			g.seqFar = g.seq + farMargin + 1<<24 - 1 + uint32(r.Intn(3)) // as close to the boundary as the margin allows
		}
	}
	c.Unordered = g.shuf
	sesPool := []string{"499", "501", "4294967295"}
	ses := func() string { return hutil.Pick(r, sesPool) }
	term := func() string {
		switch {
		case (mode == "unterminated" || orderBySource(mode)) && r.Chance(1, 2):
			return "none"
		case r.Chance(1, 3):
			return "proctitle"
		case r.Chance(1, 5):
			return "eoe"
		}
		return "proctitle+eoe"
	}
	var items []Item
	var all []*kev
	nBlocks := 2 + r.Intn(4)
	for b := 0; b < nBlocks; b++ {
		if r.Chance(2, 5) {
			e := g.newEv(ses(), 0)
			singleEvent(e, hutil.Pick(r, append(singleTypes, "LOGIN", "CRED_DISP")))
			items = append(items, e.recs...)
			all = append(all, e)
			continue
		}
		n := 1 + r.Intn(3)
		if mode == "smallmax" || mode == "clean" || orderBySource(mode) {
			n = 2 + r.Intn(2)
		}
		its, evs := g.kernelBlock(n, ses, term)
		items = append(items, its...)
		all = append(all, evs...)
	}
	if orderBySource(mode) && r.Chance(2, 3) {
		// a small limit makes the ORDER of the buffer decide which event an overflow evicts
		c.MaxSz = 1 + r.Intn(3)
	}
	switch mode {
	case "smallmax":
		c.MaxSz = 1 + r.Intn(2)
	case "late":
		// a record of an already terminated event arrives after the terminator
		e := all[r.Intn(len(all))]
		late := mk(e, "PATH", fmt.Sprintf("item=7 name=\"/late/%d\" inode=1 dev=fd:00 mode=0100755 ouid=0 ogid=0 rdev=00:00 nametype=NORMAL", e.seq))
		pos := -1
		for k, it := range items {
			if it.Seq == e.seq {
				pos = k
			}
		}
		items = insertAt(items, pos+1+r.Intn(len(items)-pos), late)
		c.LateRecord = true
	case "expiry":
		c.TimeoutMs = 60
		c.PauseMs = 150
		np := 1 + r.Intn(2)
		for k := 0; k < np; k++ {
			pos := r.Intn(len(items) + 1)
			items = insertAt(items, pos, Item{Kind: "tick"})
			items = insertAt(items, pos, Item{Kind: "pause"})
		}
	case "after":
		c.AfterSec = baseSec + 1 + int64(r.Intn(int(g.ord)+1))
	}
	if mode == "unterminated" || orderBySource(mode) || r.Chance(1, 4) {
		for k := 0; k < 1+r.Intn(2); k++ {
			items = insertAt(items, r.Intn(len(items)+1), Item{Kind: "tick"})
		}
	}
	if mode == "badline" || r.Chance(1, 10) {
		e := g.newEv("499", 0)
		items = insertAt(items, r.Intn(len(items)+1), malformed(r, e))
	}
	if r.Chance(1, 5) {
		padSomeLine(r, items)
	}
	if mode == "faults" {
		nf := 1 + r.Intn(3)
		for k := 0; k < nf; k++ {
			c.FailAt = append(c.FailAt, r.Intn(len(all)))
		}
	}
	c.Items = sprinkleEmpty(r, items)
	return c
}

// ---------- level 2 ----------

var l2Modes = []string{"clean", "badline", "writefail", "writefail", "badlogin", "badpid", "latelogin-writefail", "badline", "writefail-once"}

func genL2(r *hutil.Rand, i int) Case { return genL2Mode(r, l2Modes[i%len(l2Modes)]) }

const modeMulti = "multisession-writefail-once"

// genL2Multi: SEVERAL audit sessions opened by ONE sshd process (two or three LOGIN records with different ses= and the
// same pid=) are waiting for their login at the same time, each holding some events; then the login of that pid
// arrives.  Which of the sessions the correlator gives the login to is its own business (Model/Tracker.v: the choice
// argument of the scan) - what C15 states is independent of that: an event write the sink rejects is an error the
// correlator reports, and that error stops the processor.  The sink rejects exactly ONE write (transient), the k-th:
// k = 0 half of the time, otherwise anywhere among the writes a flush of everything held would make (budget < 0:
// drawn here; the sweep passes every k in turn).  Judged by the oracle only.
func genL2Multi(r *hutil.Rand, budget int) (Case, int) {
	c := Case{Level: 2, Mode: modeMulti, Budget: -1, Transient: true}
	g := &genState{r: r, seq: uint32(30000 + r.Intn(100000)), pid: 2000 + r.Intn(20000)}
	sshdPid := 25000 + r.Intn(1000)
	m := 2 + r.Intn(2)
	sids := make([]string, m)
	tracked := map[string]bool{}
	next := 400 + r.Intn(200)
	for j := range sids {
		sids[j] = fmt.Sprint(next)
		tracked[sids[j]] = true
		next += 1 + r.Intn(3)
	}
	loginID := 0
	mkLogin := func(pid int) Item {
		loginID++
		return Item{Kind: "login", Login: &Login{ID: loginID, PID: pid}}
	}
	var items []Item
	single := func(ses string, pid int, typ string) {
		e := g.newEv(ses, pid)
		singleEvent(e, typ)
		items = append(items, e.recs...)
	}
	block := func(n int, ses func() string) int {
		its, evs := g.kernelBlock(n, ses, func() string {
			if r.Chance(1, 3) {
				return "proctitle"
			}
			return "proctitle+eoe"
		})
		items = append(items, its...)
		k := 0
		for _, e := range evs {
			if tracked[e.ses] {
				k++
			}
		}
		return k
	}
	mix := func() string {
		if r.Chance(3, 4) {
			return hutil.Pick(r, sids)
		}
		return "4294967295"
	}
	if r.Chance(1, 2) {
		block(1+r.Intn(2), func() string { return "4294967295" })
	}
	single("4294967295", sshdPid, "CRED_ACQ")
	held := 0
	// the sessions open one after the other, or the later ones after the earlier ones have held something
	for j, sid := range sids {
		single(sid, sshdPid, "LOGIN")
		held++
		if j == 0 || r.Bool() {
			single(sid, sshdPid, "USER_START")
			held++
		}
		if r.Chance(1, 3) {
			held += block(1+r.Intn(2), mix)
		}
	}
	for n := r.Intn(3); n > 0; n-- {
		if r.Bool() {
			held += block(1+r.Intn(2), mix)
		} else {
			single(hutil.Pick(r, sids), sshdPid, hutil.Pick(r, []string{"USER_CMD", "CRED_REFR", "USER_ACCT"}))
			held++
		}
	}
	if r.Chance(1, 4) {
		// one of them has already ended when the login arrives
		sid := hutil.Pick(r, sids)
		single(sid, sshdPid, "USER_END")
		single(sid, sshdPid, "CRED_DISP")
		held += 2
	}
	items = append(items, mkLogin(sshdPid), mkLogin(90000+r.Intn(1000)))
	for n := r.Intn(3); n > 0; n-- {
		block(1+r.Intn(2), mix)
	}
	for _, sid := range sids {
		if r.Chance(2, 3) {
			single(sid, sshdPid, "USER_END")
			single(sid, sshdPid, "CRED_DISP")
		}
	}
	switch {
	case budget >= 0:
		c.Budget = budget
	case r.Bool():
		c.Budget = 0
	default:
		c.Budget = r.Intn(held)
	}
	items = append(items, Item{Kind: "cancel"})
	c.Items = items
	return c, held
}

func genL2Mode(r *hutil.Rand, mode string) Case {
	c := Case{Level: 2, Mode: mode, Budget: -1}
	g := &genState{r: r, seq: uint32(30000 + r.Intn(100000)), pid: 2000 + r.Intn(20000)}
	sshdPid := 25000 + r.Intn(1000)
	sid := fmt.Sprint(400 + r.Intn(200))
	loginID := 0
	mkLogin := func(pid int, invalid string) Item {
		loginID++
		return Item{Kind: "login", Login: &Login{ID: loginID, PID: pid, Invalid: invalid}}
	}
	var items []Item
	single := func(ses string, pid int, typ string) {
		e := g.newEv(ses, pid)
		singleEvent(e, typ)
		items = append(items, e.recs...)
	}
	block := func(n int, ses func() string) int {
		its, evs := g.kernelBlock(n, ses, func() string {
			if r.Chance(1, 3) {
				return "proctitle"
			}
			return "proctitle+eoe"
		})
		items = append(items, its...)
		k := 0
		for _, e := range evs {
			if e.ses == sid {
				k++
			}
		}
		return k
	}
	mix := func() string {
		if r.Chance(2, 3) {
			return sid
		}
		return "4294967295"
	}
	// unrelated traffic before the session
	if r.Chance(1, 2) {
		block(1+r.Intn(2), func() string { return "4294967295" })
	}
	single("4294967295", sshdPid, "CRED_ACQ")
	late := mode == "latelogin-writefail" || (mode != "writefail-once" && r.Chance(1, 4))
	if !late {
		items = append(items, mkLogin(sshdPid, ""), mkLogin(90000+r.Intn(1000), ""))
	}
	if mode == "badpid" {
		single(sid, sshdPid, "LOGIN_BADPID")
	} else {
		single(sid, sshdPid, "LOGIN")
	}
	nSess := 1 // the LOGIN event
	single(sid, sshdPid, "USER_START")
	nSess++
	nb := 1 + r.Intn(3)
	for b := 0; b < nb; b++ {
		nSess += block(1+r.Intn(3), mix)
		if r.Chance(1, 3) {
			single(sid, sshdPid, hutil.Pick(r, []string{"USER_CMD", "CRED_REFR", "USER_ACCT"}))
			nSess++
		}
	}
	if late {
		items = append(items, mkLogin(sshdPid, ""), mkLogin(90000+r.Intn(1000), ""))
	}
	if r.Chance(2, 3) {
		nSess += block(1+r.Intn(2), mix)
	}
	single(sid, sshdPid, "USER_END")
	single(sid, sshdPid, "CRED_DISP")
	nSess += 2
	if r.Chance(1, 2) {
		block(1, func() string { return "4294967295" })
	}
	switch mode {
	case "badline":
		e := g.newEv("499", 0)
		items = insertAt(items, r.Intn(len(items)+1), malformed(r, e))
	case "writefail", "latelogin-writefail":
		c.Budget = r.Intn(nSess)
	case "writefail-once":
		// a transient failure: the sink rejects exactly one write (at the session's first event half of the time)
		c.Transient = true
		if r.Bool() {
			c.Budget = 0
		} else {
			c.Budget = r.Intn(nSess)
		}
	case "badlogin":
		items = insertAt(items, r.Intn(len(items)+1), mkLogin(70000+r.Intn(100), hutil.Pick(r, []string{"zeropid", "nocred", "nosource"})))
	}
	if r.Chance(1, 5) {
		padSomeLine(r, items)
	}
	// empty lines (never between a login and its barrier login)
	n := r.Intn(3)
	for k := 0; k < n; k++ {
		pos := r.Intn(len(items) + 1)
		if pos > 0 && pos < len(items) && items[pos-1].Kind == "login" && items[pos].Kind == "login" {
			continue
		}
		items = insertAt(items, pos, Item{Kind: "line", Empty: true})
	}
	items = append(items, Item{Kind: "cancel"})
	c.Items = items
	return c
}
