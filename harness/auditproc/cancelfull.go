//go:build verif

package main

import (
	"context"
	"errors"
	"fmt"
	"strings"
	"sync"
	"sync/atomic"
	"time"

	"github.com/metal-toolbox/auditevent"

	"github.com/metal-toolbox/audito-maldito/internal/common"
	"github.com/metal-toolbox/audito-maldito/internal/health"
	"github.com/metal-toolbox/audito-maldito/internal/verifharness/hutil"
	"github.com/metal-toolbox/audito-maldito/processors/auditd"
)

// -mode cancelfull (C08 at package level): the real Auditd.Read must RETURN - the errgroup cancels the other workers
// only once it has - when its context is cancelled or when it fails on its own (an invalid login, an event that cannot
// be written), while one or two producers keep its Audits channel non-empty before, during AND AFTER the fault, exactly
// as the audit pipe ingester does in the daemon until the group context is cancelled.  Channel capacities: unbuffered,
// 1, 64 and the daemon's 10000.  Bound: 2 s.

const cfBound = 2 * time.Second

type cfScenario struct {
	Cause     string `json:"cause"` // cancel | invalid-login | write-error
	Cap       int    `json:"audits_channel_capacity"`
	Producers int    `json:"producers"`
	Debug     bool   `json:"debug_logging,omitempty"`
}

type cfResult struct {
	Scenario cfScenario `json:"scenario"`
	Returned bool       `json:"returned"`
	Millis   int64      `json:"ms"`
	Ret      string     `json:"read_returned,omitempty"`
	Fed      int64      `json:"lines_taken_before_the_fault"`
	FedAfter int64      `json:"lines_taken_after_the_fault"`
	Harness  string     `json:"harness_problem,omitempty"`
	FailKey  string     `json:"fail_key,omitempty"`
	What     string     `json:"what,omitempty"`
}

type switchEnc struct {
	mu   sync.Mutex
	fail bool
	n    int
}

func (e *switchEnc) Encode(any) error {
	e.mu.Lock()
	defer e.mu.Unlock()
	if e.fail {
		return errInjected
	}
	e.n++
	return nil
}

func (e *switchEnc) written() int {
	e.mu.Lock()
	defer e.mu.Unlock()
	return e.n
}

func runCancelFull(sc cfScenario) (res cfResult) {
	res.Scenario = sc
	if sc.Debug { // (the package logger is global: debug scenarios run one at a time)
		auditd.SetLogger(hutil.Logger(true))
		defer auditd.SetLogger(hutil.Logger(false))
	}
	enc := &switchEnc{}
	lines := make(chan string, sc.Cap)
	logins := make(chan common.RemoteUserLogin)
	a := auditd.Auditd{Audits: lines, Logins: logins, EventW: auditevent.NewAuditEventWriter(enc),
		Health: health.NewSingleReadinessHealth(auditd.AuditdProcessorComponentName)}
	ctx, cancel := context.WithCancel(context.Background())
	defer cancel()
	done := make(chan error, 1)
	go func() { done <- a.Read(ctx) }()

	stop := make(chan struct{})
	var wg sync.WaitGroup
	var taken atomic.Int64
	inject := make(chan string, 4)
	for p := 0; p < sc.Producers; p++ {
		wg.Add(1)
		go func(p int) { // single-record events of sessions nobody logged in to
			defer wg.Done()
			seq := 1000 + p*100000000
			for {
				var line string
				select {
				case line = <-inject:
				default:
					seq++
					line = fmt.Sprintf("type=USER_CMD msg=audit(1690000000.%03d:%d): pid=5000 uid=1000 auid=1000 ses=%d msg='cwd=\"/home/someuser\" cmd=6C73 exe=\"/usr/bin/sudo\" terminal=pts/3 res=success'", seq%1000, seq, 70+p)
				}
				select {
				case lines <- line:
					taken.Add(1)
				case <-stop:
					return
				}
			}
		}(p)
	}
	defer func() {
		close(stop)
		wg.Wait()
	}()
	early := func(what string) bool {
		select {
		case err := <-done:
			res.Harness = fmt.Sprintf("Read returned before the fault (%s): %v", what, err)
			return true
		default:
			return false
		}
	}
	// let the load build up: the channel has been full at least once and a good number of lines went through
	dl := time.Now().Add(5 * time.Second)
	for taken.Load() < int64(2*sc.Cap+2000) && time.Now().Before(dl) {
		time.Sleep(time.Millisecond)
	}
	if early("warm-up") {
		return
	}
	sendLogin := func(l common.RemoteUserLogin) bool {
		select {
		case logins <- l:
			return true
		case <-time.After(cfBound):
			res.Harness = "Read did not take a login within 2 s"
			return false
		}
	}
	const pid, ses = 7100, 910
	want := ""
	switch sc.Cause {
	case "cancel":
		want = context.Canceled.Error()
	case "invalid-login":
		want = "failed to handle remote user login"
	case "write-error":
		want = errInjected.Error()
		// a correlated session while the sink still works ...
		if !sendLogin(mkRUL(&Login{ID: 1, PID: pid})) {
			return
		}
		inject <- fmt.Sprintf("type=LOGIN msg=audit(1690000001.000:5): pid=%d uid=0 old-auid=4294967295 auid=1000 tty=(none) old-ses=4294967295 ses=%d res=1", pid, ses)
		dl := time.Now().Add(5 * time.Second)
		for enc.written() < 1 && time.Now().Before(dl) {
			time.Sleep(200 * time.Microsecond)
		}
		if enc.written() < 1 {
			res.Harness = "the LOGIN record's event was not written within 5 s (the line travels inside the load)"
			return
		}
		if early("session set-up") {
			return
		}
		// ... then the sink breaks
		enc.mu.Lock()
		enc.fail = true
		enc.mu.Unlock()
	default:
		res.Harness = "unknown cause " + sc.Cause
		return
	}
	res.Fed = taken.Load()
	t0 := time.Now()
	switch sc.Cause {
	case "cancel":
		cancel()
	case "invalid-login":
		if !sendLogin(mkRUL(&Login{ID: 2, PID: pid + 1, Invalid: "zeropid"})) {
			return
		}
	case "write-error":
		inject <- fmt.Sprintf("type=USER_START msg=audit(1690000002.000:6): pid=%d uid=0 auid=1000 ses=%d msg='op=PAM:session_open grantors=pam_unix acct=\"u\" exe=\"/usr/sbin/sshd\" hostname=10.0.0.1 addr=10.0.0.1 terminal=ssh res=success'", pid, ses)
	}
	select {
	case err := <-done:
		res.Returned = true
		res.Millis = time.Since(t0).Milliseconds()
		res.Ret = fmt.Sprint(err)
		res.FedAfter = taken.Load() - res.Fed
		if err == nil || !(strings.Contains(err.Error(), want) || (sc.Cause == "cancel" && errors.Is(err, context.Canceled))) {
			res.FailKey = "failstop:read:" + sc.Cause + ":wrong-error"
			res.What = fmt.Sprintf("Auditd.Read returned %q after %s under load (expected an error saying %q)", res.Ret, sc.Cause, want)
		}
	case <-time.After(cfBound):
		res.Millis = time.Since(t0).Milliseconds()
		res.FedAfter = taken.Load() - res.Fed
		res.FailKey = "failstop:read:" + sc.Cause + ":still-running"
		res.What = fmt.Sprintf("Auditd.Read has not returned %v after %s while %d producer(s) keep its Audits channel (capacity %d) non-empty: %d lines were taken from it since",
			cfBound, sc.Cause, sc.Producers, sc.Cap, res.FedAfter)
	}
	return
}

func cancelFullMain(out string, seed uint64, reps int) {
	sum := hutil.NewSummary("C08", seed, "the real Auditd.Read under sustained audit load (1-2 producers keep the Audits channel non-empty before, during and after the fault; capacities 0, 1, 64, 10000): "+
		"cancellation, an invalid login, an event write failure after the session was correlated; Read must return within 2 s with that error; non-trivial = the load was running when the fault was injected; distinct by scenario")
	if reps < 1 {
		reps = 1
	}
	var scs []cfScenario
	for rep := 0; rep < reps; rep++ {
		for _, cause := range []string{"cancel", "invalid-login", "write-error"} {
			for k, c := range []int{0, 1, 64, daemonAuditBuf} {
				scs = append(scs, cfScenario{Cause: cause, Cap: c, Producers: 2 + (k+rep)%2, Debug: (k+rep)%3 == 2})
			}
		}
	}
	results := make([]cfResult, len(scs))
	auditd.SetLogger(hutil.Logger(false))
	var wg sync.WaitGroup
	sem := make(chan struct{}, 3)
	for i, sc := range scs {
		if sc.Debug {
			continue // the package logger is global: debug scenarios run on their own afterwards
		}
		wg.Add(1)
		sem <- struct{}{}
		go func(i int, sc cfScenario) {
			defer wg.Done()
			defer func() { <-sem }()
			results[i] = runCancelFull(sc)
		}(i, sc)
	}
	wg.Wait()
	for i, sc := range scs {
		if sc.Debug {
			results[i] = runCancelFull(sc)
		}
	}
	for i, r := range results {
		key := fmt.Sprintf("%s/cap%d/p%d/debug=%v", r.Scenario.Cause, r.Scenario.Cap, r.Scenario.Producers, r.Scenario.Debug)
		sum.Count(key, r.Harness == "")
		sum.Dist(r.Scenario.Cause + fmt.Sprintf("/cap%d", r.Scenario.Cap))
		if i < 3 {
			sum.Sample(r)
		}
		switch {
		case r.Harness != "":
			sum.FailKey("harness", "cancelfull:"+key, r.Harness, map[string]any{"cancelfull": r.Scenario})
		case r.FailKey != "":
			sum.FailKey("oracle", r.FailKey, r.What, map[string]any{"cancelfull": r.Scenario, "observed": r})
		}
	}
	sum.CaseFiles = nil
	sum.Write(out)
	fmt.Printf("cancelfull: %d scenarios, %d failures\n", len(results), sum.NFailures)
}

func replayCancelFull(sc cfScenario) int {
	for try := 0; try < 3; try++ {
		r := runCancelFull(sc)
		if r.Harness != "" {
			fmt.Println("harness error:", r.Harness)
			return 2
		}
		if r.FailKey != "" {
			fmt.Printf("REPRODUCED %s: %s\n", r.FailKey, r.What)
			return 1
		}
	}
	fmt.Println("not reproduced")
	return 0
}
