//go:build verif

package main

import (
	"context"
	"encoding/json"
	"errors"
	"fmt"
	"strconv"
	"strings"
	"sync"
	"time"

	"github.com/elastic/go-libaudit/v2"
	"github.com/elastic/go-libaudit/v2/aucoalesce"
	"github.com/elastic/go-libaudit/v2/auparse"
	"github.com/metal-toolbox/auditevent"

	"github.com/metal-toolbox/audito-maldito/internal/common"
	"github.com/metal-toolbox/audito-maldito/internal/health"
	"github.com/metal-toolbox/audito-maldito/processors/auditd"
	"github.com/metal-toolbox/audito-maldito/processors/auditd/sessiontracker"
)

const waitMax = 2 * time.Second

var errInjected = errors.New("injected write failure")

type fail struct {
	key, what string
}

// ---------- the real parser as an oracle: class of each line ----------

type lineClass struct {
	Empty bool
	Bad   bool
	Seq   uint32
	Typ   int
	TS    time.Time
	Key   string // identifies the message inside ReassemblyComplete
}

func msgKey(t auparse.AuditMessageType, raw string) string { return strconv.Itoa(int(t)) + "|" + raw }

func classify(text string) lineClass {
	if text == "" {
		return lineClass{Empty: true}
	}
	m, err := auparse.ParseLogLine(text)
	if err != nil {
		return lineClass{Bad: true}
	}
	return lineClass{Seq: m.Sequence, Typ: int(m.RecordType), TS: m.Timestamp, Key: msgKey(m.RecordType, m.RawData)}
}

func lineItems(c *Case) []Item {
	var ls []Item
	for _, it := range c.Items {
		if it.Kind == "line" {
			ls = append(ls, it)
		}
	}
	return ls
}

// ---------- level 1: real parseAuditLogs + real Reassembler + real reassemblerCB ----------

type obs1 struct {
	Groups    [][]int  `json:"groups"`
	Handed    []int    `json:"handed"`     // first line of each event handed to the Auditor
	HandedSeq []uint32 `json:"handed_seq"` // event.Sequence of the same
	Failed    []int    `json:"failed"`     // call indices at which the fake Auditor returned an error
	Slot      string   `json:"slot"`       // text of the error in the channel ("" = empty)
	SlotK     int      `json:"slot_k"`     // call index named in it (-1 none, -2 not an injected failure)
	Lost      []int    `json:"lost"`
	ParseRes  string   `json:"parse_res"` // "running" (returned only on cancellation) | error text
	ParseCls  string   `json:"parse_class"`
	Consumed  int      `json:"consumed"`
	Harness   string   `json:"harness,omitempty"`
	Slow      bool     `json:"slow,omitempty"`
	Blocked   string   `json:"blocked,omitempty"`       // a callback did not return within 2s while the errors channel was full
	Holds     int      `json:"holds_reached,omitempty"` // buffered channel: callbacks kept waiting while the next batch was queued
}

type recStream struct {
	mu     sync.Mutex
	inner  libaudit.Stream
	keys   map[string]int
	cur    []int
	groups [][]int
	lost   []int
	unk    string
	inCB   bool
	holds  map[int]*holdGate // backlog.go: the callback of a group containing one of these lines waits for the harness
}

func (s *recStream) ReassemblyComplete(msgs []*auparse.AuditMessage) {
	s.mu.Lock()
	var g []int
	for _, m := range msgs {
		i, ok := s.keys[msgKey(m.RecordType, m.RawData)]
		if !ok {
			s.unk = "callback received a message the harness never sent: " + m.RawData
			i = -1
		}
		g = append(g, i)
	}
	s.groups = append(s.groups, g)
	s.cur = g
	s.inCB = true
	var gate *holdGate
	for _, i := range g {
		if h := s.holds[i]; h != nil { // (the map is read-only once the run has started)
			gate = h
		}
	}
	s.mu.Unlock()
	if gate != nil {
		gate.once.Do(func() {
			close(gate.reached)
			select {
			case <-gate.release:
			case <-time.After(10 * time.Second):
			}
		})
	}
	s.inner.ReassemblyComplete(msgs)
	s.mu.Lock()
	s.inCB = false
	s.mu.Unlock()
}

func (s *recStream) EventsLost(n int) {
	s.mu.Lock()
	s.lost = append(s.lost, n)
	s.mu.Unlock()
	s.inner.EventsLost(n)
}

type fakeAuditor struct {
	st     *recStream
	failAt map[int]bool
	calls  int
	handed []int
	seqs   []uint32
	failed []int
}

func (a *fakeAuditor) AuditdEvent(ev *aucoalesce.Event) error {
	n := a.calls
	a.calls++
	a.st.mu.Lock()
	head := -1
	if len(a.st.cur) > 0 {
		head = a.st.cur[0]
	}
	a.st.mu.Unlock()
	a.handed = append(a.handed, head)
	a.seqs = append(a.seqs, ev.Sequence)
	if a.failAt[n] {
		a.failed = append(a.failed, n)
		return fmt.Errorf("injected auditor failure #%d#", n)
	}
	return nil
}

var _ sessiontracker.Auditor = &fakeAuditor{}

func runL1(c *Case) obs1 {
	if c.Buf > 0 {
		return runL1Backlog(c)
	}
	var o obs1
	o.SlotK = -1
	lines := lineItems(c)
	keys := map[string]int{}
	for i, it := range lines {
		cl := classify(it.Text)
		if cl.Empty || cl.Bad {
			continue
		}
		if _, dup := keys[cl.Key]; dup {
			o.Harness = "two generated lines are identical: " + it.Text
			return o
		}
		keys[cl.Key] = i
	}
	errs := make(chan error, 1)
	st := &recStream{keys: keys}
	fa := &fakeAuditor{st: st, failAt: map[int]bool{}}
	for _, k := range c.FailAt {
		fa.failAt[k] = true
	}
	var after time.Time
	if c.AfterSec != 0 {
		after = time.Unix(c.AfterSec, 0)
	}
	st.inner = auditd.VerifC15NewCB(fa, errs, after)
	timeout := time.Duration(c.TimeoutMs) * time.Millisecond
	reass, err := libaudit.NewReassembler(c.MaxSz, timeout, st)
	if err != nil {
		o.Harness = err.Error()
		return o
	}
	ch := make(chan string)
	ctx, cancel := context.WithCancel(context.Background())
	defer cancel()
	done := make(chan error, 1)
	go func() { done <- auditd.VerifC15ParseAuditLogs(ctx, ch, reass) }()
	var perr error
	returned := false
	send := func(s string) bool {
		select {
		case ch <- s:
			return true
		case perr = <-done:
			returned = true
			return false
		case <-time.After(waitMax):
			st.mu.Lock()
			in := st.inCB
			st.mu.Unlock()
			if in && len(errs) == cap(errs) {
				o.Blocked = "PushMessage did not return within 2s: the callback is blocked sending to the full errors channel"
			} else {
				o.Harness = "the parse loop neither took a line nor returned within 2s"
			}
			return false
		}
	}
	bounded := func(what string, f func()) bool {
		fin := make(chan struct{})
		go func() { defer close(fin); f() }()
		select {
		case <-fin:
			return true
		case <-time.After(waitMax):
			o.Blocked = what + " did not return within 2s: the callback is blocked sending to the full errors channel"
			return false
		}
	}
	segStart := time.Now()
	checkSeg := func() {
		if c.PauseMs > 0 && time.Since(segStart) > timeout/3 {
			o.Slow = true
		}
	}
loop:
	for _, it := range c.Items {
		switch it.Kind {
		case "line":
			if !send(it.Text) {
				break loop
			}
			o.Consumed++
			if !send("") { // barrier: taken only once the previous line has been processed
				break loop
			}
		case "tick":
			checkSeg()
			if !bounded("Maintain", func() { _ = reass.Maintain() }) {
				break loop
			}
		case "pause":
			checkSeg()
			time.Sleep(time.Duration(c.PauseMs) * time.Millisecond)
			segStart = time.Now()
		}
	}
	checkSeg()
	if o.Harness != "" || o.Blocked != "" {
		return o
	}
	if !returned {
		cancel()
		select {
		case perr = <-done:
		case <-time.After(waitMax):
			o.Harness = "the parse loop did not return within 2s of cancellation"
			return o
		}
		if errors.Is(perr, context.Canceled) {
			o.ParseRes = "running"
		} else {
			o.ParseRes = fmt.Sprint(perr)
			o.ParseCls = auditd.VerifC15ErrClass(perr)
		}
	} else {
		o.ParseRes = fmt.Sprint(perr)
		o.ParseCls = auditd.VerifC15ErrClass(perr)
	}
	if !bounded("Close", func() { _ = reass.Close() }) {
		return o
	}
	select {
	case e := <-errs:
		o.Slot = e.Error()
		o.SlotK = -2
		if auditd.VerifC15ErrClass(e) == "callback" {
			if p := strings.Index(o.Slot, "failure #"); p >= 0 {
				rest := o.Slot[p+len("failure #"):]
				if q := strings.Index(rest, "#"); q >= 0 {
					if k, err := strconv.Atoi(rest[:q]); err == nil {
						o.SlotK = k
					}
				}
			}
		}
	default:
	}
	st.mu.Lock()
	o.Groups = st.groups
	o.Lost = st.lost
	if st.unk != "" {
		o.Harness = st.unk
	}
	st.mu.Unlock()
	o.Handed = fa.handed
	o.HandedSeq = fa.seqs
	o.Failed = fa.failed
	return o
}

// judgeL1: from the generated stream alone.
func judgeL1(c *Case, o obs1) []fail {
	var fs []fail
	if o.Blocked != "" {
		return []fail{{"error:send-blocks", o.Blocked}}
	}
	lines := lineItems(c)
	firstBad := -1
	for i, it := range lines {
		if it.Bad != "" {
			firstBad = i
			break
		}
	}
	limit := len(lines)
	if firstBad >= 0 {
		limit = firstBad
		switch {
		case o.ParseRes == "running":
			fs = append(fs, fail{"skip:bad-line-skipped", fmt.Sprintf("line %d is malformed (%s) but the parse loop kept running", firstBad, lines[firstBad].Bad)})
			limit = len(lines)
		case o.ParseCls != "parse" || !strings.Contains(o.ParseRes, lines[firstBad].Text):
			fs = append(fs, fail{"skip:bad-line-not-identified", fmt.Sprintf("the parse loop stopped with %q, which does not identify malformed line %d %q", o.ParseRes, firstBad, lines[firstBad].Text)})
		}
		if o.ParseRes != "running" && o.Consumed != firstBad+1 {
			fs = append(fs, fail{"skip:bad-line-not-identified", fmt.Sprintf("the parse loop stopped after %d lines; the first malformed line is line %d", o.Consumed, firstBad)})
		}
	} else if o.ParseRes != "running" {
		fs = append(fs, fail{"skip:spurious-parse-error", "every line is well-formed but the parse loop returned " + o.ParseRes})
	}
	// conservation: every well-formed non-EOE record before the first malformed line is in exactly one group
	count := map[int]int{}
	for _, g := range o.Groups {
		for _, i := range g {
			count[i]++
		}
	}
	for i := 0; i < limit; i++ {
		it := lines[i]
		if it.Empty || it.Bad != "" || it.Typ == "EOE" {
			continue
		}
		switch n := count[i]; {
		case n == 0:
			fs = append(fs, fail{"skip:line-lost", fmt.Sprintf("record of line %d (%s seq %d) is in no group handed to the callback", i, it.Typ, it.Seq)})
		case n > 1:
			fs = append(fs, fail{"skip:line-duplicated", fmt.Sprintf("record of line %d is in %d groups", i, n)})
		}
	}
	for i, n := range count {
		if i < 0 || i >= limit || lines[i].Typ == "EOE" {
			fs = append(fs, fail{"skip:phantom-record", fmt.Sprintf("a group contains line %d (%d times), which was not pushed or is an EOE record", i, n)})
		}
	}
	// grouping: under its preconditions, one group per sequence number
	distinct := map[uint32]bool{}
	for i := 0; i < limit; i++ {
		if it := lines[i]; !it.Empty && it.Bad == "" && it.Typ != "EOE" {
			distinct[it.Seq] = true
		}
	}
	// grouping is required whenever the in-flight bound cannot be the reason for an early eviction: the stream has
	// no more distinct events than the reassembler's limit, or (the property's own bound) never more than three
	// kernel events are open at once while the limit was left at the daemon's own constant
	open3 := c.MaxSz == auditd.VerifC15MaxEventsInFlight && maxConcurrent(lines[:limit]) <= 3
	if !c.LateRecord && c.PauseMs == 0 && (len(distinct) <= c.MaxSz || open3) && !o.Slow {
		seen := map[uint32]bool{}
		for _, g := range o.Groups {
			if len(g) == 0 {
				fs = append(fs, fail{"skip:empty-group", "the callback received an empty group"})
				continue
			}
			s := lines[g[0]].Seq
			for _, i := range g {
				if lines[i].Seq != s {
					fs = append(fs, fail{"skip:group-merged", fmt.Sprintf("a group mixes sequence numbers %d and %d", s, lines[i].Seq)})
					break
				}
			}
			if seen[s] {
				fs = append(fs, fail{"skip:group-split", fmt.Sprintf("the records of sequence number %d were handed over in more than one group", s)})
			}
			seen[s] = true
		}
	}
	// every group not filtered by After is handed to the Auditor exactly once, in order
	var want []int
	for _, g := range o.Groups {
		if len(g) == 0 || g[0] < 0 {
			continue
		}
		if c.AfterSec != 0 && eventSec(lines[g[0]].Text) < c.AfterSec {
			continue
		}
		want = append(want, g[0])
	}
	if fmt.Sprint(want) != fmt.Sprint(o.Handed) {
		fs = append(fs, fail{"skip:event-not-handed", fmt.Sprintf("groups to hand over start at lines %v, the Auditor received %v", want, o.Handed)})
	}
	// the first error of the Auditor is what the channel holds
	if len(o.Failed) > 0 {
		switch {
		case o.Slot == "":
			fs = append(fs, fail{"error:dropped", fmt.Sprintf("the Auditor failed at calls %v but the errors channel is empty", o.Failed)})
		case o.SlotK != o.Failed[0]:
			fs = append(fs, fail{"error:wrong-error", fmt.Sprintf("the Auditor's first failure is call %d, the channel holds %q", o.Failed[0], o.Slot)})
		}
	} else if o.Slot != "" {
		fs = append(fs, fail{"error:spurious", "no injected failure, but the errors channel holds " + o.Slot})
	}
	return fs
}

// maxConcurrent: the largest number of events open at the same time, an event being open from its first to its
// last record in the stream
func maxConcurrent(lines []Item) int {
	first, last := map[uint32]int{}, map[uint32]int{}
	for i, it := range lines {
		if it.Empty || it.Bad != "" {
			continue
		}
		if _, ok := first[it.Seq]; !ok {
			first[it.Seq] = i
		}
		last[it.Seq] = i
	}
	best := 0
	for i := range lines {
		n := 0
		for s, f := range first {
			if f <= i && i <= last[s] {
				n++
			}
		}
		if n > best {
			best = n
		}
	}
	return best
}

func eventSec(text string) int64 {
	p := strings.Index(text, "audit(")
	if p < 0 {
		return 0
	}
	rest := text[p+6:]
	q := strings.IndexByte(rest, '.')
	if q < 0 {
		return 0
	}
	n, _ := strconv.ParseInt(rest[:q], 10, 64)
	return n
}

// ---------- level 2: the real Auditd.Read ----------

type recEnc struct {
	mu        sync.Mutex
	budget    int
	transient bool
	failed    bool
	out       []time.Time // LoggedAt of each written event
	ids       []string
}

func (e *recEnc) Encode(v any) error {
	e.mu.Lock()
	defer e.mu.Unlock()
	if e.budget == 0 {
		e.failed = true
		if e.transient {
			e.budget = -1
		}
		return errInjected
	}
	if e.budget > 0 {
		e.budget--
	}
	ev, ok := v.(*auditevent.AuditEvent)
	if !ok {
		return fmt.Errorf("not an audit event: %T", v)
	}
	e.out = append(e.out, ev.LoggedAt)
	e.ids = append(e.ids, ev.Metadata.AuditID)
	return nil
}

func (e *recEnc) hasFailed() bool {
	e.mu.Lock()
	defer e.mu.Unlock()
	return e.failed
}

type obs2 struct {
	Res       string   `json:"res"`   // error text of Read
	Class     int      `json:"class"` // result class of Model/AuditProcCheck.v
	Arg       int      `json:"arg"`
	Written   []int64  `json:"written"` // unix seconds (identifies the event) of each written event
	WrittenID []string `json:"written_ids"`
	StopAt    int      `json:"stop_at"` // item index after which Read had returned
	Harness   string   `json:"harness,omitempty"`
	EncFailed bool     `json:"enc_failed"`
	Waited    string   `json:"waited,omitempty"` // why the harness waited for Read to return
	TimedOut  bool     `json:"timed_out,omitempty"`
}

func mkRUL(l *Login) common.RemoteUserLogin {
	src := auditevent.NewAuditEvent(common.ActionLoginIdentifier,
		auditevent.EventSource{Type: "IP", Value: fmt.Sprintf("10.0.0.%d", l.ID), Extra: map[string]any{"port": "4000" + strconv.Itoa(l.ID)}},
		auditevent.OutcomeSucceeded,
		map[string]string{"loggedAs": fmt.Sprintf("user-%d", l.ID), "userID": fmt.Sprintf("cert-%d", l.ID), "pid": strconv.Itoa(l.PID)},
		"sshd").WithTarget(map[string]string{"host": "node", "machine-id": "mid"})
	rul := common.RemoteUserLogin{Source: src, PID: l.PID, CredUserID: fmt.Sprintf("cert-%d", l.ID)}
	switch l.Invalid {
	case "zeropid":
		rul.PID = 0
	case "nocred":
		rul.CredUserID = ""
	case "nosource":
		rul.Source = nil
	}
	return rul
}

func runL2(c *Case) obs2 {
	if c.Buf > 0 {
		return runL2Backlog(c)
	}
	var o obs2
	o.StopAt = -1
	enc := &recEnc{budget: c.Budget, transient: c.Transient}
	lines := make(chan string)
	logins := make(chan common.RemoteUserLogin)
	a := auditd.Auditd{
		Audits: lines,
		Logins: logins,
		EventW: auditevent.NewAuditEventWriter(enc),
		Health: health.NewSingleReadinessHealth(auditd.AuditdProcessorComponentName),
	}
	ctx, cancel := context.WithCancel(context.Background())
	defer cancel()
	done := make(chan error, 1)
	go func() { done <- a.Read(ctx) }()
	var res error
	returned := false
	waitRet := func(why string) {
		if returned {
			return
		}
		o.Waited = why
		select {
		case res = <-done:
			returned = true
		case <-time.After(waitMax):
			o.TimedOut = true
		}
	}
	sendLine := func(s string) bool {
		select {
		case res = <-done: // Read has already returned: feed nothing more
			returned = true
			return false
		default:
		}
		select {
		case lines <- s:
			return true
		case res = <-done:
			returned = true
			return false
		case <-time.After(waitMax):
			// after a parse error nobody reads the lines any more: Read must be about to return
			waitRet("line-not-taken")
			if !returned {
				o.Harness = "a line was not taken within 2s and Read did not return"
			}
			return false
		}
	}
	sendLogin := func(l common.RemoteUserLogin) bool {
		select {
		case res = <-done:
			returned = true
			return false
		default:
		}
		select {
		case logins <- l:
			return true
		case res = <-done:
			returned = true
			return false
		case <-time.After(waitMax):
			o.Harness = "a login was not taken within 2s and Read did not return"
			return false
		}
	}
	lineNo := 0
loop:
	for k, it := range c.Items {
		switch it.Kind {
		case "line":
			idx := lineNo
			lineNo++
			_ = idx
			if !sendLine(it.Text) {
				o.StopAt = k
				break loop
			}
			if it.Bad != "" {
				waitRet("malformed-line")
			} else if !sendLine("") {
				o.StopAt = k
				break loop
			}
			if !returned && it.Typ == "LOGIN" && strings.Contains(it.Text, "pid=x") {
				waitRet("unparsable-pid")
			}
		case "login":
			if !sendLogin(mkRUL(it.Login)) {
				o.StopAt = k
				break loop
			}
			if it.Login.Invalid != "" {
				waitRet("invalid-login")
			}
		case "cancel":
			cancel()
			waitRet("cancel")
		}
		if !returned && enc.hasFailed() {
			waitRet("write-failure")
		}
		if returned || o.TimedOut || o.Harness != "" {
			o.StopAt = k
			break loop
		}
	}
	if !returned && !o.TimedOut && o.Harness == "" {
		cancel()
		waitRet("end")
	}
	o.EncFailed = enc.hasFailed()
	enc.mu.Lock()
	for i, t := range enc.out {
		o.Written = append(o.Written, t.Unix())
		o.WrittenID = append(o.WrittenID, enc.ids[i])
	}
	enc.mu.Unlock()
	if !returned {
		o.Class = 0
		o.Res = "(Read did not return)"
		return o
	}
	o.Res = fmt.Sprint(res)
	o.Class, o.Arg = classifyRead(c, res)
	return o
}

func classifyRead(c *Case, err error) (int, int) {
	if errors.Is(err, context.Canceled) {
		return 6, 0
	}
	var te *sessiontracker.SessionTrackerError
	isT := errors.As(err, &te)
	switch {
	case auditd.VerifC15ErrClass(err) == "parse":
		for i, it := range lineItems(c) {
			if it.Text != "" && strings.Contains(err.Error(), "'"+it.Text+"'") {
				return 1, i
			}
		}
		return 1, 4998
	case auditd.VerifC15ErrClass(err) == "callback":
		if isT && te.AuditEventWriteFailed() {
			return 2, 0
		}
		if isT && te.ParsePIDFailed() {
			return 3, 0
		}
		if strings.Contains(err.Error(), "failed to coalesce") {
			return 7, 0
		}
		return 8, 0
	case strings.Contains(err.Error(), "failed to handle remote user login"):
		if isT && te.RemoteLoginFailed() {
			return 4, 0
		}
		if errors.Is(err, errInjected) {
			return 5, 0
		}
		return 8, 0
	}
	return 8, 0
}

func judgeL2(c *Case, o obs2) []fail {
	var fs []fail
	if o.Harness != "" {
		return nil
	}
	// what the generated case contains, in order
	firstFault, faultKind, faultText := -1, "", ""
	lineNo := 0
	for k, it := range c.Items {
		if it.Kind == "line" {
			lineNo++
		}
		switch {
		case it.Kind == "line" && it.Bad != "":
			firstFault, faultKind, faultText = k, "malformed", it.Text
		case it.Kind == "login" && it.Login.Invalid != "":
			firstFault, faultKind = k, "invalid-login"
		case it.Kind == "line" && it.Typ == "LOGIN" && strings.Contains(it.Text, "pid=x"):
			firstFault, faultKind = k, "unparsable-pid"
		}
		if firstFault >= 0 {
			break
		}
	}
	stoppedBefore := func(k int) bool { return o.StopAt >= 0 && o.StopAt < k }
	switch {
	case o.EncFailed && (firstFault < 0 || o.StopAt <= firstFault) && o.Waited == "write-failure":
		// a write failed before any other fault was fed: Read must stop with that error
		switch {
		case o.TimedOut:
			fs = append(fs, fail{"error:dropped", "an event write failed but Read kept running for 2s"})
		case !strings.Contains(o.Res, errInjected.Error()):
			fs = append(fs, fail{"error:wrong-error", "an event write failed but Read returned " + o.Res})
		}
	case firstFault >= 0 && !stoppedBefore(firstFault):
		switch faultKind {
		case "malformed":
			switch {
			case o.TimedOut || o.Class == 6:
				fs = append(fs, fail{"skip:bad-line-skipped", fmt.Sprintf("malformed line %q was fed but Read kept running", faultText)})
			case o.Class != 1 || !strings.Contains(o.Res, faultText):
				fs = append(fs, fail{"skip:bad-line-not-identified", fmt.Sprintf("malformed line %q was fed; Read returned %q", faultText, o.Res)})
			}
		case "invalid-login":
			switch {
			case o.TimedOut || o.Class == 6:
				fs = append(fs, fail{"error:dropped", "an invalid login was taken but Read kept running"})
			case !strings.Contains(o.Res, "failed to handle remote user login"):
				fs = append(fs, fail{"error:wrong-error", "an invalid login was taken; Read returned " + o.Res})
			}
		case "unparsable-pid":
			switch {
			case o.TimedOut || o.Class == 6:
				fs = append(fs, fail{"error:dropped", "a LOGIN record with an unparsable pid was fed but Read kept running"})
			case o.Class != 3:
				fs = append(fs, fail{"error:wrong-error", "a LOGIN record with an unparsable pid was fed; Read returned " + o.Res})
			}
		}
	case firstFault < 0 && !o.EncFailed:
		if o.Class != 6 {
			fs = append(fs, fail{"error:spurious", "nothing was wrong with the input but Read returned " + o.Res})
		}
		// conservation, seen from the output: every event of the tracked session written exactly once
		want := map[int64]bool{}
		var sid string
		multi := map[string]bool{} // several sessions opened by one pid: which of them gets the login is the correlator's choice
		for _, it := range c.Items {
			if it.Kind == "line" && it.Typ == "LOGIN" {
				sid = it.Ses
				if c.Mode == modeMulti {
					multi[it.Ses] = true
				}
			}
		}
		for _, it := range c.Items {
			if it.Kind == "line" && !it.Empty && it.Bad == "" && (it.Ses == sid || multi[it.Ses]) && it.Typ != "EOE" {
				want[eventSec(it.Text)] = true
			}
		}
		got := map[int64]int{}
		for _, s := range o.Written {
			got[s]++
		}
		for s := range want {
			switch n := got[s]; {
			case n == 0 && len(multi) > 0:
				// not required: the sessions that did not get the login hold their events
			case n == 0:
				fs = append(fs, fail{"skip:line-lost", fmt.Sprintf("the event with timestamp %d of session %s was never written", s, sid)})
			case n > 1:
				fs = append(fs, fail{"skip:group-split", fmt.Sprintf("the event with timestamp %d was written %d times", s, n)})
			}
		}
		for s, n := range got {
			if !want[s] {
				fs = append(fs, fail{"skip:group-merged", fmt.Sprintf("%d written event(s) carry timestamp %d, which no event of session %s has", n, s, sid)})
			}
		}
	}
	if c.Budget >= 0 && !c.Transient && len(o.Written) > c.Budget {
		fs = append(fs, fail{"harness", "more events recorded than the budget allows"})
	}
	return fs
}

// ---------- Coq rendering ----------

func coqLine(text string, after time.Time) string {
	cl := classify(text)
	switch {
	case cl.Empty:
		return "LE"
	case cl.Bad:
		return "LB"
	}
	old := "false"
	if cl.TS.Before(after) {
		old = "true"
	}
	return fmt.Sprintf("LM %d %d %s", cl.Seq, cl.Typ, old)
}

func natList(xs []int) string {
	ss := make([]string, len(xs))
	for i, x := range xs {
		ss[i] = strconv.Itoa(x)
	}
	return "[" + strings.Join(ss, ";") + "]"
}

func optNat(ok bool, n int) string {
	if !ok {
		return "None"
	}
	return fmt.Sprintf("(Some %d)", n)
}

func coqCase1(c *Case, o obs1) (string, string) {
	var after time.Time
	if c.AfterSec != 0 {
		after = time.Unix(c.AfterSec, 0)
	}
	var its []string
	for _, it := range c.Items {
		switch it.Kind {
		case "line":
			its = append(its, "K1Line ("+coqLine(it.Text, after)+")")
		case "tick":
			its = append(its, "K1Tick")
		case "pause":
			its = append(its, "K1Pause")
		}
	}
	var gs []string
	for _, g := range o.Groups {
		for _, i := range g {
			if i < 0 {
				return "", "a group contains an unknown message"
			}
		}
		gs = append(gs, natList(g))
	}
	for _, h := range o.Handed {
		if h < 0 {
			return "", "the Auditor was called outside a callback"
		}
	}
	if o.SlotK == -2 {
		if strings.Contains(o.Slot, "failed to coalesce") {
			o.SlotK = 4999
		} else {
			return "", "the errors channel holds an error the harness cannot interpret: " + o.Slot
		}
	}
	var lost []string
	for _, n := range o.Lost {
		lost = append(lost, fmt.Sprintf("%d%%N", n))
	}
	perr := "None"
	if o.ParseRes != "running" {
		if o.ParseCls != "parse" {
			return "", "the parse loop returned an error of unknown class: " + o.ParseRes
		}
		// the offending line, found by its text
		found := -1
		for i, it := range lineItems(c) {
			if it.Text != "" && strings.Contains(o.ParseRes, "'"+it.Text+"'") {
				found = i
				break
			}
		}
		if found < 0 {
			found = 4998
		}
		perr = fmt.Sprintf("(Some %d)", found)
	}
	ctor := "A1"
	if orderBySource(c.Mode) {
		ctor = "A1W" // compared with the model ordered by the source's Less
	}
	return fmt.Sprintf(ctor+" (C1 %d %d %s [%s]\n  [%s] %s %s [%s] %s %d)", c.MaxSz, c.TimeoutMs, natList(c.FailAt), strings.Join(its, "; "),
		strings.Join(gs, ";"), natList(o.Handed), optNat(o.SlotK >= 0, o.SlotK), strings.Join(lost, ";"), perr, o.Consumed), ""
}

// evTable: what the real aucoalesce makes of each sequence number's records (session, type, pid).
func evTable(c *Case) ([]string, string) {
	lines := lineItems(c)
	bySeq := map[uint32][]*auparse.AuditMessage{}
	head := map[uint32]int{}
	var order []uint32
	for i, it := range lines {
		if it.Text == "" {
			continue
		}
		m, err := auparse.ParseLogLine(it.Text)
		if err != nil {
			break // nothing after the first malformed line is pushed
		}
		if m.RecordType == auparse.AUDIT_EOE {
			continue
		}
		if _, ok := head[m.Sequence]; !ok {
			head[m.Sequence] = i
			order = append(order, m.Sequence)
		}
		bySeq[m.Sequence] = append(bySeq[m.Sequence], m)
	}
	var rows []string
	for _, s := range order {
		ev, err := aucoalesce.CoalesceMessages(bySeq[s])
		if err != nil {
			return nil, "aucoalesce failed on a generated group: " + err.Error()
		}
		aucoalesce.ResolveIDs(ev)
		ses := "SNone"
		switch ev.Session {
		case "":
		case "unset":
			ses = "SUnset"
		default:
			n, err := strconv.ParseUint(ev.Session, 10, 64)
			if err != nil {
				return nil, "session is not a number: " + ev.Session
			}
			ses = fmt.Sprintf("(SId %d)", n)
		}
		typ := fmt.Sprintf("(TOther %d)", int(ev.Type))
		switch ev.Type {
		case auparse.AUDIT_LOGIN:
			typ = "TLogin"
		case auparse.AUDIT_CRED_DISP:
			typ = "TCredDisp"
		}
		pid := "None"
		if n, err := strconv.Atoi(ev.Process.PID); err == nil {
			pid = fmt.Sprintf("(Some (%d)%%Z)", n)
		}
		rows = append(rows, fmt.Sprintf("(%d,(%s,%s,%s))", head[s], ses, typ, pid))
	}
	return rows, ""
}

func coqCase2(c *Case, o obs2) (string, string) {
	rows, bad := evTable(c)
	if bad != "" {
		return "", bad
	}
	var its []string
	for _, it := range c.Items {
		switch it.Kind {
		case "line":
			its = append(its, "JL ("+coqLine(it.Text, time.Time{})+")")
		case "login":
			pid := it.Login.PID
			valid := "true"
			switch it.Login.Invalid {
			case "zeropid":
				pid = 0
			case "nocred", "nosource":
				valid = "false"
			}
			its = append(its, fmt.Sprintf("JG %d (%d)%%Z %s", it.Login.ID, pid, valid))
		case "cancel":
			its = append(its, "JC")
		}
	}
	budget := "None"
	if c.Budget >= 0 {
		budget = fmt.Sprintf("(Some %d)", c.Budget)
	}
	return fmt.Sprintf("A2 (C2 [%s]\n  %s [%s] %d %d %d)", strings.Join(rows, ";"), budget, strings.Join(its, "; "), o.Class, o.Arg, len(o.Written)), ""
}

func mustJSON(v any) string {
	raw, _ := json.Marshal(v)
	return string(raw)
}
