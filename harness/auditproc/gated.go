//go:build verif

package main

import (
	"context"
	"errors"
	"fmt"
	"strings"
	"sync"
	"time"

	"github.com/metal-toolbox/auditevent"

	"github.com/metal-toolbox/audito-maldito/internal/common"
	"github.com/metal-toolbox/audito-maldito/internal/health"
	"github.com/metal-toolbox/audito-maldito/internal/verifharness/hutil"
	"github.com/metal-toolbox/audito-maldito/processors/auditd"
)

// A correlator failure reported while Read's goroutine is NOT sitting in its select (it is busy
// delivering another login) must still stop the processor with that error (C15: "instead of being
// dropped"). The k-th write is held inside the encoder until Read has taken another login, then fails.

var errGated = errors.New("injected write failure (gated)")

type gateEnc struct {
	mu      sync.Mutex
	n       int
	failAt  int
	reached chan struct{}
	gate    chan struct{}
}

func (e *gateEnc) Encode(any) error {
	e.mu.Lock()
	e.n++
	n := e.n
	e.mu.Unlock()
	if n == e.failAt {
		close(e.reached)
		<-e.gate
		return errGated
	}
	return nil
}

type gatedScenario struct {
	Gated   bool `json:"gated_error_while_read_is_busy"`
	Follows int  `json:"events_before_failing_write"`
}

func runGated(sc gatedScenario) (string, string) {
	enc := &gateEnc{failAt: 2 + sc.Follows, reached: make(chan struct{}), gate: make(chan struct{})}
	lines := make(chan string, 64)
	logins := make(chan common.RemoteUserLogin)
	ctx, cancel := context.WithCancel(context.Background())
	defer cancel()
	ap := auditd.Auditd{Audits: lines, Logins: logins, EventW: auditevent.NewAuditEventWriter(enc), Health: health.NewHealth()}
	done := make(chan error, 1)
	go func() { done <- ap.Read(ctx) }()
	send := func(l common.RemoteUserLogin) bool {
		select {
		case logins <- l:
			return true
		case <-time.After(2 * time.Second):
			return false
		}
	}
	if !send(mkRUL(&Login{ID: 1, PID: 7001})) {
		return "harness", "Read did not take the first login"
	}
	seq := 100
	rec := func(typ string, pid, ses int, rest string) string {
		seq++
		return fmt.Sprintf("type=%s msg=audit(17000000%02d.000:%d): pid=%d uid=0 auid=1000 ses=%d %s", typ, seq%100, seq, pid, ses, rest)
	}
	lines <- rec("LOGIN", 7001, 41, "old-auid=4294967295 tty=(none) old-ses=4294967295 res=1")
	for i := 0; i <= sc.Follows; i++ {
		lines <- rec("USER_START", 7001, 41, "msg='op=PAM:session_open grantors=pam_unix acct=\"u\" exe=\"/usr/sbin/sshd\" hostname=10.0.0.1 addr=10.0.0.1 terminal=ssh res=success'")
	}
	select {
	case <-enc.reached:
	case <-time.After(3 * time.Second):
		close(enc.gate)
		return "harness", "the failing write was never attempted"
	}
	// the failing write is in progress (inside the correlator); hand Read another login so that it
	// leaves its select and waits for the correlator
	took := send(mkRUL(&Login{ID: 2, PID: 7002}))
	close(enc.gate)
	if !took {
		return "harness", "Read did not take the second login"
	}
	select {
	case err := <-done:
		if err == nil || !strings.Contains(err.Error(), errGated.Error()) {
			return "error:wrong-error", fmt.Sprintf("Read returned %v, expected the injected write failure", err)
		}
		return "", ""
	case <-time.After(3 * time.Second):
		return "error:dropped-while-busy", "an event could not be written while Read was busy delivering another login: the error was dropped, Read is still running 3 s later"
	}
}

func gatedChecks(sum *hutil.Summary, n int) {
	for i := 0; i < n; i++ {
		sc := gatedScenario{Gated: true, Follows: i % 3}
		key, what := runGated(sc)
		sum.Count(fmt.Sprint("gated", sc, i), true)
		sum.Dist("gated_error_scenarios")
		switch {
		case key == "harness":
			sum.FailKey("harness", "gated", what, map[string]any{"gated": sc})
		case key != "":
			sum.FailKey("oracle", key, what, map[string]any{"gated": sc})
		}
	}
}
