//go:build verif

// Harness for C15 (no audit record is skipped silently).
//
// Level 1 drives the real parseAuditLogs, the real libaudit.Reassembler and the real
// reassemblerCB (with a fake Auditor that records and fails on demand) on generated audit
// streams; level 2 drives the real Auditd.Read end to end (line channel, login channel,
// recording encoder with a failure budget).  Every case is written as a Coq term for
// Model/AuditProcCheck.v (the results of auparse / aucoalesce on the generated lines are inputs
// of the model) and judged by an oracle computed from the generated stream alone.
//
// Further stages on the same real code (each a -mode of this binary, registered as an extra stage of the property):
//
//	backlog.go     (C15, part of the default run) the Audits channel buffered with the daemon's capacity, lines queued in batches
//	frame.go       -mode frame      (C07) audit records bare / with terminator / through a real FIFO and the real ingesters, dense length sweep
//	cancelfull.go  -mode cancelfull (C08) Read must return on cancellation / failure while producers keep the Audits channel non-empty
//	conc.go        -mode conc       (C03) forced schedules between Read's loop goroutine and the parser goroutine, child process per case, -race
//	realtime.go    -mode realtime   (C16) real-time staleness window
package main

import (
	"encoding/json"
	"flag"
	"fmt"
	"os"
	"strings"

	"github.com/elastic/go-libaudit/v2/auparse"
	"go.uber.org/zap"

	"github.com/metal-toolbox/audito-maldito/internal/verifharness/hutil"
	"github.com/metal-toolbox/audito-maldito/processors/auditd"
)

const ruleText = "audit streams rendered from the record shapes of processors/auditd/testdata: compound kernel events (SYSCALL [EXECVE] CWD PATH{1,2} PROCTITLE [EOE]; also EOE-only, PROCTITLE-only and unterminated ones) and single-record events (LOGIN, USER_*, CRED_*, SERVICE_START); blocks of 1-3 kernel events whose records are merged in a random order that keeps each event's own order; empty lines anywhere; " +
	"level 1 modes: clean, badline (garbage / truncated header / no msg= / unknown type / non-numeric sequence / no type= at a random position), faults (the Auditor fails at 1-3 random call indices), after (After filter inside the stream), smallmax (maxInFlight 1-2: overflow eviction), unterminated (+Maintain calls), late (a record after its event's terminator), expiry (60ms timeout, 150ms pauses, Maintain), gaps (sequence gaps, later event with lower number), wrap (numbers from just below 2^32 on, wrapping to 0; half of the events unterminated, Maintain calls, maxInFlight 1-3 in two of three cases: compared with the model ordered by the source's Less), far (two clusters of numbers 2^24-1..2^24+2^26 apart, each event from either; same treatment); " +
	"level 2 modes on Auditd.Read: clean, badline, writefail (budget k for every k below the session's event count, drawn at random), latelogin-writefail, writefail-once (exactly one write is rejected, at the session's first event half of the time; judged by the oracle only), badlogin (pid 0 / empty credential / nil source), badpid (LOGIN record whose pid is not a number); " +
	"multisession-writefail-once (level 2, generator of its own, oracle only): two or three audit sessions opened by ONE sshd pid wait for its login at the same time, each holding events (one of them already ended in a quarter of the cases); the login arrives; the sink rejects exactly one write - the first one half of the time, otherwise any of the writes a flush of everything held would make, and for some streams every such position in turn; whichever session the correlator gives the login to, a rejected write must stop Read with that error; " +
	"backlog modes (both levels, n/5 further cases + a sweep): the Audits channel is BUFFERED with the daemon's capacity and the lines are queued in batches - everything up to the first sync item before the parse loop / Read starts, later batches while the callback of a just-completed event is kept waiting (hold) - clean or with a malformed line at a random position; sweep: for a few streams the malformed line at EVERY position of the pre-queued backlog (oracle only); " +
	"non-trivial = at least two events interleaved or a fault injected; distinct by the concrete item list"

func main() {
	out := flag.String("out", "", "output directory")
	n := flag.Int("n", 150, "number of cases")
	replay := flag.String("replay", "", "replay file")
	mode := flag.String("mode", "", "realtime: the C16 real-time scenarios (about 135 s); frame: C07, audit records bare / framed / through a real FIFO; conc: C03, forced schedules through the real Auditd.Read; cancelfull: C08, cancellation while the Audits channel is kept full")
	dense := flag.Bool("dense", false, "frame: every template at every length")
	flag.Parse()
	auditd.SetLogger(zap.NewNop().Sugar())
	if msg := checkConstants(); msg != "" {
		fmt.Println("harness: " + msg)
		os.Exit(2)
	}
	if *replay != "" {
		os.Exit(doReplay(*replay))
	}
	seed := hutil.SeedFromEnv()
	switch *mode {
	case "realtime":
		realtimeMain(*out, seed, 1)
		return
	case "frame":
		frameMain(*out, seed, *n, *dense)
		return
	case "cancelfull":
		cancelFullMain(*out, seed, *n)
		return
	case "conc":
		concMain(*out, seed, *n)
		return
	case "conc-child":
		concChildMain()
		return
	}
	r := hutil.NewRand(seed ^ 0xC15)
	sum := hutil.NewSummary("C15", seed, ruleText)
	sum.Notes = append(sum.Notes, fmt.Sprintf("processor constants: maxEventsInFlight=%d eventTimeout=%s reassemblerInterval=%s",
		auditd.VerifC15MaxEventsInFlight, auditd.VerifC15EventTimeout, auditd.VerifC15ReassemblerInterval))
	cases := &hutil.CaseFile{Dir: *out, Stem: "cases_auditproc", PerFile: 40,
		Header: "From Coq Require Import List Bool Arith ZArith NArith.\nImport ListNotations.\nFrom AM Require Import Model.AuditProc Model.Tracker Model.AuditProcCheck.\n",
		Footer: func(int) string { return "Definition M := Eval vm_compute in mismatches cases.\nPrint M.\n" }}
	for i := 0; i < *n; i++ {
		var c Case
		if i%5 < 3 {
			c = genL1(r, i/5*3+i%5)
		} else {
			c = genL2(r, i/5*2+i%5-3)
		}
		c.Debug = i%3 == 2
		runCase(&c, sum, cases, i)
	}
	// the same on a buffered Audits channel with the daemon's capacity, lines queued in batches (backlog.go)
	for j := 0; j < *n/5; j++ {
		var c Case
		if j%2 == 0 {
			c = genL1Backlog(r, j/2)
		} else {
			c = genL2Backlog(r, j/2)
		}
		c.Debug = j%3 == 2
		runCase(&c, sum, cases, *n+j)
	}
	// several sessions of ONE sshd pid waiting for its login, exactly one write rejected (generator of its own): n/15 + 2
	// cases with k drawn, and for one stream in every fifty cases (at least one) EVERY k in turn
	mr := hutil.NewRand(seed ^ 0xC15 ^ 0x3D15E55)
	nf0 := sum.NFailures
	for j := 0; j < *n/15+2; j++ {
		c, _ := genL2Multi(mr, -1)
		c.Debug = j%3 == 2
		runCase(&c, sum, cases, 2**n+j)
		if sum.NFailures >= nf0+3 {
			break // each further failing case would wait for Read for another time-out
		}
	}
	for j := 0; j < 1+*n/50 && j < 12 && sum.NFailures < nf0+5; j++ {
		s0 := mr.U64()
		_, held := genL2Multi(hutil.NewRand(s0), -1)
		for k := 0; k < held; k++ {
			c, _ := genL2Multi(hutil.NewRand(s0), k)
			before := sum.NFailures
			runCase(&c, sum, cases, 2**n+j)
			sum.Dist("l2_multisession_sweep_every_write_position")
			if sum.NFailures > before {
				break // a failing position found: the remaining ones would each wait for the same time-out
			}
		}
	}
	backlogSweep(sum, r, 2+*n/300)
	gatedChecks(sum, 6)
	cases.Flush()
	sum.CaseFiles = cases.Files
	sum.Write(*out)
}

func checkConstants() string {
	// the record-type constants of Model/AuditProc.v
	if auparse.AUDIT_EOE != 1320 || auparse.AUDIT_PROCTITLE != 1327 || auparse.AUDIT_LAST_DAEMON != 1299 || auparse.AUDIT_ANOM_LOGIN_FAILURES != 2100 {
		return "go-libaudit's record type numbers differ from Model/AuditProc.v (EOE 1320, PROCTITLE 1327, LAST_DAEMON 1299, ANOM_LOGIN_FAILURES 2100)"
	}
	return ""
}

func nontrivial(c *Case) bool {
	if len(c.FailAt) > 0 || c.Budget >= 0 {
		return true
	}
	// two events interleaved: some sequence number reappears after another one intervened
	last := map[uint32]int{}
	k := 0
	for _, it := range c.Items {
		if it.Kind == "login" && it.Login.Invalid != "" {
			return true
		}
		if it.Kind != "line" || it.Empty {
			continue
		}
		if it.Bad != "" {
			return true
		}
		if p, ok := last[it.Seq]; ok && p != k-1 {
			return true
		}
		last[it.Seq] = k
		k++
	}
	return false
}

func runCase(c *Case, sum *hutil.Summary, cases *hutil.CaseFile, i int) {
	auditd.SetLogger(hutil.Logger(c.Debug))
	defer auditd.SetLogger(hutil.Logger(false))
	if c.Debug {
		sum.Dist("debug_logging_on")
	}
	key := mustJSON(c.Items) + fmt.Sprint(c.MaxSz, c.FailAt, c.Budget, c.AfterSec)
	sum.Count(key, nontrivial(c))
	sum.Dist(fmt.Sprintf("level%d_%s", c.Level, c.Mode))
	nl := len(lineItems(c))
	sum.Dist(fmt.Sprintf("lines_%02d-%02d", nl/10*10, nl/10*10+9))
	if c.Level == 1 {
		o := runL1(c)
		if o.Harness != "" {
			sum.FailKey("harness", "l1", o.Harness, map[string]any{"case": c, "observed": o})
			return
		}
		if o.Slow {
			sum.Dist("discarded_slow_segment")
			return
		}
		if o.Blocked != "" {
			for _, f := range judgeL1(c, o) {
				sum.FailKey("oracle", f.key, f.what, map[string]any{"case": c, "observed": o})
			}
			return
		}
		sum.Dist(fmt.Sprintf("l1_groups_%02d-%02d", len(o.Groups)/5*5, len(o.Groups)/5*5+4))
		if len(o.Lost) > 0 {
			sum.Dist("l1_events_lost_reported")
		}
		if o.Holds > 0 {
			sum.Dist("l1_backlog_queued_while_callback_held")
		}
		if o.ParseRes != "running" {
			sum.Dist("l1_parse_error")
		}
		if o.Slot != "" {
			sum.Dist("l1_slot_full")
		}
		if len(o.Failed) > 1 {
			sum.Dist("l1_later_error_dropped")
		}
		for _, f := range judgeL1(c, o) {
			kind := "oracle"
			if f.key == "harness" {
				kind = "harness"
			}
			sum.FailKey(kind, f.key, f.what, map[string]any{"case": c, "observed": o})
		}
		term, bad := coqCase1(c, o)
		if bad != "" {
			sum.FailKey("harness", "uninterpretable", bad, map[string]any{"case": c, "observed": o})
		} else {
			cases.AddDesc(term, map[string]any{"case": c, "observed": o})
		}
		if i < 2 {
			sum.Sample(map[string]any{"level": 1, "mode": c.Mode, "lines": nl, "groups": o.Groups, "parse": o.ParseRes, "slot": o.Slot})
		}
		return
	}
	o := runL2(c)
	if o.Harness != "" {
		sum.FailKey("harness", "l2", o.Harness, map[string]any{"case": c, "observed": o})
		return
	}
	sum.Dist(fmt.Sprintf("l2_result_class_%d", o.Class))
	if o.TimedOut {
		sum.Dist("l2_wait_timed_out")
	}
	for _, f := range judgeL2(c, o) {
		kind := "oracle"
		if f.key == "harness" {
			kind = "harness"
		}
		sum.FailKey(kind, f.key, f.what, map[string]any{"case": c, "observed": o})
	}
	if c.Transient {
		// the model's writer fails for good once its budget is used up; a one-off failure is judged by the oracle only
		sum.Dist("l2_transient_oracle_only")
		return
	}
	term, bad := coqCase2(c, o)
	if bad != "" {
		sum.FailKey("harness", "uninterpretable", bad, map[string]any{"case": c, "observed": o})
	} else {
		cases.AddDesc(term, map[string]any{"case": c, "observed": o})
	}
	if i < 5 && i >= 3 {
		sum.Sample(map[string]any{"level": 2, "mode": c.Mode, "lines": nl, "result": o.Res, "written": len(o.Written)})
	}
}

func doReplay(path string) int {
	raw, err := os.ReadFile(path)
	if err != nil {
		fmt.Println("cannot read replay:", err)
		return 2
	}
	var rp struct {
		Replay struct {
			Case     *Case          `json:"case"`
			Gated    *gatedScenario `json:"gated"`
			Realtime *rtScenario    `json:"realtime"`
			Frame    *frameReplay   `json:"frame"`
			CancelF  *cfScenario    `json:"cancelfull"`
			Conc     *concCase      `json:"conc"`
		} `json:"replay"`
	}
	if err := json.Unmarshal(raw, &rp); err != nil {
		fmt.Println("bad replay:", err)
		return 2
	}
	if rp.Replay.Realtime != nil {
		return replayRealtime(*rp.Replay.Realtime)
	}
	if rp.Replay.Frame != nil {
		return replayFrame(*rp.Replay.Frame)
	}
	if rp.Replay.CancelF != nil {
		return replayCancelFull(*rp.Replay.CancelF)
	}
	if rp.Replay.Conc != nil {
		return replayConc(*rp.Replay.Conc)
	}
	if rp.Replay.Gated != nil {
		key, what := runGated(*rp.Replay.Gated)
		if key != "" && key != "harness" {
			fmt.Printf("REPRODUCED %s: %s\n", key, what)
			return 1
		}
		fmt.Println("not reproduced", what)
		return 0
	}
	if rp.Replay.Case == nil {
		fmt.Println("replay file carries no case (no failing input was found)")
		return 2
	}
	c := rp.Replay.Case
	var fs []fail
	// a schedule-dependent failure may need more than one run
	for try := 0; try < 3 && len(fs) == 0; try++ {
		if c.Level == 1 {
			o := runL1(c)
			if o.Harness != "" {
				fmt.Println("harness error:", o.Harness)
				return 2
			}
			fs = judgeL1(c, o)
		} else {
			o := runL2(c)
			if o.Harness != "" {
				fmt.Println("harness error:", o.Harness)
				return 2
			}
			fs = judgeL2(c, o)
		}
	}
	for _, f := range fs {
		fmt.Printf("REPRODUCED %s: %s\n", f.key, strings.ReplaceAll(f.what, "\n", " "))
	}
	if len(fs) > 0 {
		return 1
	}
	fmt.Println("not reproduced")
	return 0
}
