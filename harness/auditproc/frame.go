//go:build verif

package main

import (
	"context"
	"errors"
	"fmt"
	"hash/fnv"
	"os"
	"path/filepath"
	"reflect"
	"strings"
	"sync"
	"syscall"
	"time"

	"github.com/elastic/go-libaudit/v2"
	"github.com/elastic/go-libaudit/v2/auparse"
	"go.uber.org/zap"

	"github.com/metal-toolbox/audito-maldito/ingesters/auditlog"
	"github.com/metal-toolbox/audito-maldito/ingesters/namedpipe"
	"github.com/metal-toolbox/audito-maldito/internal/health"
	"github.com/metal-toolbox/audito-maldito/internal/verifharness/hutil"
	"github.com/metal-toolbox/audito-maldito/processors/auditd"
)

// -mode frame: the auditd half of C07 on the daemon's own path.
//
// Every generated audit record line goes through the REAL parseAuditLogs three times:
//   direct  the bare record on the line channel (handed over directly),
//   framed  the record with the terminator the ingester leaves on it, on the line channel,
//   fifo    the record + terminator written into a REAL FIFO, read by the real named-pipe ingester and the real
//           audit-log ingester (Process -> buffered channel of the daemon's capacity), then parseAuditLogs.
// Each parse loop pushes into a real Reassembler (in-flight limit 1, so that every event is handed over as soon
// as the next one starts; Close flushes the last) whose stream records the messages it is given.  Expected, from
// the generated text alone (the library's parser applied to the bare record is the reference message): every
// record that parses is pushed exactly once on every path, as the same message (type, sequence, timestamp, raw
// text, parsed fields); a path never reports a parse error for a record that parses; nothing is dropped without
// an error.  Record lengths are swept densely: EVERY length from the shortest record of a template up to beyond
// 16 KiB (a field value is padded), plus lengths around 32 KiB / 64 KiB, plus the records of the C15 generators.

const frameRule = "audit record lines through the real parseAuditLogs, bare / with terminator / through a real FIFO + named-pipe ingester + audit-log ingester + buffered channel: " +
	"templates CWD, USER_CMD (ENRICHED trailer), SYSCALL, EXECVE, PATH, PROCTITLE with one padded field, EVERY total length from the template's shortest record to 16 KiB + 512 (PROCTITLE: even pads), " +
	"lengths around 32 KiB and 64 KiB, and the kernel / single-record events of the C15 generators (interleaved blocks, EOE, empty lines); non-trivial = every record; distinct by record text"

type frameMsg struct {
	Typ  int
	Seq  uint32
	TS   time.Time
	Raw  string
	Data map[string]string
	DErr bool
}

func refMsg(line string) (frameMsg, error) {
	m, err := auparse.ParseLogLine(line)
	if err != nil {
		return frameMsg{}, err
	}
	return toFrameMsg(m, wantData(m.RawData)), nil
}

func toFrameMsg(m *auparse.AuditMessage, withData bool) frameMsg {
	fm := frameMsg{Typ: int(m.RecordType), Seq: m.Sequence, TS: m.Timestamp, Raw: m.RawData}
	if withData {
		d, err := m.Data()
		fm.Data, fm.DErr = d, err != nil
	}
	return fm
}

type frameStream struct {
	mu   sync.Mutex
	got  map[string][]frameMsg // key -> messages delivered with that key
	data func(raw string) bool // whether to parse the fields of this message
}

func (s *frameStream) ReassemblyComplete(msgs []*auparse.AuditMessage) {
	s.mu.Lock()
	defer s.mu.Unlock()
	for _, m := range msgs {
		k := msgKey(m.RecordType, m.RawData)
		s.got[k] = append(s.got[k], toFrameMsg(m, s.data(m.RawData)))
	}
}
func (s *frameStream) EventsLost(int) {}

type frameObs struct {
	Path     string
	Got      map[string][]frameMsg
	ParseErr string // "" = the loop returned only on cancellation
	ParseCls string
	Harness  string
}

// wantData: fields are compared for short records and for a share of the long ones (the share is a function of the text)
func wantData(raw string) bool { return len(raw) < 1500 || len(raw)%7 == 3 }

// runFramePath feeds the records through one path.
func runFramePath(path string, recs []string, r *hutil.Rand, tmp string) frameObs {
	o := frameObs{Path: path}
	st := &frameStream{got: map[string][]frameMsg{}, data: wantData}
	reass, err := libaudit.NewReassembler(1, time.Hour, st)
	if err != nil {
		o.Harness = err.Error()
		return o
	}
	capacity := 64
	if path == "fifo" {
		capacity = daemonAuditBuf
	}
	ch := make(chan string, capacity)
	ctx, cancel := context.WithCancel(context.Background())
	defer cancel()
	done := make(chan error, 1)
	go func() { done <- auditd.VerifC15ParseAuditLogs(ctx, ch, reass) }()
	var perr error
	returned := false
	finish := func() frameObs {
		if !returned {
			// barrier: the channel is empty and an empty line queued after that has been taken as well
			for phase := 0; phase < 2 && !returned; phase++ {
				dl := time.Now().Add(10 * time.Second)
				for len(ch) > 0 && !returned {
					select {
					case perr = <-done:
						returned = true
					default:
						if time.Now().After(dl) {
							o.Harness = "the parse loop did not drain the line channel within 10 s"
							return o
						}
						time.Sleep(50 * time.Microsecond)
					}
				}
				if phase == 0 && !returned {
					select {
					case ch <- "":
					case perr = <-done:
						returned = true
					}
				}
			}
		}
		if !returned {
			cancel()
			select {
			case perr = <-done:
			case <-time.After(5 * time.Second):
				o.Harness = "the parse loop did not return within 5 s of cancellation"
				return o
			}
		}
		cancel()
		if !errors.Is(perr, context.Canceled) {
			o.ParseErr = fmt.Sprint(perr)
			o.ParseCls = auditd.VerifC15ErrClass(perr)
		}
		_ = reass.Close()
		st.mu.Lock()
		o.Got = st.got
		st.mu.Unlock()
		return o
	}
	if path != "fifo" {
		for _, rec := range recs {
			if path == "framed" {
				rec += "\n"
			}
			select {
			case ch <- rec:
			case perr = <-done:
				returned = true
			case <-time.After(10 * time.Second):
				o.Harness = "the parse loop did not take a line within 10 s"
				return o
			}
			if returned {
				break
			}
		}
		return finish()
	}
	// ---- a real FIFO, the real ingesters
	dir, err := os.MkdirTemp(tmp, "frame")
	if err != nil {
		o.Harness = "mkdtemp: " + err.Error()
		return o
	}
	defer os.RemoveAll(dir)
	pipe := filepath.Join(dir, "audit-pipe")
	if err := syscall.Mkfifo(pipe, 0o600); err != nil {
		o.Harness = "mkfifo: " + err.Error()
		return o
	}
	ali := auditlog.NewAuditLogIngester(pipe, ch, namedpipe.NewNamedPipeIngester(zap.NewNop().Sugar(), health.NewHealth()))
	ingDone := make(chan error, 1)
	go func() { ingDone <- ali.Ingest(ctx) }()
	w, err := os.OpenFile(pipe, os.O_WRONLY, 0)
	if err != nil {
		o.Harness = "open fifo: " + err.Error()
		return o
	}
	wdone := make(chan struct{})
	go func() {
		defer close(wdone)
		defer w.Close()
		var buf []byte
		flush := func() bool {
			for off := 0; off < len(buf); {
				k := 1 + r.Intn([]int{7, 100, 4096, 70000, 70000}[r.Intn(5)])
				if off+k > len(buf) {
					k = len(buf) - off
				}
				if _, err := w.Write(buf[off : off+k]); err != nil {
					return false
				}
				off += k
			}
			buf = buf[:0]
			return true
		}
		for _, rec := range recs {
			buf = append(buf, rec...)
			buf = append(buf, '\n')
			if len(buf) > 1<<20 && !flush() {
				return
			}
		}
		flush()
	}()
	select {
	case <-ingDone: // end of stream: the writer closed the pipe
	case perr = <-done:
		returned = true
		cancel()
		<-ingDone
	case <-time.After(120 * time.Second):
		o.Harness = "the audit-log ingester did not reach the end of the stream within 120 s"
		cancel()
		<-wdone
		return o
	}
	if returned {
		// the parse loop stopped early: unblock the writer
		rf, _ := os.OpenFile(pipe, os.O_RDONLY|syscall.O_NONBLOCK, 0)
		select {
		case <-wdone:
		case <-time.After(5 * time.Second):
		}
		if rf != nil {
			rf.Close()
		}
	} else {
		<-wdone
	}
	return finish()
}

type frameFail struct {
	key, what string
	line      string
}

// judgeFrame: from the records and the reference parser alone
func judgeFrame(recs []string, obs []frameObs) []frameFail {
	var fs []frameFail
	type ref struct {
		ok  bool
		key string
		m   frameMsg
	}
	refs := make([]ref, len(recs))
	count := map[string]int{}
	for i, rec := range recs {
		if rec == "" {
			continue
		}
		m, err := refMsg(rec)
		if err != nil {
			continue
		}
		refs[i] = ref{true, msgKey(auparse.AuditMessageType(m.Typ), m.Raw), m}
		if m.Typ != int(auparse.AUDIT_EOE) {
			count[refs[i].key]++
		}
	}
	short := func(s string) string {
		if len(s) > 160 {
			return fmt.Sprintf("%s...%s (%d bytes)", s[:100], s[len(s)-40:], len(s))
		}
		return s
	}
	missing := map[int][]string{} // record -> paths on which it was not pushed
	for _, o := range obs {
		if o.Harness != "" {
			fs = append(fs, frameFail{"harness", o.Path + ": " + o.Harness, ""})
			continue
		}
		stop := len(recs)
		if o.ParseErr != "" {
			stop = -1
			for i, rec := range recs {
				if rec != "" && strings.Contains(o.ParseErr, "'"+rec) {
					stop = i
					break
				}
			}
			switch {
			case stop < 0:
				fs = append(fs, frameFail{"framed:audit:unidentified-parse-error", fmt.Sprintf("path %s: the parse loop stopped with %q, which names none of the records", o.Path, short(o.ParseErr)), ""})
				continue
			case refs[stop].ok:
				fs = append(fs, frameFail{"framed:audit:spurious-parse-error", fmt.Sprintf("path %s: record %d parses when handed to the parser directly, but the parse loop stopped with %q", o.Path, stop, short(o.ParseErr)), recs[stop]})
			}
		}
		for i := 0; i < stop; i++ {
			rf := refs[i]
			if recs[i] == "" {
				continue
			}
			if !rf.ok {
				fs = append(fs, frameFail{"skip:bad-line-skipped", fmt.Sprintf("path %s: record %d does not parse but the parse loop went past it: %q", o.Path, i, short(recs[i])), recs[i]})
				continue
			}
			if rf.m.Typ == int(auparse.AUDIT_EOE) || count[rf.key] != 1 {
				continue // an end-of-event marker is never handed over; identical records cannot be told apart
			}
			got := o.Got[rf.key]
			switch {
			case len(got) == 0:
				missing[i] = append(missing[i], o.Path)
			case len(got) > 1:
				fs = append(fs, frameFail{"framed:audit:duplicated", fmt.Sprintf("path %s: record %d was pushed %d times: %q", o.Path, i, len(got), short(recs[i])), recs[i]})
			default:
				g := got[0]
				if g.Typ != rf.m.Typ || g.Seq != rf.m.Seq || !g.TS.Equal(rf.m.TS) || g.Raw != rf.m.Raw ||
					(g.Data != nil && (!reflect.DeepEqual(g.Data, rf.m.Data) || g.DErr != rf.m.DErr)) {
					fs = append(fs, frameFail{"framed:audit:differs", fmt.Sprintf("path %s: record %d was pushed as a different message than the parser yields for the bare record: %q", o.Path, i, short(recs[i])), recs[i]})
				}
			}
		}
	}
	for i := range recs {
		ps := missing[i]
		if len(ps) == 0 {
			continue
		}
		direct := false
		for _, p := range ps {
			if p == "direct" {
				direct = true
			}
		}
		if direct {
			fs = append(fs, frameFail{"skip:line-lost", fmt.Sprintf("record %d (%d bytes) parses but was neither pushed nor reported as a parse error (paths %v): %q", i, len(recs[i]), ps, short(recs[i])), recs[i]})
		} else {
			fs = append(fs, frameFail{"framed:audit:dropped", fmt.Sprintf("record %d (%d bytes) is pushed when handed over directly, but with its terminator (paths %v) it is neither pushed nor reported: %q", i, len(recs[i]), ps, short(recs[i])), recs[i]})
		}
	}
	return fs
}

// ---------- generators ----------

var frameTemplates = []struct {
	name string
	hex  bool
	text string // %[1]s header, %[2]s pad
}{
	{"CWD", false, `type=CWD msg=%[1]s: cwd="/%[2]s"`},
	{"USER_CMD", false, `type=USER_CMD msg=%[1]s: pid=4242 uid=1000 auid=1000 ses=499 msg='cwd="/home/%[2]s" cmd=73797374656D63746C20737461747573 exe="/usr/bin/sudo" terminal=pts/3 res=success'` + "\x1d" + `UID="someuser" AUID="someuser"`},
	{"SYSCALL", false, `type=SYSCALL msg=%[1]s: arch=c000003e syscall=59 success=yes exit=0 a0=1 a1=2 a2=3 a3=8 items=2 ppid=1 pid=4243 auid=1000 uid=1000 gid=1000 euid=1000 suid=1000 fsuid=1000 egid=1000 sgid=1000 fsgid=1000 tty=pts3 ses=499 comm="x" exe="/usr/bin/%[2]s" key="operator-commands"`},
	{"EXECVE", false, `type=EXECVE msg=%[1]s: argc=2 a0="ls" a1="%[2]s"`},
	{"PATH", false, `type=PATH msg=%[1]s: item=0 name="/tmp/%[2]s" inode=1442550 dev=fd:00 mode=0100755 ouid=0 ogid=0 rdev=00:00 nametype=NORMAL cap_fp=0 cap_fi=0 cap_fe=0 cap_fver=0 cap_frootid=0` + "\x1d" + `OUID="root" OGID="root"`},
	{"PROCTITLE", true, `type=PROCTITLE msg=%[1]s: proctitle=%[2]s`},
}

const padChars = "abcdefghijklmnopqrstuvwxyz0123456789-_./ABCDEFGHIJKLMNOPQRSTUVWXYZ"

func padText(n int, hex bool, salt int) string {
	b := make([]byte, n)
	for i := range b {
		if hex {
			b[i] = "0123456789ABCDEF"[(i*7+salt)%16]
		} else {
			b[i] = padChars[(i*11+salt)%len(padChars)]
		}
	}
	return string(b)
}

type frameGen struct{ seq uint32 }

func (g *frameGen) hdr() string {
	g.seq++
	return fmt.Sprintf("audit(%d.%03d:%d)", 1700000000+int64(g.seq/7), int(g.seq%1000), 100000+g.seq)
}

// sized returns a record of template t with exactly total bytes ("" if the template cannot have that length)
func (g *frameGen) sized(t, total int) string {
	tp := frameTemplates[t]
	h := g.hdr()
	base := len(fmt.Sprintf(tp.text, h, ""))
	pad := total - base
	if pad < 0 || (tp.hex && (pad%2 == 1 || pad == 0)) {
		return ""
	}
	return fmt.Sprintf(tp.text, h, padText(pad, tp.hex, total))
}

// frameSweep: every length from lo to hi for the given templates (template t gets the lengths l with l % stride == t % stride)
func (g *frameGen) sweep(templates []int, lo, hi, stride int) []string {
	var recs []string
	for k, t := range templates {
		for l := lo; l <= hi; l++ {
			if stride > 1 && l%stride != k%stride {
				continue
			}
			if rec := g.sized(t, l); rec != "" {
				recs = append(recs, rec)
			}
		}
	}
	return recs
}

func frameMain(out string, seed uint64, n int, dense bool) {
	r := hutil.NewRand(seed ^ 0xC07A)
	sum := hutil.NewSummary("C07", seed, frameRule)
	tmp, err := os.MkdirTemp("", "verif-frame-")
	if err != nil {
		sum.Fail("harness", err.Error(), nil)
		sum.Write(out)
		return
	}
	defer os.RemoveAll(tmp)
	// a job generates one batch of records (with sequence numbers of its own) and runs it through the three paths
	type job struct {
		gen func(g *frameGen) []string
	}
	var jobs []job
	// 1. dense length sweep.  quick: the shortest template at EVERY length, the others share the lengths between
	//    them (every length is covered by a second template too); dense (thorough): every template at every length
	const hi = 16*1024 + 512
	const chunk = 2048
	for lo := 30; lo <= hi; lo += chunk {
		lo, up := lo, lo+chunk-1
		if up > hi {
			up = hi
		}
		jobs = append(jobs, job{func(g *frameGen) []string { return g.sweep([]int{0}, lo, up, 1) }})
		if dense {
			for t := 1; t < len(frameTemplates); t++ {
				t := t
				jobs = append(jobs, job{func(g *frameGen) []string { return g.sweep([]int{t}, lo, up, 1) }})
			}
		} else {
			jobs = append(jobs, job{func(g *frameGen) []string { return g.sweep([]int{1, 2, 3, 4, 5}, lo, up, 5) }})
		}
	}
	// 2. around the larger powers of two (the reader's buffer is 4096 bytes, a pipe holds 64 KiB)
	jobs = append(jobs, job{func(g *frameGen) []string {
		var big []string
		for _, c := range []int{32768, 65536, 70000, 131072} {
			for d := -3; d <= 3; d++ {
				for t := range frameTemplates {
					if rec := g.sized(t, c+d); rec != "" && (t < 2 || d == 0) {
						big = append(big, rec)
					}
				}
			}
		}
		return big
	}})
	// 3. the record shapes of the C15 generators: interleaved kernel events, single-record events, EOE
	for b := 0; b < 2+n/20; b++ {
		var recs []string
		for k := 0; k < 6; k++ {
			// (no blank lines here: a blank line is not an audit record.  Observation, not raised: a blank line framed by its
			// terminator is "\n", not the empty string parseAuditLogs skips, and stops the processor with a parse error.)
			for _, it := range backlogStream(r) {
				recs = append(recs, it.Text)
			}
		}
		jobs = append(jobs, job{func(*frameGen) []string { return recs }})
	}
	type jobResult struct {
		n        int
		keys     []string
		dist     map[string]int
		fails    []frameFail
		first    string
		lastSize int
	}
	results := make([]jobResult, len(jobs))
	var wg sync.WaitGroup
	sem := make(chan struct{}, 6)
	for ji := range jobs {
		wg.Add(1)
		sem <- struct{}{}
		go func(ji int) {
			defer wg.Done()
			defer func() { <-sem }()
			recs := jobs[ji].gen(&frameGen{seq: uint32(ji) * 100000})
			obs := make([]frameObs, 3)
			var pw sync.WaitGroup
			for k, p := range []string{"direct", "framed", "fifo"} {
				pw.Add(1)
				go func(k int, p string) {
					defer pw.Done()
					obs[k] = runFramePath(p, recs, hutil.NewRand(seed+uint64(ji)), tmp)
				}(k, p)
			}
			pw.Wait()
			res := jobResult{n: len(recs), dist: map[string]int{}}
			for _, rec := range recs {
				hsh := fnv.New64a()
				hsh.Write([]byte(rec))
				res.keys = append(res.keys, fmt.Sprintf("%d:%x", len(rec), hsh.Sum64()))
				res.dist[fmt.Sprintf("record_bytes_%05d-%05d", len(rec)/2048*2048, len(rec)/2048*2048+2047)]++
			}
			res.fails = judgeFrame(recs, obs)
			if len(recs) > 0 {
				res.first, res.lastSize = recs[0], len(recs[len(recs)-1])
			}
			results[ji] = res
		}(ji)
	}
	wg.Wait()
	total := 0
	for ji, res := range results {
		for _, k := range res.keys {
			sum.Count(k, true)
		}
		for k, v := range res.dist {
			sum.Distribution[k] += v
		}
		total += res.n
		sum.Dist("batches")
		nf := 0
		for _, f := range res.fails {
			if f.key == "harness" {
				sum.FailKey("harness", "frame", f.what, nil)
				continue
			}
			if nf++; nf > 4 {
				break
			}
			sum.FailKey("oracle", f.key, f.what, map[string]any{"frame": frameReplay{Records: []string{f.line}}})
		}
		if ji == 0 && res.n > 0 {
			sum.Sample(map[string]any{"shortest_record": res.first, "longest_bytes_in_first_batch": res.lastSize, "records_in_first_batch": res.n})
		}
	}
	sum.Notes = append(sum.Notes, fmt.Sprintf("%d records, each through 3 paths (direct, framed, real FIFO + ingesters)", total))
	sum.CaseFiles = nil
	sum.Write(out)
	fmt.Printf("frame: %d records, %d failures\n", total, sum.NFailures)
}

type frameReplay struct {
	Records []string `json:"audit_records"`
}

func replayFrame(fr frameReplay) int {
	tmp, err := os.MkdirTemp("", "verif-frame-")
	if err != nil {
		fmt.Println("harness error:", err)
		return 2
	}
	defer os.RemoveAll(tmp)
	r := hutil.NewRand(1)
	obs := []frameObs{runFramePath("direct", fr.Records, r, tmp), runFramePath("framed", fr.Records, r, tmp), runFramePath("fifo", fr.Records, r, tmp)}
	rc := 0
	for _, f := range judgeFrame(fr.Records, obs) {
		if f.key == "harness" {
			fmt.Println("harness error:", f.what)
			return 2
		}
		fmt.Printf("REPRODUCED %s: %s\n", f.key, f.what)
		rc = 1
	}
	if rc == 0 {
		fmt.Println("not reproduced")
	}
	return rc
}
