//go:build verif

package main

import (
	"context"
	"fmt"
	"sync"
	"time"

	"github.com/metal-toolbox/auditevent"

	"github.com/metal-toolbox/audito-maldito/internal/common"
	"github.com/metal-toolbox/audito-maldito/internal/health"
	"github.com/metal-toolbox/audito-maldito/internal/verifharness/hutil"
	"github.com/metal-toolbox/audito-maldito/processors/auditd"
)

// Real-time runs of the real Auditd.Read for C16: the second half of a session arrives inside the
// one-minute window (it must be correlated) or more than two minutes after the first (the held half must
// have been discarded: nothing is emitted, not even late), with and without unrelated traffic in between.
// All scenarios run concurrently, each on its own processor; wall time is the longest gap (~135 s).
type rtScenario struct {
	Name      string   `json:"name"`
	First     string   `json:"first_half"` // "session" (LOGIN record + 2 events first) | "login"
	GapSec    int      `json:"gap_seconds"`
	BusyEvery int      `json:"unrelated_traffic_every_seconds"` // 0: silence
	BusyKind  string   `json:"unrelated_traffic"`               // "logins" | "audit"
	Expect    bool     `json:"expect_correlated"`
	Stall     *rtStall `json:"sink_stall,omitempty"` // the event sink stalls across a cleanup tick (realtime_stall.go)
}

var rtScenarios = []rtScenario{
	{"session-first-30s", "session", 30, 0, "", true, nil},
	{"login-first-30s", "login", 30, 0, "", true, nil},
	{"session-first-50s-busy-logins", "session", 50, 7, "logins", true, nil},
	{"session-first-130s", "session", 130, 0, "", false, nil},
	{"login-first-130s", "login", 130, 0, "", false, nil},
	{"session-first-130s-busy-logins", "session", 130, 20, "logins", false, nil},
	{"login-first-130s-busy-logins", "login", 130, 20, "logins", false, nil},
	{"session-first-130s-busy-audit", "session", 130, 20, "audit", false, nil},
}

type rtResult struct {
	Scenario rtScenario `json:"scenario"`
	Emitted  int        `json:"emitted_for_the_session"`
	Expected int        `json:"expected"`
	Ret      string     `json:"read_returned"`
	Harness  string     `json:"harness_problem,omitempty"`
	Timing   string     `json:"timing,omitempty"`
	Skipped  string     `json:"not_judged,omitempty"`
}

func runRealtime(sc rtScenario, idx int, scale float64) rtResult {
	if sc.Stall != nil {
		return runRealtimeStall(sc, idx, scale)
	}
	res := rtResult{Scenario: sc}
	enc := &recEnc{budget: -1}
	lines := make(chan string)
	logins := make(chan common.RemoteUserLogin)
	a := auditd.Auditd{Audits: lines, Logins: logins, EventW: auditevent.NewAuditEventWriter(enc),
		Health: health.NewSingleReadinessHealth(auditd.AuditdProcessorComponentName)}
	ctx, cancel := context.WithCancel(context.Background())
	defer cancel()
	done := make(chan error, 1)
	go func() { done <- a.Read(ctx) }()
	g := &genState{r: hutil.NewRand(uint64(77 + idx)), seq: uint32(50000 + 1000*idx), pid: 3000}
	sshdPid := 26000 + idx
	sid := fmt.Sprint(700 + idx)
	feed := func(text string) bool {
		for _, s := range []string{text, ""} {
			select {
			case lines <- s:
			case err := <-done:
				res.Harness = fmt.Sprintf("Read returned early: %v", err)
				return false
			case <-time.After(5 * time.Second):
				res.Harness = "a line was not taken within 5s"
				return false
			}
		}
		return true
	}
	single := func(ses string, pid int, typ string) bool {
		e := g.newEv(ses, pid)
		singleEvent(e, typ)
		for _, it := range e.recs {
			if !feed(it.Text) {
				return false
			}
		}
		return true
	}
	login := func(id, pid int) bool {
		select {
		case logins <- mkRUL(&Login{ID: id, PID: pid}):
			return true
		case err := <-done:
			res.Harness = fmt.Sprintf("Read returned early: %v", err)
		case <-time.After(5 * time.Second):
			res.Harness = "a login was not taken within 5s"
		}
		return false
	}
	sessionHalf := func() bool {
		return single(sid, sshdPid, "LOGIN") && single(sid, sshdPid, "USER_START") && single(sid, sshdPid, "USER_CMD")
	}
	nSession := 3
	ok := true
	if sc.First == "session" {
		ok = sessionHalf()
	} else {
		ok = login(1, sshdPid)
	}
	start := time.Now()
	gap := time.Duration(float64(sc.GapSec) * scale * float64(time.Second))
	busy := 0
	for ok && time.Since(start) < gap {
		step := gap - time.Since(start)
		if sc.BusyEvery > 0 {
			if every := time.Duration(float64(sc.BusyEvery) * scale * float64(time.Second)); every < step {
				step = every
			}
		}
		time.Sleep(step)
		if sc.BusyEvery > 0 && time.Since(start) < gap {
			busy++
			if sc.BusyKind == "logins" {
				ok = login(100+busy, 40000+100*idx+busy)
			} else {
				ok = single(fmt.Sprint(9000+100*idx+busy), 41000+busy, "LOGIN")
			}
		}
	}
	if ok {
		if sc.First == "session" {
			ok = login(1, sshdPid)
		} else {
			ok = sessionHalf()
		}
	}
	// one more event of the session after both halves were delivered
	if ok {
		ok = single(sid, sshdPid, "USER_ACCT")
		nSession++
	}
	if ok {
		// a barrier login: once taken, the previous login has been handled completely
		ok = login(2, 50000+idx)
	}
	time.Sleep(300 * time.Millisecond)
	cancel()
	select {
	case err := <-done:
		res.Ret = fmt.Sprint(err)
	case <-time.After(5 * time.Second):
		res.Ret = "(did not return)"
	}
	enc.mu.Lock()
	for _, id := range enc.ids {
		if id == sid {
			res.Emitted++
		}
	}
	enc.mu.Unlock()
	if sc.Expect {
		res.Expected = nSession
	}
	return res
}

func realtimeMain(out string, seed uint64, scale float64) {
	sum := hutil.NewSummary("C16", seed,
		"real-time runs of the real Auditd.Read, one processor per scenario, all concurrently: the second half of a session (login or LOGIN record + 2 events) arrives 30-50 s after the first (inside the one-minute window: must be correlated, every event emitted) "+
			"or 130 s after it (more than two minutes: the waiting half must have been discarded, nothing is emitted, not even late), in silence and with unrelated logins / audit sessions arriving every 7-20 s; "+
			"and scenarios in which the event sink STALLS for 20-40 s across the first cleanup tick (one write of an unrelated session does not return: inside RemoteLogin's flush, so that Read's loop itself is stuck, or inside AuditdEvent, so that the loop waits for the correlator's mutex in the cleanup): the first half produced during the stall (login stamped then, LOGIN record written then) or well before it, the second half 50-57 s later (measured: must be correlated) or 125 s later (must have been discarded); non-trivial = the scenario ran to its end; distinct by scenario")
	all := append(append([]rtScenario{}, rtScenarios...), rtStallScenarios...)
	results := make([]rtResult, len(all))
	var wg sync.WaitGroup
	for i, sc := range all {
		wg.Add(1)
		go func(i int, sc rtScenario) {
			defer wg.Done()
			results[i] = runRealtime(sc, i, scale)
		}(i, sc)
	}
	wg.Wait()
	// every reported failure is confirmed by replaying its scenario in real time (two minutes each): one failure per
	// verdict is reported with its scenario as the failing input, further scenarios with the same verdict are listed as notes
	reported := map[string]bool{}
	failOnce := func(key, what string, replay any) {
		if reported[key] {
			sum.Notes = append(sum.Notes, "also "+key+": "+what)
			return
		}
		reported[key] = true
		sum.FailKey("oracle", key, what, replay)
	}
	for _, r := range results {
		sum.Count(r.Scenario.Name, r.Harness == "" && r.Skipped == "")
		if st := r.Scenario.Stall; st != nil {
			sum.Dist(fmt.Sprintf("sink_stalled_across_a_tick_in_%s", st.Kind))
			sum.Dist(fmt.Sprintf("gap_%ds", st.SecondAt-st.FirstAt))
		} else {
			sum.Dist(fmt.Sprintf("gap_%ds", r.Scenario.GapSec))
		}
		sum.Sample(r)
		gapTxt := fmt.Sprintf("the halves arrived %d s apart", r.Scenario.GapSec)
		if r.Scenario.Stall != nil {
			gapTxt = r.Timing
		}
		switch {
		case r.Skipped != "":
			sum.Notes = append(sum.Notes, r.Scenario.Name+": "+r.Skipped+"; "+r.Timing)
		case r.Harness != "":
			sum.FailKey("harness", "realtime:"+r.Scenario.Name, r.Harness, map[string]any{"realtime": r.Scenario})
		case r.Scenario.Expect && r.Emitted != r.Expected:
			failOnce("window:inside-not-correlated", fmt.Sprintf("%s: %s (inside the one-minute window) but %d of the session's %d events were emitted",
				r.Scenario.Name, gapTxt, r.Emitted, r.Expected), map[string]any{"realtime": r.Scenario, "observed": r})
		case !r.Scenario.Expect && r.Emitted != 0:
			failOnce("window:stale-half-kept", fmt.Sprintf("%s: %s (more than two minutes) but %d event(s) of the session were emitted: the waiting half was not discarded",
				r.Scenario.Name, gapTxt, r.Emitted), map[string]any{"realtime": r.Scenario, "observed": r})
		}
	}
	sum.CaseFiles = nil
	sum.Write(out)
}

func replayRealtime(sc rtScenario) int {
	r := runRealtime(sc, 0, 1)
	if r.Harness != "" {
		fmt.Println("harness error:", r.Harness)
		return 2
	}
	if r.Skipped != "" {
		fmt.Println("not judged:", r.Skipped)
		return 0
	}
	if (sc.Expect && r.Emitted != r.Expected) || (!sc.Expect && r.Emitted != 0) {
		fmt.Printf("REPRODUCED window: %s: %d event(s) emitted, expected %d; %s\n", sc.Name, r.Emitted, r.Expected, r.Timing)
		return 1
	}
	fmt.Println("not reproduced")
	return 0
}
