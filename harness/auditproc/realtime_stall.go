//go:build verif

package main

import (
	"context"
	"fmt"
	"sync"
	"time"

	"github.com/metal-toolbox/auditevent"

	"github.com/metal-toolbox/audito-maldito/internal/common"
	"github.com/metal-toolbox/audito-maldito/internal/health"
	"github.com/metal-toolbox/audito-maldito/internal/verifharness/hutil"
	"github.com/metal-toolbox/audito-maldito/processors/auditd"
)

// Real-time scenarios in which the event sink STALLS across a cleanup tick (C16): one write of an unrelated (helper)
// session does not return for 20-40 s, starting before the first one-minute tick and ending after it - either the
// write of a hold-queue flush inside RemoteLogin (Read's loop goroutine itself is stuck in the write) or the write
// of an audit event inside AuditdEvent (the parser goroutine is stuck holding the correlator's mutex; Read's loop
// takes the tick on time and waits for the mutex inside the cleanup).  Either way the tick's work is done late.
//
// The first half of the session under test is produced while the sink is stalled (a login is stamped by the sshd
// side then and handed over as soon as Read takes it; a LOGIN record is written then and processed as soon as the
// correlator lets it in) - or well before the stall; the second half arrives less than a minute after the first was
// produced AND handed over (must be correlated: every event of the session emitted), or more than two minutes
// after it (must have been discarded: nothing emitted).  The verdict "inside the window" is only given when the
// MEASURED distances (production of the first half -> hand-over of the second) stayed below the minute.
//
// Times are seconds after the start of Read (scaled by the stage's scale).
type rtStall struct {
	Kind     string `json:"stalled_write"` // "login-flush" | "audit-write"
	AtSec    int    `json:"stall_starts_at"`
	ForSec   int    `json:"stall_lasts"`
	FirstAt  int    `json:"first_half_produced_at"`
	SecondAt int    `json:"second_half_at"`
}

var rtStallScenarios = []rtScenario{
	{Name: "stall-40s-in-login-flush/login-during-stall/session-50s-later", First: "login", Expect: true, Stall: &rtStall{"login-flush", 50, 40, 75, 125}},
	{Name: "stall-40s-in-audit-write/login-during-stall/session-50s-later", First: "login", Expect: true, Stall: &rtStall{"audit-write", 50, 40, 75, 125}},
	{Name: "stall-30s-in-login-flush/login-during-stall/session-57s-later", First: "login", Expect: true, Stall: &rtStall{"login-flush", 50, 30, 65, 122}},
	{Name: "stall-20s-in-audit-write/login-during-stall/session-58s-later", First: "login", Expect: true, Stall: &rtStall{"audit-write", 45, 20, 63, 121}},
	{Name: "stall-40s-in-login-flush/session-during-stall/login-50s-later", First: "session", Expect: true, Stall: &rtStall{"login-flush", 50, 40, 75, 125}},
	{Name: "stall-40s-in-audit-write/session-during-stall/login-50s-later", First: "session", Expect: true, Stall: &rtStall{"audit-write", 50, 40, 75, 125}},
	{Name: "stall-40s-in-login-flush/login-before-stall/session-125s-later", First: "login", Expect: false, Stall: &rtStall{"login-flush", 50, 40, 20, 145}},
	{Name: "stall-40s-in-audit-write/session-before-stall/login-125s-later", First: "session", Expect: false, Stall: &rtStall{"audit-write", 50, 40, 20, 145}},
}

// stallEnc: the sink; once armed, the next write does not return for d
type stallEnc struct {
	*recEnc
	smu     sync.Mutex
	armed   bool
	d       time.Duration
	started time.Time
	ended   time.Time
}

func (e *stallEnc) Encode(v any) error {
	e.smu.Lock()
	a := e.armed
	e.armed = false
	if a {
		e.started = time.Now()
	}
	e.smu.Unlock()
	if a {
		time.Sleep(e.d) // the stall is an INPUT of the scenario (a sink that stops draining), not an oracle
		e.smu.Lock()
		e.ended = time.Now()
		e.smu.Unlock()
	}
	return e.recEnc.Encode(v)
}

func runRealtimeStall(sc rtScenario, idx int, scale float64) rtResult {
	res := rtResult{Scenario: sc}
	st := sc.Stall
	sec := func(n int) time.Duration { return time.Duration(float64(n) * scale * float64(time.Second)) }
	enc := &stallEnc{recEnc: &recEnc{budget: -1}, d: sec(st.ForSec)}
	lines := make(chan string)
	logins := make(chan common.RemoteUserLogin)
	a := auditd.Auditd{Audits: lines, Logins: logins, EventW: auditevent.NewAuditEventWriter(enc),
		Health: health.NewSingleReadinessHealth(auditd.AuditdProcessorComponentName)}
	ctx, cancel := context.WithCancel(context.Background())
	defer cancel()
	done := make(chan error, 1)
	t0 := time.Now()
	go func() { done <- a.Read(ctx) }()
	at := func(n int) { // wait until n (scaled) seconds after the start
		if d := time.Until(t0.Add(sec(n))); d > 0 {
			time.Sleep(d)
		}
	}
	stallEnd := t0.Add(sec(st.AtSec + st.ForSec))
	// how long a hand-over may take: until the stall is over, plus a generous margin
	patience := func() time.Duration {
		d := 10 * time.Second
		if rest := time.Until(stallEnd); rest > 0 {
			d += rest
		}
		return d
	}
	g := &genState{r: hutil.NewRand(uint64(177 + idx)), seq: uint32(150000 + 1000*idx), pid: 3000}
	sshdPid, helperPid := 27000+idx, 28000+idx
	sid, helperSid := fmt.Sprint(800+idx), fmt.Sprint(900+idx)
	send := func(text string) bool {
		select {
		case lines <- text:
			return true
		case err := <-done:
			res.Harness = fmt.Sprintf("Read returned early: %v", err)
		case <-time.After(patience()):
			res.Harness = "a line was not taken although the stall was over for 10s"
		}
		return false
	}
	// a record, then an empty line (taken only once the record has been processed completely)
	single := func(ses string, pid int, typ string, barrier bool) bool {
		e := g.newEv(ses, pid)
		singleEvent(e, typ)
		for _, it := range e.recs {
			if !send(it.Text) || (barrier && !send("")) {
				return false
			}
		}
		return true
	}
	login := func(rul common.RemoteUserLogin) bool {
		select {
		case logins <- rul:
			return true
		case err := <-done:
			res.Harness = fmt.Sprintf("Read returned early: %v", err)
		case <-time.After(patience()):
			res.Harness = "a login was not taken although the stall was over for 10s"
		}
		return false
	}
	var firstProduced, firstHanded, secondHanded time.Time
	nSession := 0
	sessionHalf := func() bool {
		nSession += 3
		return single(sid, sshdPid, "LOGIN", true) && single(sid, sshdPid, "USER_START", true) && single(sid, sshdPid, "USER_CMD", true)
	}
	firstHalf := func() bool {
		firstProduced = time.Now()
		var ok bool
		if sc.First == "login" {
			ok = login(mkRUL(&Login{ID: 1, PID: sshdPid})) // stamped now (auditevent.NewAuditEvent), handed over when Read takes it
		} else {
			ok = sessionHalf()
		}
		firstHanded = time.Now()
		return ok
	}
	// ---- the helper session, whose write will stall
	ok := true
	early := st.FirstAt < st.AtSec
	if early {
		at(st.FirstAt)
		ok = firstHalf()
	}
	at(1)
	switch st.Kind {
	case "login-flush":
		ok = ok && single(helperSid, helperPid, "LOGIN", true) && single(helperSid, helperPid, "USER_START", true)
	default:
		ok = ok && login(mkRUL(&Login{ID: 7, PID: helperPid})) && single(helperSid, helperPid, "LOGIN", true)
	}
	if ok {
		at(st.AtSec)
		enc.smu.Lock()
		enc.armed = true
		enc.smu.Unlock()
		if st.Kind == "login-flush" {
			ok = login(mkRUL(&Login{ID: 7, PID: helperPid})) // taken at once; the flush inside RemoteLogin stalls
		} else {
			ok = single(helperSid, helperPid, "USER_CMD", false) // taken at once; the write inside AuditdEvent stalls
		}
	}
	if ok && !early {
		at(st.FirstAt)
		ok = firstHalf()
	}
	if ok {
		at(st.SecondAt)
		if sc.First == "login" {
			ok = sessionHalf()
		} else {
			ok = login(mkRUL(&Login{ID: 1, PID: sshdPid}))
		}
		secondHanded = time.Now()
	}
	if ok {
		ok = single(sid, sshdPid, "USER_ACCT", true)
		nSession++
	}
	if ok {
		ok = login(mkRUL(&Login{ID: 2, PID: 51000 + idx})) // barrier: the previous login has been handled completely
	}
	time.Sleep(300 * time.Millisecond)
	cancel()
	select {
	case err := <-done:
		res.Ret = fmt.Sprint(err)
	case <-time.After(patience()):
		res.Ret = "(did not return)"
		if res.Harness == "" {
			res.Harness = "Read did not return within 10s of cancellation"
		}
	}
	enc.recEnc.mu.Lock()
	for _, id := range enc.recEnc.ids {
		if id == sid {
			res.Emitted++
		}
	}
	enc.recEnc.mu.Unlock()
	enc.smu.Lock()
	stalled := !enc.started.IsZero() && !enc.ended.IsZero()
	res.Timing = fmt.Sprintf("write stalled %.1f-%.1f s; first half produced at %.1f s, handed over by %.1f s; second half handed over by %.1f s (after the start of Read)",
		enc.started.Sub(t0).Seconds(), enc.ended.Sub(t0).Seconds(), firstProduced.Sub(t0).Seconds(), firstHanded.Sub(t0).Seconds(), secondHanded.Sub(t0).Seconds())
	enc.smu.Unlock()
	if res.Harness == "" && !stalled {
		res.Harness = "the helper session's write never happened: the scenario did not stall the sink"
	}
	if sc.Expect {
		res.Expected = nSession
		// "within a minute of each other": judged only when that is what was measured
		if res.Harness == "" && secondHanded.Sub(firstProduced) >= time.Duration(float64(time.Minute)*scale) {
			res.Skipped = fmt.Sprintf("not judged: the second half was handed over %.1f s after the first was produced (machine too slow for this scenario)", secondHanded.Sub(firstProduced).Seconds())
		}
	} else if res.Harness == "" && secondHanded.Sub(firstHanded) <= time.Duration(float64(2*time.Minute)*scale) {
		res.Skipped = "not judged: the halves were handed over less than two minutes apart"
	}
	return res
}
