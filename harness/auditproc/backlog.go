//go:build verif

package main

import (
	"context"
	"errors"
	"fmt"
	"strconv"
	"strings"
	"sync"
	"time"

	"github.com/elastic/go-libaudit/v2"
	"github.com/metal-toolbox/auditevent"

	"github.com/metal-toolbox/audito-maldito/internal/common"
	"github.com/metal-toolbox/audito-maldito/internal/health"
	"github.com/metal-toolbox/audito-maldito/internal/verifharness/hutil"
	"github.com/metal-toolbox/audito-maldito/processors/auditd"
)

// Backlog scenarios (C15): the daemon hands the audit lines to the processor through a BUFFERED channel
// (10000 slots), so the parse loop usually finds several lines queued when it wakes up.  The classic cases
// above feed an unbuffered channel one line at a time (each line followed by a barrier), which is the one
// situation in which "what else is already queued" never matters.  Here the channel has the daemon's
// capacity and lines are queued in batches:
//   - everything up to the first "sync" item is in the channel BEFORE the parse loop (level 1) / Read
//     (level 2) starts;
//   - at a "sync" item the harness waits until the channel has been drained and the last line processed;
//   - a line marked Hold is one whose record completes its event at once while no other event is open, so
//     the callback runs inside the PushMessage of that very line: the harness keeps the callback waiting
//     until the rest of the batch has been queued (a backlog that builds up while the processor is busy
//     with a slow event writer), then lets it continue.
// The oracle is the same as for the classic cases (C15 as stated: the first unparsable non-empty line stops
// the processor and is the one reported, every earlier non-empty line was pushed, no record lost or
// duplicated), and so is the model: the order in which the lines are taken from the channel is the order
// in which they were queued.

const daemonAuditBuf = 10000 // cmd/namedpipe.go: auditLogChanBufSize (the capacity matters only in that it exceeds every batch)

type holdGate struct {
	once    sync.Once
	reached chan struct{}
	release chan struct{}
}

// completesAtOnce: record types that complete their event when they are added (go-libaudit's event.Add), as known
// to the generator by name
func completesAtOnce(typ string) bool {
	switch typ {
	case "LOGIN", "USER_LOGIN", "USER_START", "USER_END", "CRED_ACQ", "CRED_DISP", "CRED_REFR", "USER_ACCT", "USER_CMD", "SERVICE_START":
		return true
	}
	return false
}

// holdable: positions (indices into items) of lines at which no event is open and whose record completes its own
// event, so that the callback for it runs during its PushMessage
func holdable(items []Item) []int {
	open := map[uint32]bool{}
	var res []int
	for i, it := range items {
		if it.Kind != "line" || it.Empty || it.Bad != "" {
			continue
		}
		switch {
		case it.Typ == "EOE" || it.Typ == "PROCTITLE":
			delete(open, it.Seq)
		case completesAtOnce(it.Typ):
			if len(open) == 0 {
				res = append(res, i)
			}
		default:
			open[it.Seq] = true
		}
	}
	return res
}

// backlogStream: a stream of well-formed records (blocks of interleaved kernel events and single-record events)
func backlogStream(r *hutil.Rand) []Item {
	g := &genState{r: r, seq: uint32(30000 + r.Intn(100000)), pid: 2000 + r.Intn(20000)}
	sesPool := []string{"499", "501", "4294967295"}
	ses := func() string { return hutil.Pick(r, sesPool) }
	term := func() string {
		if r.Chance(1, 3) {
			return "proctitle"
		}
		return "proctitle+eoe"
	}
	var items []Item
	nBlocks := 2 + r.Intn(5)
	for b := 0; b < nBlocks; b++ {
		if r.Chance(1, 2) {
			e := g.newEv(ses(), 0)
			singleEvent(e, hutil.Pick(r, append(singleTypes, "LOGIN", "CRED_DISP")))
			items = append(items, e.recs...)
			continue
		}
		its, _ := g.kernelBlock(1+r.Intn(3), ses, term)
		items = append(items, its...)
	}
	return items
}

// withSyncs inserts up to n "sync" items; a sync placed right before a holdable line marks that line Hold
func withSyncs(r *hutil.Rand, items []Item, n int) []Item {
	for k := 0; k < n; k++ {
		hs := holdable(items)
		if len(hs) > 0 && r.Chance(3, 4) {
			p := hutil.Pick(r, hs)
			if p > 0 && items[p-1].Kind != "sync" && p+1 < len(items) {
				items[p].Hold = true
				items = insertAt(items, p, Item{Kind: "sync"})
				continue
			}
		}
		p := 1 + r.Intn(len(items))
		if items[p-1].Kind != "sync" && (p == len(items) || items[p].Kind != "sync") {
			items = insertAt(items, p, Item{Kind: "sync"})
		}
	}
	return items
}

func genL1Backlog(r *hutil.Rand, i int) Case {
	c := Case{Level: 1, Mode: "backlog", MaxSz: auditd.VerifC15MaxEventsInFlight, TimeoutMs: 2000, Budget: -1, Buf: daemonAuditBuf}
	items := backlogStream(r)
	if i%3 != 0 {
		c.Mode = "backlog-badline"
		g := &genState{r: r, seq: 900000, pid: 100}
		items = insertAt(items, r.Intn(len(items)+1), malformed(r, g.newEv("499", 0)))
	}
	if r.Chance(1, 4) {
		padSomeLine(r, items)
	}
	items = sprinkleEmpty(r, items)
	c.Items = withSyncs(r, items, r.Intn(3))
	return c
}

func genL2Backlog(r *hutil.Rand, i int) Case {
	mode := "clean"
	if i%3 != 0 {
		mode = "badline"
	}
	c := genL2Mode(r, mode)
	c.Mode = "backlog-" + mode
	c.Buf = daemonAuditBuf
	return c
}

// ---------- level 1 on a buffered channel ----------

func runL1Backlog(c *Case) obs1 {
	var o obs1
	o.SlotK = -1
	lines := lineItems(c)
	keys := map[string]int{}
	holds := map[int]*holdGate{}
	for i, it := range lines {
		cl := classify(it.Text)
		if cl.Empty || cl.Bad {
			continue
		}
		if _, dup := keys[cl.Key]; dup {
			o.Harness = "two generated lines are identical: " + it.Text
			return o
		}
		keys[cl.Key] = i
		if it.Hold {
			holds[i] = &holdGate{reached: make(chan struct{}), release: make(chan struct{})}
		}
	}
	errs := make(chan error, 1)
	st := &recStream{keys: keys, holds: holds}
	fa := &fakeAuditor{st: st, failAt: map[int]bool{}}
	for _, k := range c.FailAt {
		fa.failAt[k] = true
	}
	var after time.Time
	if c.AfterSec != 0 {
		after = time.Unix(c.AfterSec, 0)
	}
	st.inner = auditd.VerifC15NewCB(fa, errs, after)
	reass, err := libaudit.NewReassembler(c.MaxSz, time.Duration(c.TimeoutMs)*time.Millisecond, st)
	if err != nil {
		o.Harness = err.Error()
		return o
	}
	ch := make(chan string, c.Buf)
	ctx, cancel := context.WithCancel(context.Background())
	defer cancel()
	done := make(chan error, 1)
	started := false
	start := func() {
		if !started {
			started = true
			go func() { done <- auditd.VerifC15ParseAuditLogs(ctx, ch, reass) }()
		}
	}
	var perr error
	returned := false
	var sent []bool // per queued string: is it one of the case's lines (true) or a barrier (false)
	stuck := func() {
		st.mu.Lock()
		in := st.inCB
		st.mu.Unlock()
		if in && len(errs) == cap(errs) {
			o.Blocked = "PushMessage did not return within 2s: the callback is blocked sending to the full errors channel"
		} else {
			o.Harness = "the parse loop neither drained the channel nor returned within 2s"
		}
	}
	enqueue := func(s string, isLine bool) bool {
		select {
		case ch <- s:
			sent = append(sent, isLine)
			return true
		default:
		}
		start()
		select {
		case ch <- s:
			sent = append(sent, isLine)
			return true
		case perr = <-done:
			returned = true
			return false
		case <-time.After(waitMax):
			stuck()
			return false
		}
	}
	var pending *holdGate
	release := func() {
		if pending != nil {
			close(pending.release)
			pending = nil
		}
	}
	defer release()
	// sync: the channel is empty and the line taken last has been processed (the barrier after it was taken)
	sync := func() bool {
		release()
		start()
		for phase := 0; phase < 2; phase++ {
			dl := time.Now().Add(waitMax)
			for len(ch) > 0 {
				select {
				case perr = <-done:
					returned = true
					return false
				default:
				}
				if time.Now().After(dl) {
					stuck()
					return false
				}
				time.Sleep(20 * time.Microsecond)
			}
			if phase == 0 && !enqueue("", false) {
				return false
			}
		}
		return true
	}
	lineNo := 0
loop:
	for _, it := range c.Items {
		switch it.Kind {
		case "line":
			idx := lineNo
			lineNo++
			if !enqueue(it.Text, true) {
				break loop
			}
			if gt := holds[idx]; gt != nil && it.Hold {
				release()
				start()
				select {
				case <-gt.reached:
					pending = gt
					o.Holds++
				case perr = <-done:
					returned = true
					break loop
				case <-time.After(waitMax):
					// the callback for this line did not start (possible on a changed tree): go on without the hold
					close(gt.release)
				}
			}
		case "sync":
			if !sync() {
				break loop
			}
		case "tick":
			if !sync() {
				break loop
			}
			_ = reass.Maintain()
		}
	}
	if o.Harness == "" && o.Blocked == "" && !returned {
		sync()
	}
	release()
	if o.Harness != "" || o.Blocked != "" {
		return o
	}
	if !returned {
		cancel()
		start()
		select {
		case perr = <-done:
		case <-time.After(waitMax):
			o.Harness = "the parse loop did not return within 2s of cancellation"
			return o
		}
	}
	if errors.Is(perr, context.Canceled) {
		o.ParseRes = "running"
	} else {
		o.ParseRes = fmt.Sprint(perr)
		o.ParseCls = auditd.VerifC15ErrClass(perr)
	}
	// lines of the case that were taken from the channel
	left := len(ch)
	for k := 0; k < len(sent)-left; k++ {
		if sent[k] {
			o.Consumed++
		}
	}
	fin := make(chan struct{})
	go func() { defer close(fin); _ = reass.Close() }()
	select {
	case <-fin:
	case <-time.After(waitMax):
		o.Blocked = "Close did not return within 2s: the callback is blocked sending to the full errors channel"
		return o
	}
	select {
	case e := <-errs:
		o.Slot = e.Error()
		o.SlotK = -2
		if auditd.VerifC15ErrClass(e) == "callback" {
			if p := strings.Index(o.Slot, "failure #"); p >= 0 {
				rest := o.Slot[p+len("failure #"):]
				if q := strings.Index(rest, "#"); q >= 0 {
					if k, err := strconv.Atoi(rest[:q]); err == nil {
						o.SlotK = k
					}
				}
			}
		}
	default:
	}
	st.mu.Lock()
	o.Groups = st.groups
	o.Lost = st.lost
	if st.unk != "" {
		o.Harness = st.unk
	}
	st.mu.Unlock()
	o.Handed = fa.handed
	o.HandedSeq = fa.seqs
	o.Failed = fa.failed
	return o
}

// ---------- level 2 on a buffered channel ----------

func runL2Backlog(c *Case) obs2 {
	var o obs2
	o.StopAt = -1
	enc := &recEnc{budget: c.Budget, transient: c.Transient}
	lines := make(chan string, c.Buf)
	logins := make(chan common.RemoteUserLogin)
	a := auditd.Auditd{
		Audits: lines,
		Logins: logins,
		EventW: auditevent.NewAuditEventWriter(enc),
		Health: health.NewSingleReadinessHealth(auditd.AuditdProcessorComponentName),
	}
	ctx, cancel := context.WithCancel(context.Background())
	defer cancel()
	done := make(chan error, 1)
	started := false
	start := func() {
		if !started {
			started = true
			go func() { done <- a.Read(ctx) }()
		}
	}
	var res error
	returned := false
	waitRet := func(why string) {
		if returned {
			return
		}
		start()
		o.Waited = why
		select {
		case res = <-done:
			returned = true
		case <-time.After(waitMax):
			o.TimedOut = true
		}
	}
	enqueue := func(s string) bool {
		select {
		case lines <- s:
			return true
		default:
		}
		start()
		select {
		case lines <- s:
			return true
		case res = <-done:
			returned = true
			return false
		case <-time.After(waitMax):
			waitRet("line-not-taken")
			if !returned {
				o.Harness = "the line channel stayed full for 2s and Read did not return"
			}
			return false
		}
	}
	batchBad := false // the batch queued since the last sync holds a malformed line
	sync := func() bool {
		start()
		for phase := 0; phase < 2; phase++ {
			dl := time.Now().Add(waitMax)
			for len(lines) > 0 {
				select {
				case res = <-done:
					returned = true
					return false
				default:
				}
				if time.Now().After(dl) {
					// after a parse error nobody reads the lines any more: Read must be about to return
					waitRet("line-not-taken")
					if !returned {
						o.Harness = "the line channel was not drained within 2s and Read did not return"
					}
					return false
				}
				time.Sleep(20 * time.Microsecond)
			}
			if phase == 0 && !enqueue("") {
				return false
			}
		}
		if batchBad {
			waitRet("malformed-line")
			return !returned && !o.TimedOut
		}
		return true
	}
	sendLogin := func(l common.RemoteUserLogin) bool {
		select {
		case logins <- l:
			return true
		case res = <-done:
			returned = true
			return false
		case <-time.After(waitMax):
			o.Harness = "a login was not taken within 2s and Read did not return"
			return false
		}
	}
loop:
	for k, it := range c.Items {
		switch it.Kind {
		case "line":
			if it.Bad != "" {
				batchBad = true
			}
			if !enqueue(it.Text) {
				o.StopAt = k
				break loop
			}
		case "login":
			if !sync() || !sendLogin(mkRUL(it.Login)) {
				o.StopAt = k
				break loop
			}
			if it.Login.Invalid != "" {
				waitRet("invalid-login")
			}
		case "cancel":
			if !sync() {
				o.StopAt = k
				break loop
			}
			cancel()
			waitRet("cancel")
		}
		if returned || o.TimedOut || o.Harness != "" {
			o.StopAt = k
			break loop
		}
	}
	if !returned && !o.TimedOut && o.Harness == "" {
		cancel()
		waitRet("end")
	}
	o.EncFailed = enc.hasFailed()
	enc.mu.Lock()
	for i, t := range enc.out {
		o.Written = append(o.Written, t.Unix())
		o.WrittenID = append(o.WrittenID, enc.ids[i])
	}
	enc.mu.Unlock()
	if !returned {
		o.Class = 0
		o.Res = "(Read did not return)"
		return o
	}
	o.Res = fmt.Sprint(res)
	o.Class, o.Arg = classifyRead(c, res)
	return o
}

// ---------- the malformed line at EVERY position of a backlog (oracle only) ----------

// backlogSweep: for a few generated streams, every position of the stream gets the malformed line once; the whole
// stream is queued before the parse loop (level 1) / Read (level 2) starts, and once more with a sync in the middle.
func backlogSweep(sum *hutil.Summary, r *hutil.Rand, streams int) {
	f0 := sum.NFailures
	for s := 0; s < streams && sum.NFailures < f0+3; s++ {
		base := backlogStream(r)
		if len(base) > 24 {
			base = base[:24]
		}
		g := &genState{r: r, seq: 900000, pid: 100}
		bad := malformed(r, g.newEv("499", 0))
		for p := 0; p <= len(base) && sum.NFailures < f0+3; p++ {
			items := insertAt(append([]Item{}, base...), p, bad)
			if s%2 == 1 && len(items) > 3 {
				items = insertAt(items, 1+r.Intn(len(items)-1), Item{Kind: "sync"})
			}
			c := Case{Level: 1, Mode: "backlog-sweep", MaxSz: auditd.VerifC15MaxEventsInFlight, TimeoutMs: 2000, Budget: -1, Buf: daemonAuditBuf, Items: items}
			c.Debug = p%3 == 2
			auditd.SetLogger(hutil.Logger(c.Debug))
			sum.Count(mustJSON(c.Items), true)
			sum.Dist("level1_backlog-sweep")
			o := runL1(&c)
			switch {
			case o.Harness != "":
				sum.FailKey("harness", "l1", o.Harness, map[string]any{"case": c, "observed": o})
			default:
				for _, f := range judgeL1(&c, o) {
					kind := "oracle"
					if f.key == "harness" {
						kind = "harness"
					}
					sum.FailKey(kind, f.key, f.what, map[string]any{"case": c, "observed": o})
				}
			}
		}
		// level 2: a session whose lines are all queued before Read starts (the login comes late), the malformed line at every position
		c2 := genL2Mode(r, "clean")
		var ls, rest []Item
		for _, it := range c2.Items {
			if it.Kind == "line" {
				ls = append(ls, it)
			} else if it.Kind == "login" {
				rest = append(rest, it)
			}
		}
		if len(ls) > 24 {
			ls = ls[:24]
		}
		for p := 0; p <= len(ls) && sum.NFailures < f0+6; p++ {
			items := insertAt(append([]Item{}, ls...), p, bad)
			items = append(items, rest...)
			items = append(items, Item{Kind: "cancel"})
			c := Case{Level: 2, Mode: "backlog-sweep", Budget: -1, Buf: daemonAuditBuf, Items: items}
			c.Debug = p%3 == 2
			auditd.SetLogger(hutil.Logger(c.Debug))
			sum.Count(mustJSON(c.Items), true)
			sum.Dist("level2_backlog-sweep")
			o := runL2(&c)
			if o.Harness != "" {
				sum.FailKey("harness", "l2", o.Harness, map[string]any{"case": c, "observed": o})
				continue
			}
			for _, f := range judgeL2(&c, o) {
				kind := "oracle"
				if f.key == "harness" {
					kind = "harness"
				}
				sum.FailKey(kind, f.key, f.what, map[string]any{"case": c, "observed": o})
			}
		}
		auditd.SetLogger(hutil.Logger(false))
	}
}
