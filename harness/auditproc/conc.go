//go:build verif

package main

import (
	"bytes"
	"context"
	"encoding/json"
	"fmt"
	"os"
	"os/exec"
	"runtime"
	"strconv"
	"strings"
	"sync"
	"sync/atomic"
	"time"

	"github.com/metal-toolbox/auditevent"

	"github.com/metal-toolbox/audito-maldito/internal/common"
	"github.com/metal-toolbox/audito-maldito/internal/health"
	"github.com/metal-toolbox/audito-maldito/internal/verifharness/hutil"
	"github.com/metal-toolbox/audito-maldito/processors/auditd"
)

// -mode conc (C03 through the daemon's own wiring): the deliveries reach the correlator the way they do in the daemon -
// logins on Auditd.Logins (handled by Read's loop goroutine), audit lines on Auditd.Audits (parsed, reassembled and
// handed to the correlator by the parser goroutine through the reassembler callback Read builds) - instead of calling a
// correlator object directly.  Whatever Read puts between the two goroutines and the correlator (which object each of them
// is given, what it locks) is part of the run.
//
// One forced single-preemption schedule per case: the victim goroutine (Read's loop while it delivers the racing login, or
// the parser goroutine while it delivers the racing records) is paused at its k-th scheduling point (internal/common
// VerifPoint, just before a GenericSyncMap method takes its lock; the maps are told apart by their types), the other
// goroutine is given its racing deliveries and a bounded time to complete them (on a tree whose correlator calls exclude
// each other it blocks, so the victim is released after that time), then the victim continues and the rest of the
// session follows.  Oracle, from the generated case alone: every sequential order of "login" and "records of its session"
// emits every event of the session (LOGIN record up to the disposal record) exactly once, in record order, with the
// login's identity, and nothing for sessions without a login; Read neither fails nor hangs.  Each case runs in a child
// process under the race detector (GORACE=halt_on_error=1): a data race, panic or fatal error ends the child and is
// reported with the schedule in flight.

const concRule = "real Auditd.Read, logins on the Logins channel || audit lines on the Audits channel (buffered), forced single-preemption schedules at the GenericSyncMap lock points: " +
	"programs login||LOGIN record+follow-ups, login||follow-ups of the already open session, login||session end (USER_END, CRED_DISP), the same with a second session in flight; " +
	"victim = Read's loop goroutine inside RemoteLogin or the parser goroutine inside the callback, paused before its k-th lock acquisition (k = 0..3) while the other goroutine gets 120 ms to complete its racing deliveries; " +
	"oracle: each session's events emitted exactly once, in order, with its login's identity (what every sequential order yields); child process per case under -race; non-trivial = the victim was paused; distinct by program, victim, k"

type concEv struct {
	Ses   string `json:"ses"`
	Sec   int64  `json:"sec"`
	Login string `json:"login"` // subjects["userID"] of the emitted event
}

type concCase struct {
	Program string   `json:"program"`
	Victim  string   `json:"victim"` // main (Read's loop goroutine) | parser
	K       int      `json:"pause_before_lock_index"`
	WaitMs  int      `json:"others_get_ms"`
	Debug   bool     `json:"debug_logging,omitempty"`
	Pre     []string `json:"lines_before"`
	PreLog  []Login  `json:"logins_before,omitempty"`
	Race    []string `json:"racing_lines"`
	RaceLog Login    `json:"racing_login"`
	Post    []string `json:"lines_after"`
	PostLog []Login  `json:"logins_after,omitempty"`
	Expect  []concEv `json:"expected_events"` // per session in order; sessions are independent
}

type concOut struct {
	Emitted        []concEv `json:"emitted"`
	Paused         bool     `json:"victim_paused"`
	OtherCompleted bool     `json:"other_goroutine_completed_while_victim_paused"`
	Trace          []string `json:"lock_points"`
	ReadErr        string   `json:"read_returned"`
	Problem        string   `json:"problem,omitempty"` // an oracle-relevant observation made while running (hang)
	Harness        string   `json:"harness_problem,omitempty"`
}

func curGID() int64 {
	var buf [64]byte
	n := runtime.Stack(buf[:], false)
	f := strings.Fields(string(buf[:n]))
	if len(f) < 2 {
		return -1
	}
	id, _ := strconv.ParseInt(f[1], 10, 64)
	return id
}

type concCtl struct {
	mu      sync.Mutex
	mainGID atomic.Int64
	role    string
	k       int
	seen    int
	armed   bool
	paused  chan struct{}
	resume  chan struct{}
	trace   []string
}

func mapName(obj any) string {
	// the correlator's two maps, told apart by their element types (other users of GenericSyncMap, e.g. the health
	// registry, are not scheduling points of this stage)
	t := fmt.Sprintf("%T", obj)
	switch {
	case strings.Contains(t, "sessiontracker.user"):
		return "sessions"
	case strings.Contains(t, "RemoteUserLogin"):
		return "parked"
	}
	return ""
}

func (c *concCtl) hook(obj any, op string) {
	name := mapName(obj)
	if name == "" {
		return
	}
	gid := curGID()
	who := "parser"
	if gid == c.mainGID.Load() {
		who = "main"
	}
	c.mu.Lock()
	if len(c.trace) < 200 {
		c.trace = append(c.trace, who+":"+name+"."+op)
	}
	stop := false
	if c.armed && who == c.role {
		if c.seen == c.k {
			stop = true
			c.armed = false
		}
		c.seen++
	}
	resume := c.resume
	if stop {
		close(c.paused) // under the lock: once disarm() has returned, "not paused" is final
	}
	c.mu.Unlock()
	if stop {
		select {
		case <-resume:
		case <-time.After(20 * time.Second):
		}
	}
}

func (c *concCtl) arm(role string, k int) {
	c.mu.Lock()
	c.role, c.k, c.seen, c.armed = role, k, 0, true
	c.paused, c.resume = make(chan struct{}), make(chan struct{})
	c.mu.Unlock()
}

func (c *concCtl) disarm() {
	c.mu.Lock()
	c.armed = false
	c.mu.Unlock()
}

type concEnc struct {
	mu  sync.Mutex
	evs []concEv
}

func (e *concEnc) Encode(v any) error {
	ev, ok := v.(*auditevent.AuditEvent)
	if !ok {
		return fmt.Errorf("not an audit event: %T", v)
	}
	e.mu.Lock()
	e.evs = append(e.evs, concEv{Ses: ev.Metadata.AuditID, Sec: ev.LoggedAt.Unix(), Login: ev.Subjects["userID"]})
	e.mu.Unlock()
	return nil
}

// runConc executes one case in this process.
func runConc(c concCase) (o concOut) {
	auditd.SetLogger(hutil.Logger(c.Debug))
	ctl := &concCtl{}
	ctl.mainGID.Store(-2)
	common.VerifHook = ctl.hook
	defer func() { common.VerifHook = nil }()
	enc := &concEnc{}
	lines := make(chan string, 256)
	logins := make(chan common.RemoteUserLogin)
	a := auditd.Auditd{Audits: lines, Logins: logins, EventW: auditevent.NewAuditEventWriter(enc),
		Health: health.NewSingleReadinessHealth(auditd.AuditdProcessorComponentName)}
	ctx, cancel := context.WithCancel(context.Background())
	defer cancel()
	done := make(chan error, 1)
	started := make(chan struct{})
	go func() {
		ctl.mainGID.Store(curGID())
		close(started)
		done <- a.Read(ctx)
	}()
	<-started
	returned := false
	finish := func() concOut {
		ctl.disarm()
		select {
		case <-ctl.pausedCh():
			ctl.release()
		default:
		}
		if !returned {
			cancel()
			select {
			case err := <-done:
				o.ReadErr = fmt.Sprint(err)
			case <-time.After(3 * time.Second):
				o.ReadErr = "(Read did not return)"
				if o.Problem == "" {
					o.Problem = "Read did not return within 3 s of its cancellation"
				}
			}
		}
		enc.mu.Lock()
		o.Emitted = append([]concEv(nil), enc.evs...)
		enc.mu.Unlock()
		ctl.mu.Lock()
		o.Trace = ctl.trace
		ctl.mu.Unlock()
		return o
	}
	early := func() bool {
		select {
		case err := <-done:
			returned = true
			o.ReadErr = fmt.Sprint(err)
			return true
		default:
			return false
		}
	}
	// drained: every queued line has been taken and processed (a barrier line queued after them was taken too)
	drained := func(within time.Duration) bool {
		dl := time.Now().Add(within)
		for phase := 0; phase < 2; phase++ {
			for len(lines) > 0 {
				if time.Now().After(dl) || early() {
					return false
				}
				time.Sleep(50 * time.Microsecond)
			}
			if phase == 0 {
				select {
				case lines <- "":
				default:
					return false
				}
			}
		}
		return true
	}
	feed := func(ls []string) {
		for _, l := range ls {
			lines <- l
		}
	}
	sendLogin := func(l Login, within time.Duration) bool {
		select {
		case logins <- mkRUL(&l):
			return true
		case err := <-done:
			returned = true
			o.ReadErr = fmt.Sprint(err)
			return false
		case <-time.After(within):
			return false
		}
	}
	barrierLogin := Login{ID: 90, PID: 99990}
	settle := func(what string) bool { // both goroutines are idle again
		// (the second barrier login is taken only once the first has been handled completely)
		if !drained(5*time.Second) || !sendLogin(barrierLogin, 5*time.Second) || !sendLogin(barrierLogin, 5*time.Second) {
			if !returned && o.Problem == "" {
				o.Problem = "the processor hangs (" + what + "): queued lines are not taken / the next login is not taken within 5 s"
			}
			return false
		}
		return true
	}
	wait := time.Duration(c.WaitMs) * time.Millisecond

	// ---- before the race (sequential).  The victim must be idle when the controller is armed: the parser goroutine is,
	// once a barrier line has been taken; Read's loop goroutine is because it has not been given any login yet (cases
	// whose victim is Read's loop have no logins before the race: a login taken tells nothing about when its handling ends)
	if c.Victim == "main" && len(c.PreLog) > 0 {
		o.Harness = "a case whose victim is Read's loop must not deliver logins before the race"
		return finish()
	}
	feed(c.Pre)
	if len(c.PreLog) > 0 {
		for _, l := range c.PreLog {
			if !sendLogin(l, 5*time.Second) {
				o.Harness = "a login before the race was not taken"
				return finish()
			}
		}
		if !settle("before the race") {
			return finish()
		}
	}
	if !drained(5 * time.Second) {
		if !returned && o.Problem == "" {
			o.Problem = "the processor hangs (before the race): queued lines are not taken within 5 s"
		}
		return finish()
	}
	// ---- the race
	ctl.arm(c.Victim, c.K)
	pausedWithin := func(d time.Duration) bool {
		select {
		case <-ctl.pausedCh():
			return true
		case <-time.After(d):
			return false
		}
	}
	if c.Victim == "main" {
		if !sendLogin(c.RaceLog, 5*time.Second) {
			o.Harness = "the racing login was not taken"
			return finish()
		}
		o.Paused = pausedWithin(150 * time.Millisecond)
		feed(c.Race)
		if o.Paused {
			o.OtherCompleted = drained(wait)
			ctl.release()
		}
	} else {
		feed(c.Race)
		o.Paused = pausedWithin(150 * time.Millisecond)
		// Read's loop takes the racing login as soon as it is idle; while the parser is paused inside a correlator call
		// it may still be blocked in an earlier login (a barrier login taken is not yet a barrier login handled), so "not
		// taken while the victim is paused" only means that the other goroutine is blocked
		first := 5 * time.Second
		if o.Paused {
			first = wait
		}
		taken := sendLogin(c.RaceLog, first)
		if o.Paused {
			if taken {
				// a barrier login is taken only once RemoteLogin for the racing login has returned
				o.OtherCompleted = sendLogin(barrierLogin, wait)
			}
			ctl.release()
		}
		if !taken && !returned && !sendLogin(c.RaceLog, 5*time.Second) {
			if !returned && o.Problem == "" {
				o.Problem = "Read's loop did not take the racing login within 5 s"
			}
			return finish()
		}
	}
	// a victim that reached its k-th lock point only after the harness stopped waiting for it is released at once
	ctl.disarm()
	select {
	case <-ctl.pausedCh():
		ctl.release()
	default:
	}
	if !settle("after the race") {
		return finish()
	}
	// ---- the rest of the session(s)
	feed(c.Post)
	if !drained(5 * time.Second) {
		if !returned && o.Problem == "" {
			o.Problem = "the processor hangs (after the race): queued lines are not taken within 5 s"
		}
		return finish()
	}
	for _, l := range c.PostLog {
		if !sendLogin(l, 5*time.Second) {
			if !returned && o.Problem == "" {
				o.Problem = "Read's loop did not take a login within 5 s"
			}
			return finish()
		}
	}
	settle("at the end")
	return finish()
}

func (c *concCtl) pausedCh() chan struct{} {
	c.mu.Lock()
	defer c.mu.Unlock()
	if c.paused == nil {
		c.paused = make(chan struct{})
		c.resume = make(chan struct{})
	}
	return c.paused
}

func (c *concCtl) release() {
	c.mu.Lock()
	r := c.resume
	c.mu.Unlock()
	select {
	case <-r:
	default:
		close(r)
	}
}

// judgeConc: what every sequential order of the deliveries yields
func judgeConc(c concCase, o concOut) []fail {
	var fs []fail
	if o.Harness != "" {
		return []fail{{"harness", o.Harness}}
	}
	if o.Problem != "" {
		fs = append(fs, fail{"conc:hang", o.Problem})
	}
	if !strings.Contains(o.ReadErr, context.Canceled.Error()) && o.Problem == "" {
		fs = append(fs, fail{"conc:read-failed", "nothing was wrong with the deliveries but Read returned " + o.ReadErr})
	}
	bySes := func(evs []concEv) map[string][]string {
		m := map[string][]string{}
		for _, e := range evs {
			m[e.Ses] = append(m[e.Ses], fmt.Sprintf("%d/%s", e.Sec, e.Login))
		}
		return m
	}
	want, got := bySes(c.Expect), bySes(o.Emitted)
	for ses, w := range want {
		g := got[ses]
		if strings.Join(w, " ") == strings.Join(g, " ") {
			continue
		}
		switch {
		case len(g) == 0:
			fs = append(fs, fail{"conc:no-sequential-order", fmt.Sprintf("session %s: none of its %d events was emitted although both its LOGIN record and its login were delivered (both halves left waiting); every sequential order emits all of them", ses, len(w))})
		default:
			fs = append(fs, fail{"conc:no-sequential-order", fmt.Sprintf("session %s: emitted (time/identity) %v, every sequential order emits %v", ses, g, w)})
		}
	}
	for ses, g := range got {
		if _, ok := want[ses]; !ok {
			fs = append(fs, fail{"conc:no-sequential-order", fmt.Sprintf("session %s has no login, yet %v was emitted", ses, g)})
		}
	}
	return fs
}

// ---------- generator ----------

func genConc(r *hutil.Rand, i int) concCase {
	progs := []string{"login||LOGIN+followups", "login||followups", "login||session-end", "login||LOGIN+followups, second session in flight"}
	c := concCase{Program: progs[i%len(progs)], Victim: []string{"main", "parser"}[(i/len(progs))%2], K: (i / (2 * len(progs))) % 4, WaitMs: 120, Debug: i%5 == 4}
	g := &genState{r: r, seq: uint32(30000 + r.Intn(100000)), pid: 2000 + r.Intn(20000)}
	sshdPid := 25000 + r.Intn(1000)
	sid := fmt.Sprint(400 + r.Intn(200))
	login := Login{ID: 1, PID: sshdPid}
	var all []Item
	rec := func(ses string, pid int, typ string) string {
		e := g.newEv(ses, pid)
		singleEvent(e, typ)
		all = append(all, e.recs...)
		return e.recs[0].Text
	}
	recs := func(ses string, pid int, typs ...string) []string {
		var out []string
		for _, t := range typs {
			out = append(out, rec(ses, pid, t))
		}
		return out
	}
	follow := func(n int) []string {
		var ts []string
		for k := 0; k < n; k++ {
			ts = append(ts, hutil.Pick(r, []string{"USER_START", "USER_CMD", "USER_ACCT", "CRED_REFR", "CRED_ACQ"}))
		}
		return ts
	}
	c.RaceLog = login
	switch i % len(progs) {
	case 0:
		if r.Bool() {
			c.Pre = recs(fmt.Sprint(800+r.Intn(50)), 31000+r.Intn(100), "LOGIN", "USER_START") // a session nobody logs in to
		}
		c.Race = recs(sid, sshdPid, append([]string{"LOGIN"}, follow(1+r.Intn(3))...)...)
		c.Post = recs(sid, sshdPid, append(follow(r.Intn(3)), "USER_END", "CRED_DISP")...)
	case 1:
		c.Pre = recs(sid, sshdPid, append([]string{"LOGIN"}, follow(1+r.Intn(2))...)...)
		c.Race = recs(sid, sshdPid, follow(1+r.Intn(3))...)
		c.Post = recs(sid, sshdPid, "USER_END", "CRED_DISP")
	case 2:
		c.Pre = recs(sid, sshdPid, append([]string{"LOGIN"}, follow(1+r.Intn(2))...)...)
		c.Race = recs(sid, sshdPid, "USER_END", "CRED_DISP")
	case 3:
		// a second session whose login is already parked / whose LOGIN record is already waiting
		pid2 := sshdPid + 1 + r.Intn(50)
		sid2 := fmt.Sprint(700 + r.Intn(100))
		l2 := Login{ID: 2, PID: pid2}
		if r.Bool() && c.Victim != "main" {
			c.PreLog = []Login{l2}
			c.Race = recs(sid, sshdPid, "LOGIN", "USER_START")
			c.Post = append(recs(sid2, pid2, "LOGIN", "USER_CMD"), recs(sid, sshdPid, "USER_END", "CRED_DISP")...)
			c.Post = append(c.Post, recs(sid2, pid2, "CRED_DISP")...)
		} else {
			c.Pre = recs(sid2, pid2, "LOGIN", "USER_START")
			c.Race = recs(sid, sshdPid, "LOGIN", "USER_CMD")
			c.Post = recs(sid, sshdPid, "CRED_DISP")
			c.Post = append(c.Post, recs(sid2, pid2, "USER_CMD")...)
			c.PostLog = []Login{l2}
		}
		// expected identity of the second session's events
		for _, it := range all {
			if it.Ses == sid2 {
				c.Expect = append(c.Expect, concEv{Ses: sid2, Sec: eventSec(it.Text), Login: "cert-2"})
			}
		}
	}
	for _, it := range all {
		if it.Ses == sid {
			c.Expect = append(c.Expect, concEv{Ses: sid, Sec: eventSec(it.Text), Login: "cert-1"})
		}
	}
	return c
}

// ---------- parent: one child process per case ----------

type concChildResult struct {
	Out   *concOut
	Crash string
}

func runConcChild(c concCase) concChildResult {
	raw, _ := json.Marshal(c)
	cmd := exec.Command(os.Args[0], "-mode", "conc-child")
	cmd.Stdin = bytes.NewReader(raw)
	var stdout, stderr bytes.Buffer
	cmd.Stdout, cmd.Stderr = &stdout, &stderr
	cmd.Env = append(os.Environ(), "GORACE=halt_on_error=1 exitcode=66 atexit_sleep_ms=0")
	fin := make(chan error, 1)
	if err := cmd.Start(); err != nil {
		return concChildResult{Crash: "cannot start the child: " + err.Error()}
	}
	go func() { fin <- cmd.Wait() }()
	var werr error
	select {
	case werr = <-fin:
	case <-time.After(60 * time.Second):
		_ = cmd.Process.Kill()
		<-fin
		return concChildResult{Crash: "the child process did not finish within 60 s (deadlock)"}
	}
	var o concOut
	if p := strings.LastIndex(stdout.String(), "CONC-RESULT "); p >= 0 && werr == nil {
		if json.Unmarshal([]byte(stdout.String()[p+len("CONC-RESULT "):]), &o) == nil {
			return concChildResult{Out: &o}
		}
	}
	tail := stderr.String()
	if k := strings.Index(tail, "WARNING: DATA RACE"); k >= 0 {
		tail = tail[k:]
	}
	if len(tail) > 1500 {
		tail = tail[:1500]
	}
	return concChildResult{Crash: fmt.Sprintf("the child process ended abnormally (%v): %s", werr, tail)}
}

func concChildMain() {
	var c concCase
	if err := json.NewDecoder(os.Stdin).Decode(&c); err != nil {
		fmt.Println("bad case:", err)
		os.Exit(2)
	}
	o := runConc(c)
	raw, _ := json.Marshal(o)
	fmt.Println("CONC-RESULT " + string(raw))
}

func evalConc(c concCase) ([]fail, *concOut) {
	res := runConcChild(c)
	if res.Out == nil {
		return []fail{{"conc:crash", res.Crash}}, nil
	}
	return judgeConc(c, *res.Out), res.Out
}

func concMain(out string, seed uint64, n int) {
	r := hutil.NewRand(seed ^ 0xC03C03)
	sum := hutil.NewSummary("C03", seed, concRule)
	type res struct {
		c  concCase
		fs []fail
		o  *concOut
	}
	results := make([]res, n)
	var wg sync.WaitGroup
	sem := make(chan struct{}, 6)
	for i := 0; i < n; i++ {
		c := genConc(r, i)
		wg.Add(1)
		sem <- struct{}{}
		go func(i int, c concCase) {
			defer wg.Done()
			defer func() { <-sem }()
			fs, o := evalConc(c)
			results[i] = res{c, fs, o}
		}(i, c)
	}
	wg.Wait()
	for i, x := range results {
		paused := x.o != nil && x.o.Paused
		sum.Count(fmt.Sprintf("%s|%s|%d|%v", x.c.Program, x.c.Victim, x.c.K, x.c.Race), paused)
		sum.Dist("program_" + x.c.Program)
		sum.Dist(fmt.Sprintf("victim_%s_k%d", x.c.Victim, x.c.K))
		if paused {
			sum.Dist("victim_paused")
			if x.o.OtherCompleted {
				sum.Dist("other_goroutine_completed_while_victim_paused")
			} else {
				sum.Dist("other_goroutine_blocked_while_victim_paused")
			}
		}
		if x.c.Debug {
			sum.Dist("debug_logging_on")
		}
		if i < 2 && x.o != nil {
			sum.Sample(map[string]any{"program": x.c.Program, "victim": x.c.Victim, "k": x.c.K, "lock_points": x.o.Trace, "emitted": len(x.o.Emitted)})
		}
		for _, f := range x.fs {
			kind := "oracle"
			if f.key == "harness" {
				kind = "harness"
			}
			sum.FailKey(kind, f.key, f.what, map[string]any{"conc": x.c, "observed": x.o})
		}
	}
	sum.CaseFiles = nil
	sum.Write(out)
	fmt.Printf("conc: %d cases, %d failures\n", n, sum.NFailures)
}

func replayConc(c concCase) int {
	for try := 0; try < 6; try++ { // the bounded wait and crashes depend on timing
		fs, _ := evalConc(c)
		bad := 0
		for _, f := range fs {
			if f.key == "harness" {
				fmt.Println("harness error:", f.what)
				return 2
			}
			fmt.Printf("REPRODUCED %s: %s\n", f.key, strings.ReplaceAll(f.what, "\n", " "))
			bad++
		}
		if bad > 0 {
			return 1
		}
	}
	fmt.Println("not reproduced")
	return 0
}
