//go:build verif

package main

// C13, state "blocked handing a login to an unready correlator" (and "about to enter it").
//
// The sshd side of the daemon is SyslogIngester.Ingest -> Process -> SshdProcessor.ProcessSshdLogEntry -> one of
// four hand-off selects (accepted password; accepted public key: bare, with trailing text, with certificate
// identifiers).  The worker's context is the one handed to Ingest / Process / ProcessSshdLogEntry.  The processor
// object is configured earlier (NewSshdProcessor) and may have been given another, longer-lived context there:
//
//   same-ctx   one context for the constructor and the call (what a test would write);
//   child-ctx  the constructor gets a context that is never cancelled during the scenario, the call gets a
//              context derived from it, and only the derived one is cancelled.
//
// Entry points: Process called directly with one line; or the real Ingest on a real FIFO ("/fifo": a writer sends
// the line and stays connected, silent); or the context is already cancelled when the line arrives
// ("/cancelled-before-call": the worker must not park itself in the hand-off).  "/debug": DEBUG-level logger.
// The logins channel is unbuffered and nobody receives.  Oracle (the property as stated): the worker returns
// within the bound of the cancellation of ITS context and hands over nothing afterwards.

import (
	"context"
	"fmt"
	"strings"
	"time"

	"github.com/metal-toolbox/auditevent"
	"go.uber.org/zap"

	"github.com/metal-toolbox/audito-maldito/ingesters/namedpipe"
	"github.com/metal-toolbox/audito-maldito/ingesters/syslog"
	"github.com/metal-toolbox/audito-maldito/internal/common"
	"github.com/metal-toolbox/audito-maldito/internal/health"
	"github.com/metal-toolbox/audito-maldito/internal/verifharness/hutil"
	"github.com/metal-toolbox/audito-maldito/processors/sshd"
)

// one line per hand-off select of processors/sshd
var handoffLines = map[string]string{
	"password":         "4242 Accepted password for alice from 192.0.2.7 port 50022 ssh2",
	"publickey":        "4243 Accepted publickey for alice from 192.0.2.7 port 50023 ssh2: ED25519 SHA256:3Uc8Xq9mN1bT0yJkLw5ZrVfHs2dGaPoEiCtBnMxKvQ4",
	"publickey-padded": "4244 Accepted publickey for alice from 192.0.2.7 port 50024 ssh2: ED25519 SHA256:3Uc8Xq9mN1bT0yJkLw5ZrVfHs2dGaPoEiCtBnMxKvQ4 trailing text",
	"certificate":      "4245 Accepted publickey for alice from 192.0.2.7 port 50025 ssh2: RSA-CERT SHA256:3Uc8Xq9mN1bT0yJkLw5ZrVfHs2dGaPoEiCtBnMxKvQ4 ID alice@example.com (serial 77) CA RSA SHA256:Zq1Yx2Wv3Ut4Sr5Qp6On7Ml8Kj9Ih0GfEdCbA",
}

func scLoginsHandoff(r *result, dir, variant string) {
	ctxMode, form, entry := "same-ctx", "password", "process"
	if variant != "unbuffered-unread" {
		parts := strings.Split(variant, "/")
		ctxMode = parts[0]
		if len(parts) > 1 {
			form = parts[1]
		}
		if len(parts) > 2 {
			entry = parts[2]
		}
	}
	line, ok := handoffLines[form]
	if !ok || (ctxMode != "same-ctx" && ctxMode != "child-ctx") {
		r.HarnessErr = "bad variant " + variant
		return
	}
	if entry == "debug" {
		sshd.SetLogger(hutil.Logger(true))
		defer sshd.SetLogger(zap.NewNop().Sugar())
		entry = "process"
	}

	logins := make(chan common.RemoteUserLogin) // unbuffered, nobody receives
	enc := newCountingEncoder()
	root, stopRoot := context.WithCancel(context.Background())
	defer stopRoot() // after the scenario: lets anything that still waits on the long-lived context go
	var procCtx, workCtx context.Context
	var cancel context.CancelFunc
	if ctxMode == "child-ctx" {
		procCtx = root
		workCtx, cancel = context.WithCancel(root)
	} else {
		workCtx, cancel = context.WithCancel(root)
		procCtx = workCtx
	}
	defer cancel()
	proc := sshd.NewSshdProcessor(procCtx, logins, "node", "mid", auditevent.NewAuditEventWriter(enc), metricsProvider())
	done := make(chan error, 1)
	// what to do once the verdict is in: let a stuck worker go and wait for it
	cleanup := func() {}

	switch entry {
	case "process", "cancelled-before-call":
		sli := syslog.NewSyslogIngester("unused", proc, namedpipe.NewNamedPipeIngester(zap.NewNop().Sugar(), health.NewHealth()))
		if entry == "cancelled-before-call" {
			// the cancellation is already in when the line arrives: measured from the call
			cancel()
			t := time.Now()
			go func() { done <- sli.Process(workCtx, line) }()
			select {
			case err := <-done:
				r.Returned = true
				r.Millis = time.Since(t).Milliseconds()
				r.Ret = fmt.Sprint(err)
				r.Before = int(enc.n.Load())
				handedAfter(r, logins)
			case <-time.After(c13Bound):
				r.Millis = time.Since(t).Milliseconds()
				r.FailKey = "cancel:" + r.Scenario + ":did-not-return"
				r.Detail = "the worker's context was cancelled before the line arrived"
				releaseHandoff(logins, done, stopRoot)
			}
			return
		}
		go func() { done <- sli.Process(workCtx, line) }()
	case "fifo":
		path, err := mkfifo(dir, "pipe")
		if err != nil {
			r.HarnessErr = "mkfifo: " + err.Error()
			return
		}
		sli := syslog.NewSyslogIngester(path, proc, namedpipe.NewNamedPipeIngester(zap.NewNop().Sugar(), health.NewHealth()))
		go func() { done <- sli.Ingest(workCtx) }()
		w, err := openWriter(path)
		if err != nil {
			r.HarnessErr = err.Error()
			cancel()
			releaseOpener(path)
			return
		}
		cleanup = func() { w.Close() }
		defer w.Close()
		if _, err := w.WriteString(line + "\n"); err != nil {
			r.HarnessErr = "cannot write the line: " + err.Error()
			return
		}
	default:
		r.HarnessErr = "bad variant " + variant
		return
	}

	select {
	case <-enc.first: // the login event is written; the next thing the handler does is the hand-off
	case err := <-done:
		r.HarnessErr = fmt.Sprintf("the worker returned (%v) before reaching the hand-off", err)
		return
	case <-time.After(c13Setup):
		r.HarnessErr = "the login event was not written"
		cancel()
		releaseHandoff(logins, done, stopRoot)
		return
	}
	r.Before = int(enc.n.Load())
	time.Sleep(c13Settle)
	if cancelAndWait(r, cancel, done) {
		handedAfter(r, logins)
	} else {
		cleanup()
		releaseHandoff(logins, done, stopRoot)
	}
}

// handedAfter: does a login still come out of the channel after the worker has returned?
func handedAfter(r *result, logins <-chan common.RemoteUserLogin) {
	n := 0
	select {
	case <-logins:
		n = 1
	case <-time.After(c13After):
	}
	after(r, n)
}

// releaseHandoff frees a worker that is stuck in the hand-off (take the login, end the long-lived context) and
// waits for it, so that it does not linger into the next scenario.
func releaseHandoff(logins <-chan common.RemoteUserLogin, done <-chan error, stopRoot context.CancelFunc) {
	stopRoot()
	for {
		select {
		case <-logins:
		case <-done:
			return
		case <-time.After(c13Setup):
			return
		}
	}
}
