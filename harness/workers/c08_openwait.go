//go:build verif

package main

// C08 on the built binary, one pipe worker still WAITING FOR ITS FIRST WRITER (round 7).
//
// rsyslog / the auditd plugin may start later than the daemon, or only one of the two pipes may be in use: that
// pipe's worker is then parked in open(2) on its FIFO.  While it waits the directory entry of the FIFO may be
//
//	none       left alone,
//	replaced   renamed away and a new FIFO created at its path (a start script re-creating its pipes),
//	removed    removed (the waiter stays parked on the inode, the path names nothing),
//	regular    removed and a regular file created at its path.
//
// Then every stop cause that does not need the waiting pipe is injected: end-of-stream / an unparsable record on the
// OTHER pipe, a login the correlator refuses, an event write failure, SIGTERM, SIGINT.  Fail-stop as stated: the daemon
// exits within the bound, with non-zero status on a failure - whatever the waiting worker would have to do to let go
// of its pending open.  Variant: open-wait/<waiting pipe>/<disturbance>[-debug].
//
// That the worker is parked in open(2) is observed where the platform shows it (/proc/<pid>/task/*/syscall of the
// child names openat) and otherwise given c08Idle.

import (
	"errors"
	"fmt"
	"os"
	"os/exec"
	"path/filepath"
	"runtime"
	"strings"
	"syscall"
	"time"
)

var openWaitDisturbances = []string{"none", "replaced", "removed", "regular"}

func c08OpenWaitMatrix() []c08Case {
	var cs []c08Case
	for _, d := range openWaitDisturbances {
		for _, c := range []string{"sshd-eof", "invalid-login", "write-error", "sigterm", "sigint"} {
			cs = append(cs, c08Case{c, "open-wait/audit/" + d})
		}
		for _, c := range []string{"audit-eof", "audit-unparsable", "sigterm", "sigint"} {
			cs = append(cs, c08Case{c, "open-wait/sshd/" + d})
		}
	}
	cs = append(cs, c08Case{"sigterm", "open-wait/audit/replaced-debug"}, c08Case{"audit-eof", "open-wait/sshd/removed-debug"})
	return cs
}

func isOpenWaitVariant(v string) bool { return strings.HasPrefix(v, "open-wait/") }

// threadsInOpen: how many threads of the process are inside open(2)/openat(2) right now (-1: cannot tell here).
func threadsInOpen(pid int) int {
	var nrs []string
	switch runtime.GOARCH {
	case "amd64":
		nrs = []string{"2", "257"}
	case "arm64":
		nrs = []string{"56"}
	default:
		return -1
	}
	tasks, err := os.ReadDir(fmt.Sprintf("/proc/%d/task", pid))
	if err != nil {
		return -1
	}
	n, readable := 0, false
	for _, t := range tasks {
		b, err := os.ReadFile(fmt.Sprintf("/proc/%d/task/%s/syscall", pid, t.Name()))
		if err != nil {
			continue
		}
		readable = true
		f := strings.Fields(string(b))
		for _, nr := range nrs {
			if len(f) > 0 && f[0] == nr {
				n++
			}
		}
	}
	if !readable {
		return -1
	}
	return n
}

func runC08OpenWait(bin, dir, cause, variant string, rep int) (r result) {
	r = result{Prop: "C08", Scenario: cause, Variant: variant, Rep: rep}
	parts := strings.Split(variant, "/")
	if len(parts) != 3 || (parts[1] != "audit" && parts[1] != "sshd") {
		r.HarnessErr = "bad variant " + variant
		return
	}
	waiting := parts[1]
	debug := strings.HasSuffix(parts[2], "-debug")
	disturbance := strings.TrimSuffix(parts[2], "-debug")
	if err := os.MkdirAll(dir, 0o755); err != nil {
		r.HarnessErr = err.Error()
		return
	}
	defer os.RemoveAll(dir)
	sshdPath := filepath.Join(dir, "sshd-pipe")
	auditPath := filepath.Join(dir, "audit-pipe")
	outPath := filepath.Join(dir, "events.log")
	if cause == "write-error" {
		outPath = "/dev/full"
	} else if err := os.WriteFile(outPath, nil, 0o600); err != nil {
		r.HarnessErr = "set-up: " + err.Error()
		return
	}
	if err := errors.Join(syscall.Mkfifo(sshdPath, 0o600), syscall.Mkfifo(auditPath, 0o600)); err != nil {
		r.HarnessErr = "set-up: " + err.Error()
		return
	}
	waitPath, livePath := auditPath, sshdPath
	if waiting == "sshd" {
		waitPath, livePath = sshdPath, auditPath
	}
	stderrPath := filepath.Join(dir, "stderr.log")
	stderrF, err := os.Create(stderrPath)
	if err != nil {
		r.HarnessErr = err.Error()
		return
	}
	defer stderrF.Close()
	dargs := []string{"-sshd-pipe-path", sshdPath, "-auditd-pipe-path", auditPath, "-app-events-output", outPath}
	if debug {
		dargs = append(dargs, "-log-level", "debug")
	}
	cmd := exec.Command(bin, dargs...)
	cmd.Env = append(os.Environ(), "NODE_NAME=verif-node")
	cmd.Stdout = stderrF
	cmd.Stderr = stderrF
	cmd.Dir = dir
	if err := cmd.Start(); err != nil {
		r.HarnessErr = "start: " + err.Error()
		return
	}
	exited := make(chan error, 1)
	go func() { exited <- cmd.Wait() }()
	hasExited := false
	oldPath := waitPath + ".old"
	var liveW *os.File
	defer func() {
		if !hasExited {
			_ = cmd.Process.Kill()
			<-exited
		}
		if liveW != nil {
			liveW.Close()
		}
	}()
	tail := func() string {
		b, _ := os.ReadFile(stderrPath)
		if len(b) > 400 {
			b = b[len(b)-400:]
		}
		return string(b)
	}
	// the live pipe gets its writer: returns once the daemon has opened it for reading
	type ores struct {
		f   *os.File
		err error
	}
	och := make(chan ores, 1)
	go func() {
		f, err := os.OpenFile(livePath, os.O_WRONLY, 0)
		och <- ores{f, err}
	}()
	select {
	case x := <-och:
		if x.err != nil {
			r.HarnessErr = "cannot open " + filepath.Base(livePath) + ": " + x.err.Error()
			return
		}
		liveW = x.f
	case err := <-exited:
		exited <- err
		releaseReaderWait(livePath, och)
		r.HarnessErr = "daemon exited before opening " + filepath.Base(livePath) + " | " + tail()
		return
	case <-time.After(c08Bound):
		releaseReaderWait(livePath, och)
		r.HarnessErr = fmt.Sprintf("daemon did not open %s within %v | %s", filepath.Base(livePath), c08Bound, tail())
		return
	}
	// the other worker is parked in open(2): observed, or given time
	observed := false
	for dl := time.Now().Add(c08Bound); time.Now().Before(dl); time.Sleep(2 * time.Millisecond) {
		n := threadsInOpen(cmd.Process.Pid)
		if n < 0 {
			break
		}
		if n >= 1 {
			observed = true
			break
		}
	}
	if !observed {
		time.Sleep(c08Idle)
	}
	time.Sleep(20 * time.Millisecond)
	// the directory entry of the FIFO the worker waits on changes
	var derr error
	switch disturbance {
	case "none":
	case "replaced":
		derr = errors.Join(os.Rename(waitPath, oldPath), syscall.Mkfifo(waitPath, 0o600))
	case "removed":
		derr = os.Remove(waitPath)
	case "regular":
		derr = errors.Join(os.Remove(waitPath), os.WriteFile(waitPath, nil, 0o600))
	default:
		derr = errors.New("unknown disturbance " + disturbance)
	}
	if derr != nil {
		r.HarnessErr = "set-up: " + derr.Error()
		return
	}
	select {
	case err := <-exited:
		exited <- err
		r.HarnessErr = "daemon exited before the injection: " + tail()
		return
	default:
	}
	injected := time.Now()
	switch cause {
	case "sshd-eof", "audit-eof":
		liveW.Close()
		liveW = nil
	case "audit-unparsable":
		_, err = liveW.WriteString("this is not an audit record\n")
	case "write-error":
		_, err = liveW.WriteString(sshdLine(rep))
	case "invalid-login":
		_, err = liveW.WriteString("0 Accepted password for alice from 192.0.2.7 port 50022 ssh2\n")
	case "sigterm":
		err = cmd.Process.Signal(syscall.SIGTERM)
	case "sigint":
		err = cmd.Process.Signal(syscall.SIGINT)
	default:
		err = errors.New("unknown cause " + cause)
	}
	if err != nil {
		r.HarnessErr = "injection: " + err.Error()
		return
	}
	var exitErr error
	select {
	case exitErr = <-exited:
		hasExited = true
		r.Returned = true
		r.Millis = time.Since(injected).Milliseconds()
	case <-time.After(c08Bound):
		r.Millis = time.Since(injected).Milliseconds()
	}
	r.Detail = fmt.Sprintf("the %s worker was waiting for a first writer (parked in open(2) observed: %v); directory entry of its FIFO: %s", waiting, observed, disturbance)
	if !r.Returned {
		r.Ret = "killed by the harness"
		r.FailKey = "failstop:" + cause + ":" + variant + ":still-running"
		r.Detail += " | " + tail()
		return
	}
	status := 0
	var ee *exec.ExitError
	if errors.As(exitErr, &ee) {
		status = ee.ExitCode()
		if ws, ok := ee.Sys().(syscall.WaitStatus); ok && ws.Signaled() {
			r.Ret = "killed by signal " + ws.Signal().String()
			status = 128 + int(ws.Signal())
		}
	} else if exitErr != nil {
		r.HarnessErr = "wait: " + exitErr.Error()
		return
	}
	if r.Ret == "" {
		r.Ret = fmt.Sprintf("exit status %d", status)
	}
	if status == 0 && cause != "sigterm" && cause != "sigint" {
		r.FailKey = "failstop:" + cause + ":" + variant + ":exit-zero"
		r.Detail += " | " + tail()
	}
	return
}
