//go:build verif

package main

// C08 on the assembled binary with the OPTIONAL workers switched on.
//
// cmd/cmd.go starts further errgroup workers when -metrics, -healthz or -audit-metrics is given: the HTTP server
// (ListenAndServe), the worker that stops it when the group context is done, and the audit.log ticker.  They sit in the
// same errgroup as the three pipeline workers, so fail-stop depends on them too: a stop worker that waits for HTTP
// clients, a server that does not come down, a ticker that ignores the context keep the process alive after a signal or
// a worker failure.  Every scenario starts the daemon with a flag valuation that starts at least one optional worker,
// puts HTTP clients into a connection STATE, injects a stop cause (both signals, each worker failure, and the HTTP
// worker's own failure: the port is taken) and requires what C08 states: the process ends within the bound, non-zero
// on failure.
//
// Client states at the moment of the stop cause:
//
//	none            nobody ever connected
//	fresh           a connection on which nothing was sent
//	idle-keepalive  a completed request, the connection kept open
//	half-request    request line and a header sent, the terminating blank line missing
//	stuck-response  pipelined requests on a connection whose client NEVER reads (small SO_RCVBUF): the handler blocks in
//	                Write once the socket buffers are full (the server has no write timeout)
//	slow-response   the same, the client reading a few hundred bytes now and then
//	many            40 connections in all of these states at once
//
// The server's address is fixed in the source (":2112"), so these scenarios run one at a time, under a machine-wide file
// lock (other checkouts of this harness may run at the same moment); if the port is held by a foreign process the
// scenarios are skipped with a note - a false alarm is worse than a skipped scenario.

import (
	"bufio"
	"errors"
	"fmt"
	"io"
	"net"
	"net/http"
	"os"
	"os/exec"
	"path/filepath"
	"strings"
	"sync"
	"sync/atomic"
	"syscall"
	"time"

	"github.com/metal-toolbox/audito-maldito/internal/verifharness/hutil"
)

const (
	httpAddr      = "127.0.0.1:2112"
	httpListen    = ":2112"
	httpLockPath  = "/tmp/verif-audito-maldito-port-2112.lock"
	httpPortWait  = 25 * time.Second       // how long the harness waits for a foreign holder of the port to go away
	httpPumpQuiet = 200 * time.Millisecond // no request byte accepted for this long, twice in a row: the server reads no more
	httpPumpBound = 12 * time.Second
	httpPumpMax   = 96 << 20
)

// flag valuations that start an optional worker (cmd/namedpipe.go: -metrics, -healthz, -audit-metrics and the timeouts /
// interval they use); "http" says whether the HTTP server runs
var httpFlagSets = []struct {
	name string
	args []string
	http bool
}{
	{"metrics", []string{"-metrics"}, true},
	{"healthz", []string{"-healthz"}, true},
	{"metrics+healthz", []string{"-metrics", "-healthz"}, true},
	{"all", []string{"-metrics", "-healthz", "-audit-metrics", "-audit-seconds-interval", "20ms"}, true},
	{"metrics-long-timeouts", []string{"-metrics", "-http-server-read-timeout", "40s", "-http-server-read-header-timeout", "40s"}, true},
	{"healthz-long-timeouts-debug", []string{"-healthz", "-http-server-read-timeout", "40s", "-http-server-read-header-timeout", "40s", "-log-level", "debug"}, true},
	{"audit-metrics", []string{"-audit-metrics", "-audit-seconds-interval", "20ms"}, false},
	{"audit-metrics-default-interval-debug", []string{"-audit-metrics", "-log-level", "debug"}, false},
}

var httpStates = []string{"none", "fresh", "idle-keepalive", "half-request", "stuck-response", "slow-response", "many"}

// stop causes: the seven of the plain matrix (c08.go) and the HTTP worker's own failure
var httpCauses = []string{"sigterm", "sigint", "sshd-eof", "audit-eof", "audit-unparsable", "write-error", "invalid-login"}

func isHTTPVariant(variant string) bool { return strings.HasPrefix(variant, "opt:") }

func httpVariant(flags, state string) string { return "opt:" + flags + ":" + state }

func splitHTTPVariant(variant string) (flags, state string) {
	p := strings.SplitN(variant, ":", 3)
	if len(p) == 3 {
		return p[1], p[2]
	}
	return "", ""
}

// racyHTTP: whether a handler is inside Write at the very moment of the stop cause is the scheduler's business
func racyHTTP(variant string) bool {
	_, st := splitHTTPVariant(variant)
	return st == "stuck-response" || st == "slow-response" || st == "many"
}

// c08HTTPMatrix: the scenarios of one round.  full: every cause with every client state (flag valuations rotating so that
// every valuation meets every state and every cause over the rounds); otherwise a covering subset: every state under both
// signals' first and under one worker failure (rotating with the seed), every other cause with a stuck response, every
// valuation at least once.
func c08HTTPMatrix(seed uint64, round int, full bool) []c08Case {
	var httpSets, otherSets []string
	for _, f := range httpFlagSets {
		if f.http {
			httpSets = append(httpSets, f.name)
		} else {
			otherSets = append(otherSets, f.name)
		}
	}
	k := int(seed%1000) + round
	pick := func(i int) string { return httpSets[(k+i)%len(httpSets)] }
	var cs []c08Case
	n := 0
	add := func(cause, state string) {
		cs = append(cs, c08Case{cause, httpVariant(pick(n), state)})
		n++
	}
	if full {
		for _, c := range httpCauses {
			for _, st := range httpStates {
				add(c, st)
			}
		}
	} else {
		sig := []string{"sigterm", "sigint"}
		fails := httpCauses[2:]
		for i, st := range httpStates {
			add(sig[(k+i)%2], st)
		}
		for i, st := range httpStates {
			if st == "none" || st == "fresh" {
				continue
			}
			add(fails[(k+i)%len(fails)], st)
		}
		add(sig[(k+1)%2], "stuck-response")
		for i, c := range fails {
			add(c, []string{"stuck-response", "slow-response", "many"}[(k+i)%3])
		}
	}
	// the HTTP worker's own failure: the port is taken when the daemon starts
	cs = append(cs, c08Case{"http-listen-failure", httpVariant(pick(n), "none")})
	// the ticker alone (no HTTP server, no port): a signal and a worker failure
	for i, f := range otherSets {
		cs = append(cs, c08Case{[]string{"sigterm", "sigint"}[(k+i)%2], httpVariant(f, "none")}, c08Case{httpCauses[2+(k+i)%5], httpVariant(f, "none")})
	}
	return cs
}

// ---------- the port ----------

type portLock struct{ f *os.File }

func lockHTTPPort() (*portLock, error) {
	f, err := os.OpenFile(httpLockPath, os.O_CREATE|os.O_RDWR, 0o666)
	if err != nil {
		return nil, err
	}
	_ = os.Chmod(httpLockPath, 0o666)
	if err := syscall.Flock(int(f.Fd()), syscall.LOCK_EX); err != nil {
		f.Close()
		return nil, err
	}
	return &portLock{f}, nil
}

func (l *portLock) unlock() {
	_ = syscall.Flock(int(l.f.Fd()), syscall.LOCK_UN)
	l.f.Close()
}

// portFree: nobody listens on the server's address (bounded wait: a daemon of an earlier scenario may still be going down)
func portFree(bound time.Duration) bool {
	deadline := time.Now().Add(bound)
	for {
		ln, err := net.Listen("tcp", httpListen)
		if err == nil {
			ln.Close()
			return true
		}
		if time.Now().After(deadline) {
			return false
		}
		time.Sleep(50 * time.Millisecond)
	}
}

// ---------- clients ----------

type httpClients struct {
	mu    sync.Mutex
	conns []net.Conn
	stop  atomic.Bool
	wg    sync.WaitGroup
	notes []string
}

func (h *httpClients) keep(c net.Conn) {
	h.mu.Lock()
	h.conns = append(h.conns, c)
	h.mu.Unlock()
}

func (h *httpClients) closeAll() {
	h.stop.Store(true)
	h.mu.Lock()
	for _, c := range h.conns {
		c.Close()
	}
	h.conns = nil
	h.mu.Unlock()
	h.wg.Wait()
}

func dialHTTP(rcvbuf int) (net.Conn, error) {
	d := net.Dialer{Timeout: 3 * time.Second}
	if rcvbuf > 0 {
		d.Control = func(network, address string, c syscall.RawConn) error {
			var serr error
			if err := c.Control(func(fd uintptr) { serr = syscall.SetsockoptInt(int(fd), syscall.SOL_SOCKET, syscall.SO_RCVBUF, rcvbuf) }); err != nil {
				return err
			}
			return serr
		}
	}
	return d.Dial("tcp", httpAddr)
}

func requestText(path string) string {
	return "GET " + path + " HTTP/1.1\r\nHost: localhost\r\nUser-Agent: verif-scraper\r\nAccept: */*\r\n\r\n"
}

// pump writes pipelined requests until the server takes no more (its handler is blocked writing a response nobody
// reads, so it reads no further request, the socket buffers between the two fill up and our write stops making
// progress).  slowRead > 0: the client reads that many bytes every 40 ms.  Returns whether the pipeline got stuck.
func (h *httpClients) pump(path string, slowRead int) (stuck bool, sent int, err error) {
	c, err := dialHTTP(2048)
	if err != nil {
		return false, 0, err
	}
	h.keep(c)
	if slowRead > 0 {
		h.wg.Add(1)
		go func() {
			defer h.wg.Done()
			buf := make([]byte, slowRead)
			for !h.stop.Load() {
				_ = c.SetReadDeadline(time.Now().Add(200 * time.Millisecond))
				if _, err := c.Read(buf); err != nil && !errors.Is(err, os.ErrDeadlineExceeded) {
					return
				}
				time.Sleep(40 * time.Millisecond)
			}
		}()
	}
	block := []byte(strings.Repeat(requestText(path), 256))
	var rest []byte
	quiet := 0
	deadline := time.Now().Add(httpPumpBound)
	for sent < httpPumpMax && time.Now().Before(deadline) {
		if len(rest) == 0 {
			rest = block // the stream stays a sequence of whole requests
		}
		_ = c.SetWriteDeadline(time.Now().Add(httpPumpQuiet))
		n, werr := c.Write(rest)
		sent += n
		rest = rest[n:]
		switch {
		case werr == nil:
			quiet = 0
		case errors.Is(werr, os.ErrDeadlineExceeded):
			if n > 0 {
				quiet = 0
			}
			quiet++
			if quiet >= 2 {
				_ = c.SetWriteDeadline(time.Time{})
				return true, sent, nil
			}
		default:
			return false, sent, werr
		}
	}
	return false, sent, nil
}

// setUp puts clients into the state; returns a harness problem ("" = the state was reached).
func (h *httpClients) setUp(state, path string) string {
	switch state {
	case "none":
	case "fresh":
		c, err := dialHTTP(0)
		if err != nil {
			return "connect: " + err.Error()
		}
		h.keep(c)
	case "idle-keepalive":
		c, err := dialHTTP(0)
		if err != nil {
			return "connect: " + err.Error()
		}
		h.keep(c)
		if _, err := io.WriteString(c, requestText(path)); err != nil {
			return "request: " + err.Error()
		}
		_ = c.SetReadDeadline(time.Now().Add(c13Setup))
		resp, err := http.ReadResponse(bufio.NewReader(c), nil)
		if err != nil {
			return "response: " + err.Error()
		}
		_, _ = io.Copy(io.Discard, resp.Body)
		resp.Body.Close()
	case "half-request":
		c, err := dialHTTP(0)
		if err != nil {
			return "connect: " + err.Error()
		}
		h.keep(c)
		if _, err := io.WriteString(c, "GET "+path+" HTTP/1.1\r\nHost: localhost\r\nUser-Agent: verif-"); err != nil {
			return "request: " + err.Error()
		}
	case "stuck-response", "slow-response":
		slow := 0
		if state == "slow-response" {
			slow = 300
		}
		stuck, sent, err := h.pump(path, slow)
		if err != nil {
			return fmt.Sprintf("pipelined requests: %v (after %d bytes)", err, sent)
		}
		if !stuck {
			return fmt.Sprintf("the server kept reading pipelined requests (%d bytes in %v): no response got stuck", sent, httpPumpBound)
		}
		h.mu.Lock()
		h.notes = append(h.notes, fmt.Sprintf("%d request bytes pipelined before the server stopped reading", sent))
		h.mu.Unlock()
	case "many":
		// 40 connections; the three with pipelined requests are set up at the same time as the others
		var mu sync.Mutex
		var wg sync.WaitGroup
		first := ""
		one := func(i int, st string) {
			if msg := h.setUp(st, path); msg != "" {
				mu.Lock()
				if first == "" {
					first = fmt.Sprintf("connection %d (%s): %s", i, st, msg)
				}
				mu.Unlock()
			}
		}
		for i := 0; i < 40; i++ {
			switch i {
			case 7, 23:
				wg.Add(1)
				go func(i int) { defer wg.Done(); one(i, "stuck-response") }(i)
			case 15:
				wg.Add(1)
				go func(i int) { defer wg.Done(); one(i, "slow-response") }(i)
			default:
				one(i, []string{"fresh", "idle-keepalive", "half-request", "fresh", "idle-keepalive"}[i%5])
			}
		}
		wg.Wait()
		if first != "" {
			return first
		}
	default:
		return "unknown client state " + state
	}
	return ""
}

// ---------- one scenario ----------

func runC08HTTP(bin, dir, cause, variant string, rep int) (r result) {
	r = result{Prop: "C08", Scenario: cause, Variant: variant, Rep: rep}
	flagName, state := splitHTTPVariant(variant)
	var fs *struct {
		name string
		args []string
		http bool
	}
	for i := range httpFlagSets {
		if httpFlagSets[i].name == flagName {
			fs = &httpFlagSets[i]
		}
	}
	if fs == nil {
		r.HarnessErr = "unknown flag valuation in variant " + variant
		return
	}
	if fs.http {
		lk, err := lockHTTPPort()
		if err != nil {
			r.HarnessErr = "skipped: cannot take the port lock: " + err.Error()
			return
		}
		defer lk.unlock()
		if !portFree(httpPortWait) {
			r.HarnessErr = "skipped: " + httpListen + " is held by a process that is not this harness"
			return
		}
	}
	if err := os.MkdirAll(dir, 0o755); err != nil {
		r.HarnessErr = err.Error()
		return
	}
	defer os.RemoveAll(dir)
	sshdPath, err := mkfifo(dir, "sshd-pipe")
	if err != nil {
		r.HarnessErr = "mkfifo: " + err.Error()
		return
	}
	auditPath, err := mkfifo(dir, "audit-pipe")
	if err != nil {
		r.HarnessErr = "mkfifo: " + err.Error()
		return
	}
	outPath := filepath.Join(dir, "events.log")
	if cause == "write-error" {
		outPath = "/dev/full"
	} else if err := os.WriteFile(outPath, nil, 0o600); err != nil {
		r.HarnessErr = err.Error()
		return
	}
	var squatter net.Listener
	if cause == "http-listen-failure" {
		if squatter, err = net.Listen("tcp", httpListen); err != nil {
			r.HarnessErr = "skipped: cannot occupy the port: " + err.Error()
			return
		}
		defer squatter.Close()
	}
	stderrPath := filepath.Join(dir, "stderr.log")
	stderrF, err := os.Create(stderrPath)
	if err != nil {
		r.HarnessErr = err.Error()
		return
	}
	defer stderrF.Close()
	tail := func() string {
		b, _ := os.ReadFile(stderrPath)
		if len(b) > 500 {
			b = b[len(b)-500:]
		}
		return string(b)
	}
	dargs := append([]string{"-sshd-pipe-path", sshdPath, "-auditd-pipe-path", auditPath, "-app-events-output", outPath}, fs.args...)
	cmd := exec.Command(bin, dargs...)
	cmd.Env = append(os.Environ(), "NODE_NAME=verif-node")
	cmd.Stdout, cmd.Stderr, cmd.Dir = stderrF, stderrF, dir
	if err := cmd.Start(); err != nil {
		r.HarnessErr = "start: " + err.Error()
		return
	}
	started := time.Now()
	exited := make(chan error, 1)
	go func() { exited <- cmd.Wait() }()
	hasExited := false
	var exitErr error
	var sshdW, auditW *os.File
	clients := &httpClients{}
	defer func() {
		if !hasExited {
			_ = cmd.Process.Kill()
			<-exited
		}
		clients.closeAll()
		if sshdW != nil {
			sshdW.Close()
		}
		if auditW != nil {
			auditW.Close()
		}
	}()
	pollExit := func() bool {
		if hasExited {
			return true
		}
		select {
		case exitErr = <-exited:
			hasExited = true
			return true
		default:
			return false
		}
	}
	injected := time.Now()
	if cause != "http-listen-failure" {
		if sshdW, err = openWriter(sshdPath); err != nil {
			r.HarnessErr = err.Error() + " | " + tail()
			releaseOpener(auditPath)
			return
		}
		if auditW, err = openWriter(auditPath); err != nil {
			r.HarnessErr = err.Error() + " | " + tail()
			return
		}
		path := "/metrics"
		if !strings.Contains(flagName, "metrics") || (flagName == "all" && rep%2 == 1) || (flagName == "metrics+healthz" && rep%2 == 1) {
			path = "/readyz"
		}
		if fs.http {
			// the server is up once a connection is accepted (bounded; no fixed sleep)
			deadline := time.Now().Add(2 * c13Setup)
			for {
				c, derr := net.DialTimeout("tcp", httpAddr, 200*time.Millisecond)
				if derr == nil {
					c.Close()
					break
				}
				if pollExit() {
					r.HarnessErr = fmt.Sprintf("daemon exited before its HTTP server was up (%v): %s", exitErr, tail())
					return
				}
				if time.Now().After(deadline) {
					r.HarnessErr = "the HTTP server did not come up within " + (2 * c13Setup).String() + " | " + tail()
					return
				}
				time.Sleep(5 * time.Millisecond)
			}
			if msg := clients.setUp(state, path); msg != "" {
				r.HarnessErr = "client state " + state + " not reached: " + msg + " | " + tail()
				return
			}
		} else {
			time.Sleep(60 * time.Millisecond) // a few ticks of the 20 ms ticker; nothing depends on it
		}
		if pollExit() {
			r.HarnessErr = fmt.Sprintf("daemon exited before the injection (%v): %s", exitErr, tail())
			return
		}
		injected = time.Now()
		r.SetupMs = injected.Sub(started).Milliseconds()
		switch cause {
		case "sigterm":
			_ = cmd.Process.Signal(syscall.SIGTERM)
		case "sigint":
			_ = cmd.Process.Signal(syscall.SIGINT)
		case "sshd-eof":
			sshdW.Close()
			sshdW = nil
		case "audit-eof":
			auditW.Close()
			auditW = nil
		case "audit-unparsable":
			if _, err := auditW.WriteString("this is not an audit record\n"); err != nil {
				r.HarnessErr = "cannot write the audit line: " + err.Error()
				return
			}
		case "write-error":
			if _, err := sshdW.WriteString(sshdLine(rep)); err != nil {
				r.HarnessErr = "cannot write the sshd line: " + err.Error()
				return
			}
		case "invalid-login":
			if _, err := sshdW.WriteString(invalidLoginLine); err != nil {
				r.HarnessErr = "cannot write the sshd line: " + err.Error()
				return
			}
		default:
			r.HarnessErr = "unknown cause " + cause
			return
		}
	}
	if !pollExit() {
		select {
		case exitErr = <-exited:
			hasExited = true
		case <-time.After(c08Bound):
		}
	}
	r.Returned = hasExited
	r.Millis = time.Since(injected).Milliseconds()
	r.Detail = "daemon flags: " + strings.Join(fs.args, " ") + "; HTTP clients: " + state
	if len(clients.notes) > 0 {
		r.Detail += " (" + strings.Join(clients.notes, "; ") + ")"
	}
	if !r.Returned {
		r.Ret = "killed by the harness"
		r.FailKey = "failstop:" + cause + ":" + variant + ":still-running"
		r.Detail += " | " + tail()
		return
	}
	status := 0
	var ee *exec.ExitError
	if errors.As(exitErr, &ee) {
		status = ee.ExitCode()
		if ws, ok := ee.Sys().(syscall.WaitStatus); ok && ws.Signaled() {
			r.Ret = "killed by signal " + ws.Signal().String()
			status = 128 + int(ws.Signal())
		}
	} else if exitErr != nil {
		r.HarnessErr = "wait: " + exitErr.Error()
		return
	}
	if r.Ret == "" {
		r.Ret = fmt.Sprintf("exit status %d", status)
	}
	if status == 0 && cause != "sigterm" && cause != "sigint" {
		r.FailKey = "failstop:" + cause + ":" + variant + ":exit-zero"
		r.Detail += " | " + tail()
	}
	return
}

// runC08HTTPJobs runs the optional-worker scenarios one after the other (one port).  After maxStuck scenarios whose
// daemon stayed up the rest is not explored: each of them costs the whole bound.
func runC08HTTPJobs(sum *hutil.Summary, bin, tmp string, cases []c08Case, reps int) []result {
	const maxStuck = 3
	var out []result
	stuck := 0
	skipped := 0
	for i, c := range cases {
		if stuck >= maxStuck {
			skipped++
			continue
		}
		res := runC08Scenario(bin, filepath.Join(tmp, fmt.Sprintf("c08-http-%d", i)), c.cause, c.variant, i)
		if res.HarnessErr != "" && !strings.HasPrefix(res.HarnessErr, "skipped:") {
			// the harness' own set-up did not get there (loaded machine): says nothing about the code, once more
			time.Sleep(200 * time.Millisecond)
			res = runC08Scenario(bin, filepath.Join(tmp, fmt.Sprintf("c08-http-%d-again", i)), c.cause, c.variant, i)
		}
		if strings.HasPrefix(res.HarnessErr, "skipped:") {
			sum.Dist("optional_workers_scenario_skipped_port_not_available")
			sum.Notes = append(sum.Notes, fmt.Sprintf("%s/%s %s", c.cause, c.variant, res.HarnessErr))
			if skipped++; skipped >= 2 {
				sum.Notes = append(sum.Notes, "the remaining optional-worker scenarios with an HTTP server were not run: the port is not available")
				break
			}
			continue
		}
		if res.HarnessErr != "" && racyHTTP(c.variant) && strings.Contains(res.HarnessErr, "not reached") {
			// a client state that could not be produced is a property of this machine's socket buffers, not of the code
			sum.Dist("optional_workers_client_state_not_reached")
			sum.Notes = append(sum.Notes, fmt.Sprintf("%s/%s: %s", c.cause, c.variant, res.HarnessErr))
			continue
		}
		if res.FailKey != "" && !res.Returned {
			stuck++
		}
		if os.Getenv("VERIF_C08_TRACE") != "" {
			fmt.Printf("trace %s %s setup=%dms exit=%dms %s %s\n", res.Scenario, res.Variant, res.SetupMs, res.Millis, res.Ret, res.FailKey)
		}
		out = append(out, res)
	}
	if stuck >= maxStuck && skipped > 0 {
		sum.Notes = append(sum.Notes, fmt.Sprintf("%d optional-worker scenarios not run after %d daemons stayed up", skipped, maxStuck))
	}
	_ = reps
	return out
}
