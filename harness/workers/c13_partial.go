//go:build verif

package main

// C13, state "blocked reading an idle pipe" with an UNTERMINATED PARTIAL RECORD in the read buffer (round 7).
//
// The writer has sent the beginning of a record - no newline yet - and pauses (a forwarder that writes in
// pieces, a record longer than the writer's buffer): the ingester has consumed those bytes and sits in read(2)
// waiting for the rest.  Then its context is cancelled.  Whatever the reader does with the fragment it holds,
// the worker must return within the bound and deliver nothing afterwards - in EVERY downstream state:
//
//	audit/capN[-debug]   real AuditLogIngester (Ingest + Process) on a real FIFO, line channel of capacity N
//	                     (0, 1, 3, 16) FULL - N complete records were written first - and the consumer stopped;
//	audit/capN-empty     the same with the channel empty and the consumer stopped;
//	sshd/<form>[/child-ctx]  real SyslogIngester + SshdProcessor on a real FIFO, unbuffered logins channel nobody
//	                     receives from; the partial record already IS a recognisable accepted-login line of the
//	                     form (password, publickey, publickey-padded, certificate) - only its newline is missing;
//	                     child-ctx: the processor was configured on a longer-lived context (c13_handoff.go);
//	sshd/<form>/cut      the same line cut in the middle.
//
// That the ingester has consumed the fragment is observed (FIONREAD on the pipe = 0), then c13Settle.

import (
	"context"
	"fmt"
	"os"
	"strconv"
	"strings"
	"syscall"
	"time"
	"unsafe"

	"github.com/metal-toolbox/auditevent"
	"go.uber.org/zap"

	"github.com/metal-toolbox/audito-maldito/ingesters/auditlog"
	"github.com/metal-toolbox/audito-maldito/ingesters/namedpipe"
	"github.com/metal-toolbox/audito-maldito/ingesters/syslog"
	"github.com/metal-toolbox/audito-maldito/internal/common"
	"github.com/metal-toolbox/audito-maldito/internal/health"
	"github.com/metal-toolbox/audito-maldito/internal/verifharness/hutil"
	"github.com/metal-toolbox/audito-maldito/processors/sshd"
)

// pipeDrained waits until the reader has consumed everything written to the FIFO.
func pipeDrained(w *os.File) error {
	deadline := time.Now().Add(c13Setup)
	for {
		var n int32
		if _, _, e := syscall.Syscall(syscall.SYS_IOCTL, w.Fd(), uintptr(syscall.TIOCINQ), uintptr(unsafe.Pointer(&n))); e != 0 {
			return fmt.Errorf("FIONREAD: %v", e)
		}
		if n == 0 {
			return nil
		}
		if time.Now().After(deadline) {
			return fmt.Errorf("the worker did not consume the %d bytes queued in the pipe within %v", n, c13Setup)
		}
		time.Sleep(time.Millisecond)
	}
}

func scPartialRecord(r *result, dir, variant string) {
	path, err := mkfifo(dir, "pipe")
	if err != nil {
		r.HarnessErr = "mkfifo: " + err.Error()
		return
	}
	parts := strings.Split(variant, "/")
	if len(parts) < 2 {
		r.HarnessErr = "bad variant " + variant
		return
	}
	root, stopRoot := context.WithCancel(context.Background())
	defer stopRoot()
	ctx, cancel := context.WithCancel(root)
	defer cancel()
	done := make(chan error, 1)
	var partial string
	var prefix []string          // complete records written first
	delivered := func() int { return 0 } // what has been handed downstream so far
	release := func() {}         // frees a stuck worker
	ready := func() error { return nil }

	switch parts[0] {
	case "audit":
		spec := strings.TrimPrefix(parts[1], "cap")
		debug := strings.HasSuffix(spec, "-debug")
		spec = strings.TrimSuffix(spec, "-debug")
		empty := strings.HasSuffix(spec, "-empty")
		spec = strings.TrimSuffix(spec, "-empty")
		c, err := strconv.Atoi(spec)
		if err != nil {
			r.HarnessErr = "bad variant " + variant
			return
		}
		ch := make(chan string, c)
		np := namedpipe.NewNamedPipeIngester(hutil.Logger(debug), health.NewHealth())
		alp := auditlog.NewAuditLogIngester(path, ch, np)
		go func() { done <- alp.Ingest(ctx) }()
		if !empty {
			for i := 1; i <= c; i++ {
				prefix = append(prefix, fmt.Sprintf(auditLineFmt, i, 77))
			}
		}
		full := fmt.Sprintf(auditLineFmt, c+1, 77)
		partial = full[:len(full)/2+len(variant)%7]
		nWant := len(prefix)
		delivered = func() int { return len(ch) }
		ready = func() error {
			deadline := time.Now().Add(c13Setup)
			for len(ch) != nWant {
				if time.Now().After(deadline) {
					return fmt.Errorf("state not reached: %d of %d records in the line channel", len(ch), nWant)
				}
				time.Sleep(time.Millisecond)
			}
			return nil
		}
		release = func() {
			for {
				select {
				case <-ch:
				case <-done:
					return
				case <-time.After(c13Setup):
					return
				}
			}
		}
	case "sshd":
		line, ok := handoffLines[parts[1]]
		if !ok {
			r.HarnessErr = "bad variant " + variant
			return
		}
		partial = line
		childCtx := false
		for _, p := range parts[2:] {
			switch p {
			case "cut":
				partial = line[:len(line)*2/3]
			case "child-ctx":
				childCtx = true
			}
		}
		logins := make(chan common.RemoteUserLogin) // unbuffered, nobody receives
		enc := newCountingEncoder()
		procCtx := ctx
		if childCtx {
			procCtx = root
		}
		proc := sshd.NewSshdProcessor(procCtx, logins, "node", "mid", auditevent.NewAuditEventWriter(enc), metricsProvider())
		sli := syslog.NewSyslogIngester(path, proc, namedpipe.NewNamedPipeIngester(zap.NewNop().Sugar(), health.NewHealth()))
		go func() { done <- sli.Ingest(ctx) }()
		delivered = func() int { return int(enc.n.Load()) }
		release = func() { releaseHandoff(logins, done, stopRoot) }
	default:
		r.HarnessErr = "bad variant " + variant
		return
	}

	w, err := openWriter(path)
	if err != nil {
		r.HarnessErr = err.Error()
		cancel()
		releaseOpener(path)
		return
	}
	defer w.Close()
	if _, err := w.WriteString(strings.Join(prefix, "") + partial); err != nil {
		r.HarnessErr = "cannot write: " + err.Error()
		cancel()
		return
	}
	if err := pipeDrained(w); err == nil {
		err = ready()
	}
	if err != nil {
		r.HarnessErr = err.Error()
		cancel()
		w.Close()
		release()
		return
	}
	time.Sleep(c13Settle) // from "bytes consumed" to "blocked in the next read"
	r.Detail = fmt.Sprintf("%d complete record(s) handed downstream, then %d bytes of a record without its newline consumed by the reader; writer connected and silent", len(prefix), len(partial))
	if cancelAndWait(r, cancel, done) {
		r.Before = delivered()
		time.Sleep(c13After)
		after(r, delivered()-r.Before)
	} else {
		w.Close()
		release()
	}
}
