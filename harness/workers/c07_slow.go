//go:build verif

package main

// C07 with a SLOW CONSUMER of logins (round 7): a record delivered through the syslog ingester is processed as if
// handed over directly - also when nobody receives from the unbuffered logins channel for a while (the audit side is
// busy writing out cached events, blocked on a slow events output, or not started yet).  For every login form (the
// four hand-off selects of processors/sshd), a failure line and an unrecognised line, and every delay of -delays,
// the same (pid, message) travels three ways at the same time, each with a processor, events sink and logins channel
// of its own whose consumer starts receiving only after the delay:
//
//	direct    SshdProcessor.ProcessSshdLogEntry(ctx, {PID, Message})
//	process   SyslogIngester.Process(ctx, "<pid> <pad><message>\n")             (callback level)
//	fifo      the real SyslogIngester.Ingest on a real FIFO, the record written to it, then a failure line of
//	          another sshd process whose event marks "everything before has been dealt with"
//
// Oracle (the property as stated): the framed paths yield exactly the events and forwarded logins of the direct one
// (events without their timestamp; logins: PID, credential id and identity), and return what it returns.  All cases
// run concurrently: a stage lasts about as long as its longest delay.  A path that has not returned c07ReturnBound
// after the consumer started is reported as a failure with the case as replay, and released.

import (
	"context"
	"encoding/json"
	"fmt"
	"os"
	"sort"
	"strconv"
	"strings"
	"sync"
	"time"

	"github.com/metal-toolbox/auditevent"
	"go.uber.org/zap"

	"github.com/metal-toolbox/audito-maldito/ingesters/namedpipe"
	"github.com/metal-toolbox/audito-maldito/ingesters/syslog"
	"github.com/metal-toolbox/audito-maldito/internal/common"
	"github.com/metal-toolbox/audito-maldito/internal/health"
	"github.com/metal-toolbox/audito-maldito/internal/verifharness/hutil"
	"github.com/metal-toolbox/audito-maldito/processors/sshd"
)

const c07ReturnBound = 10 * time.Second

var c07Lines = map[string]string{
	"failed-password": "4301 Failed password for alice from 192.0.2.7 port 50031 ssh2",
	"unrecognised":    "4302 Connection closed by authenticating user alice 192.0.2.7 port 50032 [preauth]",
}

const c07MarkerLine = "4399 Failed password for verif-marker from 192.0.2.9 port 50099 ssh2"

func c07Forms() []string {
	fs := []string{"password", "publickey", "publickey-padded", "certificate", "failed-password", "unrecognised"}
	return fs
}

func c07Line(form string) (string, bool) {
	if l, ok := handoffLines[form]; ok {
		return l, true
	}
	l, ok := c07Lines[form]
	return l, ok
}

type recordingEncoder struct {
	mu     sync.Mutex
	events []string
}

func (e *recordingEncoder) Encode(v any) error {
	raw, err := json.Marshal(v)
	if err != nil {
		return err
	}
	raw = c07Normalise(raw)
	e.mu.Lock()
	e.events = append(e.events, string(raw))
	e.mu.Unlock()
	return nil
}

// c07Normalise: an event without what differs from call to call (its timestamp, the random id of a UserLogin)
func c07Normalise(raw []byte) []byte {
	var m map[string]any
	if json.Unmarshal(raw, &m) != nil {
		return raw
	}
	delete(m, "loggedAt")
	if md, ok := m["metadata"].(map[string]any); ok {
		delete(md, "auditId")
	}
	out, _ := json.Marshal(m)
	return out
}

func (e *recordingEncoder) snapshot() []string {
	e.mu.Lock()
	defer e.mu.Unlock()
	return append([]string(nil), e.events...)
}

type c07Obs struct {
	Events   []string `json:"events"`
	Logins   []string `json:"logins"`
	Ret      string   `json:"returned"`
	Returned bool     `json:"returned_in_time"`
	Problem  string   `json:"harness_problem,omitempty"`
}

func loginText(l common.RemoteUserLogin) string {
	src := "nil"
	if l.Source != nil {
		raw, _ := json.Marshal(l.Source)
		src = string(c07Normalise(raw))
	}
	return fmt.Sprintf("pid=%d cred=%q source=%s", l.PID, l.CredUserID, src)
}

// c07Path runs one path of one case.
func c07Path(path, line string, pad int, delay time.Duration, dir string) (o c07Obs) {
	logins := make(chan common.RemoteUserLogin) // unbuffered: the daemon's wiring
	enc := &recordingEncoder{}
	ctx, cancel := context.WithCancel(context.Background())
	defer cancel()
	proc := sshd.NewSshdProcessor(ctx, logins, "node", "mid", auditevent.NewAuditEventWriter(enc), metricsProvider())
	var mu sync.Mutex
	var got []string
	stop := make(chan struct{})
	consumerDone := make(chan struct{})
	started := make(chan struct{})
	go func() { // the slow consumer: not there for `delay`, then prompt
		defer close(consumerDone)
		select {
		case <-time.After(delay):
		case <-stop:
			close(started)
			return
		}
		close(started)
		for {
			select {
			case l := <-logins:
				mu.Lock()
				got = append(got, loginText(l))
				mu.Unlock()
			case <-stop:
				return
			}
		}
	}()
	sp := strings.SplitN(line, " ", 2)
	pid, msg := sp[0], sp[1]
	framed := pid + " " + strings.Repeat(" ", pad) + msg + "\n"
	done := make(chan error, 1)
	var marker func() bool
	cleanup := func() {}
	switch path {
	case "direct":
		go func() { done <- proc.ProcessSshdLogEntry(ctx, sshd.SshdLogEntry{PID: pid, Message: msg}) }()
	case "process":
		sli := syslog.NewSyslogIngester("unused", proc, namedpipe.NewNamedPipeIngester(zap.NewNop().Sugar(), health.NewHealth()))
		go func() { done <- sli.Process(ctx, framed) }()
	case "fifo":
		p, err := mkfifo(dir, "pipe")
		if err != nil {
			o.Problem = "mkfifo: " + err.Error()
			close(stop)
			<-consumerDone
			return
		}
		sli := syslog.NewSyslogIngester(p, proc, namedpipe.NewNamedPipeIngester(zap.NewNop().Sugar(), health.NewHealth()))
		ingestDone := make(chan error, 1)
		go func() { ingestDone <- sli.Ingest(ctx) }()
		w, err := openWriter(p)
		if err != nil {
			o.Problem = err.Error()
			cancel()
			releaseOpener(p)
			close(stop)
			<-consumerDone
			return
		}
		cleanup = func() {
			cancel()
			w.Close()
			select {
			case <-ingestDone:
			case <-time.After(c13Setup):
			}
		}
		if _, err := w.WriteString(framed + c07MarkerLine + "\n"); err != nil {
			o.Problem = "cannot write the record: " + err.Error()
			cleanup()
			close(stop)
			<-consumerDone
			return
		}
		marker = func() bool {
			for _, e := range enc.snapshot() {
				if strings.Contains(e, "verif-marker") {
					return true
				}
			}
			return false
		}
		go func() { // "returned" = the record has been dealt with: the marker's event is there (or Ingest ended)
			for {
				if marker() {
					done <- nil
					return
				}
				select {
				case err := <-ingestDone:
					ingestDone <- err
					done <- fmt.Errorf("Ingest returned: %v", err)
					return
				case <-time.After(2 * time.Millisecond):
				}
			}
		}()
	}
	select {
	case err := <-done:
		o.Returned, o.Ret = true, fmt.Sprint(err)
	case <-time.After(delay + c07ReturnBound):
		o.Ret = "no return"
	}
	<-started
	if o.Returned {
		time.Sleep(c13After) // whatever is still to be handed over is taken now: the consumer is prompt
	}
	cleanup()
	cancel()
	close(stop)
	<-consumerDone
	if !o.Returned {
		select { // released by the cancellation
		case <-done:
		case <-time.After(c13Setup):
		}
	}
	for _, e := range enc.snapshot() {
		if !strings.Contains(e, "verif-marker") {
			o.Events = append(o.Events, e)
		}
	}
	mu.Lock()
	o.Logins = append([]string(nil), got...)
	mu.Unlock()
	return o
}

type c07Result struct {
	Form    string
	Delay   int
	Pad     int
	Direct  c07Obs
	Process c07Obs
	Fifo    c07Obs
}

func runC07Case(tmp, form string, delayMs, pad int) (result, *c07Result) {
	r := result{Prop: "C07", Scenario: "slow-consumer", Variant: fmt.Sprintf("%s/%d/pad%d", form, delayMs, pad)}
	line, ok := c07Line(form)
	if !ok {
		r.HarnessErr = "unknown form " + form
		return r, nil
	}
	dir, err := os.MkdirTemp(tmp, "c07-")
	if err != nil {
		r.HarnessErr = err.Error()
		return r, nil
	}
	defer os.RemoveAll(dir)
	cr := &c07Result{Form: form, Delay: delayMs, Pad: pad}
	delay := time.Duration(delayMs) * time.Millisecond
	var wg sync.WaitGroup
	for _, x := range []struct {
		path string
		o    *c07Obs
	}{{"direct", &cr.Direct}, {"process", &cr.Process}, {"fifo", &cr.Fifo}} {
		wg.Add(1)
		go func(path string, o *c07Obs) {
			defer wg.Done()
			*o = c07Path(path, line, pad, delay, dir)
		}(x.path, x.o)
	}
	wg.Wait()
	r.Returned = cr.Direct.Returned && cr.Process.Returned && cr.Fifo.Returned
	r.Millis = int64(delayMs)
	r.Before = len(cr.Direct.Events)
	for _, o := range []*c07Obs{&cr.Direct, &cr.Process, &cr.Fifo} {
		if o.Problem != "" {
			r.HarnessErr = o.Problem
			return r, cr
		}
		sort.Strings(o.Logins)
	}
	if !cr.Direct.Returned {
		// the direct hand-over itself does not come back: not a statement about framing
		r.HarnessErr = fmt.Sprintf("the direct hand-over did not return within %v of the consumer's start", c07ReturnBound)
		return r, cr
	}
	same := func(a, b []string) bool { return fmt.Sprint(a) == fmt.Sprint(b) && len(a) == len(b) }
	for _, x := range []struct {
		name string
		o    c07Obs
	}{{"SyslogIngester.Process", cr.Process}, {"the FIFO + SyslogIngester.Ingest", cr.Fifo}} {
		switch {
		case !x.o.Returned:
			r.FailKey = "framing:slow-consumer:did-not-return"
			r.Detail = fmt.Sprintf("through %s the record was not dealt with within %v of the logins consumer's start (it started %d ms after the record arrived); handed over directly it returned %s", x.name, c07ReturnBound, delayMs, cr.Direct.Ret)
		case !same(x.o.Events, cr.Direct.Events):
			r.FailKey = "framing:slow-consumer:events-differ"
			r.Detail = fmt.Sprintf("through %s the record yields the events %q, handed over directly %q (logins consumer started %d ms after the record arrived)", x.name, x.o.Events, cr.Direct.Events, delayMs)
		case !same(x.o.Logins, cr.Direct.Logins):
			r.FailKey = "framing:slow-consumer:logins-differ"
			r.Detail = fmt.Sprintf("through %s the record forwards %d login(s) %q, handed over directly %d %q (nobody received from the unbuffered logins channel for the first %d ms)", x.name, len(x.o.Logins), x.o.Logins, len(cr.Direct.Logins), cr.Direct.Logins, delayMs)
		case x.name == "SyslogIngester.Process" && x.o.Ret != cr.Direct.Ret:
			r.FailKey = "framing:slow-consumer:return-differs"
			r.Detail = fmt.Sprintf("through %s the record returns %s, handed over directly %s", x.name, x.o.Ret, cr.Direct.Ret)
		}
		if r.FailKey != "" {
			break
		}
	}
	return r, cr
}

func parseC07Variant(v string) (form string, delayMs, pad int, ok bool) {
	parts := strings.Split(v, "/")
	if len(parts) != 3 || !strings.HasPrefix(parts[2], "pad") {
		return "", 0, 0, false
	}
	d, err1 := strconv.Atoi(parts[1])
	p, err2 := strconv.Atoi(strings.TrimPrefix(parts[2], "pad"))
	return parts[0], d, p, err1 == nil && err2 == nil
}

func runC07Slow(sum *hutil.Summary, tmp string, delays []int) {
	type job struct {
		form       string
		delay, pad int
	}
	var jobs []job
	for _, d := range delays {
		for i, f := range c07Forms() {
			jobs = append(jobs, job{f, d, []int{0, 1, 3}[(i+d)%3]})
		}
	}
	results := make([]result, len(jobs))
	var wg sync.WaitGroup
	for i, j := range jobs {
		wg.Add(1)
		go func(i int, j job) {
			defer wg.Done()
			results[i], _ = runC07Case(tmp, j.form, j.delay, j.pad)
		}(i, j)
	}
	wg.Wait()
	for _, r := range results {
		record(sum, r)
		sum.Dist(fmt.Sprintf("delay_ms_%d", r.Millis))
	}
}
