//go:build verif

// Harness for C13 (workers stop promptly on cancellation) and C08 (fail-stop of the daemon):
// fault injection on the REAL code.  C13 runs the real worker functions in-process, puts each
// into one of its blocking states, cancels the context and measures the time until the
// function returns and what it delivers afterwards (the sshd-side hand-off also with a processor configured on a
// longer-lived context than the worker's, c13_handoff.go; and on the built binary with the group context
// cancelled by a sibling's failure, c13_daemon.go).  C08 builds the daemon binary from the
// working tree, runs it on real FIFOs and injects each failure cause and signal, idle and
// under sustained audit load, observing exit status and time-to-exit; also with the optional workers switched on
// (-metrics / -healthz / -audit-metrics) and HTTP clients in every connection state (c08_http.go).
// No Coq case files: the tie to the model is the generated table Gen/Blocking.v (one
// scenario per kind of row) plus these observations.
package main

import (
	"encoding/json"
	"flag"
	"fmt"
	"os"
	"path/filepath"
	"strconv"
	"strings"
	"time"

	"github.com/metal-toolbox/audito-maldito/internal/verifharness/hutil"
)

type result struct {
	Prop       string `json:"prop"`
	Scenario   string `json:"scenario"` // blocking state (C13) or failure cause (C08)
	Variant    string `json:"variant"`  // capacity (C13) or idle|load (C08)
	Rep        int    `json:"rep"`
	Returned   bool   `json:"returned"`         // worker returned / process exited within the bound
	Millis     int64  `json:"ms"`               // time from the injection to return / exit
	Ret        string `json:"ret,omitempty"`    // returned error / exit status
	Before     int    `json:"delivered_before"` // deliveries observed up to the return
	After      int    `json:"delivered_after"`  // deliveries observed after the return
	Detail     string `json:"detail,omitempty"`
	HarnessErr string `json:"harness_problem,omitempty"`
	FailKey    string `json:"fail_key,omitempty"`
	SetupMs    int64  `json:"setup_ms,omitempty"` // optional-worker scenarios: time from the daemon's start to the injection
}

type replayDoc struct {
	Prop     string `json:"prop"`
	Scenario string `json:"scenario"`
	Variant  string `json:"variant"`
}

func record(sum *hutil.Summary, r result) {
	key := r.Prop + ":" + r.Scenario + ":" + r.Variant
	sum.Count(key, true)
	sum.Dist(r.Scenario + "/" + r.Variant)
	switch {
	case r.HarnessErr != "":
		sum.Dist("outcome_harness-problem")
		sum.FailKey("harness", "harness:"+key, r.HarnessErr, map[string]any{"replay": replayDoc{r.Prop, r.Scenario, r.Variant}, "observed": r})
	case r.FailKey != "":
		sum.Dist("outcome_violation")
		sum.FailKey("oracle", r.FailKey, describe(r), map[string]any{"replay": replayDoc{r.Prop, r.Scenario, r.Variant}, "observed": r})
	default:
		sum.Dist("outcome_ok")
	}
	if r.Rep == 0 {
		sum.Samples = append(sum.Samples, r)
	}
}

func describe(r result) string {
	if r.Prop == "C07" {
		return r.Detail
	}
	if r.Prop == "C13" && r.Scenario == "sibling-failure" {
		return fmt.Sprintf("daemon still running %v after a sibling worker failed (%s) while the sshd worker was handing logins to the correlator: a worker did not return although its (group) context was cancelled", c08Bound, r.Variant)
	}
	if r.Prop == "C13" {
		if !r.Returned {
			return fmt.Sprintf("worker in state %s (%s) did not return within %v of the cancellation", r.Scenario, r.Variant, c13Bound)
		}
		return fmt.Sprintf("worker in state %s (%s) delivered %d item(s) after it had returned", r.Scenario, r.Variant, r.After)
	}
	if isHTTPVariant(r.Variant) {
		fl, st := splitHTTPVariant(r.Variant)
		if !r.Returned {
			return fmt.Sprintf("daemon with its optional workers on (flag valuation %s) still running %v after %s while its HTTP clients were in state %q: a worker of the errgroup did not return", fl, c08Bound, r.Scenario, st)
		}
		return fmt.Sprintf("daemon with its optional workers on (flag valuation %s, HTTP clients %q) exited with status 0 after failure %s", fl, st, r.Scenario)
	}
	if !r.Returned {
		return fmt.Sprintf("daemon still running %v after %s (%s)", c08Bound, r.Scenario, r.Variant)
	}
	return fmt.Sprintf("daemon exited with status 0 after failure %s (%s)", r.Scenario, r.Variant)
}

func main() {
	out := flag.String("out", "", "output directory")
	prop := flag.String("prop", "C13", "C13 | C08 | C07 (slow-consumer framing stage)")
	n := flag.Int("n", 0, "C13: repetitions of the racy scenario read-busy (default 30); C08: repetitions of the matrix (default 1)")
	replay := flag.String("replay", "", "replay file")
	delaysFlag := flag.String("delays", "150,700,2500", "C07: how long (ms) nobody receives from the logins channel after the record arrived")
	flag.Parse()
	seed := hutil.SeedFromEnv()
	if *out == "" {
		*out = "."
	}
	if err := os.MkdirAll(*out, 0o755); err != nil {
		fmt.Println("cannot create output dir:", err)
		os.Exit(2)
	}
	tmp, err := os.MkdirTemp("", "verif-workers-")
	if err != nil {
		fmt.Println("cannot create temp dir:", err)
		os.Exit(2)
	}
	defer os.RemoveAll(tmp)
	setupLoggers()

	if *replay != "" {
		rc := doReplay(*replay, tmp)
		os.RemoveAll(tmp)
		os.Exit(rc)
	}

	t0 := time.Now()
	var sum *hutil.Summary
	switch *prop {
	case "C13":
		sum = hutil.NewSummary("C13", seed, "non-trivial: the worker was observed in the named blocking state (or busy) before the context was cancelled")
		reps := *n
		if reps <= 0 {
			reps = 30
		}
		runC13(sum, tmp, reps, seed)
		sum.Notes = append(sum.Notes, c13Notes...)
	case "C07":
		sum = hutil.NewSummary("C07", seed, "framed vs direct with a slow consumer of logins (c07_slow.go): each login form of the four hand-off selects, a failure line and an unrecognised line, handed over directly / through SyslogIngester.Process / through a real FIFO + SyslogIngester.Ingest "+
			"while nobody receives from the unbuffered logins channel for the given delay; non-trivial: all three paths were observed until they returned")
		var delays []int
		for _, f := range strings.Split(*delaysFlag, ",") {
			if d, err := strconv.Atoi(strings.TrimSpace(f)); err == nil && d >= 0 {
				delays = append(delays, d)
			}
		}
		runC07Slow(sum, tmp, delays)
	case "C08":
		sum = hutil.NewSummary("C08", seed, "non-trivial: the daemon was started from the built binary and the failure cause was injected (idle, or after the audit writer had been flooding the pipe; "+
			"scenarios opt:<flags>:<clients>: the daemon started with a flag valuation that switches optional workers on - HTTP server for /metrics and /readyz, its stop worker, the audit.log ticker - and HTTP clients "+
			"in the named state when the cause is injected: none, fresh connection, idle keep-alive, request half sent, pipelined requests whose responses nobody reads / are read slowly (handler blocked in Write), 40 connections of all kinds; "+
			"plus the HTTP worker's own failure: port taken))")
		reps := *n
		if reps <= 0 {
			reps = 1
		}
		runC08(sum, tmp, reps, seed)
	default:
		fmt.Println("unknown -prop", *prop)
		os.RemoveAll(tmp)
		os.Exit(2)
	}
	sum.CaseFiles = nil
	sum.Notes = append(sum.Notes, fmt.Sprintf("wall %.1fs", time.Since(t0).Seconds()))
	sum.Write(*out)
	fmt.Printf("%s: %d scenarios, %d failures, %.1fs\n", *prop, sum.Evaluations, sum.NFailures, time.Since(t0).Seconds())
}

func doReplay(path, tmp string) int {
	raw, err := os.ReadFile(path)
	if err != nil {
		fmt.Println("cannot read replay:", err)
		return 2
	}
	// accepted shapes: the replay document itself, {"replay": doc}, or a violation file of the
	// framework ({"replay": {"replay": doc, "observed": ...}})
	var doc replayDoc
	var probe map[string]json.RawMessage
	cur := raw
	for i := 0; i < 3; i++ {
		_ = json.Unmarshal(cur, &doc)
		if doc.Scenario != "" {
			break
		}
		probe = nil
		if json.Unmarshal(cur, &probe) != nil || probe["replay"] == nil {
			break
		}
		cur = probe["replay"]
	}
	if doc.Scenario == "" {
		fmt.Println("replay file names no scenario")
		return 2
	}
	var rs []result
	switch doc.Prop {
	case "C07":
		form, d, pad, ok := parseC07Variant(doc.Variant)
		if !ok {
			fmt.Println("replay file names no slow-consumer case:", doc.Variant)
			return 2
		}
		r, _ := runC07Case(tmp, form, d, pad)
		rs = append(rs, r)
	case "C13":
		reps := 1
		if doc.Scenario == "read-busy" {
			reps = 30 // probabilistic race
		}
		for i := 0; i < reps; i++ {
			r := runC13Scenario(tmp, doc.Scenario, doc.Variant, i)
			rs = append(rs, r)
			if r.FailKey != "" {
				break
			}
		}
	case "C08":
		bin, err := buildDaemon(tmp)
		if err != nil {
			fmt.Println("cannot build the daemon:", err)
			return 2
		}
		reps := 1
		if racyVariant(doc.Scenario, doc.Variant) {
			reps = 12 // where the sshd worker is when its sibling fails is the scheduler's choice
		}
		if isHTTPVariant(doc.Variant) && racyHTTP(doc.Variant) {
			reps = 6 // whether a handler is inside Write at the moment of the stop cause is the scheduler's choice
		}
		for i := 0; i < reps; i++ {
			r := runC08Scenario(bin, filepath.Join(tmp, fmt.Sprintf("replay%d", i)), doc.Scenario, doc.Variant, i)
			if r.HarnessErr != "" && i+1 < reps {
				continue
			}
			rs = append(rs, r)
			if r.FailKey != "" {
				break
			}
		}
	default:
		fmt.Println("replay file names no property")
		return 2
	}
	rc := 0
	for _, r := range rs {
		b, _ := json.Marshal(r)
		fmt.Println(string(b))
		if r.FailKey != "" {
			fmt.Println("REPRODUCED:", r.FailKey, "-", describe(r))
			rc = 1
		} else if r.HarnessErr != "" {
			rc = 2
		}
	}
	if rc == 0 {
		fmt.Println("not reproduced: the scenario meets the property")
	}
	return rc
}
