//go:build verif

package main

import (
	"errors"
	"fmt"
	"os"
	"os/exec"
	"path/filepath"
	"strings"
	"sync"
	"sync/atomic"
	"syscall"
	"time"

	"github.com/metal-toolbox/audito-maldito/internal/verifharness/hutil"
)

const (
	c08Bound    = 5 * time.Second         // the daemon must have exited by then
	c08LoadTime = 1200 * time.Millisecond // how long the audit writer floods the pipe before the injection
	c08Idle     = 300 * time.Millisecond  // idle variant: time given to the daemon to settle before the injection
	c08Parallel = 4
)

func repoDir() string {
	if v := os.Getenv("VERIF_REPO"); v != "" {
		return v
	}
	return "/repo"
}

// buildDaemon builds the real binary from the working tree (no verif tag, no overlay).
func buildDaemon(tmp string) (string, error) {
	bin := filepath.Join(tmp, "audito-maldito")
	cmd := exec.Command("go", "build", "-o", bin, ".")
	cmd.Dir = repoDir()
	cmd.Env = os.Environ()
	out, err := cmd.CombinedOutput()
	if err != nil {
		return "", fmt.Errorf("go build in %s: %v\n%s", cmd.Dir, err, out)
	}
	return bin, nil
}

type c08Case struct{ cause, variant string }

// invalid-login: an accepted-password line whose PID token is 0: the sshd side records it and forwards a login that the
// correlator refuses, so it is the AUDIT processor's main loop that fails (processor-local failure, no pipe involved)
var c08Causes = []string{"sshd-eof", "audit-eof", "audit-unparsable", "write-error", "invalid-login", "sigterm", "sigint"}

func c08Matrix() []c08Case {
	var cs []c08Case
	for _, c := range c08Causes {
		// idle-debug: as idle, with the daemon started at -log-level debug (fail-stop must not depend on the log level)
		cs = append(cs, c08Case{c, "idle"}, c08Case{c, "load"}, c08Case{c, "idle-debug"})
	}
	// mis-configured input paths (start-up failures; the other ingester is left waiting for its FIFO or reading it)
	cs = append(cs,
		c08Case{"sshd-path-regular-file", "idle"}, c08Case{"sshd-path-missing", "idle"},
		c08Case{"audit-path-regular-file", "idle"}, c08Case{"audit-path-missing", "idle"},
		c08Case{"audit-path-regular-file", "load"}) // "load" here: the sshd pipe has a live writer
	// the events sink breaks AFTER the login was recorded: only the audit side's writes fail.
	// single: one failing event; batch: an incomplete compound event holds back three complete ones,
	// its terminator releases all four inside one PushMessage (batch64: 64 held back); stream: 40 failing events in a row
	cs = append(cs, c08Case{"audit-write-error", "single"}, c08Case{"audit-write-error", "batch"}, c08Case{"audit-write-error", "batch64"}, c08Case{"audit-write-error", "stream"})
	// the same under sustained audit load: the writer keeps flooding the audit pipe BEFORE, WHILE and AFTER the sink breaks
	// (the property: "even while the audit stream is saturated"), the session's own records travel inside the flood
	cs = append(cs, c08Case{"audit-write-error", "load"}, c08Case{"audit-write-error", "load-debug"})
	return cs
}

func runC08(sum *hutil.Summary, tmp string, reps int, seed uint64) {
	if _, err := os.ReadFile("/etc/machine-id"); err != nil {
		sum.FailKey("harness", "harness:machine-id", "the daemon needs a readable /etc/machine-id: "+err.Error(), nil)
		return
	}
	bin, err := buildDaemon(tmp)
	if err != nil {
		sum.FailKey("harness", "harness:build", err.Error(), nil)
		return
	}
	type job struct {
		c   c08Case
		rep int
		idx int
	}
	var jobs []job
	for rep := 0; rep < reps; rep++ {
		for _, c := range c08Matrix() {
			jobs = append(jobs, job{c, rep, len(jobs)})
		}
		// the audit side failing while the sshd side hands logins over (c08_handoff.go); racy variants twice per round
		for _, c := range c08HandoffMatrix() {
			jobs = append(jobs, job{c, 2 * rep, len(jobs)})
		}
		// a pipe worker still waiting for its first writer while the FIFO's directory entry changes (c08_openwait.go)
		for _, c := range c08OpenWaitMatrix() {
			jobs = append(jobs, job{c, rep, len(jobs)})
		}
	}
	for rep := 0; rep < reps; rep++ { // (at the end: a variant whose daemon stayed up the first time is not run again)
		for _, c := range c08HandoffMatrix() {
			if racyVariant(c.cause, c.variant) {
				jobs = append(jobs, job{c, 2*rep + 1, len(jobs)})
			}
		}
	}
	// the optional workers switched on (c08_http.go): one scenario at a time (the HTTP port is fixed in the source),
	// alongside the scenarios above; the full product of causes and client states in the first round of a longer run
	var httpCases []c08Case
	for rep := 0; rep < reps; rep++ {
		httpCases = append(httpCases, c08HTTPMatrix(seed, rep, reps >= 3 && rep == 0)...)
	}
	var httpResults []result
	httpDone := make(chan struct{})
	go func() {
		defer close(httpDone)
		httpResults = runC08HTTPJobs(sum, bin, tmp, httpCases, reps)
	}()
	results := make([]result, len(jobs))
	ran := make([]bool, len(jobs))
	var wg sync.WaitGroup
	var mu sync.Mutex
	stillRunning := map[c08Case]bool{} // a daemon that stays up costs the whole bound: once per scenario is enough
	sem := make(chan struct{}, c08Parallel)
	for _, j := range jobs {
		wg.Add(1)
		sem <- struct{}{}
		go func(j job) {
			defer wg.Done()
			defer func() { <-sem }()
			mu.Lock()
			skip := stillRunning[stillKey(j.c)]
			mu.Unlock()
			if skip {
				return
			}
			res := runC08Scenario(bin, filepath.Join(tmp, fmt.Sprintf("c08-%d", j.idx)), j.c.cause, j.c.variant, j.rep)
			if res.HarnessErr != "" && (isHandoffVariant(j.c.variant) || isOpenWaitVariant(j.c.variant)) {
				// the harness' own set-up did not get there (loaded machine): says nothing about the code, once more
				time.Sleep(200 * time.Millisecond)
				res = runC08Scenario(bin, filepath.Join(tmp, fmt.Sprintf("c08-%d-again", j.idx)), j.c.cause, j.c.variant, j.rep)
			}
			mu.Lock()
			results[j.idx], ran[j.idx] = res, true
			if res.FailKey != "" && !res.Returned {
				stillRunning[stillKey(j.c)] = true
			}
			mu.Unlock()
		}(j)
	}
	wg.Wait()
	<-httpDone
	for i, r := range results {
		if ran[i] {
			record(sum, r)
		}
	}
	for _, r := range httpResults {
		record(sum, r)
		fl, st := splitHTTPVariant(r.Variant)
		sum.Dist("optional_workers_flags_" + fl)
		sum.Dist("optional_workers_http_clients_" + st)
		sum.Dist("optional_workers_cause_" + r.Scenario)
	}
}

// stillKey: the class of scenarios that is not run again once a daemon of it stayed up (each costs the whole bound): the
// scenario itself; for the open-wait family the disturbance of the waiting FIFO's directory entry, whatever the stop cause.
func stillKey(c c08Case) c08Case {
	if isOpenWaitVariant(c.variant) {
		parts := strings.Split(c.variant, "/")
		return c08Case{"*", "open-wait/*/" + strings.TrimSuffix(parts[len(parts)-1], "-debug")}
	}
	return c
}

func sshdLine(i int) string {
	return fmt.Sprintf("%d Accepted password for alice from 192.0.2.7 port 50022 ssh2\n", 4000+i)
}

// runC08Scenario starts the daemon, injects one cause, observes exit.
func runC08Scenario(bin, dir, cause, variant string, rep int) (r result) {
	if isHandoffVariant(variant) {
		return runC08Handoff(bin, dir, cause, variant, rep)
	}
	if isHTTPVariant(variant) {
		return runC08HTTP(bin, dir, cause, variant, rep)
	}
	if isOpenWaitVariant(variant) {
		return runC08OpenWait(bin, dir, cause, variant, rep)
	}
	r = result{Prop: "C08", Scenario: cause, Variant: variant, Rep: rep}
	if err := os.MkdirAll(dir, 0o755); err != nil {
		r.HarnessErr = err.Error()
		return
	}
	defer os.RemoveAll(dir)
	sshdPath := filepath.Join(dir, "sshd-pipe")
	auditPath := filepath.Join(dir, "audit-pipe")
	outPath := filepath.Join(dir, "events.log")
	mk := func(p, how string) error {
		switch how {
		case "fifo":
			return syscall.Mkfifo(p, 0o600)
		case "regular":
			return os.WriteFile(p, nil, 0o600)
		}
		return nil // missing
	}
	sshdKind, auditKind := "fifo", "fifo"
	switch cause {
	case "sshd-path-regular-file":
		sshdKind = "regular"
	case "sshd-path-missing":
		sshdKind = "missing"
	case "audit-path-regular-file":
		auditKind = "regular"
	case "audit-path-missing":
		auditKind = "missing"
	case "write-error":
		outPath = "/dev/full" // opens fine, every write fails with ENOSPC
	case "audit-write-error":
		outPath = filepath.Join(dir, "events-pipe") // a FIFO whose reader goes away: EPIPE
	}
	if err := errors.Join(mk(sshdPath, sshdKind), mk(auditPath, auditKind)); err != nil {
		r.HarnessErr = "set-up: " + err.Error()
		return
	}
	var eventsR *os.File
	if cause == "audit-write-error" {
		if err := syscall.Mkfifo(outPath, 0o600); err != nil {
			r.HarnessErr = "set-up: " + err.Error()
			return
		}
		rf, err := os.OpenFile(outPath, os.O_RDONLY|syscall.O_NONBLOCK, 0)
		if err != nil {
			r.HarnessErr = "set-up: " + err.Error()
			return
		}
		eventsR = rf
		defer func() {
			if eventsR != nil {
				eventsR.Close()
			}
		}()
	} else if outPath != "/dev/full" {
		if err := os.WriteFile(outPath, nil, 0o600); err != nil {
			r.HarnessErr = "set-up: " + err.Error()
			return
		}
	}
	stderrPath := filepath.Join(dir, "stderr.log")
	stderrF, err := os.Create(stderrPath)
	if err != nil {
		r.HarnessErr = err.Error()
		return
	}
	defer stderrF.Close()
	dargs := []string{"-sshd-pipe-path", sshdPath, "-auditd-pipe-path", auditPath, "-app-events-output", outPath}
	if strings.HasSuffix(variant, "-debug") {
		dargs = append(dargs, "-log-level", "debug")
	}
	cmd := exec.Command(bin, dargs...)
	cmd.Env = append(os.Environ(), "NODE_NAME=verif-node")
	cmd.Stdout = stderrF
	cmd.Stderr = stderrF
	cmd.Dir = dir
	if err := cmd.Start(); err != nil {
		r.HarnessErr = "start: " + err.Error()
		return
	}
	exited := make(chan error, 1)
	go func() { exited <- cmd.Wait() }()
	var exitErr error
	hasExited := false
	defer func() { // kill leftovers
		if !hasExited {
			_ = cmd.Process.Kill()
			<-exited
		}
	}()
	tail := func() string {
		b, _ := os.ReadFile(stderrPath)
		if len(b) > 400 {
			b = b[len(b)-400:]
		}
		return string(b)
	}

	startup := sshdKind != "fifo" || auditKind != "fifo"
	var sshdW, auditW *os.File
	closeAll := func() {
		if sshdW != nil {
			sshdW.Close()
		}
		if auditW != nil {
			auditW.Close()
		}
	}
	defer closeAll()
	openW := func(p string) (*os.File, error) {
		type res struct {
			f   *os.File
			err error
		}
		ch := make(chan res, 1)
		go func() {
			f, err := os.OpenFile(p, os.O_WRONLY, 0)
			ch <- res{f, err}
		}()
		select {
		case x := <-ch:
			return x.f, x.err
		case err := <-exited:
			exited <- err
			releaseReaderWait(p, ch)
			return nil, fmt.Errorf("daemon exited before opening %s", filepath.Base(p))
		case <-time.After(c08Bound):
			releaseReaderWait(p, ch)
			return nil, fmt.Errorf("daemon did not open %s within %v", filepath.Base(p), c08Bound)
		}
	}

	var flood atomic.Bool
	var lines atomic.Int64
	floodDone := make(chan struct{})
	close(floodDone)
	injected := time.Now()
	loaded := variant == "load" || variant == "load-debug"
	// under load the flood writer is the only writer of the audit pipe (its 60 KiB writes are not atomic, a second
	// writer could land in the middle of a line): records of the scenario are handed to it and written between two chunks
	inject := make(chan string, 4)
	writeAudit := func(recs string) error {
		if !loaded {
			_, err := auditW.WriteString(recs)
			return err
		}
		select {
		case inject <- recs:
			return nil
		case <-floodDone:
			return errors.New("the flood writer has stopped (the daemon closed the audit pipe)")
		case <-time.After(c08Bound):
			return errors.New("the flood writer is blocked: the daemon does not read the audit pipe")
		}
	}

	if startup {
		// the failure is the configuration itself; with "load" the healthy sshd pipe gets a live writer
		if variant == "load" && sshdKind == "fifo" {
			// the daemon may exit before it opens the pipe; that is fine
			if w, err := openW(sshdPath); err == nil {
				sshdW = w
			}
		}
	} else {
		if sshdW, err = openW(sshdPath); err != nil {
			r.HarnessErr = err.Error() + " | " + tail()
			return
		}
		if auditW, err = openW(auditPath); err != nil {
			r.HarnessErr = err.Error() + " | " + tail()
			return
		}
		if loaded {
			flood.Store(true)
			floodDone = make(chan struct{})
			go func(w *os.File) { // valid single-record events of a session that is never correlated
				defer close(floodDone)
				buf := make([]byte, 0, 64*1024)
				seq := 1000
				for flood.Load() {
					select {
					case recs := <-inject:
						if _, err := w.WriteString(recs); err != nil {
							return
						}
					default:
					}
					buf = buf[:0]
					n := 0
					for len(buf) < 60*1024 {
						buf = append(buf, fmt.Sprintf(auditLineFmt, seq, 77)...)
						seq++
						n++
					}
					if _, err := w.Write(buf); err != nil {
						return
					}
					lines.Add(int64(n))
				}
			}(auditW)
			time.Sleep(c08LoadTime)
		} else {
			time.Sleep(c08Idle)
		}
		select {
		case err := <-exited:
			exited <- err
			r.HarnessErr = "daemon exited before the injection: " + tail()
			flood.Store(false)
			closeAll()
			<-floodDone
			return
		default:
		}
		injected = time.Now()
		switch cause {
		case "sshd-eof":
			sshdW.Close()
			sshdW = nil
		case "audit-eof":
			flood.Store(false)
			auditW.Close() // also ends the flood writer
			<-floodDone
			auditW = nil
		case "audit-unparsable":
			// under load the flood writer owns the descriptor; a second descriptor on the same FIFO
			// interleaves whole lines (each write below PIPE_BUF is atomic)
			w2, err := os.OpenFile(auditPath, os.O_WRONLY|syscall.O_NONBLOCK, 0)
			if err != nil {
				r.HarnessErr = "cannot open second writer: " + err.Error()
				break
			}
			bad := []byte("this is not an audit record\n")
			dl := time.Now().Add(c08Bound)
			for {
				_, err := w2.Write(bad)
				if err == nil || time.Now().After(dl) || !errors.Is(err, syscall.EAGAIN) {
					break
				}
				time.Sleep(time.Millisecond)
			}
			w2.Close()
		case "write-error":
			if _, err := sshdW.WriteString(sshdLine(rep)); err != nil {
				r.HarnessErr = "cannot write the sshd line: " + err.Error()
			}
		case "invalid-login":
			if _, err := sshdW.WriteString("0 Accepted password for alice from 192.0.2.7 port 50022 ssh2\n"); err != nil {
				r.HarnessErr = "cannot write the sshd line: " + err.Error()
			}
		case "audit-write-error":
			// 1. a login and its LOGIN record, both recorded while the sink still works
			const pid, ses = 4321, 91
			waitLines := func(n int) bool {
				got := 0
				buf := make([]byte, 64*1024)
				dl := time.Now().Add(c08Bound)
				for got < n && time.Now().Before(dl) {
					_ = eventsR.SetReadDeadline(time.Now().Add(50 * time.Millisecond))
					k, _ := eventsR.Read(buf)
					got += strings.Count(string(buf[:k]), "\n")
					if k == 0 {
						time.Sleep(5 * time.Millisecond)
					}
				}
				return got >= n
			}
			if _, err := fmt.Fprintf(sshdW, "%d Accepted password for alice from 192.0.2.7 port 50022 ssh2\n", pid); err != nil {
				r.HarnessErr = "cannot write the sshd line: " + err.Error()
				break
			}
			if !waitLines(1) {
				r.HarnessErr = "the UserLogin event did not arrive on the events pipe | " + tail()
				break
			}
			if err := writeAudit(fmt.Sprintf("type=LOGIN msg=audit(1690000000.000:1): pid=%d uid=0 old-auid=4294967295 auid=1000 tty=(none) old-ses=4294967295 ses=%d res=1\n", pid, ses)); err != nil {
				r.HarnessErr = "cannot write the LOGIN record: " + err.Error()
				break
			}
			if !waitLines(1) {
				r.HarnessErr = "the UserAction of the LOGIN record did not arrive on the events pipe | " + tail()
				break
			}
			// 2. the sink breaks
			eventsR.Close()
			eventsR = nil
			injected = time.Now()
			// 3. further activity of the session: every write of it fails now
			var recs string
			switch variant {
			case "single", "load", "load-debug":
				recs = fmt.Sprintf(auditLineFmt, 10, ses)
			case "batch", "batch64":
				held := 3
				if variant == "batch64" {
					held = 64
				}
				recs = fmt.Sprintf("type=SYSCALL msg=audit(1690000000.000:10): arch=c000003e syscall=59 success=yes exit=0 a0=1 a1=2 a2=3 a3=8 items=0 ppid=1 pid=5000 auid=1000 uid=1000 gid=1000 euid=1000 suid=1000 fsuid=1000 egid=1000 sgid=1000 fsgid=1000 tty=pts3 ses=%d comm=\"ls\" exe=\"/usr/bin/ls\" key=\"k\"\n", ses)
				for i := 0; i < held; i++ {
					recs += fmt.Sprintf(auditLineFmt, 11+i, ses)
				}
				recs += "type=EOE msg=audit(1690000000.000:10): \n"
			default: // stream
				for i := 0; i < 40; i++ {
					recs += fmt.Sprintf(auditLineFmt, 10+i, ses)
				}
			}
			if err := writeAudit(recs); err != nil {
				r.HarnessErr = "cannot write the audit records: " + err.Error()
			}
		case "sigterm":
			_ = cmd.Process.Signal(syscall.SIGTERM)
		case "sigint":
			_ = cmd.Process.Signal(syscall.SIGINT)
		default:
			r.HarnessErr = "unknown cause " + cause
		}
	}

	select {
	case exitErr = <-exited:
		hasExited = true
		r.Returned = true
		r.Millis = time.Since(injected).Milliseconds()
	case <-time.After(c08Bound):
		r.Returned = false
		r.Millis = time.Since(injected).Milliseconds()
	}
	flood.Store(false)
	closeAll()
	sshdW, auditW = nil, nil
	if !r.Returned {
		_ = cmd.Process.Kill()
		exitErr = <-exited
		hasExited = true
	}
	<-floodDone
	r.Before = int(lines.Load())
	r.Detail = fmt.Sprintf("audit lines written before exit/kill: %d", lines.Load())
	if r.HarnessErr != "" {
		return
	}
	isSignal := cause == "sigterm" || cause == "sigint"
	if !r.Returned {
		r.Ret = "killed by the harness"
		r.FailKey = "failstop:" + cause + ":" + variant + ":still-running"
		r.Detail += " | " + tail()
		return
	}
	status := 0
	var ee *exec.ExitError
	if errors.As(exitErr, &ee) {
		status = ee.ExitCode()
		if ws, ok := ee.Sys().(syscall.WaitStatus); ok && ws.Signaled() {
			r.Ret = "killed by signal " + ws.Signal().String()
			status = 128 + int(ws.Signal())
		}
	} else if exitErr != nil {
		r.HarnessErr = "wait: " + exitErr.Error()
		return
	}
	if r.Ret == "" {
		r.Ret = fmt.Sprintf("exit status %d", status)
	}
	if status == 0 && !isSignal {
		r.FailKey = "failstop:" + cause + ":" + variant + ":exit-zero"
		r.Detail += " | " + tail()
	}
	if loaded && !startup && lines.Load() < 20000 {
		r.Detail += " | NOTE: fewer than 20000 lines were written, the 10000-slot buffer may not have been full"
	}
	return
}

// releaseReaderWait unblocks our own open(O_WRONLY) on a FIFO nobody reads.
func releaseReaderWait[T any](p string, ch <-chan T) {
	if rf, err := os.OpenFile(p, os.O_RDONLY|syscall.O_NONBLOCK, 0); err == nil {
		<-ch
		rf.Close()
	}
}
