//go:build verif

package main

import (
	"context"
	"fmt"
	"io"
	"os"
	"path/filepath"
	"strconv"
	"strings"
	"sync"
	"sync/atomic"
	"syscall"
	"time"

	"github.com/metal-toolbox/auditevent"
	"go.uber.org/zap"

	"github.com/metal-toolbox/audito-maldito/ingesters/auditlog"
	"github.com/metal-toolbox/audito-maldito/ingesters/namedpipe"
	"github.com/metal-toolbox/audito-maldito/internal/common"
	"github.com/metal-toolbox/audito-maldito/internal/health"
	"github.com/metal-toolbox/audito-maldito/internal/metrics"
	"github.com/metal-toolbox/audito-maldito/internal/verifharness/hutil"
	"github.com/metal-toolbox/audito-maldito/processors/auditd"
	"github.com/metal-toolbox/audito-maldito/processors/sshd"
)

const (
	c13Bound   = 2 * time.Second        // a cancelled worker must have returned by then
	c13Settle  = 30 * time.Millisecond  // lets a goroutine travel from an observed point to the blocking call behind it
	c13After   = 200 * time.Millisecond // window in which deliveries after the return are counted
	c13Setup   = 5 * time.Second        // bound for the harness' own set-up steps
	busyEvents = 9000
)

var (
	pprovOnce sync.Once
	pprov     *metrics.PrometheusMetricsProvider
)

func setupLoggers() {
	l := zap.NewNop().Sugar()
	auditd.SetLogger(l)
	sshd.SetLogger(l)
}

func metricsProvider() *metrics.PrometheusMetricsProvider {
	pprovOnce.Do(func() { pprov = metrics.NewPrometheusMetricsProvider() })
	return pprov
}

// countingEncoder counts Encode calls (events written) and signals the first one.
type countingEncoder struct {
	n     atomic.Int64
	first chan struct{}
	once  sync.Once
}

func newCountingEncoder() *countingEncoder { return &countingEncoder{first: make(chan struct{})} }

func (e *countingEncoder) Encode(any) error {
	e.n.Add(1)
	e.once.Do(func() { close(e.first) })
	return nil
}

func mkfifo(dir, name string) (string, error) {
	p := filepath.Join(dir, name)
	_ = os.Remove(p)
	return p, syscall.Mkfifo(p, 0o600)
}

// openWriter opens the write end of a FIFO (blocks until the reader has opened it).
func openWriter(path string) (*os.File, error) {
	type res struct {
		f   *os.File
		err error
	}
	ch := make(chan res, 1)
	go func() {
		f, err := os.OpenFile(path, os.O_WRONLY, 0)
		ch <- res{f, err}
	}()
	select {
	case r := <-ch:
		return r.f, r.err
	case <-time.After(c13Setup):
		// release our own blocked open: become the reader for a moment
		if rf, err := os.OpenFile(path, os.O_RDONLY|syscall.O_NONBLOCK, 0); err == nil {
			r := <-ch
			if r.f != nil {
				r.f.Close()
			}
			rf.Close()
		}
		return nil, fmt.Errorf("the worker did not open %s for reading within %v", path, c13Setup)
	}
}

// releaseOpener lets a goroutine that is still blocked in open(O_RDONLY) on the FIFO go.
func releaseOpener(path string) {
	if f, err := os.OpenFile(path, os.O_WRONLY|syscall.O_NONBLOCK, 0); err == nil {
		f.Close()
	}
}

// cancelAndWait cancels, waits for the worker up to the bound and fills the timing fields.
func cancelAndWait(r *result, cancel context.CancelFunc, done <-chan error) (returned bool) {
	t := time.Now()
	cancel()
	select {
	case err := <-done:
		r.Returned = true
		r.Millis = time.Since(t).Milliseconds()
		r.Ret = fmt.Sprint(err)
		return true
	case <-time.After(c13Bound):
		r.Returned = false
		r.Millis = time.Since(t).Milliseconds()
		r.FailKey = "cancel:" + r.Scenario + ":did-not-return"
		return false
	}
}

func after(r *result, n int) {
	r.After = n
	if n > 0 && r.FailKey == "" {
		r.FailKey = "cancel:" + r.Scenario + ":delivered-after-return"
	}
}

var c13Scenarios = []struct{ name, variant string }{
	{"open-wait", "no-writer"},
	{"open-wait", "no-writer-debug"},
	{"open-wait", "pipe-replaced"}, // the FIFO is renamed away and a new one created at its path before the cancellation
	{"idle-read", "writer-silent"},
	{"idle-read", "writer-silent-debug"},
	{"logins-handoff", "unbuffered-unread"}, // = same-ctx/password
	{"logins-handoff", "same-ctx/publickey"},
	{"logins-handoff", "same-ctx/publickey-padded"},
	{"logins-handoff", "same-ctx/certificate"},
	{"logins-handoff", "same-ctx/publickey/fifo"},
	// the processor is built once on a long-lived context (as a daemon builds its collaborators); the worker runs on a
	// context of its own, derived from it, and only that one is cancelled (a sibling failed, the process lives on)
	{"logins-handoff", "child-ctx/password"},
	{"logins-handoff", "child-ctx/publickey"},
	{"logins-handoff", "child-ctx/publickey-padded"},
	{"logins-handoff", "child-ctx/certificate"},
	{"logins-handoff", "child-ctx/certificate/debug"},
	{"logins-handoff", "child-ctx/password/fifo"},
	{"logins-handoff", "child-ctx/certificate/fifo"},
	{"logins-handoff", "child-ctx/password/cancelled-before-call"},
	{"logins-handoff", "child-ctx/certificate/cancelled-before-call"},
	{"backpressure", "cap0"},
	{"backpressure", "cap1"},
	{"backpressure", "cap16"},
	{"flowing", "cap16-consumed"},
	{"read-idle", "no-input"},
	{"read-busy", "prefilled"},
	// c13_partial.go: cancellation while an unterminated partial record sits in the read buffer, every downstream state
	{"partial-record", "audit/cap0"},
	{"partial-record", "audit/cap1"},
	{"partial-record", "audit/cap3"},
	{"partial-record", "audit/cap16"},
	{"partial-record", "audit/cap3-debug"},
	{"partial-record", "audit/cap1-empty"},
	{"partial-record", "audit/cap16-empty"},
	{"partial-record", "sshd/password"},
	{"partial-record", "sshd/publickey"},
	{"partial-record", "sshd/publickey-padded"},
	{"partial-record", "sshd/certificate"},
	{"partial-record", "sshd/password/child-ctx"},
	{"partial-record", "sshd/certificate/child-ctx"},
	{"partial-record", "sshd/password/cut"},
	{"partial-record", "sshd/certificate/cut"},
}

func runC13(sum *hutil.Summary, tmp string, busyReps int, seed uint64) {
	_ = seed // the scenarios are a fixed matrix; nothing is drawn at random
	for _, sc := range c13Scenarios {
		reps := 2
		if sc.name == "read-busy" {
			reps = busyReps
		}
		for i := 0; i < reps; i++ {
			r := runC13ScenarioRetry(tmp, sc.name, sc.variant, i)
			record(sum, r)
			if r.FailKey != "" && !r.Returned {
				break // a worker that stays blocked costs the whole bound; once per state is enough
			}
		}
	}
	// the assembled binary: a sibling worker fails while the sshd worker hands logins over (racy: repeated)
	reps := siblingReps(busyReps)
	for _, v := range siblingVariants {
		for i := 0; i < reps; i++ {
			r := runC13ScenarioRetry(tmp, "sibling-failure", v, i)
			record(sum, r)
			if r.FailKey != "" || r.HarnessErr != "" {
				break // a daemon that stays up costs the whole bound; once is enough
			}
		}
	}
}

// runC13ScenarioRetry: a scenario whose own set-up did not get there (a state not reached within the harness'
// bounds on a loaded machine) says nothing about the code; it is tried once more before it is recorded.
func runC13ScenarioRetry(tmp, name, variant string, rep int) result {
	t := time.Now()
	r := runC13Scenario(tmp, name, variant, rep)
	if r.HarnessErr != "" {
		c13Notes = append(c13Notes, fmt.Sprintf("%s/%s rep %d: set-up problem (%s), tried again", name, variant, rep, r.HarnessErr))
		time.Sleep(200 * time.Millisecond)
		r = runC13Scenario(tmp, name, variant, rep)
	}
	if d := time.Since(t); d > 3*time.Second {
		c13Notes = append(c13Notes, fmt.Sprintf("%s/%s rep %d took %.1fs", name, variant, rep, d.Seconds()))
	}
	return r
}

// c13Notes: what a reader of the summary should know about this run's timing (slow scenarios, retried set-ups).
var c13Notes []string

func runC13Scenario(tmp, name, variant string, rep int) result {
	r := result{Prop: "C13", Scenario: name, Variant: variant, Rep: rep}
	dir, err := os.MkdirTemp(tmp, "c13-")
	if err != nil {
		r.HarnessErr = err.Error()
		return r
	}
	defer os.RemoveAll(dir)
	switch name {
	case "open-wait":
		scOpenWait(&r, dir, variant)
	case "idle-read":
		scIdleRead(&r, dir, variant)
	case "logins-handoff":
		scLoginsHandoff(&r, dir, variant)
	case "sibling-failure":
		scSiblingFailure(&r, tmp, dir, variant)
	case "backpressure":
		c, err := strconv.Atoi(variant[len("cap"):])
		if err != nil {
			r.HarnessErr = "bad variant " + variant
			return r
		}
		scBackpressure(&r, dir, c, false)
	case "flowing":
		scBackpressure(&r, dir, 16, true)
	case "partial-record":
		scPartialRecord(&r, dir, variant)
	case "read-idle":
		scReadIdle(&r)
	case "read-busy":
		scReadBusy(&r)
	default:
		r.HarnessErr = "unknown scenario " + name
	}
	return r
}

// (a) Ingest waiting for a writer to open the FIFO.
func scOpenWait(r *result, dir, variant string) {
	path, err := mkfifo(dir, "pipe")
	if err != nil {
		r.HarnessErr = "mkfifo: " + err.Error()
		return
	}
	var calls atomic.Int64
	ing := namedpipe.NewNamedPipeIngester(hutil.Logger(strings.HasSuffix(variant, "-debug")), health.NewHealth())
	ctx, cancel := context.WithCancel(context.Background())
	defer cancel()
	done := make(chan error, 1)
	go func() {
		done <- ing.Ingest(ctx, path, '\n', func(context.Context, string) error { calls.Add(1); return nil })
	}()
	time.Sleep(c13Settle) // nothing observable marks "blocked in open"; either side of it is a state of the property
	blockedOn := path
	if variant == "pipe-replaced" {
		// the producer re-created its pipe: the opener stays blocked on the old inode, the path names a new FIFO
		blockedOn = path + ".old"
		if err := os.Rename(path, blockedOn); err != nil {
			r.HarnessErr = "rename: " + err.Error()
		} else if err := syscall.Mkfifo(path, 0o600); err != nil {
			r.HarnessErr = "mkfifo: " + err.Error()
		}
	}
	if cancelAndWait(r, cancel, done) {
		r.Before = int(calls.Load())
		time.Sleep(c13After)
		after(r, int(calls.Load())-r.Before)
	}
	releaseOpener(blockedOn)
	if !r.Returned {
		releaseOpener(path)
		select {
		case <-done:
		case <-time.After(2 * time.Second):
		}
	}
}

// (b) Ingest blocked reading an idle FIFO.
func scIdleRead(r *result, dir, variant string) {
	path, err := mkfifo(dir, "pipe")
	if err != nil {
		r.HarnessErr = "mkfifo: " + err.Error()
		return
	}
	var calls atomic.Int64
	ing := namedpipe.NewNamedPipeIngester(hutil.Logger(strings.HasSuffix(variant, "-debug")), health.NewHealth())
	ctx, cancel := context.WithCancel(context.Background())
	defer cancel()
	done := make(chan error, 1)
	go func() {
		done <- ing.Ingest(ctx, path, '\n', func(context.Context, string) error { calls.Add(1); return nil })
	}()
	w, err := openWriter(path) // returns once Ingest's open has met ours
	if err != nil {
		r.HarnessErr = err.Error()
		cancel()
		releaseOpener(path)
		return
	}
	defer w.Close()
	time.Sleep(c13Settle)
	if cancelAndWait(r, cancel, done) {
		r.Before = int(calls.Load())
		time.Sleep(c13After)
		after(r, int(calls.Load())-r.Before)
	} else {
		w.Close() // EOF releases the reader
		<-done
	}
}

// (c) the sshd side blocked handing a login to a correlator that is not ready: see c13_handoff.go

const auditLineFmt = "type=USER_CMD msg=audit(1690000000.000:%d): pid=5000 uid=1000 auid=1000 ses=%d msg='cwd=\"/home/someuser\" cmd=6C73 exe=\"/usr/bin/sudo\" terminal=pts/3 res=success'\n"

// (d) real Ingest + real AuditLogIngester.Process, downstream buffer of capacity c FULL and no consumer
// (consume=false), or drained by a consumer (consume=true); the writer keeps writing.
func scBackpressure(r *result, dir string, c int, consume bool) {
	path, err := mkfifo(dir, "pipe")
	if err != nil {
		r.HarnessErr = "mkfifo: " + err.Error()
		return
	}
	ch := make(chan string, c)
	np := namedpipe.NewNamedPipeIngester(zap.NewNop().Sugar(), health.NewHealth())
	alp := auditlog.NewAuditLogIngester(path, ch, np)
	ctx, cancel := context.WithCancel(context.Background())
	defer cancel()
	done := make(chan error, 1)
	go func() { done <- alp.Ingest(ctx) }()
	w, err := openWriter(path)
	if err != nil {
		r.HarnessErr = err.Error()
		cancel()
		releaseOpener(path)
		return
	}
	var written atomic.Int64
	wdone := make(chan struct{})
	go func() { // keeps writing until the pipe is closed under it
		defer close(wdone)
		for i := 1; ; i++ {
			if _, err := fmt.Fprintf(w, auditLineFmt, i, 77); err != nil {
				return
			}
			written.Add(1)
		}
	}()
	var received atomic.Int64
	stopConsumer := make(chan struct{})
	consumerDone := make(chan struct{})
	if consume {
		go func() {
			defer close(consumerDone)
			for {
				select {
				case <-ch:
					received.Add(1)
				case <-stopConsumer:
					return
				}
			}
		}()
	} else {
		close(consumerDone)
	}
	// wait for the state: buffer full (no consumer) / lines flowing (consumer)
	deadline := time.Now().Add(c13Setup)
	for {
		if consume && received.Load() >= 1000 {
			break
		}
		if !consume && len(ch) == c && written.Load() > int64(c)+1 {
			break
		}
		if time.Now().After(deadline) {
			r.HarnessErr = fmt.Sprintf("state not reached: len=%d cap=%d written=%d received=%d", len(ch), c, written.Load(), received.Load())
			cancel()
			w.Close()
			for len(ch) > 0 {
				<-ch
			}
			return
		}
		time.Sleep(time.Millisecond)
	}
	time.Sleep(c13Settle) // from "buffer full" to "blocked in the next send"
	ok := cancelAndWait(r, cancel, done)
	if consume {
		close(stopConsumer)
		<-consumerDone
	}
	sent := func() int { return int(received.Load()) + len(ch) }
	r.Before = sent()
	r.Detail = fmt.Sprintf("lines written to the pipe %d, handed downstream %d", written.Load(), r.Before)
	if ok {
		time.Sleep(c13After)
		after(r, sent()-r.Before)
	}
	w.Close()
	<-wdone
	if !ok {
		// release the stuck sender: drain until Ingest has returned
		for {
			select {
			case <-ch:
			case <-done:
				return
			}
		}
	}
}

func newAuditd(lines chan string, logins chan common.RemoteUserLogin, enc auditevent.EventEncoder) (*auditd.Auditd, *health.Health) {
	h := health.NewSingleReadinessHealth(auditd.AuditdProcessorComponentName)
	return &auditd.Auditd{Audits: lines, Logins: logins, EventW: auditevent.NewAuditEventWriter(enc), Health: h}, h
}

// waitReady waits for Read's OnReady call (made just before it enters its select loop).
func waitReady(h *health.Health) error {
	deadline := time.Now().Add(c13Setup)
	for !h.IsReady() {
		if time.Now().After(deadline) {
			return fmt.Errorf("not ready after %v", c13Setup)
		}
		time.Sleep(time.Millisecond)
	}
	return nil
}

// (e) Auditd.Read with nothing to do.
func scReadIdle(r *result) {
	enc := newCountingEncoder()
	a, h := newAuditd(make(chan string), make(chan common.RemoteUserLogin), enc)
	ctx, cancel := context.WithCancel(context.Background())
	defer cancel()
	done := make(chan error, 1)
	go func() { done <- a.Read(ctx) }()
	if err := waitReady(h); err != nil {
		r.HarnessErr = "Read did not become ready: " + err.Error()
		return
	}
	time.Sleep(c13Settle)
	if cancelAndWait(r, cancel, done) {
		r.Before = int(enc.n.Load())
		time.Sleep(c13After)
		after(r, int(enc.n.Load())-r.Before)
	}
}

// (f) Auditd.Read busy: the line channel is pre-filled with the LOGIN record of a session and thousands of
// single-record events of it; the matching remote login is handed over; cancellation arrives while events flow.
func scReadBusy(r *result) {
	const ses, pid = 7, 5000
	pre := make([]string, 0, busyEvents+1)
	pre = append(pre, fmt.Sprintf("type=LOGIN msg=audit(1690000000.000:1): pid=%d uid=0 old-auid=4294967295 auid=1000 tty=(none) old-ses=4294967295 ses=%d res=1", pid, ses))
	for i := 0; i < busyEvents; i++ {
		l := fmt.Sprintf(auditLineFmt, i+2, ses)
		pre = append(pre, l[:len(l)-1])
	}
	lines := make(chan string, len(pre))
	logins := make(chan common.RemoteUserLogin)
	enc := newCountingEncoder()
	a, h := newAuditd(lines, logins, enc)
	ctx, cancel := context.WithCancel(context.Background())
	defer cancel()
	done := make(chan error, 1)
	go func() { done <- a.Read(ctx) }()
	if err := waitReady(h); err != nil {
		r.HarnessErr = "Read did not become ready: " + err.Error()
		return
	}
	src := auditevent.NewAuditEvent(common.ActionLoginIdentifier,
		auditevent.EventSource{Type: "IP", Value: "192.0.2.7", Extra: map[string]any{"port": "50022"}},
		auditevent.OutcomeSucceeded, map[string]string{"loggedAs": "alice", "userID": "alice-cert", "pid": strconv.Itoa(pid)}, "sshd").
		WithTarget(map[string]string{"host": "node", "machine-id": "mid"})
	select {
	case logins <- common.RemoteUserLogin{Source: src, PID: pid, CredUserID: "alice-cert"}:
	case err := <-done:
		r.HarnessErr = fmt.Sprintf("Read returned early: %v", err)
		return
	case <-time.After(c13Setup):
		r.HarnessErr = "the remote login was not taken"
		return
	}
	time.Sleep(c13Settle)   // the correlator parks the login
	for _, l := range pre { // fills the buffered line channel at once (never blocks: capacity = number of lines)
		lines <- l
	}
	select {
	case <-enc.first: // events of the session are being written
	case err := <-done:
		r.HarnessErr = fmt.Sprintf("Read returned early: %v", err)
		return
	case <-time.After(c13Setup):
		r.HarnessErr = fmt.Sprintf("no event was written (pending lines %d)", len(lines))
		return
	}
	if len(lines) == 0 {
		r.HarnessErr = "all lines were consumed before the cancellation: not busy"
		return
	}
	if cancelAndWait(r, cancel, done) {
		r.Before = int(enc.n.Load())
		pending := len(lines)
		time.Sleep(c13After)
		after(r, int(enc.n.Load())-r.Before)
		r.Detail = fmt.Sprintf("lines pending at return %d, after the window %d", pending, len(lines))
	}
}

var _ = io.EOF
