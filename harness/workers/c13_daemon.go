//go:build verif

package main

// C13 on the assembled binary: the workers' context is the errgroup's, and it is cancelled by a SIBLING's
// failure while the process-level context (signals) stays live.  The sshd worker is kept in and around the
// login hand-off: a writer floods the sshd pipe with accepted-login lines (password, public key, public key with
// trailing text, certificate: one per hand-off select), each of which ends in a rendez-vous with the audit
// processor.  Then the audit side fails (an unparsable record / its pipe reaches end-of-stream): the audit
// processor returns, nobody receives logins any more, the group context is cancelled.  Whatever the sshd worker
// was doing at that instant - reading, parsing, writing the event, entering or waiting in the hand-off - it has
// to return, so the process has to exit within the bound.  The instant is not controlled (racy): repeated.

import (
	"errors"
	"fmt"
	"os"
	"os/exec"
	"path/filepath"
	"sync"
	"sync/atomic"
	"syscall"
	"time"
)

var siblingVariants = []string{"audit-unparsable/sshd-handoff-flood", "audit-eof/sshd-handoff-flood"}

// siblingReps: repetitions per variant, from the harness' -n (30 quick, 100 thorough, 60 search).
func siblingReps(n int) int {
	switch {
	case n >= 100:
		return 20
	case n >= 60:
		return 12
	}
	return 5
}

var (
	daemonOnce sync.Once
	daemonBin  string
	daemonErr  error
)

func daemonBinary(tmp string) (string, error) {
	daemonOnce.Do(func() { daemonBin, daemonErr = buildDaemon(tmp) })
	return daemonBin, daemonErr
}

func handoffFloodLine(i int) string {
	pid := 10000 + i
	switch i % 4 {
	case 0:
		return fmt.Sprintf("%d Accepted password for alice from 192.0.2.7 port 50022 ssh2\n", pid)
	case 1:
		return fmt.Sprintf("%d Accepted publickey for alice from 192.0.2.7 port 50023 ssh2: ED25519 SHA256:3Uc8Xq9mN1bT0yJkLw5ZrVfHs2dGaPoEiCtBnMxKvQ4\n", pid)
	case 2:
		return fmt.Sprintf("%d Accepted publickey for alice from 192.0.2.7 port 50024 ssh2: ED25519 SHA256:3Uc8Xq9mN1bT0yJkLw5ZrVfHs2dGaPoEiCtBnMxKvQ4 trailing text\n", pid)
	}
	return fmt.Sprintf("%d Accepted publickey for alice from 192.0.2.7 port 50025 ssh2: RSA-CERT SHA256:3Uc8Xq9mN1bT0yJkLw5ZrVfHs2dGaPoEiCtBnMxKvQ4 ID alice@example.com (serial 77) CA RSA SHA256:Zq1Yx2Wv3Ut4Sr5Qp6On7Ml8Kj9Ih0GfEdCbA\n", pid)
}

func scSiblingFailure(r *result, tmp, dir, variant string) {
	if _, err := os.ReadFile("/etc/machine-id"); err != nil {
		r.HarnessErr = "the daemon needs a readable /etc/machine-id: " + err.Error()
		return
	}
	bin, err := daemonBinary(tmp)
	if err != nil {
		r.HarnessErr = "cannot build the daemon: " + err.Error()
		return
	}
	sshdPath, err := mkfifo(dir, "sshd-pipe")
	if err != nil {
		r.HarnessErr = "mkfifo: " + err.Error()
		return
	}
	auditPath, err := mkfifo(dir, "audit-pipe")
	if err != nil {
		r.HarnessErr = "mkfifo: " + err.Error()
		return
	}
	outPath := filepath.Join(dir, "events.log")
	if err := os.WriteFile(outPath, nil, 0o600); err != nil {
		r.HarnessErr = err.Error()
		return
	}
	stderrPath := filepath.Join(dir, "stderr.log")
	stderrF, err := os.Create(stderrPath)
	if err != nil {
		r.HarnessErr = err.Error()
		return
	}
	defer stderrF.Close()
	tail := func() string {
		b, _ := os.ReadFile(stderrPath)
		if len(b) > 400 {
			b = b[len(b)-400:]
		}
		return string(b)
	}
	cmd := exec.Command(bin, "-sshd-pipe-path", sshdPath, "-auditd-pipe-path", auditPath, "-app-events-output", outPath)
	cmd.Env = append(os.Environ(), "NODE_NAME=verif-node")
	cmd.Stdout, cmd.Stderr, cmd.Dir = stderrF, stderrF, dir
	if err := cmd.Start(); err != nil {
		r.HarnessErr = "start: " + err.Error()
		return
	}
	exited := make(chan error, 1)
	go func() { exited <- cmd.Wait() }()
	hasExited := false
	var sshdW, auditW *os.File
	var flood atomic.Bool
	floodDone := make(chan struct{})
	close(floodDone)
	defer func() {
		flood.Store(false)
		if !hasExited {
			_ = cmd.Process.Kill()
			<-exited
		}
		if sshdW != nil {
			sshdW.Close()
		}
		if auditW != nil {
			auditW.Close()
		}
		<-floodDone
	}()
	// openWriter blocks until the daemon has opened the pipe; a daemon that died meanwhile is noticed below
	if sshdW, err = openWriter(sshdPath); err != nil {
		r.HarnessErr = err.Error() + " | " + tail()
		releaseOpener(auditPath)
		return
	}
	if auditW, err = openWriter(auditPath); err != nil {
		r.HarnessErr = err.Error() + " | " + tail()
		return
	}
	var lines atomic.Int64
	flood.Store(true)
	floodDone = make(chan struct{})
	go func(w *os.File) {
		defer close(floodDone)
		i := 0
		for flood.Load() {
			var buf []byte
			for k := 0; k < 8; k++ {
				buf = append(buf, handoffFloodLine(i)...)
				i++
			}
			if _, err := w.Write(buf); err != nil {
				return
			}
			lines.Add(8)
		}
	}(sshdW)
	// the logins must be flowing (events are being written) before the sibling fails
	deadline := time.Now().Add(c13Setup)
	for {
		if st, err := os.Stat(outPath); err == nil && st.Size() > 0 && lines.Load() >= 64 {
			break
		}
		select {
		case err := <-exited:
			hasExited = true
			r.HarnessErr = fmt.Sprintf("daemon exited before the injection (%v): %s", err, tail())
			return
		default:
		}
		if time.Now().After(deadline) {
			r.HarnessErr = fmt.Sprintf("no login event was written within %v (lines written %d) | %s", c13Setup, lines.Load(), tail())
			return
		}
		time.Sleep(time.Millisecond)
	}
	time.Sleep(time.Duration(20+10*(r.Rep%5)) * time.Millisecond)
	injected := time.Now()
	switch variant {
	case "audit-unparsable/sshd-handoff-flood":
		if _, err := auditW.WriteString("this is not an audit record\n"); err != nil {
			r.HarnessErr = "cannot write the audit line: " + err.Error()
			return
		}
	case "audit-eof/sshd-handoff-flood":
		auditW.Close()
		auditW = nil
	default:
		r.HarnessErr = "bad variant " + variant
		return
	}
	var exitErr error
	select {
	case exitErr = <-exited:
		hasExited = true
		r.Returned = true
		r.Millis = time.Since(injected).Milliseconds()
	case <-time.After(c08Bound):
		r.Millis = time.Since(injected).Milliseconds()
	}
	r.Before = int(lines.Load())
	r.Detail = fmt.Sprintf("sshd lines written before exit/kill: %d", lines.Load())
	if !r.Returned {
		r.Ret = "killed by the harness"
		r.FailKey = "cancel:sibling-failure:" + variant + ":still-running"
		r.Detail += " | " + tail()
		return
	}
	var ee *exec.ExitError
	switch {
	case errors.As(exitErr, &ee):
		r.Ret = fmt.Sprintf("exit status %d", ee.ExitCode())
		if ws, ok := ee.Sys().(syscall.WaitStatus); ok && ws.Signaled() {
			r.Ret = "killed by signal " + ws.Signal().String()
		}
	case exitErr == nil:
		r.Ret = "exit status 0" // the status is C08's business; C13 asks for the return
	default:
		r.HarnessErr = "wait: " + exitErr.Error()
	}
}
