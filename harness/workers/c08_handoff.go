//go:build verif

package main

// C08 on the assembled binary, the audit side failing WHILE the sshd side hands logins over.
//
// Every audit-side failure cause - a login the correlator rejects (PID token 0), an unparsable audit line, the audit
// pipe reaching end-of-stream, the events sink breaking while the audit pipeline writes - is injected while accepted
// logins (password, public key, public key with trailing text, certificate: one per hand-off select of the sshd
// processor) are arriving on the sshd pipe, so that an sshd worker is in the hand-off, or enters it from lines
// already in its read buffer, when its sibling has failed and nobody receives logins any more.  The daemon has to
// exit, non-zero, within the bound.
//
//	sshd-logins-burst   ONE write of accepted-login lines on the sshd pipe (it fits the pipe: the write returns at
//	                    once), the fault right behind it - for invalid-login the rejected line sits in the middle of
//	                    that very write.  No waiting between the two: the daemon needs some milliseconds for the burst
//	                    and a fraction of that to notice the fault.
//	sshd-logins-flood   a writer keeps the sshd pipe full of accepted logins; once events flow the fault is injected
//	                    (after 20-60 ms, varied by repetition).  Where the sshd worker is at that instant is not
//	                    controlled: racy, repeated.
//	...-debug           the same with the daemon at -log-level debug.

import (
	"errors"
	"fmt"
	"os"
	"os/exec"
	"path/filepath"
	"strings"
	"sync/atomic"
	"syscall"
	"time"
)

const c08BurstLines = 360 // about 50 KiB: below the pipe's capacity, so one write takes them all

func c08HandoffMatrix() []c08Case {
	return []c08Case{
		{"invalid-login", "sshd-logins-burst"}, {"invalid-login", "sshd-logins-burst-debug"}, {"invalid-login", "sshd-logins-flood"},
		{"audit-unparsable", "sshd-logins-burst"}, {"audit-unparsable", "sshd-logins-flood"}, {"audit-unparsable", "sshd-logins-flood-debug"},
		{"audit-eof", "sshd-logins-burst"}, {"audit-eof", "sshd-logins-flood"},
		{"audit-write-error", "sshd-logins-burst"}, {"audit-write-error", "sshd-logins-flood"},
	}
}

func isHandoffVariant(variant string) bool { return strings.HasPrefix(variant, "sshd-logins-") }

// racyVariant: where the sshd worker is when the sibling fails depends on the scheduler
func racyVariant(cause, variant string) bool {
	return isHandoffVariant(variant) && (strings.Contains(variant, "flood") || cause == "audit-write-error")
}

const invalidLoginLine = "0 Accepted password for alice from 192.0.2.7 port 50022 ssh2\n"

func runC08Handoff(bin, dir, cause, variant string, rep int) (r result) {
	r = result{Prop: "C08", Scenario: cause, Variant: variant, Rep: rep}
	if err := os.MkdirAll(dir, 0o755); err != nil {
		r.HarnessErr = err.Error()
		return
	}
	defer os.RemoveAll(dir)
	flooding := strings.Contains(variant, "flood")
	sshdPath, err := mkfifo(dir, "sshd-pipe")
	if err != nil {
		r.HarnessErr = "mkfifo: " + err.Error()
		return
	}
	auditPath, err := mkfifo(dir, "audit-pipe")
	if err != nil {
		r.HarnessErr = "mkfifo: " + err.Error()
		return
	}
	outPath := filepath.Join(dir, "events.log")
	var eventsR *os.File
	var drained atomic.Int64
	stopDrain := make(chan struct{})
	drainDone := make(chan struct{})
	close(drainDone)
	if cause == "audit-write-error" {
		// the sink is a FIFO read by the harness until it "breaks" (the reader goes away: EPIPE for every writer)
		if outPath, err = mkfifo(dir, "events-pipe"); err != nil {
			r.HarnessErr = "mkfifo: " + err.Error()
			return
		}
		if eventsR, err = os.OpenFile(outPath, os.O_RDONLY|syscall.O_NONBLOCK, 0); err != nil {
			r.HarnessErr = "set-up: " + err.Error()
			return
		}
		drainDone = make(chan struct{})
		go func() {
			defer close(drainDone)
			buf := make([]byte, 64*1024)
			for {
				select {
				case <-stopDrain:
					return
				default:
				}
				_ = eventsR.SetReadDeadline(time.Now().Add(20 * time.Millisecond))
				k, _ := eventsR.Read(buf)
				drained.Add(int64(k))
				if k == 0 {
					time.Sleep(time.Millisecond)
				}
			}
		}()
	} else if err := os.WriteFile(outPath, nil, 0o600); err != nil {
		r.HarnessErr = err.Error()
		return
	}
	breakSink := func() {
		select {
		case <-stopDrain:
		default:
			close(stopDrain)
		}
		<-drainDone
		if eventsR != nil {
			eventsR.Close()
			eventsR = nil
		}
	}
	defer breakSink()
	written := func() int64 { // bytes the daemon has written to its sink
		if cause == "audit-write-error" {
			return drained.Load()
		}
		if st, err := os.Stat(outPath); err == nil {
			return st.Size()
		}
		return 0
	}

	stderrPath := filepath.Join(dir, "stderr.log")
	stderrF, err := os.Create(stderrPath)
	if err != nil {
		r.HarnessErr = err.Error()
		return
	}
	defer stderrF.Close()
	tail := func() string {
		b, _ := os.ReadFile(stderrPath)
		if len(b) > 400 {
			b = b[len(b)-400:]
		}
		return string(b)
	}
	dargs := []string{"-sshd-pipe-path", sshdPath, "-auditd-pipe-path", auditPath, "-app-events-output", outPath}
	if strings.HasSuffix(variant, "-debug") {
		dargs = append(dargs, "-log-level", "debug")
	}
	cmd := exec.Command(bin, dargs...)
	cmd.Env = append(os.Environ(), "NODE_NAME=verif-node")
	cmd.Stdout, cmd.Stderr, cmd.Dir = stderrF, stderrF, dir
	if err := cmd.Start(); err != nil {
		r.HarnessErr = "start: " + err.Error()
		return
	}
	exited := make(chan error, 1)
	go func() { exited <- cmd.Wait() }()
	hasExited := false
	var sshdW, auditW *os.File
	var flood, stream atomic.Bool
	floodDone, streamDone := make(chan struct{}), make(chan struct{})
	close(floodDone)
	close(streamDone)
	defer func() {
		flood.Store(false)
		stream.Store(false)
		if !hasExited {
			_ = cmd.Process.Kill()
			<-exited
		}
		if sshdW != nil {
			sshdW.Close()
		}
		if auditW != nil {
			auditW.Close()
		}
		<-floodDone
		<-streamDone
	}()
	if sshdW, err = openWriter(sshdPath); err != nil {
		r.HarnessErr = err.Error() + " | " + tail()
		releaseOpener(auditPath)
		return
	}
	if auditW, err = openWriter(auditPath); err != nil {
		r.HarnessErr = err.Error() + " | " + tail()
		return
	}
	var exitErr error
	pollExit := func() bool {
		if hasExited {
			return true
		}
		select {
		case exitErr = <-exited:
			hasExited = true
			return true
		default:
			return false
		}
	}
	waitFor := func(what string, cond func() bool) bool {
		deadline := time.Now().Add(c13Setup)
		for !cond() {
			if pollExit() {
				r.HarnessErr = fmt.Sprintf("daemon exited while the harness waited for %s (%v): %s", what, exitErr, tail())
				return false
			}
			if time.Now().After(deadline) {
				r.HarnessErr = fmt.Sprintf("%s did not happen within %v | %s", what, c13Setup, tail())
				return false
			}
			time.Sleep(time.Millisecond)
		}
		return true
	}

	var lines atomic.Int64
	if cause == "audit-write-error" {
		// a correlated session whose events the audit pipeline keeps writing
		const pid, ses = 4321, 91
		if _, err := fmt.Fprintf(sshdW, "%d Accepted password for alice from 192.0.2.7 port 50022 ssh2\n", pid); err != nil {
			r.HarnessErr = "cannot write the sshd line: " + err.Error()
			return
		}
		if !waitFor("the UserLogin event", func() bool { return written() > 0 }) {
			return
		}
		before := written()
		if _, err := fmt.Fprintf(auditW, "type=LOGIN msg=audit(1690000000.000:1): pid=%d uid=0 old-auid=4294967295 auid=1000 tty=(none) old-ses=4294967295 ses=%d res=1\n", pid, ses); err != nil {
			r.HarnessErr = "cannot write the LOGIN record: " + err.Error()
			return
		}
		if !waitFor("the UserAction of the LOGIN record", func() bool { return written() > before }) {
			return
		}
		stream.Store(true)
		streamDone = make(chan struct{})
		go func(w *os.File) {
			defer close(streamDone)
			for seq := 10; stream.Load(); {
				var buf []byte
				for k := 0; k < 8; k++ {
					buf = append(buf, fmt.Sprintf(auditLineFmt, seq, ses)...)
					seq++
				}
				if _, err := w.Write(buf); err != nil {
					return
				}
			}
		}(auditW)
	}

	burst := func(from, n int) []byte {
		var b []byte
		for i := from; i < from+n; i++ {
			b = append(b, handoffFloodLine(i)...)
		}
		return b
	}
	if flooding {
		flood.Store(true)
		floodDone = make(chan struct{})
		go func(w *os.File) {
			defer close(floodDone)
			for i := 0; flood.Load(); i += 8 {
				b := burst(i, 8)
				if cause == "invalid-login" && i == 8*64 {
					b = append(b, invalidLoginLine...) // the rejected login inside the flood: the fault needs no second writer
				}
				if _, err := w.Write(b); err != nil {
					return
				}
				lines.Add(8)
			}
		}(sshdW)
		if cause != "invalid-login" {
			base := written()
			if !waitFor("login events flowing", func() bool { return written() > base && lines.Load() >= 64 }) {
				return
			}
			time.Sleep(time.Duration(20+10*(rep%5)) * time.Millisecond) // where the workers are at the fault: varied, not relied on
		}
	} else {
		// one write: it returns at once (the pipe takes it), the daemon will be busy with it for some milliseconds
		b := burst(0, c08BurstLines/2)
		if cause == "invalid-login" {
			b = append(b, invalidLoginLine...)
		}
		b = append(b, burst(c08BurstLines/2, c08BurstLines/2)...)
		if _, err := sshdW.Write(b); err != nil {
			r.HarnessErr = "cannot write the login burst: " + err.Error() + " | " + tail()
			return
		}
		lines.Add(c08BurstLines)
		if cause == "audit-write-error" {
			// the sink must still work when the burst starts: wait for its first events (no fixed time)
			base := written()
			if !waitFor("the first events of the burst", func() bool { return written() > base+2000 }) {
				return
			}
		}
	}
	if cause != "invalid-login" && pollExit() {
		r.HarnessErr = fmt.Sprintf("daemon exited before the injection (%v): %s", exitErr, tail())
		return
	}
	injected := time.Now()
	switch cause {
	case "invalid-login":
		// already on its way, inside the sshd writes
	case "audit-unparsable":
		if _, err := auditW.WriteString("this is not an audit record\n"); err != nil {
			r.HarnessErr = "cannot write the audit line: " + err.Error()
			return
		}
	case "audit-eof":
		auditW.Close()
		auditW = nil
	case "audit-write-error":
		breakSink()
	default:
		r.HarnessErr = "unknown cause " + cause
		return
	}
	if !pollExit() {
		select {
		case exitErr = <-exited:
			hasExited = true
		case <-time.After(c08Bound):
		}
	}
	r.Returned = hasExited
	r.Millis = time.Since(injected).Milliseconds()
	r.Before = int(lines.Load())
	r.Detail = fmt.Sprintf("accepted-login lines written to the sshd pipe before exit/kill: %d", lines.Load())
	if !r.Returned {
		r.Ret = "killed by the harness"
		r.FailKey = "failstop:" + cause + ":" + variant + ":still-running"
		r.Detail += " | " + tail()
		return
	}
	status := 0
	var ee *exec.ExitError
	if errors.As(exitErr, &ee) {
		status = ee.ExitCode()
		if ws, ok := ee.Sys().(syscall.WaitStatus); ok && ws.Signaled() {
			r.Ret = "killed by signal " + ws.Signal().String()
			status = 128 + int(ws.Signal())
		}
	} else if exitErr != nil {
		r.HarnessErr = "wait: " + exitErr.Error()
		return
	}
	if r.Ret == "" {
		r.Ret = fmt.Sprintf("exit status %d", status)
	}
	if status == 0 {
		r.FailKey = "failstop:" + cause + ":" + variant + ":exit-zero"
		r.Detail += " | " + tail()
	}
	return
}
