//go:build verif

package main

import (
	"encoding/json"
	"fmt"
	"github.com/metal-toolbox/audito-maldito/internal/verifharness/hutil"
	"reflect"
	"sort"
	"time"

	"github.com/elastic/go-libaudit/v2"
	"github.com/elastic/go-libaudit/v2/aucoalesce"
	"github.com/elastic/go-libaudit/v2/auparse"
	"github.com/metal-toolbox/auditevent"
	"go.uber.org/zap"

	"github.com/metal-toolbox/audito-maldito/internal/common"
	"github.com/metal-toolbox/audito-maldito/processors/auditd"
	"github.com/metal-toolbox/audito-maldito/processors/auditd/sessiontracker"
)

// ---------- recording encoder ----------

type recorded struct {
	raw []byte
	ptr *auditevent.AuditEvent
}

type recEnc struct{ evs []recorded }

func (e *recEnc) Encode(v any) error {
	raw, err := json.Marshal(v)
	if err != nil {
		return err
	}
	p, _ := v.(*auditevent.AuditEvent)
	e.evs = append(e.evs, recorded{raw: raw, ptr: p})
	return nil
}

// ---------- what the harness reads from a written event ----------

type Obj struct {
	Type      string `json:"type"`
	Primary   string `json:"primary"`
	Secondary string `json:"secondary"`
}

// Obs is a written UserAction decoded from its JSON.
type Obs struct {
	Type      string
	Component string
	LoggedAt  time.Time
	AuditID   string
	Outcome   string
	ExtraKeys []string // keys of metadata.extra, sorted
	Action    string
	How       string
	Object    Obj
	HasArgs   bool
	Args      []string
	Ident     Ident
	Raw       string
	Problem   string // JSON the harness cannot read into the observable form
}

func decodeObs(raw []byte) Obs {
	o := Obs{Raw: string(raw)}
	var j struct {
		Type      string    `json:"type"`
		Component string    `json:"component"`
		LoggedAt  time.Time `json:"loggedAt"`
		Outcome   string    `json:"outcome"`
		Metadata  struct {
			AuditID string                     `json:"auditId"`
			Extra   map[string]json.RawMessage `json:"extra"`
		} `json:"metadata"`
		Source struct {
			Type  string         `json:"type"`
			Value string         `json:"value"`
			Extra map[string]any `json:"extra"`
		} `json:"source"`
		Subjects map[string]string `json:"subjects"`
		Target   map[string]string `json:"target"`
	}
	if err := json.Unmarshal(raw, &j); err != nil {
		o.Problem = "not the JSON of an audit event: " + err.Error()
		return o
	}
	o.Type, o.Component, o.LoggedAt, o.Outcome, o.AuditID = j.Type, j.Component, j.LoggedAt, j.Outcome, j.Metadata.AuditID
	for k, v := range j.Metadata.Extra {
		o.ExtraKeys = append(o.ExtraKeys, k)
		var err error
		switch k {
		case "action":
			err = json.Unmarshal(v, &o.Action)
		case "how":
			err = json.Unmarshal(v, &o.How)
		case "object":
			err = json.Unmarshal(v, &o.Object)
		case "process_args":
			o.HasArgs = true
			err = json.Unmarshal(v, &o.Args)
		}
		if err != nil {
			o.Problem = fmt.Sprintf("metadata.extra[%q] has an unexpected shape: %v", k, err)
		}
	}
	sort.Strings(o.ExtraKeys)
	o.Ident = Ident{Subjects: j.Subjects, SrcType: j.Source.Type, SrcValue: j.Source.Value, Target: j.Target}
	if len(j.Source.Extra) > 0 {
		o.Ident.SrcExtra = map[string]string{}
		for k, v := range j.Source.Extra {
			s, ok := v.(string)
			if !ok {
				o.Problem = fmt.Sprintf("source.extra[%q] is not a string", k)
			}
			o.Ident.SrcExtra[k] = s
		}
	}
	return o
}

// ---------- reference: the library's coalesced events for the same lines ----------

// Ref holds the fields of aucoalesce.Event that are the model's input.
type Ref struct {
	Seq     uint32
	Type    string
	Time    time.Time
	Session string
	Result  string
	Action  string
	How     string
	Object  Obj
	Args    []string
}

type refStream struct{ groups [][]*auparse.AuditMessage }

func (s *refStream) ReassemblyComplete(msgs []*auparse.AuditMessage) {
	s.groups = append(s.groups, msgs)
}
func (s *refStream) EventsLost(int) {}

// refEvents pushes the lines through a reassembler of its own (separately parsed messages:
// coalescing consumes the parsed data) and coalesces what it delivers, with the same
// library calls as the daemon's callback.
func refEvents(sc Scenario) ([]Ref, error) {
	st := &refStream{}
	ra, err := libaudit.NewReassembler(1000, 2*time.Second, st)
	if err != nil {
		return nil, err
	}
	for _, g := range sc.Groups {
		for _, ln := range g.Lines {
			m, err := auparse.ParseLogLine(ln)
			if err != nil {
				return nil, fmt.Errorf("generated line does not parse: %v: %q", err, ln)
			}
			ra.PushMessage(m)
		}
	}
	ra.Close()
	var out []Ref
	for _, msgs := range st.groups {
		ev, err := aucoalesce.CoalesceMessages(msgs)
		if err != nil {
			return nil, fmt.Errorf("group does not coalesce: %v", err)
		}
		aucoalesce.ResolveIDs(ev)
		out = append(out, Ref{Seq: ev.Sequence, Type: ev.Type.String(), Time: ev.Timestamp, Session: ev.Session, Result: ev.Result,
			Action: ev.Summary.Action, How: ev.Summary.How,
			Object: Obj{Type: ev.Summary.Object.Type, Primary: ev.Summary.Object.Primary, Secondary: ev.Summary.Object.Secondary},
			Args:   append([]string(nil), ev.Process.Args...)})
	}
	return out, nil
}

// ---------- the real path ----------

type RunResult struct {
	Obs        []Obs
	PerGroup   []int    // number of events written while group i was pushed
	AtLogin    int      // number of events written by the RemoteLogin call
	Errors     []string // errors the callback reported / RemoteLogin returned
	LoginDiffs []string // the stored login differs from what was delivered
	Aliased    map[string]bool
	Harness    string
}

func toAny(m map[string]string) map[string]any {
	if m == nil {
		return nil
	}
	o := map[string]any{}
	for k, v := range m {
		o[k] = v
	}
	return o
}

func cloneMap(m map[string]string) map[string]string {
	if m == nil {
		return nil
	}
	o := map[string]string{}
	for k, v := range m {
		o[k] = v
	}
	return o
}

func snapshot(v any) string {
	raw, err := json.Marshal(v)
	if err != nil {
		return "unmarshalable: " + err.Error()
	}
	return string(raw)
}

func init() { auditd.SetLogger(zap.NewNop().Sugar()) }

// runReal drives the daemon's own pipeline: ParseLogLine -> Reassembler -> the daemon's
// reassembler callback -> the correlator -> event writer (recording encoder).
func runReal(sc Scenario) RunResult {
	var res RunResult
	enc := &recEnc{}
	auditd.SetLogger(hutil.Logger(sc.Debug))
	var trLog *zap.SugaredLogger
	if sc.Debug {
		trLog = hutil.Logger(true)
	}
	tr := sessiontracker.NewSessionTracker(auditevent.NewAuditEventWriter(enc), trLog)
	errs := make(chan error, 64)
	ra, err := libaudit.NewReassembler(1000, 2*time.Second, auditd.VerifNewStream(tr, errs, time.Time{}))
	if err != nil {
		res.Harness = err.Error()
		return res
	}
	src := auditevent.NewAuditEvent(common.ActionLoginIdentifier,
		auditevent.EventSource{Type: sc.Ident.SrcType, Value: sc.Ident.SrcValue, Extra: toAny(sc.Ident.SrcExtra)},
		auditevent.OutcomeSucceeded, cloneMap(sc.Ident.Subjects), "sshd").WithTarget(cloneMap(sc.Ident.Target))
	if sc.LoginSec == 0 {
		sc.LoginSec = 1600000000
	}
	src.LoggedAt = time.Unix(sc.LoginSec, 0).UTC()
	src.Metadata.AuditID = "login-" + sc.Cred
	rul := common.RemoteUserLogin{Source: src, PID: sc.PID, CredUserID: sc.Cred}
	before := snapshot(src) // deep copy of what is delivered
	delivered := false

	drain := func() {
		for {
			select {
			case e := <-errs:
				res.Errors = append(res.Errors, e.Error())
			default:
				return
			}
		}
	}
	// the login as the correlator stores it must stay what was delivered
	checkStored := func(where string) {
		if !delivered || len(res.LoginDiffs) > 0 { // the first difference of a case is reported
			return
		}
		if s := snapshot(src); s != before {
			res.LoginDiffs = append(res.LoginDiffs, fmt.Sprintf("%s: the delivered login event changed: %s -> %s", where, before, s))
		}
		ss, pk := sessiontracker.VerifDump(tr)
		check := func(l common.RemoteUserLogin, what string) {
			if l.Source == nil {
				res.LoginDiffs = append(res.LoginDiffs, fmt.Sprintf("%s: %s lost its source event", where, what))
				return
			}
			if s := snapshot(l.Source); s != before || l.PID != sc.PID || l.CredUserID != sc.Cred {
				res.LoginDiffs = append(res.LoginDiffs, fmt.Sprintf("%s: %s changed: %s -> %s (pid %d, cred %q)", where, what, before, s, l.PID, l.CredUserID))
			}
		}
		if u, ok := ss[sc.Ses]; ok && u.HasRUL {
			check(u.Login, "the login stored for the session")
		}
		if l, ok := pk[sc.PID]; ok {
			check(l, "the parked login")
		}
	}
	login := func() {
		n := len(enc.evs)
		if e := tr.RemoteLogin(rul); e != nil {
			res.Errors = append(res.Errors, "RemoteLogin: "+e.Error())
		}
		delivered = true
		res.AtLogin = len(enc.evs) - n
		checkStored("after RemoteLogin")
	}

	for i, g := range sc.Groups {
		if i == sc.LoginAfter {
			login()
		}
		n := len(enc.evs)
		for _, ln := range g.Lines {
			m, err := auparse.ParseLogLine(ln)
			if err != nil {
				res.Harness = fmt.Sprintf("generated line does not parse: %v: %q", err, ln)
				return res
			}
			ra.PushMessage(m)
		}
		drain()
		res.PerGroup = append(res.PerGroup, len(enc.evs)-n)
		checkStored(fmt.Sprintf("after group %d", i))
	}
	n := len(enc.evs)
	ra.Close()
	drain()
	if len(enc.evs) != n {
		res.Harness = "the reassembler still held events at the end of the scenario"
	}
	if sc.LoginAfter >= len(sc.Groups) {
		login()
	}
	checkStored("at the end")

	res.Aliased = map[string]bool{}
	for _, r := range enc.evs {
		res.Obs = append(res.Obs, decodeObs(r.raw))
		if r.ptr != nil {
			same := func(a, b any) bool {
				va, vb := reflect.ValueOf(a), reflect.ValueOf(b)
				return va.Len() > 0 && vb.Len() > 0 && va.Pointer() == vb.Pointer()
			}
			if same(r.ptr.Subjects, src.Subjects) {
				res.Aliased["subjects"] = true
			}
			if same(r.ptr.Target, src.Target) {
				res.Aliased["target"] = true
			}
			if same(r.ptr.Source.Extra, src.Source.Extra) {
				res.Aliased["source.extra"] = true
			}
		}
	}
	return res
}
