//go:build verif

// Harness for C14 (UserAction events faithfully render the audit event).
// For each case it generates one session as audit-log text (a LOGIN record, record groups
// of the session: compound SYSCALL/EXECVE/CWD/PATH/PROCTITLE/EOE groups and single
// USER_*/CRED_*/LOGIN records, success and failure in all spellings, with and without
// arguments, plus records of no / unset / foreign sessions) and a login with generated
// identity content, and pushes the lines through the daemon's own pipeline:
// auparse.ParseLogLine -> libaudit.Reassembler -> the daemon's reassemblerCB
// (CoalesceMessages, After filter, ResolveIDs) -> the real correlator -> event writer.
// The written UserAction events are intercepted by a recording encoder and decoded from
// their JSON.  Independently the same lines go through a second reassembler and the same
// library calls to obtain the aucoalesce.Event of every group; its fields are the input
// of the Coq model (Model/ToEvent.v), whose output must equal the written event (case
// files, Model/ToEventCheck.v), and the oracle (oracle.go) checks the property's clauses
// from the generated text.  The stored login is deep-copied before and compared after
// every group (at least 20 events in every fifth case).
package main

import (
	"encoding/json"
	"flag"
	"fmt"
	"os"
	"sort"
	"strings"

	"github.com/metal-toolbox/audito-maldito/internal/verifharness/hutil"
)

// ---------- Coq rendering (compact format of Model/ToEventCheck.v) ----------

type table struct {
	idx  map[string]int
	strs []string
}

func (t *table) at(s string) int {
	if i, ok := t.idx[s]; ok {
		return i
	}
	t.idx[s] = len(t.strs)
	t.strs = append(t.strs, s)
	return len(t.strs) - 1
}

func coqLit(s string) string {
	plain := true
	for i := 0; i < len(s); i++ {
		if s[i] < 0x20 || s[i] > 0x7e || s[i] == '"' {
			plain = false
		}
	}
	if plain {
		return `s "` + s + `"`
	}
	return fmt.Sprintf(`h "%x"`, s)
}

func (t *table) pairs(m map[string]string) string {
	keys := make([]string, 0, len(m))
	for k := range m {
		keys = append(keys, k)
	}
	sort.Strings(keys) // the order encoding/json writes a map in
	ps := make([]string, len(keys))
	for i, k := range keys {
		ps[i] = fmt.Sprintf("(%d,%d)", t.at(k), t.at(m[k]))
	}
	return "[" + strings.Join(ps, ";") + "]"
}

func (t *table) ident(id Ident) string {
	return fmt.Sprintf("(I t %s %d %d %s %s)", t.pairs(id.Subjects), t.at(id.SrcType), t.at(id.SrcValue), t.pairs(id.SrcExtra), t.pairs(id.Target))
}

func (t *table) list(xs []string) string {
	is := make([]string, len(xs))
	for i, x := range xs {
		is[i] = fmt.Sprint(t.at(x))
	}
	return "[" + strings.Join(is, ";") + "]"
}

func coqCase(sc Scenario, al []aligned) string {
	t := &table{idx: map[string]int{}}
	id := t.ident(sc.Ident)
	var evs []string
	for _, a := range al {
		r, o := a.ref, a.obs
		e := fmt.Sprintf("E t %d%%Z %d %d %d %d %d %d %d %s", r.Time.UnixNano(), t.at(r.Session), t.at(r.Result), t.at(r.Action), t.at(r.How),
			t.at(r.Object.Type), t.at(r.Object.Primary), t.at(r.Object.Secondary), t.list(r.Args))
		args := "None"
		if o.HasArgs {
			args = "(Some " + t.list(o.Args) + ")"
		}
		ob := fmt.Sprintf("O t %d %d %d%%Z %d %d %d %d %d %d %d %s %s", t.at(o.Type), t.at(o.Component), o.LoggedAt.UnixNano(), t.at(o.AuditID), t.at(o.Outcome),
			t.at(o.Action), t.at(o.How), t.at(o.Object.Type), t.at(o.Object.Primary), t.at(o.Object.Secondary), args, t.ident(o.Ident))
		evs = append(evs, "("+e+",\n   "+ob+")")
	}
	lits := make([]string, len(t.strs))
	for i, s := range t.strs {
		lits[i] = coqLit(s)
	}
	return "(let t := [" + strings.Join(lits, "; ") + "] in\n RCase " + id + " [\n  " + strings.Join(evs, ";\n  ") + "])"
}

// ---------- one scenario ----------

type caseResult struct {
	findings []finding
	aligned  []aligned
	rr       RunResult
	skipped  map[string]int
}

func evaluate(sc Scenario) caseResult {
	refs, err := refEvents(sc)
	if err != nil {
		return caseResult{findings: []finding{{"", err.Error()}}}
	}
	rr := runReal(sc)
	fs, al := judge(sc, refs, rr)
	_, sk := expectedEmission(sc)
	return caseResult{fs, al, rr, sk}
}

const rule = "one session per case on the daemon's real pipeline (ParseLogLine, Reassembler, reassemblerCB, correlator, event writer): LOGIN record, 2-9 record groups " +
	"(every fifth case 22-31) drawn from compound SYSCALL groups (execve with/without EXECVE, openat, open, unlink, chmod, connect, kill, write, exit_group, unknown; " +
	"success=yes/no or no result; PROCTITLE and/or EOE terminated), one group in five NOT led by its SYSCALL record (AVC SELinux/AppArmor, APPARMOR_*, SELINUX_ERR, SECCOMP, ANOM_ABEND/PROMISCUOUS/LINK/CREAT, " +
	"NETFILTER_CFG, CONFIG_CHANGE, MAC_*, KERN_MODULE, INTEGRITY_*, BPF, FANOTIFY, FEATURE_CHANGE ... one or two of them before SYSCALL [EXECVE] [CWD] PATH* PROCTITLE, the kernel's order) or with auxiliary records after it (MMAP, CAPSET, BPRM_FCAPS, OBJ_PID, FD_PAIR ...): " +
	"the expected summary is what aucoalesce makes of the same records in their original order, coalesced independently of the callback under test; and single USER_CMD/USER_START/USER_END/CRED_ACQ/CRED_REFR/USER_AUTH/USER_ACCT/USER_LOGIN/USER_LOGOUT/USER_ERR/" +
	"USER_CHAUTHTOK/USER_ROLE_CHANGE/LOGIN records (res=success/failed/1/0 or none), 1 in 9 with no / unset / foreign session, CRED_DISP in 5 of 6 cases, stray records after it; " +
	"arguments from a pool with spaces, quotes, UTF-8, control bytes (hex-encoded as the kernel does); login identity with generated subjects/source/target, delivered before, " +
	"right after or long after the LOGIN record; every written event is compared with the model (case files) and judged by the oracle; the stored login is deep-copied and compared after every group; " +
	"non-trivial = the case wrote events with and without process_args and of both outcomes; distinct by record text"

func main() {
	out := flag.String("out", "", "output directory")
	n := flag.Int("n", 150, "number of cases (sessions)")
	replay := flag.String("replay", "", "replay file")
	flag.BoolVar(&enrichedLogin, "enriched-login", false, "also append the ENRICHED-format suffix to LOGIN records (known to be misread by go-libaudit)")
	flag.Parse()
	if *replay != "" {
		os.Exit(doReplay(*replay))
	}
	seed := hutil.SeedFromEnv()
	r := hutil.NewRand(seed ^ 0xC14C14)
	sum := hutil.NewSummary("C14", seed, rule)
	cases := &hutil.CaseFile{Dir: *out, Stem: "cases_render", PerFile: 25,
		Header: "From Coq Require Import String List ZArith.\nImport ListNotations.\nFrom AM Require Import Lib.Bytes Model.ToEvent Model.ToEventCheck.\nOpen Scope string_scope.\nDefinition s := s2l.\nDefinition h := hx.\n",
		Footer: func(int) string {
			return "Definition M := Eval vm_compute in mismatches cases.\nPrint M.\nDefinition B := Eval vm_compute in bad_events cases.\nPrint B.\nDefinition N := Eval vm_compute in n_events cases.\nPrint N.\n"
		}}
	events := 0
	for i := 0; i < *n; i++ {
		long := i%5 == 4
		sc := genScenario(r, long)
		cr := evaluate(sc)
		for _, f := range cr.findings {
			if f.key == "" {
				sum.Fail("harness", f.what, map[string]any{"scenario": sc})
			} else {
				sum.FailKey("oracle", f.key, f.what, map[string]any{"scenario": sc})
			}
		}
		if cr.aligned != nil {
			ok := true
			for _, a := range cr.aligned {
				if a.obs.Problem != "" {
					ok = false
				}
			}
			if ok {
				cases.AddDesc(coqCase(sc, cr.aligned), sc)
			}
		}
		// statistics
		withArgs, withoutArgs, succ, fail := 0, 0, 0, 0
		for _, a := range cr.aligned {
			g := sc.Groups[a.gi]
			events++
			sum.Dist("type_" + g.Type)
			if g.Res == "" {
				sum.Dist("result_none")
			} else {
				sum.Dist("result_" + g.Res)
			}
			sum.Dist("outcome_" + a.obs.Outcome)
			if a.obs.Outcome == "succeeded" {
				succ++
			} else {
				fail++
			}
			if a.obs.HasArgs {
				withArgs++
				hexed := false
				for _, x := range a.obs.Args {
					if untrusted(x)[0] != '"' {
						hexed = true
					}
				}
				if hexed {
					sum.Dist("args_present_some_hex_encoded")
				} else {
					sum.Dist("args_present_all_quoted")
				}
			} else {
				withoutArgs++
				if g.Execve && hasEmpty(g.Args) {
					sum.Dist("args_absent_library_dropped_list_with_empty_argument")
				} else if g.Execve {
					sum.Dist("args_absent_execve_argc0")
				} else {
					sum.Dist("args_absent_no_execve")
				}
			}
			if strings.HasPrefix(g.Kind, "syscall-") {
				sum.Dist("kind_" + g.Kind)
			}
		}
		for k, v := range cr.skipped {
			sum.Distribution["not_rendered_"+k] += v
		}
		switch {
		case sc.LoginAfter == 0:
			sum.Dist("login_before_record")
		case sc.LoginAfter == 1:
			sum.Dist("login_right_after_record")
		default:
			sum.Dist("login_late_flush")
		}
		if len(cr.aligned) >= 20 {
			sum.Dist("cases_with_20_or_more_events_of_one_login")
		}
		for k := range cr.rr.Aliased {
			sum.Dist("case_emitted_event_shares_map_with_login:" + k)
		}
		var key strings.Builder
		for _, g := range sc.Groups {
			key.WriteString(strings.Join(g.Lines, "\n"))
		}
		sum.Count(key.String(), withArgs > 0 && withoutArgs > 0 && succ > 0 && fail > 0)
		if i < 3 && len(cr.aligned) > 0 {
			a := cr.aligned[len(cr.aligned)/2]
			sum.Sample(map[string]any{"lines": sc.Groups[a.gi].Lines, "written": json.RawMessage(a.obs.Raw), "events_in_case": len(cr.aligned)})
		}
	}
	sum.Distribution["events_total"] = events
	cases.Flush()
	sum.CaseFiles = cases.Files
	sum.Notes = append(sum.Notes, "aucoalesce (go-libaudit) is the oracle for action/how/object and for the argument list; timestamp, session, result and identity expectations come from the generated text; "+
		"'case_emitted_event_shares_map_with_login:*' counts cases in which the written event and the stored login share a Go map (informational: only writes through it would violate the property)")
	sum.Write(*out)
	fmt.Printf("cases %d events %d failures %d\n", sum.Evaluations, events, sum.NFailures)
}

func doReplay(path string) int {
	raw, err := os.ReadFile(path)
	if err != nil {
		fmt.Println("cannot read replay:", err)
		return 2
	}
	var rp struct {
		Replay struct {
			Scenario *Scenario `json:"scenario"`
		} `json:"replay"`
		Scenario *Scenario `json:"scenario"`
	}
	if err := json.Unmarshal(raw, &rp); err != nil {
		fmt.Println("bad replay:", err)
		return 2
	}
	sc := rp.Replay.Scenario
	if sc == nil {
		sc = rp.Scenario
	}
	if sc == nil {
		fmt.Println("replay file carries no scenario (no failing input was found)")
		return 2
	}
	cr := evaluate(*sc)
	bad := 0
	for _, f := range cr.findings {
		if f.key == "" {
			fmt.Println("harness error:", f.what)
			return 2
		}
		fmt.Printf("REPRODUCED %s: %s\n", f.key, f.what)
		bad++
	}
	if bad > 0 {
		return 1
	}
	fmt.Println("not reproduced")
	return 0
}
