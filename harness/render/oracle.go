//go:build verif

package main

import (
	"fmt"
	"reflect"
	"sort"
	"time"
)

// The C14 oracle.  Everything it expects is computed from the generated scenario (the
// text of the records the generator wrote and the login it delivered) and, for the
// summary (action / how / object) and the argument list, from the library's own
// coalesced event for the same lines; the Coq model is not involved.

type finding struct {
	key  string // "" = harness-level problem
	what string
}

// aligned is one written event with the group it renders and the library's event.
type aligned struct {
	gi  int
	obs Obs
	ref Ref
}

func expectedSession(g Group) string {
	switch g.Ses {
	case "4294967295", "-1":
		return "unset"
	}
	return g.Ses
}

func eqMap(a, b map[string]string) bool {
	if len(a) == 0 && len(b) == 0 {
		return true // JSON omits empty maps
	}
	return reflect.DeepEqual(a, b)
}

func eqIdent(a, b Ident) bool {
	return eqMap(a.Subjects, b.Subjects) && a.SrcType == b.SrcType && a.SrcValue == b.SrcValue &&
		eqMap(a.SrcExtra, b.SrcExtra) && eqMap(a.Target, b.Target)
}

func hasEmpty(a []string) bool {
	for _, x := range a {
		if x == "" {
			return true
		}
	}
	return false
}

func eqStrs(a, b []string) bool {
	if len(a) != len(b) {
		return false
	}
	for i := range a {
		if a[i] != b[i] {
			return false
		}
	}
	return true
}

// expectedEmission lists, in writing order, the groups that must be rendered: the records
// of the session from its LOGIN record up to the credential-disposal record (everything
// held when the login arrives is written by the flush, the disposal record ends the
// session once it is written). This is C02's business; here it only aligns written events
// with groups.
func expectedEmission(sc Scenario) (order []int, skipped map[string]int) {
	skipped = map[string]int{}
	var held []int
	bound, tracked, ended := false, false, false
	deliver := func() {
		bound = true
		if tracked {
			order = append(order, held...)
			for _, gi := range held {
				if sc.Groups[gi].Type == "CRED_DISP" {
					ended, tracked = true, false
				}
			}
			held = nil
		}
	}
	for i, g := range sc.Groups {
		if i == sc.LoginAfter {
			deliver()
		}
		switch s := expectedSession(g); {
		case s == "":
			skipped["ses_none"]++
		case s == "unset":
			skipped["ses_unset"]++
		case s != sc.Ses:
			skipped["foreign"]++
		case ended:
			skipped["after_end"]++
		default:
			tracked = true
			if bound {
				order = append(order, i)
				if g.Type == "CRED_DISP" {
					ended, tracked = true, false
				}
			} else {
				held = append(held, i)
			}
		}
	}
	if sc.LoginAfter >= len(sc.Groups) {
		deliver()
	}
	return order, skipped
}

func judge(sc Scenario, refs []Ref, rr RunResult) ([]finding, []aligned) {
	var fs []finding
	add := func(key, format string, a ...any) { fs = append(fs, finding{key, fmt.Sprintf(format, a...)}) }
	if rr.Harness != "" {
		add("", "%s", rr.Harness)
		return fs, nil
	}
	// the generator's groups must be the reassembler's groups
	if len(refs) != len(sc.Groups) {
		add("", "the reassembler delivered %d events for %d generated groups", len(refs), len(sc.Groups))
		return fs, nil
	}
	for i, g := range sc.Groups {
		r := refs[i]
		if r.Seq != g.Seq || r.Type != g.Type {
			add("", "group %d: generated %s seq %d, the library delivered %s seq %d", i, g.Type, g.Seq, r.Type, r.Seq)
			return fs, nil
		}
		// generator and library must agree on what the oracle takes from the generator
		// (a disagreement means the generator does not write what it thinks it writes)
		if g.Execve && hasEmpty(g.Args) && len(r.Args) == 0 {
			continue // known limitation of go-libaudit: an empty argument makes it drop the EXECVE record's data
		}
		// (the result is not cross-checked here: a disagreement on it is what render:outcome reports)
		if r.Session != expectedSession(g) ||
			!r.Time.Equal(time.Unix(g.Sec, int64(g.Msec)*1e6)) || (g.Execve && !eqStrs(r.Args, g.Args)) || (!g.Execve && len(r.Args) > 0) {
			add("", "group %d: generator (ses %q args %q) and library (ses %q args %q) disagree: %q",
				i, expectedSession(g), g.Args, r.Session, r.Args, g.Lines)
		}
	}
	for _, e := range rr.Errors {
		add("render:error", "the pipeline reported an error: %s", e)
	}
	for _, d := range rr.LoginDiffs {
		add("render:login-mutated", "%s", d)
	}
	order, _ := expectedEmission(sc)
	if len(rr.Obs) != len(order) {
		add("render:count", "%d events written, %d expected (groups %v)", len(rr.Obs), len(order), order)
		return fs, nil
	}
	var al []aligned
	for k, gi := range order {
		o, g, r := rr.Obs[k], sc.Groups[gi], refs[gi]
		al = append(al, aligned{gi, o, r})
		at := fmt.Sprintf("event %d (group %d, %s)", k, gi, g.Type)
		if o.Problem != "" {
			add("", "%s: %s: %s", at, o.Problem, o.Raw)
			continue
		}
		if o.Type != "UserAction" {
			add("render:type", "%s: type %q", at, o.Type)
		}
		if o.Component != "auditd" {
			add("render:component", "%s: component %q", at, o.Component)
		}
		if want := time.Unix(g.Sec, int64(g.Msec)*1e6); !o.LoggedAt.Equal(want) {
			add("render:timestamp", "%s: loggedAt %s, the record's timestamp is %s", at, o.LoggedAt.UTC().Format(time.RFC3339Nano), want.UTC().Format(time.RFC3339Nano))
		}
		if o.AuditID != expectedSession(g) {
			add("render:audit-id", "%s: auditId %q, the record's session is %q", at, o.AuditID, expectedSession(g))
		}
		want := "failed"
		if g.Success {
			want = "succeeded"
		}
		if o.Outcome != want {
			add("render:outcome", "%s: outcome %q for result field %q, expected %q", at, o.Outcome, g.Res, want)
		}
		wantKeys := []string{"action", "how", "object"}
		if len(r.Args) > 0 {
			wantKeys = append(wantKeys, "process_args")
		}
		sort.Strings(wantKeys)
		if o.HasArgs != (len(r.Args) > 0) || !eqStrs(o.Args, r.Args) {
			add("render:args", "%s: process_args present=%v %q, the audit event has %q", at, o.HasArgs, o.Args, r.Args)
		} else if !eqStrs(o.ExtraKeys, wantKeys) {
			add("render:extra", "%s: metadata.extra has keys %v, expected %v", at, o.ExtraKeys, wantKeys)
		}
		if o.Action != r.Action || o.How != r.How || o.Object != r.Object {
			add("render:extra", "%s: action/how/object %q/%q/%+v, the summary is %q/%q/%+v", at, o.Action, o.How, o.Object, r.Action, r.How, r.Object)
		}
		if !eqIdent(o.Ident, sc.Ident) {
			add("render:identity", "%s: subjects/source/target %+v differ from the login's %+v", at, o.Ident, sc.Ident)
		}
		if k > 0 && !eqIdent(o.Ident, rr.Obs[0].Ident) {
			add("render:identity-varies", "%s: subjects/source/target %+v differ from the session's first event %+v", at, o.Ident, rr.Obs[0].Ident)
		}
	}
	return fs, al
}
