//go:build verif

package main

import (
	"fmt"
	"strings"

	"github.com/metal-toolbox/audito-maldito/internal/verifharness/hutil"
)

// Ident is the identity content of a remote login (what the UserLogin event carries).
type Ident struct {
	Subjects map[string]string `json:"subjects"`
	SrcType  string            `json:"srcType"`
	SrcValue string            `json:"srcValue"`
	SrcExtra map[string]string `json:"srcExtra"`
	Target   map[string]string `json:"target"`
}

// Group is one audit record group in the text format of the audit log, together with
// what the generator knows about it (the oracle's inputs; nothing here comes from
// go-libaudit).
type Group struct {
	Kind    string   `json:"kind"`
	Type    string   `json:"type"`  // record type that names the event
	Lines   []string `json:"lines"` // the records, in log order
	Sec     int64    `json:"sec"`   // msg=audit(SEC.MSEC:SEQ)
	Msec    int      `json:"msec"`
	Seq     uint32   `json:"seq"`
	Ses     string   `json:"ses"`     // text of the ses= field ("" = no such field)
	Res     string   `json:"res"`     // the result field as written ("" = none)
	Success bool     `json:"success"` // the audit result is success
	Execve  bool     `json:"execve"`  // the group has an EXECVE record
	Args    []string `json:"args"`    // its arguments (raw bytes)
}

// Scenario is one session on the real daemon path.
type Scenario struct {
	Ses        string  `json:"ses"`
	PID        int     `json:"pid"`
	Cred       string  `json:"cred"`
	Ident      Ident   `json:"ident"`
	LoginAfter int     `json:"loginAfter"`              // the RemoteLogin is delivered after this many groups
	Debug      bool    `json:"debug_logging,omitempty"` // correlator and audit processor log at DEBUG level
	LoginSec   int64   `json:"loginSec"`                // LoggedAt of the sshd login event (seconds): before, among or after the records' timestamps
	Groups     []Group `json:"groups"`
}

type gen struct {
	r    *hutil.Rand
	sec  int64
	seq  uint32
	ses  string
	pid  int // sshd pid of the session
	auid string
	acct string
}

var words = []string{"ls", "-la", "/etc/passwd", "--color=auto", "sh", "-c", "cat", "/root", "-T", "uname", "-p",
	"echo hello world", "naïve café", `say "hi"`, "a=b", "tab\there", "日本語", "x", "--", "-",
	"PATH=/usr/local/sbin:/usr/local/bin:/usr/sbin:/usr/bin:/sbin:/bin", "2F62696E", "deadbeef", "<script>&amp;</script>", "back\\slash", "new\nline"}

var exes = []string{"/usr/bin/ls", "/usr/bin/cat", "/usr/bin/dash", "/usr/sbin/ethtool", "/usr/bin/env", "/usr/bin/sudo",
	"/usr/bin/my tool", "/opt/über/bin", "/usr/bin/clear_console"}

func (g *gen) word() string { return hutil.Pick(g.r, words) }

// the kernel logs an untrusted string in hex (upper case, unquoted) when it holds a
// byte below 0x21 or above 0x7e or a double quote, else between double quotes
func untrusted(s string) string {
	hexed := false
	for i := 0; i < len(s); i++ {
		if s[i] < 0x21 || s[i] > 0x7e || s[i] == '"' {
			hexed = true
		}
	}
	if !hexed {
		return `"` + s + `"`
	}
	return strings.ToUpper(fmt.Sprintf("%x", s))
}

func (g *gen) hdr(typ string, sec int64, msec int, seq uint32) string {
	return fmt.Sprintf("type=%s msg=audit(%d.%03d:%d): ", typ, sec, msec, seq)
}

// enrichedLogin makes the generator append the ENRICHED-format suffix (0x1d, then the
// resolved names) also to records whose last field is the unquoted result (LOGIN).
// go-libaudit does not know the separator: it reads "res=1\x1dUID=" as the result, which
// is not a success spelling (finding reported with C14; off by default).
var enrichedLogin = false

func (g *gen) enrich(s string) string {
	if !strings.HasSuffix(s, "'") && !enrichedLogin {
		return s
	}
	switch g.r.Intn(3) {
	case 0:
		return s + "\x1dUID=\"root\" AUID=\"" + g.acct + "\""
	case 1:
		return s + "UID=\"root\" AUID=\"" + g.acct + "\"" // without the separator, as in the repository's test data
	}
	return s
}

// sesField returns the " ses=..." fragment
func sesField(ses string) string {
	if ses == "" {
		return ""
	}
	return " ses=" + ses
}

// pickSes: mostly the tracked session, sometimes none / unset / a foreign one
func (g *gen) pickSes(noise bool) string {
	if !noise {
		return g.ses
	}
	switch g.r.Intn(4) {
	case 0:
		return ""
	case 1:
		return "4294967295"
	case 2:
		return "-1"
	}
	return fmt.Sprint(90000 + g.r.Intn(1000))
}

func (g *gen) next(kind, typ string) Group {
	g.sec += int64(g.r.Intn(4))
	g.seq++
	return Group{Kind: kind, Type: typ, Sec: g.sec, Msec: g.r.Intn(1000), Seq: g.seq}
}

var syscalls = []struct {
	nr   int
	name string
	path bool
}{{59, "execve", true}, {257, "openat", true}, {2, "open", true}, {87, "unlink", true}, {90, "chmod", true},
	{42, "connect", false}, {62, "kill", false}, {1, "write", false}, {231, "exit_group", false}, {9999, "unknown", false}}

func (g *gen) compound(noise bool) Group {
	sc := syscalls[0]
	if g.r.Chance(1, 2) {
		sc = hutil.Pick(g.r, syscalls)
	}
	gr := g.next("syscall-"+sc.name, "SYSCALL")
	gr.Ses = g.pickSes(noise)
	resVals := []struct {
		txt string
		ok  bool
	}{{"success=yes", true}, {"success=yes", true}, {"success=no", false}}
	rv := hutil.Pick(g.r, resVals)
	gr.Res, gr.Success = rv.txt, rv.ok
	exit := "0"
	if !rv.ok {
		exit = hutil.Pick(g.r, []string{"-2", "-13", "-1"})
	}
	resFrag := fmt.Sprintf(" %s exit=%s", rv.txt, exit)
	if sc.nr == 231 || g.r.Chance(1, 25) { // syscalls that do not return carry no result
		gr.Res, gr.Success, resFrag = "", false, ""
	}
	exe := hutil.Pick(g.r, exes)
	pid := 20000 + g.r.Intn(10000)
	uid := hutil.Pick(g.r, []string{"0", "1000", g.auid})
	key := hutil.Pick(g.r, []string{`"operator-commands"`, `(null)`, `"security-config-changes"`})
	comm := exe[strings.LastIndex(exe, "/")+1:]
	h := func(t string) string { return g.hdr(t, gr.Sec, gr.Msec, gr.Seq) }
	sys := h("SYSCALL") + fmt.Sprintf("arch=c000003e syscall=%d%s a0=557fa8254980 a1=557fa827a720 a2=0 a3=8 items=%d ppid=%d pid=%d auid=%s uid=%s gid=%s euid=%s suid=%s fsuid=%s egid=%s sgid=%s fsgid=%s tty=%s%s comm=%s exe=%s key=%s",
		sc.nr, resFrag, g.r.Intn(3), g.pid, pid, g.auid, uid, uid, uid, uid, uid, uid, uid, uid,
		hutil.Pick(g.r, []string{"(none)", "pts3"}), sesField(gr.Ses), untrusted(comm), untrusted(exe), key)
	if g.r.Chance(2, 3) {
		sys += "\x1dARCH=x86_64 SYSCALL=" + sc.name + ` AUID="` + g.acct + `" UID="root"`
	}
	gr.Lines = append(gr.Lines, sys)
	var title []string
	if sc.nr == 59 && (rv.ok || g.r.Chance(1, 3)) && g.r.Chance(9, 10) {
		gr.Execve = true
		n := 1 + g.r.Intn(5)
		if g.r.Chance(1, 20) {
			n = 0
		}
		gr.Args = []string{}
		var sb strings.Builder
		fmt.Fprintf(&sb, "argc=%d", n)
		for i := 0; i < n; i++ {
			a := g.word()
			if g.r.Chance(1, 40) {
				a = "" // go-libaudit drops empty values: the whole argument list is then lost (see oracle.go)
			}
			gr.Args = append(gr.Args, a)
			fmt.Fprintf(&sb, " a%d=%s", i, untrusted(a))
		}
		gr.Lines = append(gr.Lines, h("EXECVE")+sb.String())
		title = gr.Args
	}
	if sc.nr == 42 {
		gr.Lines = append(gr.Lines, h("SOCKADDR")+"saddr=0200003510000001"+"0000000000000000")
	}
	if sc.path || g.r.Chance(1, 4) {
		gr.Lines = append(gr.Lines, h("CWD")+"cwd="+untrusted(hutil.Pick(g.r, []string{"/", "/root", "/home/some user"})))
	}
	if sc.path {
		np := 1 + g.r.Intn(2)
		names := []string{exe, "/lib64/ld-linux-x86-64.so.2"}
		if sc.nr != 59 {
			names = []string{hutil.Pick(g.r, []string{"/etc/resolv.conf", "/usr/lib/ssl/openssl.cnf", "/tmp/a b"}), "/tmp"}
		}
		for i := 0; i < np; i++ {
			gr.Lines = append(gr.Lines, h("PATH")+fmt.Sprintf("item=%d name=%s inode=%d dev=fd:00 mode=0100755 ouid=0 ogid=0 rdev=00:00 nametype=NORMAL cap_fp=0 cap_fi=0 cap_fe=0 cap_fver=0 cap_frootid=0",
				i, untrusted(names[i]), 1400000+g.r.Intn(99999)))
		}
	}
	if len(title) == 0 {
		title = []string{comm}
	}
	pt := h("PROCTITLE") + "proctitle=" + strings.ToUpper(fmt.Sprintf("%x", strings.Join(title, "\x00")))
	switch g.r.Intn(4) {
	case 0:
		gr.Lines = append(gr.Lines, h("EOE"))
	case 1:
		gr.Lines = append(gr.Lines, pt, h("EOE"))
	default:
		gr.Lines = append(gr.Lines, pt)
	}
	return gr
}

// ---------- record groups that are not led by their SYSCALL record ----------

// leadRecords: records the kernel logs BEFORE the SYSCALL record of the same event (LSM decisions, seccomp actions,
// anomalies, configuration changes ...).  aucoalesce classifies a compound event by the record that leads the group,
// so the record order inside a group is part of what "the audit event" is.  The bodies follow the kernel's formats
// (go-libaudit's own test data and audit-userspace); %[1]d = pid, %[2]s = auid, %[3]s = ses.
var leadRecords = []struct{ typ, body string }{
	{"AVC", `avc:  denied  { getattr } for  pid=%[1]d comm="cat" path="/etc/shadow" dev="dm-0" ino=284133 scontext=unconfined_u:unconfined_r:unconfined_t:s0 tcontext=system_u:object_r:shadow_t:s0 tclass=file permissive=0`},
	{"AVC", `avc:  granted  { execute } for  pid=%[1]d comm="sh" name="tool" dev="dm-0" ino=9921 scontext=user_u:user_r:user_t:s0 tcontext=system_u:object_r:bin_t:s0 tclass=file`},
	{"AVC", `apparmor="DENIED" operation="open" profile="/usr/bin/man" name="/etc/shadow" pid=%[1]d comm="man" requested_mask="r" denied_mask="r" fsuid=1000 ouid=0`},
	{"AVC", `apparmor="ALLOWED" operation="ptrace" profile="docker-default" pid=%[1]d comm="metricbeat" requested_mask="trace" denied_mask="trace" peer="unconfined"`},
	{"APPARMOR_DENIED", `apparmor="DENIED" operation="exec" profile="/usr/sbin/tcpdump" name="/usr/bin/id" pid=%[1]d comm="tcpdump" requested_mask="x" denied_mask="x" fsuid=0 ouid=0`},
	{"APPARMOR_AUDIT", `apparmor="AUDIT" operation="unlink" profile="docker-nginx" name="/var/lib/apt/lists/partial/x" pid=%[1]d comm="apt-get" requested_mask="d" fsuid=100 ouid=100`},
	{"APPARMOR_ALLOWED", `apparmor="ALLOWED" operation="mknod" profile="/usr/bin/evince" name="/tmp/a" pid=%[1]d comm="evince" requested_mask="c" denied_mask="c" fsuid=1000 ouid=1000`},
	{"SELINUX_ERR", `op=security_compute_sid invalid_context="unconfined_u:system_r:x_t:s0" scontext=unconfined_u:unconfined_r:unconfined_t:s0 tcontext=system_u:object_r:bin_t:s0 tclass=process`},
	{"SECCOMP", `auid=%[2]s uid=1000 gid=1000 ses=%[3]s pid=%[1]d comm="chrome" exe="/opt/google/chrome/chrome" sig=0 arch=c000003e syscall=273 compat=0 ip=0x7f4f9f0a1b2d code=0x50000`},
	{"SECCOMP", `auid=%[2]s uid=0 gid=0 ses=%[3]s pid=%[1]d comm="sshd" exe="/usr/sbin/sshd" sig=31 arch=c000003e syscall=2 compat=0 ip=0x7f1c2b3a4d5e code=0x0`},
	{"ANOM_ABEND", `auid=%[2]s uid=48 gid=48 ses=%[3]s pid=%[1]d comm="httpd" exe="/usr/sbin/httpd" reason="memory violation" sig=11 res=1`},
	{"ANOM_PROMISCUOUS", `dev=ens4 prom=256 old_prom=0 auid=%[2]s uid=0 gid=0 ses=%[3]s`},
	{"ANOM_LINK", `op=follow_link ppid=1 pid=%[1]d auid=%[2]s uid=1000 gid=1000 euid=1000 suid=1000 fsuid=1000 egid=1000 sgid=1000 fsgid=1000 tty=pts0 ses=%[3]s comm="ln" exe="/usr/bin/ln" res=0`},
	{"ANOM_CREAT", `op=open_fifo ppid=1 pid=%[1]d auid=%[2]s uid=1000 gid=1000 euid=1000 suid=1000 fsuid=1000 egid=1000 sgid=1000 fsgid=1000 tty=pts0 ses=%[3]s comm="mkfifo" exe="/usr/bin/mkfifo" res=0`},
	{"NETFILTER_CFG", `table=filter family=2 entries=4`},
	{"NETFILTER_CFG", `table=nat:7 family=2 entries=1 op=nft_register_rule pid=%[1]d comm="iptables"`},
	{"CONFIG_CHANGE", `auid=%[2]s ses=%[3]s op=add_rule key="operator-commands" list=4 res=1`},
	{"CONFIG_CHANGE", `auid=%[2]s ses=%[3]s op=remove_rule key=(null) list=4 res=0`},
	{"MAC_STATUS", `enforcing=0 old_enforcing=1 auid=%[2]s ses=%[3]s enabled=1 old-enabled=1 lsm=selinux res=1`},
	{"MAC_POLICY_LOAD", `auid=%[2]s ses=%[3]s lsm=selinux res=1`},
	{"MAC_CONFIG_CHANGE", `bool=httpd_can_network_connect val=1 old_val=0 auid=%[2]s ses=%[3]s`},
	{"KERN_MODULE", `name="nf_tables"`},
	{"INTEGRITY_DATA", `pid=%[1]d uid=0 auid=%[2]s ses=%[3]s op=appraise_data cause=invalid-hash comm="bash" name="/usr/local/bin/x" dev="dm-0" ino=4711 res=0`},
	{"INTEGRITY_RULE", `file="/usr/bin/evil" hash="sha256:0011aabb" ppid=1 pid=%[1]d auid=%[2]s uid=0 gid=0 euid=0 suid=0 fsuid=0 egid=0 sgid=0 fsgid=0 tty=pts0 ses=%[3]s comm="evil" exe="/usr/bin/evil"`},
	{"BPF", `prog-id=42 op=LOAD`},
	{"FANOTIFY", `resp=2`},
	{"FEATURE_CHANGE", `ver=1 auid=%[2]s ses=%[3]s feature=loginuid_immutable old=0 new=1 old_lock=0 new_lock=1 res=1`},
	{"TIME_INJOFFSET", `sec=0 nsec=291547`},
	{"KERNEL_OTHER", `op=note pid=%[1]d`},
}

// auxRecords: records the kernel logs AFTER the SYSCALL record (the group is then led by SYSCALL and these only add data)
var auxRecords = []struct{ typ, body string }{
	{"MMAP", `fd=3 flags=0x2`},
	{"CAPSET", `pid=%[1]d cap_pi=0000000000000000 cap_pp=0000000000003000 cap_pe=0000000000003000 cap_pa=0`},
	{"BPRM_FCAPS", `fver=0 fp=0000000000000000 fi=0000000000000000 fe=0 old_pp=0000000000000000 old_pi=0000000000000000 old_pe=0000000000000000 old_pa=0000000000000000 pp=00000000a80425fb pi=0000000000000000 pe=00000000a80425fb pa=0000000000000000 frootid=0`},
	{"OBJ_PID", `opid=%[1]d oauid=%[2]s ouid=1000 oses=%[3]s ocomm="sleep"`},
	{"FD_PAIR", `fd0=3 fd1=4`},
	{"SOCKETCALL", `nargs=3 a0=2 a1=1 a2=0`},
	{"IPC", `ouid=0 ogid=0 mode=0666`},
	{"AVC", `avc:  denied  { read } for  pid=%[1]d comm="cat" name="shadow" dev="dm-0" ino=284133 scontext=unconfined_u:unconfined_r:unconfined_t:s0 tcontext=system_u:object_r:shadow_t:s0 tclass=file permissive=1`},
	{"SECCOMP", `auid=%[2]s uid=1000 gid=1000 ses=%[3]s pid=%[1]d comm="x" exe="/usr/bin/x" sig=0 arch=c000003e syscall=1 compat=0 ip=0x7f0000000001 code=0x7ffc0000`},
}

// special builds a compound group in which a record other than SYSCALL comes first (1 to 2 such records, in the
// kernel's order: before the SYSCALL record), or in which further records follow the SYSCALL record.  What the
// generator knows about the group (session, result, arguments) is what its SYSCALL / EXECVE records say.
func (g *gen) special(noise bool) Group {
	gr := g.compound(noise)
	h := func(t string) string { return g.hdr(t, gr.Sec, gr.Msec, gr.Seq) }
	pid := 20000 + g.r.Intn(10000)
	rec := func(typ, body string) string { return h(typ) + fmt.Sprintf(body, pid, g.auid, gr.Ses) }
	if gr.Ses == "" {
		rec = func(typ, body string) string {
			return h(typ) + strings.ReplaceAll(fmt.Sprintf(body, pid, g.auid, "@none@"), " ses=@none@", "")
		}
	}
	if g.r.Chance(1, 4) {
		// SYSCALL stays in front; auxiliary records follow it
		a := hutil.Pick(g.r, auxRecords)
		gr.Kind = "aux-" + a.typ
		rest := append([]string{rec(a.typ, a.body)}, gr.Lines[1:]...)
		gr.Lines = append(gr.Lines[:1:1], rest...)
		return gr
	}
	lead := hutil.Pick(g.r, leadRecords)
	gr.Kind, gr.Type = "special-"+lead.typ, lead.typ
	front := []string{rec(lead.typ, lead.body)}
	if g.r.Chance(1, 4) { // e.g. two AVC records for one syscall
		l2 := hutil.Pick(g.r, leadRecords)
		front = append(front, rec(l2.typ, l2.body))
	}
	gr.Lines = append(front, gr.Lines...)
	return gr
}

var userTypes = []string{"USER_CMD", "USER_START", "USER_END", "CRED_ACQ", "CRED_REFR", "USER_AUTH", "USER_ACCT",
	"USER_LOGIN", "USER_LOGOUT", "USER_ERR", "USER_CHAUTHTOK", "USER_ROLE_CHANGE", "LOGIN"}

func (g *gen) resUser() (string, bool) {
	v := hutil.Pick(g.r, []struct {
		txt string
		ok  bool
	}{{"res=success", true}, {"res=success", true}, {"res=failed", false}, {"res=1", true}, {"res=0", false}})
	return v.txt, v.ok
}

// simple builds a single-record event of the given type.
func (g *gen) simple(typ string, noise bool) Group {
	if noise && typ == "LOGIN" {
		typ = "USER_ACCT" // a LOGIN record of a foreign session would open a second session for the same sshd pid
	}
	gr := g.next("simple", typ)
	gr.Ses = g.pickSes(noise)
	gr.Res, gr.Success = g.resUser()
	if typ != "LOGIN" && g.r.Chance(1, 30) { // (a LOGIN record always carries res=)
		gr.Res, gr.Success = "", false
	}
	res := ""
	if gr.Res != "" {
		res = " " + gr.Res
	}
	h := g.hdr(typ, gr.Sec, gr.Msec, gr.Seq)
	addr := fmt.Sprintf("10.%d.%d.%d", g.r.Intn(256), g.r.Intn(256), g.r.Intn(256))
	pid := g.pid
	if typ == "USER_CMD" || g.r.Chance(1, 3) {
		pid = 20000 + g.r.Intn(10000)
	}
	pre := fmt.Sprintf("pid=%d uid=%s auid=%s%s", pid, hutil.Pick(g.r, []string{"0", "1000"}), g.auid, sesField(gr.Ses))
	var line string
	switch typ {
	case "LOGIN":
		line = h + fmt.Sprintf("pid=%d uid=0 old-auid=4294967295 auid=%s tty=(none) old-ses=4294967295%s%s", pid, g.auid, sesField(gr.Ses), res)
	case "USER_CMD":
		cmd := g.word() + " " + g.word()
		line = h + pre + fmt.Sprintf(" msg='cwd=%s cmd=%s exe=\"/usr/bin/sudo\" terminal=pts/0%s'", untrusted("/home/"+g.acct), untrusted(cmd), res)
	case "USER_LOGIN", "USER_LOGOUT":
		line = h + pre + fmt.Sprintf(" msg='op=login id=%s exe=\"/usr/sbin/sshd\" hostname=%s addr=%s terminal=/dev/pts/3%s'", g.auid, addr, addr, res)
	default:
		op := map[string]string{"USER_START": "PAM:session_open", "USER_END": "PAM:session_close", "CRED_ACQ": "PAM:setcred",
			"CRED_REFR": "PAM:setcred", "CRED_DISP": "PAM:setcred", "USER_AUTH": "PAM:authentication", "USER_ACCT": "PAM:accounting",
			"USER_ERR": "PAM:bad_ident", "USER_CHAUTHTOK": "PAM:chauthtok", "USER_ROLE_CHANGE": "role-change"}[typ]
		line = h + pre + fmt.Sprintf(" msg='op=%s grantors=pam_permit,pam_cap acct=%s exe=\"/usr/sbin/sshd\" hostname=%s addr=%s terminal=ssh%s'",
			op, untrusted(g.acct), addr, addr, res)
	}
	gr.Lines = []string{g.enrich(line)}
	return gr
}

func (g *gen) ident() Ident {
	r := g.r
	val := func() string {
		return hutil.Pick(r, []string{"core", "alice@example.com", "", "CN=ops,O=Équipe", `quo"te`, fmt.Sprint(r.Intn(100000)), "a b", "<root>&"})
	}
	id := Ident{SrcType: hutil.Pick(r, []string{"IP", "IP", "hostname", ""}),
		SrcValue: fmt.Sprintf("10.%d.%d.%d", r.Intn(256), r.Intn(256), r.Intn(256))}
	if r.Chance(1, 10) {
		id.SrcValue = val()
	}
	if !r.Chance(1, 12) {
		id.Subjects = map[string]string{}
		keys := []string{"loggedAs", "userID", "pid", "role", "k" + fmt.Sprint(r.Intn(10)), ""}
		n := r.Intn(5)
		for i := 0; i < n; i++ {
			id.Subjects[hutil.Pick(r, keys)] = val()
		}
	}
	if r.Chance(2, 3) {
		id.SrcExtra = map[string]string{"port": fmt.Sprint(1024 + r.Intn(60000))}
		if r.Chance(1, 4) {
			id.SrcExtra["via"] = val()
		}
	}
	if r.Chance(4, 5) {
		id.Target = map[string]string{"host": "node-" + fmt.Sprint(r.Intn(50)), "machine-id": fmt.Sprintf("%016x", r.U64())}
		if r.Chance(1, 6) {
			id.Target = map[string]string{}
		}
	}
	return id
}

// genScenario builds one session: its LOGIN record, a number of record groups of the
// session (with some records of no / unset / foreign sessions in between), in most cases
// the credential-disposal record, sometimes stray records after it; the login is
// delivered at a random point.
func genScenario(r *hutil.Rand, long bool) Scenario {
	g := &gen{r: r, sec: 1600000000 + int64(r.Intn(200000000)), seq: uint32(1000 + r.Intn(5000000))}
	g.ses = fmt.Sprint(1 + r.Intn(70000))
	g.pid = 300 + r.Intn(60000)
	g.auid = fmt.Sprint(1000 + r.Intn(50))
	g.acct = hutil.Pick(r, []string{"someuser", "core", "some user", "admïn"})
	sc := Scenario{Ses: g.ses, PID: g.pid, Cred: "cred-" + fmt.Sprint(r.Intn(100000)), Ident: g.ident()}

	// the LOGIN record that opens the session (its pid is the login's pid)
	lg := g.next("login", "LOGIN")
	lg.Ses = g.ses
	lg.Res, lg.Success = hutil.Pick(r, []string{"res=1", "res=1", "res=success", "res=0"}), true
	if lg.Res == "res=0" {
		lg.Success = false
	}
	lg.Lines = []string{g.enrich(g.hdr("LOGIN", lg.Sec, lg.Msec, lg.Seq) +
		fmt.Sprintf("pid=%d uid=0 old-auid=4294967295 auid=%s tty=(none) old-ses=4294967295 ses=%s %s", g.pid, g.auid, g.ses, lg.Res))}
	sc.Groups = append(sc.Groups, lg)
	if r.Chance(1, 2) {
		// the syscall record of the same event, as auditd logs it: the reassembler delivers
		// the LOGIN record alone and then this rest as a second event of the same sequence
		cp := Group{Kind: "login-syscall", Type: "SYSCALL", Sec: lg.Sec, Msec: lg.Msec, Seq: lg.Seq, Ses: g.ses, Res: "success=yes", Success: true}
		cp.Lines = []string{
			g.hdr("SYSCALL", lg.Sec, lg.Msec, lg.Seq) + fmt.Sprintf("arch=c000003e syscall=1 success=yes exit=4 a0=3 a1=7fff22d23fa0 a2=4 a3=7f7b24310371 items=0 ppid=803 pid=%d auid=%s uid=0 gid=0 euid=0 suid=0 fsuid=0 egid=0 sgid=0 fsgid=0 tty=(none) ses=%s comm=\"sshd\" exe=\"/usr/sbin/sshd\" key=(null)", g.pid, g.auid, g.ses),
			g.hdr("PROCTITLE", lg.Sec, lg.Msec, lg.Seq) + "proctitle=2F7573722F7362696E2F73736864002D44002D52"}
		sc.Groups = append(sc.Groups, cp)
	}

	n := 2 + r.Intn(8)
	if long {
		n = 22 + r.Intn(10)
	}
	for i := 0; i < n; i++ {
		noise := r.Chance(1, 9)
		if r.Chance(1, 5) {
			sc.Groups = append(sc.Groups, g.special(noise))
		} else if r.Chance(1, 2) {
			sc.Groups = append(sc.Groups, g.compound(noise))
		} else {
			sc.Groups = append(sc.Groups, g.simple(hutil.Pick(r, userTypes), noise))
		}
	}
	if r.Chance(5, 6) {
		sc.Groups = append(sc.Groups, g.simple("CRED_DISP", false))
		for r.Chance(1, 3) { // stray records of the ended session
			sc.Groups = append(sc.Groups, g.compound(false))
		}
	}
	// the login arrives before the LOGIN record, right after it, or later (then the events
	// in between are held and written by the flush)
	switch r.Intn(4) {
	case 0:
		sc.LoginAfter = 0
	case 1:
		sc.LoginAfter = 1
	default:
		sc.LoginAfter = r.Intn(len(sc.Groups) + 1)
	}
	// the sshd line's own timestamp: the login is logged while the session runs, so it is usually LATER
	// than the records that were held for it; also earlier, and far away in both directions
	first, last := sc.Groups[0].Sec, sc.Groups[len(sc.Groups)-1].Sec
	switch r.Intn(5) {
	case 0:
		sc.LoginSec = first - 1 - int64(r.Intn(100))
	case 1:
		sc.LoginSec = last + 1 + int64(r.Intn(100))
	case 2:
		sc.LoginSec = first + (last-first)/2
	case 3:
		sc.LoginSec = last + 86400*365
	default:
		sc.LoginSec = 1600000000
	}
	sc.Debug = r.Chance(1, 3)
	return sc
}
