//go:build verif

package hutil

import (
	"io"

	"go.uber.org/zap"
	"go.uber.org/zap/zapcore"
)

// Logger returns the logger a harness hands to the code under test: a no-op logger, or (debug = true) a logger
// with DEBUG level enabled whose output is rendered (JSON encoder, so that every field is really encoded) and
// discarded.  The daemon's behaviour must not depend on its log level; code that only runs "when debug logging
// is on" is exercised this way.
func Logger(debug bool) *zap.SugaredLogger {
	if !debug {
		return zap.NewNop().Sugar()
	}
	core := zapcore.NewCore(zapcore.NewJSONEncoder(zap.NewProductionEncoderConfig()), zapcore.AddSync(io.Discard), zapcore.DebugLevel)
	return zap.New(core).Sugar()
}
