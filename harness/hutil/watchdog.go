//go:build verif

package hutil

import (
	"os"
	"strconv"
	"sync/atomic"
	"time"
)

// Watchdog supervises calls into the implementation made by ONE goroutine (the harness' driving loop): a call
// that does not return is a failure of the implementation (deadlock, a goroutine that never comes back), not
// something to wait for.  The driving goroutine brackets every call with Enter / Leave (two atomic stores, so
// that millions of calls cost nothing); a background goroutine looks at the bracket a few times per second and,
// when one and the same call has been in flight for longer than the bound, hands the description of that call
// to OnHang - which reports it (summary with the case as replay, or REPRODUCED in replay mode) and ENDS THE
// PROCESS: after a hang the process is poisoned (locks held for ever, a goroutine stuck inside the
// implementation), nothing further can be explored in it.
//
// The bound is generous (default 10 s; VERIF_CALL_BOUND_MS overrides) because the calls supervised here are
// in-memory operations of microseconds: on a loaded machine the driving goroutine may be descheduled for a
// while, never for seconds.
type Watchdog struct {
	Bound  time.Duration
	OnHang func(ctx any, call int, phase string, waited time.Duration)

	ctx   atomic.Pointer[any]
	seq   atomic.Int64 // incremented by every Enter and every Leave: odd = a call is in flight
	call  atomic.Int64
	phase atomic.Pointer[string]
}

// CallBound is the time after which a supervised call counts as "did not return".
func CallBound() time.Duration {
	if v := os.Getenv("VERIF_CALL_BOUND_MS"); v != "" {
		if n, err := strconv.Atoi(v); err == nil && n > 0 {
			return time.Duration(n) * time.Millisecond
		}
	}
	return 10 * time.Second
}

// NewWatchdog starts the supervising goroutine.
func NewWatchdog(onHang func(ctx any, call int, phase string, waited time.Duration)) *Watchdog {
	w := &Watchdog{Bound: CallBound(), OnHang: onHang}
	go w.loop()
	return w
}

// Context sets what the following calls belong to (the history, the schedule): handed to OnHang.
func (w *Watchdog) Context(ctx any) {
	if w == nil {
		return
	}
	w.ctx.Store(&ctx)
}

// Enter marks the start of call number `call` (phase: what is being done, e.g. "call" or "state dump").
func (w *Watchdog) Enter(call int, phase *string) {
	if w == nil {
		return
	}
	w.call.Store(int64(call))
	w.phase.Store(phase)
	w.seq.Add(1)
}

// Leave marks its return.
func (w *Watchdog) Leave() {
	if w == nil {
		return
	}
	w.seq.Add(1)
}

func (w *Watchdog) loop() {
	step := w.Bound / 40
	if step < time.Millisecond {
		step = time.Millisecond
	}
	var lastSeq int64 = -1
	var since time.Time
	for {
		time.Sleep(step)
		s := w.seq.Load()
		if s%2 == 0 {
			lastSeq = -1
			continue
		}
		if s != lastSeq {
			lastSeq = s
			since = time.Now()
			continue
		}
		if waited := time.Since(since); waited >= w.Bound {
			var ctx any
			if p := w.ctx.Load(); p != nil {
				ctx = *p
			}
			ph := ""
			if p := w.phase.Load(); p != nil {
				ph = *p
			}
			w.OnHang(ctx, int(w.call.Load()), ph, waited)
			os.Exit(3) // OnHang is expected to end the process itself
		}
	}
}
