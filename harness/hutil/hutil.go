//go:build verif

// Package hutil holds helpers shared by the verification harnesses: a seeded
// PRNG, Coq term printers, a summary writer and a schedule controller that
// drives the VerifPoint hooks of internal/common.
package hutil

import (
	"bytes"
	"encoding/json"
	"fmt"
	"os"
	"path/filepath"
	"runtime"
	"strconv"
	"strings"
	"sync"
	"time"
)

// ---------- PRNG (splitmix64): every random choice derives from one seed ----------

type Rand struct{ s uint64 }

func NewRand(seed uint64) *Rand { return &Rand{s: seed*0x9E3779B97F4A7C15 + 0x1234567} }

func (r *Rand) U64() uint64 {
	r.s += 0x9E3779B97F4A7C15
	z := r.s
	z = (z ^ (z >> 30)) * 0xBF58476D1CE4E5B9
	z = (z ^ (z >> 27)) * 0x94D049BB133111EB
	return z ^ (z >> 31)
}

// Intn returns a value in [0,n).
func (r *Rand) Intn(n int) int {
	if n <= 0 {
		return 0
	}
	return int(r.U64() % uint64(n))
}

func (r *Rand) Bool() bool { return r.U64()&1 == 1 }

// Chance returns true with probability num/den.
func (r *Rand) Chance(num, den int) bool { return r.Intn(den) < num }

func Pick[T any](r *Rand, xs []T) T { return xs[r.Intn(len(xs))] }

func SeedFromEnv() uint64 {
	if v := os.Getenv("VERIF_SEED"); v != "" {
		if n, err := strconv.ParseUint(v, 10, 64); err == nil {
			return n
		}
	}
	return 1
}

// ---------- Coq term printers ----------

func CoqBool(b bool) string {
	if b {
		return "true"
	}
	return "false"
}

func CoqList(items []string) string { return "[" + strings.Join(items, "; ") + "]" }

// CoqZ prints an integer as a Z literal.
func CoqZ(n int64) string { return fmt.Sprintf("(%d)%%Z", n) }

// CoqBytes prints a byte string as a call to the hex decoder of Lib/Bytes.v.
func CoqBytes(b []byte) string {
	const hexd = "0123456789abcdef"
	var sb strings.Builder
	sb.WriteString("(hx \"")
	for _, c := range b {
		sb.WriteByte(hexd[c>>4])
		sb.WriteByte(hexd[c&15])
	}
	sb.WriteString("\")")
	return sb.String()
}

func CoqStr(s string) string { return CoqBytes([]byte(s)) }

// ---------- summary ----------

type Failure struct {
	Kind   string `json:"kind"`   // "oracle" (property fails on the implementation) or "harness"
	Key    string `json:"key"`    // stable identifier of the failing input / call site / history pattern
	What   string `json:"what"`   // human-readable description
	Replay any    `json:"replay"` // the concrete input / history / schedule
}

type Summary struct {
	Property           string         `json:"property"`
	Seed               uint64         `json:"seed"`
	Evaluations        int            `json:"evaluations"`
	DistinctNontrivial int            `json:"distinct_nontrivial"`
	Rule               string         `json:"rule"`
	Distribution       map[string]int `json:"distribution"`
	Samples            []any          `json:"samples"`
	Failures           []Failure      `json:"failures"`
	NFailures          int            `json:"n_failures"`
	Notes              []string       `json:"notes,omitempty"`
	CaseFiles          []string       `json:"case_files"`
	seen               map[string]bool
}

func NewSummary(prop string, seed uint64, rule string) *Summary {
	return &Summary{Property: prop, Seed: seed, Rule: rule, Distribution: map[string]int{}, seen: map[string]bool{}}
}

// Count records one evaluated case. key identifies the case after
// canonicalisation; nontrivial says whether it meets the stated rule.
func (s *Summary) Count(key string, nontrivial bool) {
	s.Evaluations++
	if nontrivial && !s.seen[key] {
		s.seen[key] = true
		s.DistinctNontrivial++
	}
}

func (s *Summary) Dist(k string) { s.Distribution[k]++ }

func (s *Summary) Sample(x any) {
	if len(s.Samples) < 5 {
		s.Samples = append(s.Samples, x)
	}
}

func (s *Summary) Fail(kind, what string, replay any) { s.FailKey(kind, "", what, replay) }

// FailKey records a failure with a stable key (used to match known findings).
func (s *Summary) FailKey(kind, key, what string, replay any) {
	s.NFailures++
	nk := 0
	for _, f := range s.Failures {
		if f.Kind == kind {
			nk++
		}
	}
	if nk < 10 {
		s.Failures = append(s.Failures, Failure{Kind: kind, Key: key, What: what, Replay: replay})
	}
}

func (s *Summary) Write(dir string) {
	var buf bytes.Buffer
	enc := json.NewEncoder(&buf)
	enc.SetEscapeHTML(false)
	enc.SetIndent("", " ")
	if err := enc.Encode(s); err != nil {
		panic(err)
	}
	if err := os.WriteFile(filepath.Join(dir, "summary.json"), buf.Bytes(), 0o644); err != nil {
		panic(err)
	}
}

// CaseFile accumulates a Coq file "Definition cases := [ ... ]." in shards.
type CaseFile struct {
	Dir     string
	Stem    string
	Header  string // Require lines
	Footer  func(n int) string
	items   []string
	descs   []any
	shard   int
	PerFile int
	Files   []string
}

// AddDesc adds a case together with a JSON-able description of it (written to
// <stem>_<shard>.json so that a mismatching index can be reported as an input).
func (c *CaseFile) AddDesc(item string, desc any) {
	c.descs = append(c.descs, desc)
	c.Add(item)
}

func (c *CaseFile) Add(item string) {
	c.items = append(c.items, item)
	if c.PerFile > 0 && len(c.items) >= c.PerFile {
		c.Flush()
	}
}

func (c *CaseFile) Flush() {
	if len(c.items) == 0 {
		return
	}
	name := fmt.Sprintf("%s_%d.v", c.Stem, c.shard)
	var sb strings.Builder
	sb.WriteString(c.Header)
	sb.WriteString("\nDefinition cases := [\n")
	sb.WriteString(strings.Join(c.items, ";\n"))
	sb.WriteString("\n].\n")
	sb.WriteString(c.Footer(len(c.items)))
	if err := os.WriteFile(filepath.Join(c.Dir, name), []byte(sb.String()), 0o644); err != nil {
		panic(err)
	}
	if len(c.descs) > 0 {
		raw, _ := json.Marshal(c.descs)
		_ = os.WriteFile(filepath.Join(c.Dir, fmt.Sprintf("%s_%d.json", c.Stem, c.shard)), raw, 0o644)
	}
	c.Files = append(c.Files, name)
	c.descs = nil
	c.items = nil
	c.shard++
}

// ---------- schedule controller ----------

func curGID() int64 {
	var buf [64]byte
	n := runtime.Stack(buf[:], false)
	// "goroutine 123 [running]:"
	f := strings.Fields(string(buf[:n]))
	if len(f) < 2 {
		return -1
	}
	id, _ := strconv.ParseInt(f[1], 10, 64)
	return id
}

type HookEvent struct {
	GID int64
	Obj string
	Op  string
}

// Ctl implements "pause one victim goroutine at its k-th hook point".
type Ctl struct {
	mu      sync.Mutex
	names   map[any]string
	trace   []HookEvent
	victim  int64
	k       int
	seen    int
	armed   bool
	paused  chan struct{}
	resume  chan struct{}
	vicDone chan struct{}
}

func NewCtl() *Ctl { return &Ctl{names: map[any]string{}} }

func (c *Ctl) Name(obj any, name string) {
	c.mu.Lock()
	defer c.mu.Unlock()
	c.names[obj] = name
}

// Hook is installed as common.VerifHook.
func (c *Ctl) Hook(obj any, op string) {
	gid := curGID()
	c.mu.Lock()
	name, ok := c.names[obj]
	if !ok {
		name = "?"
	}
	c.trace = append(c.trace, HookEvent{gid, name, op})
	stop := false
	if c.armed && gid == c.victim {
		if c.seen == c.k {
			stop = true
			c.armed = false
		}
		c.seen++
	}
	paused, resume := c.paused, c.resume
	c.mu.Unlock()
	if stop {
		close(paused)
		<-resume
	}
}

// ResetTrace clears and returns the recorded hook events.
func (c *Ctl) ResetTrace() []HookEvent {
	c.mu.Lock()
	defer c.mu.Unlock()
	t := c.trace
	c.trace = nil
	return t
}

// StartVictim runs f in a new goroutine and returns once it is paused at its
// k-th hook point (paused=true) or has finished without reaching it.
func (c *Ctl) StartVictim(f func(), k int) (paused bool) {
	c.mu.Lock()
	c.paused = make(chan struct{})
	c.resume = make(chan struct{})
	c.vicDone = make(chan struct{})
	c.k = k
	c.seen = 0
	started := make(chan struct{})
	c.mu.Unlock()
	go func() {
		c.mu.Lock()
		c.victim = curGID()
		c.armed = true
		c.mu.Unlock()
		close(started)
		defer close(c.vicDone)
		f()
	}()
	<-started
	select {
	case <-c.paused:
		return true
	case <-c.vicDone:
		c.mu.Lock()
		c.armed = false
		c.mu.Unlock()
		return false
	}
}

// Resume lets a paused victim continue; WaitVictim waits for it to finish.
func (c *Ctl) Resume() { close(c.resume) }

func (c *Ctl) WaitVictim() { <-c.vicDone }

// RunTimeout runs f in a goroutine; done reports whether it finished within d.
// wait blocks until it has finished.
func RunTimeout(f func(), d time.Duration) (done bool, wait func()) {
	ch := make(chan struct{})
	go func() {
		defer close(ch)
		f()
	}()
	select {
	case <-ch:
		return true, func() {}
	case <-time.After(d):
		return false, func() { <-ch }
	}
}
