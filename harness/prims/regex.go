//go:build verif

package main

import (
	"bytes"
	"encoding/hex"
	"fmt"
	"go/ast"
	"go/parser"
	"go/token"
	"os"
	"path/filepath"
	"regexp"
	"regexp/syntax"
	"sort"
	"strconv"
	"strings"
	"unicode/utf8"

	"github.com/metal-toolbox/audito-maldito/internal/verifharness/hutil"
	"github.com/metal-toolbox/audito-maldito/processors/sshd"
)

const regexRule = "for each pattern of processors/sshd/openssh_regex.go (the package's own compiled values): texts built from the pattern's structure " +
	"(every item given a piece: literal bytes, in-class bytes, greedy fields of 0..200 bytes) - as built; with the literal that follows a field " +
	"placed inside the field once or several times (the field must backtrack); truncated after an item; a run of items doubled; a complete second match " +
	"later in the text; text before ^ / after $ (also a trailing newline); one byte of a class item replaced by a byte outside the class; one byte changed, " +
	"dropped or inserted; fields of multi-byte runes, of invalid UTF-8 (lone continuation bytes, truncated and overlong sequences, surrogates, 0xf5..0xff), " +
	"with NUL; random bytes with and without the pattern's literal runs; the empty text. Compared in Coq: all indices of FindStringSubmatchIndex, the captured " +
	"strings of the model's find, MatchString. Oracle on Go's result alone: MatchString iff index != nil; 2*(groups+1) indices, groups ordered inside the match; " +
	"the matched text re-matches at offset 0 with the same groups; the pattern's literal runs occur in order inside the match; a group that is one greedy " +
	"class field holds only bytes of its class; texts built as a parse must match; ^literal / literal$ patterns do not match texts without that prefix / suffix. " +
	"non-trivial = the text matches; distinct by (pattern, text)"

// ---------------------------------------------------------------------------------------------------------------
// the pattern table: compiled values from the package under test, structure from regexp/syntax

type fitem struct {
	kind string // lit | one | rune | star | open | close | bol | eol
	lit  byte
	cls  *[256]bool
	g    int
}

type pat struct {
	name     string
	re       *regexp.Regexp
	items    []fitem
	runeSafe bool
	bad      string // not in the flat subset
}

func classBytes(pairs []rune) (*[256]bool, bool) {
	var c [256]bool
	covered := rune(0x80)
	anyHigh := false
	for i := 0; i+1 < len(pairs); i += 2 {
		lo, hi := pairs[i], pairs[i+1]
		for b := lo; b <= hi && b <= 0x7f; b++ {
			c[b] = true
		}
		if hi >= 0x80 {
			anyHigh = true
			l := lo
			if l < 0x80 {
				l = 0x80
			}
			if l <= covered && hi+1 > covered {
				covered = hi + 1
			}
		}
	}
	if anyHigh {
		if covered <= 0x10FFFF {
			return nil, false
		}
		for b := 128; b < 256; b++ {
			c[b] = true
		}
	}
	return &c, true
}

func singleClass(re *syntax.Regexp) (*[256]bool, error) {
	switch re.Op {
	case syntax.OpAnyCharNotNL:
		var c [256]bool
		for b := 0; b < 256; b++ {
			c[b] = b != '\n'
		}
		return &c, nil
	case syntax.OpAnyChar:
		var c [256]bool
		for b := 0; b < 256; b++ {
			c[b] = true
		}
		return &c, nil
	case syntax.OpCharClass:
		c, ok := classBytes(re.Rune)
		if !ok {
			return nil, fmt.Errorf("class with some but not all non-ASCII runes: %s", re)
		}
		return c, nil
	case syntax.OpLiteral:
		if len(re.Rune) == 1 && re.Rune[0] < 0x80 && re.Flags&syntax.FoldCase == 0 {
			var c [256]bool
			c[re.Rune[0]] = true
			return &c, nil
		}
	}
	return nil, fmt.Errorf("repetition over something that is not a single-character class: %s", re)
}

func flatten(re *syntax.Regexp, out *[]fitem) error {
	switch re.Op {
	case syntax.OpEmptyMatch:
		return nil
	case syntax.OpConcat:
		for _, s := range re.Sub {
			if err := flatten(s, out); err != nil {
				return err
			}
		}
		return nil
	case syntax.OpLiteral:
		if re.Flags&syntax.FoldCase != 0 {
			return fmt.Errorf("case-folded literal: %s", re)
		}
		for _, b := range []byte(string(re.Rune)) {
			*out = append(*out, fitem{kind: "lit", lit: b})
		}
		return nil
	case syntax.OpAnyCharNotNL, syntax.OpAnyChar, syntax.OpCharClass:
		c, err := singleClass(re)
		if err != nil {
			return err
		}
		*out = append(*out, fitem{kind: "one", cls: c})
		return nil
	case syntax.OpStar, syntax.OpPlus:
		if re.Flags&syntax.NonGreedy != 0 {
			return fmt.Errorf("non-greedy repetition: %s", re)
		}
		c, err := singleClass(re.Sub[0])
		if err != nil {
			return err
		}
		if re.Op == syntax.OpPlus {
			*out = append(*out, fitem{kind: "one", cls: c})
		}
		*out = append(*out, fitem{kind: "star", cls: c})
		return nil
	case syntax.OpCapture:
		*out = append(*out, fitem{kind: "open", g: re.Cap})
		if err := flatten(re.Sub[0], out); err != nil {
			return err
		}
		*out = append(*out, fitem{kind: "close", g: re.Cap})
		return nil
	case syntax.OpBeginText:
		*out = append(*out, fitem{kind: "bol"})
		return nil
	case syntax.OpEndText:
		*out = append(*out, fitem{kind: "eol"})
		return nil
	}
	return fmt.Errorf("construct outside the flat subset (%s): %s", re.Op, re)
}

// rune-safety of a flat pattern: the Go twin of Model/RegexSpec.v rune_safe (the Coq checker recomputes it from the
// generated pattern and requires the two to agree)
func high(c *[256]bool) bool { return c[128] }

// as tools/go2v does: a single-character item over a class with the non-ASCII runes that is not the head of x+ is
// ONE RUNE (IRune), not one byte
func runeItems(items []fitem) []fitem {
	out := append([]fitem{}, items...)
	for i := range out {
		if out[i].kind == "one" && high(out[i].cls) && !(i+1 < len(out) && out[i+1].kind == "star" && high(out[i+1].cls)) {
			out[i].kind = "rune"
		}
	}
	return out
}

func followOK(r []fitem) bool {
	for _, it := range r {
		switch it.kind {
		case "open", "close":
			continue
		case "lit":
			return it.lit < 0x80
		case "one":
			return !high(it.cls)
		case "eol":
			return true
		default:
			return false
		}
	}
	return true
}

func runeSafe(items []fitem) bool {
	for i, it := range items {
		switch it.kind {
		case "one":
			if high(it.cls) && !(i+1 < len(items) && items[i+1].kind == "star" && high(items[i+1].cls)) {
				return false
			}
		case "star":
			if high(it.cls) && !followOK(items[i+1:]) {
				return false
			}
		}
	}
	for _, it := range items { // start_ok
		switch it.kind {
		case "bol":
			return true
		case "open":
			continue
		case "lit":
			return it.lit < 0x80
		case "one":
			return !high(it.cls)
		default:
			return false
		}
	}
	return false
}

// sourcePatterns reads the var declarations of openssh_regex.go: name -> pattern text
func sourcePatterns() (map[string]string, error) {
	repo := os.Getenv("VERIF_REPO")
	if repo == "" {
		repo = "/repo"
	}
	path := filepath.Join(repo, "processors/sshd/openssh_regex.go")
	fset := token.NewFileSet()
	f, err := parser.ParseFile(fset, path, nil, 0)
	if err != nil {
		return nil, err
	}
	res := map[string]string{}
	for _, d := range f.Decls {
		gd, ok := d.(*ast.GenDecl)
		if !ok || gd.Tok != token.VAR {
			continue
		}
		for _, sp := range gd.Specs {
			vs := sp.(*ast.ValueSpec)
			for i, n := range vs.Names {
				if i >= len(vs.Values) {
					continue
				}
				call, ok := vs.Values[i].(*ast.CallExpr)
				if !ok || len(call.Args) != 1 {
					continue
				}
				sel, ok := call.Fun.(*ast.SelectorExpr)
				if !ok || sel.Sel.Name != "MustCompile" {
					continue
				}
				res[n.Name] = "?"
				if lit, ok := call.Args[0].(*ast.BasicLit); ok && lit.Kind == token.STRING {
					if s, err := strconv.Unquote(lit.Value); err == nil {
						res[n.Name] = s
					}
				}
			}
		}
	}
	return res, nil
}

func loadPatterns() ([]*pat, []string) {
	var problems []string
	table := sshd.VerifRegexes()
	var names []string
	for n := range table {
		names = append(names, n)
	}
	sort.Strings(names)
	src, err := sourcePatterns()
	if err != nil {
		problems = append(problems, "cannot read openssh_regex.go to cross-check the accessor table: "+err.Error())
	} else {
		for n, s := range src {
			re, ok := table[n]
			if !ok {
				problems = append(problems, "pattern "+n+" of openssh_regex.go is missing from the accessor table (harness/overlay/sshd_regex_verif.go)")
			} else if s != "?" && re.String() != s {
				problems = append(problems, "pattern "+n+": compiled value says "+re.String()+", source says "+s)
			}
		}
		for _, n := range names {
			if _, ok := src[n]; !ok {
				problems = append(problems, "accessor table entry "+n+" has no regexp.MustCompile declaration in openssh_regex.go")
			}
		}
	}
	var pats []*pat
	for _, n := range names {
		p := &pat{name: n, re: table[n]}
		tree, err := syntax.Parse(p.re.String(), syntax.Perl)
		if err != nil {
			p.bad = err.Error()
		} else if err := flatten(tree.Simplify(), &p.items); err != nil {
			p.bad = err.Error()
		} else {
			p.items = runeItems(p.items)
		}
		if p.bad != "" {
			problems = append(problems, "pattern "+n+" is outside the flat subset: "+p.bad)
		}
		p.runeSafe = p.bad == "" && runeSafe(p.items)
		pats = append(pats, p)
	}
	return pats, problems
}

// ---------------------------------------------------------------------------------------------------------------
// text generation from the pattern's structure

type genText struct {
	kind   string
	text   []byte
	parse  bool // built as a parse of the whole pattern: must match
	sticky bool // a field holds the literal that follows it
}

var words = []string{"root", "alice", "bob smith", "10.0.0.7", "fe80::1", "22", "50482", "ssh2", "x", "a b c", "user@example.com", "-", "_", "ED25519 SHA256", "/etc/ssh/k", "0", "9"}

var utf8Pieces = []string{"é", "ü", "ß", "日本", "語", "€", "𝔘", "😀", "ñ", "Ω", " ", " ", "�", "\u0080", "\U0010ffff"}

var invalidPieces = []string{"\x80", "\xbf", "\xc3", "\xe2\x82", "\xf0\x9f\x98", "\xc0\x80", "\xc1\xbf", "\xe0\x80\x80", "\xed\xa0\x80", "\xed\xbf\xbf",
	"\xf4\x90\x80\x80", "\xf5", "\xff", "\xfe\xff", "\xc3\xc3\xa9", "\xa9\xc3", "\xe2\x28\xa1", "\xf0\x28\x8c\xbc"}

func inClassBytes(c *[256]bool, printableOnly bool) []byte {
	var bs []byte
	for b := 0; b < 256; b++ {
		if c[b] && (!printableOnly || (b >= 0x20 && b < 0x7f)) {
			bs = append(bs, byte(b))
		}
	}
	return bs
}

func outClassBytes(c *[256]bool) []byte {
	var bs []byte
	for b := 0; b < 256; b++ {
		if !c[b] {
			bs = append(bs, byte(b))
		}
	}
	return bs
}

func allIn(c *[256]bool, s []byte) bool {
	for _, b := range s {
		if !c[b] {
			return false
		}
	}
	return true
}

// field content of about n bytes, all in class c
func fieldBytes(r *hutil.Rand, c *[256]bool, n int, style string) []byte {
	var out []byte
	pr := inClassBytes(c, true)
	all := inClassBytes(c, false)
	if len(all) == 0 {
		return nil
	}
	for len(out) < n {
		var piece []byte
		switch {
		case style == "utf8" && high(c) && r.Chance(2, 3):
			piece = []byte(hutil.Pick(r, utf8Pieces))
		case style == "invalid" && high(c) && r.Chance(2, 3):
			piece = []byte(hutil.Pick(r, invalidPieces))
		case style == "nul" && c[0] && r.Chance(1, 3):
			piece = []byte{0}
		case style == "anybyte":
			piece = []byte{hutil.Pick(r, all)}
		case r.Chance(1, 2):
			piece = []byte(hutil.Pick(r, words))
		default:
			if len(pr) > 0 {
				piece = []byte{hutil.Pick(r, pr)}
			} else {
				piece = []byte{hutil.Pick(r, all)}
			}
		}
		if !allIn(c, piece) {
			var f []byte
			for _, b := range piece {
				if c[b] {
					f = append(f, b)
				}
			}
			piece = f
			if len(piece) == 0 {
				piece = []byte{hutil.Pick(r, all)}
			}
		}
		out = append(out, piece...)
	}
	return out
}

func fieldLen(r *hutil.Rand, long bool) int {
	if long {
		return 40 + r.Intn(160)
	}
	switch x := r.Intn(20); {
	case x < 2:
		return 0
	case x < 15:
		return 1 + r.Intn(12)
	case x < 19:
		return 13 + r.Intn(30)
	}
	return 40 + r.Intn(60)
}

// one piece per item
func (p *pat) pieces(r *hutil.Rand, style string) [][]byte {
	ps := make([][]byte, len(p.items))
	longAt := -1
	if style == "long" {
		var stars []int
		for i, it := range p.items {
			if it.kind == "star" {
				stars = append(stars, i)
			}
		}
		if len(stars) > 0 {
			longAt = hutil.Pick(r, stars)
		}
	}
	for i, it := range p.items {
		switch it.kind {
		case "lit":
			ps[i] = []byte{it.lit}
		case "one":
			b := fieldBytes(r, it.cls, 1, style)
			// one BYTE for the model's IOne; a whole rune is kept when the style asks for it (the star behind it, if
			// any, takes the rest)
			if style != "utf8" && style != "invalid" && len(b) > 1 {
				b = b[:1]
			}
			if style == "utf8" && len(b) > 1 {
				_, w := utf8.DecodeRune(b)
				b = b[:w]
			}
			ps[i] = b
		case "rune":
			// one decoding step: an in-class ASCII byte, a multi-byte rune, or one invalid byte
			b := fieldBytes(r, it.cls, 1, style)
			if len(b) > 0 {
				_, w := utf8.DecodeRune(b)
				b = b[:w]
			}
			ps[i] = b
		case "star":
			ps[i] = fieldBytes(r, it.cls, fieldLen(r, i == longAt), style)
		}
	}
	return ps
}

// the literal run that follows item i (behind group marks)
func (p *pat) litAfter(i int) []byte {
	var l []byte
	for j := i + 1; j < len(p.items); j++ {
		switch p.items[j].kind {
		case "open", "close":
			if len(l) > 0 {
				return l
			}
		case "lit":
			l = append(l, p.items[j].lit)
		default:
			return l
		}
	}
	return l
}

func (p *pat) starIdx() []int {
	var xs []int
	for i, it := range p.items {
		if it.kind == "star" {
			xs = append(xs, i)
		}
	}
	return xs
}

func (p *pat) anchoredStart() bool { return len(p.items) > 0 && p.items[0].kind == "bol" }
func (p *pat) anchoredEnd() bool {
	return len(p.items) > 0 && p.items[len(p.items)-1].kind == "eol"
}

func junk(r *hutil.Rand) []byte {
	switch r.Intn(6) {
	case 0:
		return []byte("\n")
	case 1:
		return []byte(" ")
	case 2:
		return []byte(hutil.Pick(r, words))
	case 3:
		return []byte(hutil.Pick(r, utf8Pieces))
	case 4:
		return []byte(hutil.Pick(r, invalidPieces))
	}
	n := 1 + r.Intn(6)
	b := make([]byte, n)
	for i := range b {
		b[i] = byte(r.Intn(256))
	}
	return b
}

var kinds = []string{"base", "follow1", "base", "followN", "trunc", "utf8", "double", "invalid", "second", "prefix", "suffix", "outcls",
	"mutate", "trunc", "nul", "long", "follow1", "random", "randlits", "utf8", "anybyte", "invalid", "followN", "truncstar", "suffixnl", "empty"}

func (p *pat) gen(r *hutil.Rand, i int) genText {
	kind := kinds[i%len(kinds)]
	cat := func(ps [][]byte) []byte { return bytes.Join(ps, nil) }
	switch kind {
	case "base", "utf8", "invalid", "nul", "long", "anybyte":
		style := kind
		ps := p.pieces(r, style)
		return genText{kind: kind, text: cat(ps), parse: true}
	case "follow1", "followN":
		ps := p.pieces(r, "base")
		stars := p.starIdx()
		sticky := false
		if len(stars) > 0 {
			k := 1
			if kind == "followN" {
				k = 1 + r.Intn(len(stars))
			}
			for ; k > 0; k-- {
				si := hutil.Pick(r, stars)
				l := p.litAfter(si)
				if len(l) == 0 || !allIn(p.items[si].cls, l) {
					// nothing follows, or the class cannot hold what follows (\d+ in front of " ssh"): not a parse any more
					continue
				}
				reps := 1
				if kind == "followN" {
					reps = 1 + r.Intn(3)
				}
				f := ps[si]
				for ; reps > 0; reps-- {
					f = append(append(append([]byte{}, f...), l...), fieldBytes(r, p.items[si].cls, r.Intn(6), "base")...)
				}
				ps[si] = f
				sticky = true
			}
		}
		return genText{kind: kind, text: cat(ps), parse: true, sticky: sticky}
	case "trunc", "truncstar":
		ps := p.pieces(r, "base")
		cut := r.Intn(len(ps) + 1)
		if kind == "truncstar" {
			if stars := p.starIdx(); len(stars) > 0 {
				cut = hutil.Pick(r, stars) + r.Intn(2)
			}
		}
		return genText{kind: kind, text: cat(ps[:cut])}
	case "double":
		ps := p.pieces(r, "base")
		a := r.Intn(len(ps))
		b := a + 1 + r.Intn(len(ps)-a)
		var out [][]byte
		out = append(out, ps[:b]...)
		out = append(out, ps[a:b]...)
		out = append(out, ps[b:]...)
		return genText{kind: kind, text: cat(out)}
	case "second":
		t := cat(p.pieces(r, "base"))
		t = append(t, junk(r)...)
		t = append(t, cat(p.pieces(r, "base"))...)
		return genText{kind: kind, text: t, parse: !p.anchoredStart() && !p.anchoredEnd()}
	case "prefix":
		t := append(junk(r), cat(p.pieces(r, "base"))...)
		return genText{kind: kind, text: t, parse: !p.anchoredStart()}
	case "suffix":
		t := append(cat(p.pieces(r, "base")), junk(r)...)
		return genText{kind: kind, text: t, parse: !p.anchoredEnd()}
	case "suffixnl":
		t := append(cat(p.pieces(r, "base")), '\n')
		return genText{kind: kind, text: t, parse: !p.anchoredEnd()}
	case "outcls":
		ps := p.pieces(r, "base")
		var cand []int
		for j, it := range p.items {
			if (it.kind == "star" || it.kind == "one" || it.kind == "rune") && len(ps[j]) > 0 && len(outClassBytes(it.cls)) > 0 {
				cand = append(cand, j)
			}
		}
		if len(cand) > 0 {
			j := hutil.Pick(r, cand)
			f := append([]byte{}, ps[j]...)
			f[r.Intn(len(f))] = hutil.Pick(r, outClassBytes(p.items[j].cls))
			ps[j] = f
		}
		return genText{kind: kind, text: cat(ps)}
	case "mutate":
		t := cat(p.pieces(r, "base"))
		if len(t) > 0 {
			k := r.Intn(len(t))
			switch r.Intn(3) {
			case 0:
				t[k] = byte(r.Intn(256))
			case 1:
				t = append(t[:k], t[k+1:]...)
			default:
				t = append(t[:k], append([]byte{byte(r.Intn(256))}, t[k:]...)...)
			}
		}
		return genText{kind: kind, text: t}
	case "random":
		n := r.Intn(40)
		t := make([]byte, n)
		for k := range t {
			t[k] = byte(r.Intn(256))
		}
		return genText{kind: kind, text: t}
	case "randlits":
		var t []byte
		for j := 0; j < len(p.items); j++ {
			if p.items[j].kind == "lit" {
				l := []byte{p.items[j].lit}
				for j+1 < len(p.items) && p.items[j+1].kind == "lit" {
					j++
					l = append(l, p.items[j].lit)
				}
				if r.Chance(3, 4) {
					t = append(t, l...)
				}
			}
			if r.Chance(1, 3) {
				t = append(t, junk(r)...)
			}
		}
		return genText{kind: kind, text: t}
	}
	return genText{kind: "empty", text: nil}
}

// ---------------------------------------------------------------------------------------------------------------
// observation, oracle, Coq rendering

type obs struct {
	idx []int
	ms  bool
}

func observe(p *pat, text []byte) obs {
	s := string(text)
	return obs{idx: p.re.FindStringSubmatchIndex(s), ms: p.re.MatchString(s)}
}

// litRuns: the maximal literal runs of the pattern, in order
func (p *pat) litRuns() [][]byte {
	var runs [][]byte
	var cur []byte
	for _, it := range p.items {
		if it.kind == "lit" {
			cur = append(cur, it.lit)
			continue
		}
		if it.kind == "open" || it.kind == "close" {
			continue
		}
		if len(cur) > 0 {
			runs = append(runs, cur)
			cur = nil
		}
	}
	if len(cur) > 0 {
		runs = append(runs, cur)
	}
	return runs
}

// simpleGroups: group -> class, for groups whose body is  k*  or  k+ (k k*)
func (p *pat) simpleGroups() map[int]*[256]bool {
	res := map[int]*[256]bool{}
	for i, it := range p.items {
		if it.kind != "open" {
			continue
		}
		j := i + 1
		var c *[256]bool
		if j < len(p.items) && p.items[j].kind == "one" {
			c = p.items[j].cls
			j++
		}
		if j < len(p.items) && p.items[j].kind == "star" && (c == nil || *c == *p.items[j].cls) {
			c = p.items[j].cls
			j++
			if j < len(p.items) && p.items[j].kind == "close" && p.items[j].g == it.g {
				res[it.g] = c
			}
		}
	}
	return res
}

func judgeRegex(p *pat, g genText, o obs) []string {
	var fs []string
	text := g.text
	if (o.idx != nil) != o.ms {
		fs = append(fs, fmt.Sprintf("%s: MatchString=%v but FindStringSubmatchIndex=%v", p.name, o.ms, o.idx))
	}
	if g.parse && o.idx == nil {
		fs = append(fs, fmt.Sprintf("%s: a text built as a parse of the pattern (%s) does not match", p.name, g.kind))
	}
	// ^literal / literal$
	if p.anchoredStart() {
		if l := p.litAfter(0); len(l) > 0 && !bytes.HasPrefix(text, l) && o.idx != nil {
			fs = append(fs, fmt.Sprintf("%s: matches a text that does not start with %q", p.name, l))
		}
	}
	if p.anchoredEnd() && len(p.items) >= 2 {
		runs := p.litRuns()
		last := p.items[len(p.items)-2]
		if last.kind == "lit" && len(runs) > 0 && !bytes.HasSuffix(text, runs[len(runs)-1]) && o.idx != nil {
			fs = append(fs, fmt.Sprintf("%s: matches a text that does not end with %q", p.name, runs[len(runs)-1]))
		}
	}
	if o.idx == nil {
		return fs
	}
	n := p.re.NumSubexp()
	if len(o.idx) != 2*(n+1) {
		return append(fs, fmt.Sprintf("%s: %d indices for %d groups", p.name, len(o.idx), n))
	}
	s, e := o.idx[0], o.idx[1]
	if !(0 <= s && s <= e && e <= len(text)) {
		return append(fs, fmt.Sprintf("%s: match range [%d,%d) outside the text (%d bytes)", p.name, s, e, len(text)))
	}
	prev := s
	for k := 1; k <= n; k++ {
		a, b := o.idx[2*k], o.idx[2*k+1]
		if !(s <= a && a <= b && b <= e) {
			fs = append(fs, fmt.Sprintf("%s: group %d = [%d,%d) not inside the match [%d,%d)", p.name, k, a, b, s, e))
			return fs
		}
		if a < prev {
			fs = append(fs, fmt.Sprintf("%s: group %d starts at %d, before the end %d of the group in front of it", p.name, k, a, prev))
		}
		prev = b
	}
	// the matched text alone matches again, at offset 0, with the same groups
	again := p.re.FindStringSubmatchIndex(string(text[s:e]))
	same := len(again) == len(o.idx)
	for k := range o.idx {
		if same && again[k] != o.idx[k]-s {
			same = false
		}
	}
	if !same {
		fs = append(fs, fmt.Sprintf("%s: the matched text %q re-matched gives %v, expected %v shifted by %d", p.name, text[s:e], again, o.idx, s))
	}
	// literal runs in order inside the match
	at := s
	for _, l := range p.litRuns() {
		k := bytes.Index(text[at:e], l)
		if k < 0 {
			fs = append(fs, fmt.Sprintf("%s: literal %q does not occur (in order) inside the match %q", p.name, l, text[s:e]))
			break
		}
		at += k + len(l)
	}
	// class fields
	for gno, c := range p.simpleGroups() {
		if !allIn(c, text[o.idx[2*gno]:o.idx[2*gno+1]]) {
			fs = append(fs, fmt.Sprintf("%s: group %d = %q holds a byte outside its class", p.name, gno, text[o.idx[2*gno]:o.idx[2*gno+1]]))
		}
	}
	return fs
}

// a greedy class field stopped although the next byte is in its class: it had to give bytes back
func (p *pat) backtracked(text []byte, idx []int) bool {
	for gno, c := range p.simpleGroups() {
		end := idx[2*gno+1]
		if end < len(text) && c[text[end]] {
			return true
		}
	}
	return false
}

// a captured greedy field holds the literal that follows it in the pattern (a leftmost scan for that literal would
// have cut the field short)
func (p *pat) fieldHoldsFollower(text []byte, idx []int) bool {
	for i, it := range p.items {
		if it.kind != "close" {
			continue
		}
		if _, ok := p.simpleGroups()[it.g]; !ok {
			continue
		}
		l := p.litAfter(i)
		if len(l) > 0 && bytes.Contains(text[idx[2*it.g]:idx[2*it.g+1]], l) {
			return true
		}
	}
	return false
}

func isASCII(b []byte) bool {
	for _, c := range b {
		if c >= 0x80 {
			return false
		}
	}
	return true
}

func coqIdx(idx []int) (string, bool) {
	if idx == nil {
		return "None", true
	}
	ok := true
	var xs []string
	for _, v := range idx {
		if v < 0 {
			ok = false
			v = 99999999
		}
		xs = append(xs, strconv.Itoa(v))
	}
	return "(Some [" + strings.Join(xs, "; ") + "]%N)", ok
}

func runRegex(sum *hutil.Summary, out string, seed uint64, n, maxLen int) {
	r := hutil.NewRand(seed ^ 0x5e6e)
	pats, problems := loadPatterns()
	for _, pr := range problems {
		sum.FailKey("harness", "pattern-table", pr, nil)
	}
	total := len(pats) * (n + 1)
	per := (total + 15) / 16
	if per < 60 {
		per = 60
	}
	cases := &hutil.CaseFile{Dir: out, Stem: "cases_regex", PerFile: per,
		Header: "From Coq Require Import Ascii String List Bool Arith NArith.\nImport ListNotations.\nFrom AM Require Import Lib.Bytes Lib.Regex Gen.SshdRegexes Model.RegexSpec Model.PrimsCheck.\n",
		Footer: func(int) string { return "Definition M := Eval vm_compute in regex_mismatches cases.\nPrint M.\n" }}
	for _, p := range pats {
		if p.bad != "" {
			continue
		}
		cases.AddDesc(fmt.Sprintf("RP %s %s", p.name, hutil.CoqBool(p.runeSafe)), replayDoc{Regex: &regexReplay{Name: p.name, Kind: "pattern"}})
		if p.runeSafe {
			sum.Dist("patterns_rune_safe")
		} else {
			sum.Dist("patterns_not_rune_safe(" + p.name + ")")
		}
	}
	for i := 0; i < n; i++ {
		for _, p := range pats {
			if p.bad != "" {
				continue
			}
			g := p.gen(r, i)
			if len(g.text) > maxLen {
				g.text = g.text[:maxLen]
				g.parse = false
				g.kind += "+cut"
			}
			o := observe(p, g.text)
			rp := replayDoc{Regex: &regexReplay{Name: p.name, Kind: g.kind, TextHex: hex.EncodeToString(g.text), Text: printable(g.text)}}
			for _, f := range judgeRegex(p, g, o) {
				sum.FailKey("oracle", "regex:"+p.name, f, rp)
			}
			dom := p.runeSafe || isASCII(g.text)
			ci, ok := coqIdx(o.idx)
			if !ok {
				sum.FailKey("harness", "regex:"+p.name, fmt.Sprintf("%s: a group did not take part in the match (-1): %v", p.name, o.idx), rp)
			}
			cases.AddDesc(fmt.Sprintf("RC %s %s %s %s %s", p.name, hutil.CoqBool(dom), hutil.CoqBytes(g.text), ci, hutil.CoqBool(o.ms)), rp)
			sum.Count(p.name+"\x00"+string(g.text), o.idx != nil)
			sum.Dist("kind_" + strings.TrimSuffix(g.kind, "+cut"))
			if !dom {
				sum.Dist("outside_domain(non-ASCII text, pattern not rune-safe)")
			}
			if o.idx != nil {
				sum.Dist("match")
				sum.Dist(p.name + "_match")
				if p.backtracked(g.text, o.idx) {
					sum.Dist("match_greedy_field_gave_bytes_back")
				}
				if p.fieldHoldsFollower(g.text, o.idx) {
					sum.Dist("match_field_holds_its_following_literal")
					sum.Dist(p.name + "_backtracked")
				}
				if o.idx[0] > 0 {
					sum.Dist("match_starts_later_than_0")
				}
			} else {
				sum.Dist("no_match")
				sum.Dist(p.name + "_no_match")
			}
			if !isASCII(g.text) {
				sum.Dist("text_non_ascii")
			}
			switch l := len(g.text); {
			case l == 0:
				sum.Dist("len_0")
			case l < 64:
				sum.Dist("len_1-63")
			case l < 160:
				sum.Dist("len_64-159")
			default:
				sum.Dist("len_160+")
			}
			if i == 1 && len(sum.Samples) < 4 {
				sum.Sample(map[string]any{"pattern": p.name, "kind": g.kind, "text": printable(g.text), "index": o.idx})
			}
		}
	}
	cases.Flush()
	sum.CaseFiles = append(sum.CaseFiles, cases.Files...)
}
