//go:build verif

package main

import (
	"encoding/hex"
	"fmt"
	"math"
	"math/big"
	"strconv"
	"strings"

	"github.com/metal-toolbox/audito-maldito/internal/verifharness/hutil"
)

const stringsRule = "each function of coq/Lib/GoStrings.v against the real function of package strings (HasPrefix HasSuffix TrimPrefix TrimSuffix Index Cut Split " +
	"Join TrimLeft), the string comparison <, s[i] / s[a:] / s[:b] / s[a:b] with their run-time panics, uint64 + * -, int32 + -, uint64(int32), and " +
	"Model/SshdProc.atoi against strconv.Atoi: argument strings of 0..14 bytes over a small alphabet (so that separators occur, overlap - aaa/aa - and nearly " +
	"occur), separators / prefixes / cutsets of 0..3 bytes (often cut out of the string itself), the empty string on either side, NUL, multi-byte runes and " +
	"invalid UTF-8; numbers next to 0, 2^31, 2^32, 2^63, 2^64; Atoi: optional sign, 0..25 digits, values next to the int64 limits, leading zeros, underscores, " +
	"spaces, letters, non-ASCII digits, sign only. Domain guards carried by the case: Split is modelled for a non-empty separator, TrimLeft for an ASCII cutset " +
	"(outside: counted, not compared). Oracle on Go's results alone: Join(Split(s, sep), sep) = s; Index is the first occurrence; Cut consistent with Index; " +
	"Atoi of a sign-and-digits string = the big-integer value iff it fits int64. non-trivial = every case; distinct by (function, arguments)"

type strCase struct {
	Fn    string   `json:"fn"`
	A     string   `json:"a,omitempty"`     // hex
	B     string   `json:"b,omitempty"`     // hex
	Parts []string `json:"parts,omitempty"` // hex
	X     string   `json:"x,omitempty"`     // decimal numbers
	Y     string   `json:"y,omitempty"`
	I     int      `json:"i,omitempty"`
	J     int      `json:"j,omitempty"`
	a, b  string
	parts []string
	// results
	rb    bool
	rs    string
	rss   []string
	ri    int
	rs2   string
	rn    string // decimal
	panic bool
	err   bool
	dom   bool
}

func hx(s string) string { return hex.EncodeToString([]byte(s)) }

func unhx(h string) string {
	b, _ := hex.DecodeString(h)
	return string(b)
}

func (c *strCase) load() {
	c.a, c.b = unhx(c.A), unhx(c.B)
	c.parts = nil
	for _, p := range c.Parts {
		c.parts = append(c.parts, unhx(p))
	}
}

func caught(f func()) (p bool) {
	defer func() {
		if recover() != nil {
			p = true
		}
	}()
	f()
	return false
}

func bigOf(s string) *big.Int {
	v, _ := new(big.Int).SetString(s, 10)
	if v == nil {
		v = new(big.Int)
	}
	return v
}

func runStrCase(c *strCase) {
	c.load()
	c.dom = true
	a, b := c.a, c.b
	switch c.Fn {
	case "HasPrefix":
		c.rb = strings.HasPrefix(a, b)
	case "HasSuffix":
		c.rb = strings.HasSuffix(a, b)
	case "TrimPrefix":
		c.rs = strings.TrimPrefix(a, b)
	case "TrimSuffix":
		c.rs = strings.TrimSuffix(a, b)
	case "Index":
		c.ri = strings.Index(a, b)
	case "Cut":
		c.rs, c.rs2, c.rb = strings.Cut(a, b)
	case "Split":
		c.rss = strings.Split(a, b)
		c.dom = b != ""
	case "Join":
		c.rs = strings.Join(c.parts, b)
	case "TrimLeft":
		c.rs = strings.TrimLeft(a, b)
		c.dom = isASCII([]byte(b))
	case "Lt":
		c.rb = a < b
	case "U64Add", "U64Mul", "U64Sub":
		x, y := bigOf(c.X).Uint64(), bigOf(c.Y).Uint64()
		var z uint64
		switch c.Fn {
		case "U64Add":
			z = x + y
		case "U64Mul":
			z = x * y
		default:
			z = x - y
		}
		c.rn = strconv.FormatUint(z, 10)
	case "I32Add", "I32Sub":
		x, y := int32(bigOf(c.X).Int64()), int32(bigOf(c.Y).Int64())
		z := x + y
		if c.Fn == "I32Sub" {
			z = x - y
		}
		c.rn = strconv.FormatInt(int64(z), 10)
	case "U64OfI32":
		x := int32(bigOf(c.X).Int64())
		c.rn = strconv.FormatUint(uint64(x), 10)
	case "Atoi":
		v, err := strconv.Atoi(a)
		c.err = err != nil
		c.rn = strconv.Itoa(v)
	case "Nth":
		c.panic = caught(func() { c.ri = int(a[c.I]) })
	case "SliceFrom":
		c.panic = caught(func() { c.rs = a[c.I:] })
	case "SliceTo":
		c.panic = caught(func() { c.rs = a[:c.I] })
	case "Slice":
		c.panic = caught(func() { c.rs = a[c.I:c.J] })
	}
}

func coqZs(dec string) string {
	if strings.HasPrefix(dec, "-") {
		return "(" + dec + ")%Z"
	}
	return dec + "%Z"
}

func coqStrs(xs []string) string {
	var ys []string
	for _, x := range xs {
		ys = append(ys, hutil.CoqStr(x))
	}
	return hutil.CoqList(ys)
}

func optStr(panicked bool, s string) string {
	if panicked {
		return "None"
	}
	return "(Some " + hutil.CoqStr(s) + ")"
}

func (c *strCase) coq() string {
	A, B := hutil.CoqStr(c.a), hutil.CoqStr(c.b)
	switch c.Fn {
	case "HasPrefix", "HasSuffix", "Lt":
		return fmt.Sprintf("S%s %s %s %s", c.Fn, A, B, hutil.CoqBool(c.rb))
	case "TrimPrefix", "TrimSuffix":
		return fmt.Sprintf("S%s %s %s %s", c.Fn, A, B, hutil.CoqStr(c.rs))
	case "Index":
		if c.ri < 0 {
			return fmt.Sprintf("SIndex %s %s None", A, B)
		}
		return fmt.Sprintf("SIndex %s %s (Some %d%%N)", A, B, c.ri)
	case "Cut":
		return fmt.Sprintf("SCut %s %s %s %s %s", A, B, hutil.CoqStr(c.rs), hutil.CoqStr(c.rs2), hutil.CoqBool(c.rb))
	case "Split":
		return fmt.Sprintf("SSplit %s %s %s %s", hutil.CoqBool(c.dom), A, B, coqStrs(c.rss))
	case "Join":
		return fmt.Sprintf("SJoin %s %s %s", coqStrs(c.parts), B, hutil.CoqStr(c.rs))
	case "TrimLeft":
		return fmt.Sprintf("STrimLeft %s %s %s %s", hutil.CoqBool(c.dom), A, B, hutil.CoqStr(c.rs))
	case "U64Add", "U64Mul", "U64Sub":
		return fmt.Sprintf("S%s %s%%N %s%%N %s%%N", c.Fn, c.X, c.Y, c.rn)
	case "I32Add", "I32Sub":
		return fmt.Sprintf("S%s %s %s %s", c.Fn, coqZs(c.X), coqZs(c.Y), coqZs(c.rn))
	case "U64OfI32":
		return fmt.Sprintf("SU64OfI32 %s %s%%N", coqZs(c.X), c.rn)
	case "Atoi":
		if c.err {
			return fmt.Sprintf("SAtoi %s None", A)
		}
		return fmt.Sprintf("SAtoi %s (Some %s)", A, coqZs(c.rn))
	case "Nth":
		if c.panic {
			return fmt.Sprintf("SNth %s %d%%N None", A, c.I)
		}
		return fmt.Sprintf("SNth %s %d%%N (Some %d%%N)", A, c.I, c.ri)
	case "SliceFrom", "SliceTo":
		return fmt.Sprintf("S%s %s %d%%N %s", c.Fn, A, c.I, optStr(c.panic, c.rs))
	case "Slice":
		return fmt.Sprintf("SSlice %s %d%%N %d%%N %s", A, c.I, c.J, optStr(c.panic, c.rs))
	}
	return "UNKNOWN_" + c.Fn
}

// oracles on Go's own results
func judgeStr(c *strCase) []string {
	var fs []string
	a, b := c.a, c.b
	first := func() int { // first occurrence by definition
		for i := 0; i+len(b) <= len(a); i++ {
			if a[i:i+len(b)] == b {
				return i
			}
		}
		return -1
	}
	switch c.Fn {
	case "Index":
		if c.ri != first() {
			fs = append(fs, fmt.Sprintf("Index(%q, %q) = %d, first occurrence is at %d", a, b, c.ri, first()))
		}
	case "Cut":
		i := first()
		if (i >= 0) != c.rb || (i >= 0 && (c.rs != a[:i] || c.rs2 != a[i+len(b):])) || (i < 0 && (c.rs != a || c.rs2 != "")) {
			fs = append(fs, fmt.Sprintf("Cut(%q, %q) = (%q, %q, %v) inconsistent with the first occurrence %d", a, b, c.rs, c.rs2, c.rb, i))
		}
	case "Split":
		if b != "" {
			if strings.Join(c.rss, b) != a {
				fs = append(fs, fmt.Sprintf("Join(Split(%q, %q), sep) = %q", a, b, strings.Join(c.rss, b)))
			}
			if len(c.rss) != strings.Count(a, b)+1 {
				fs = append(fs, fmt.Sprintf("Split(%q, %q) has %d pieces, Count+1 = %d", a, b, len(c.rss), strings.Count(a, b)+1))
			}
		}
	case "HasPrefix":
		if c.rb != (len(a) >= len(b) && a[:len(b)] == b) {
			fs = append(fs, fmt.Sprintf("HasPrefix(%q, %q) = %v", a, b, c.rb))
		}
	case "HasSuffix":
		if c.rb != (len(a) >= len(b) && a[len(a)-len(b):] == b) {
			fs = append(fs, fmt.Sprintf("HasSuffix(%q, %q) = %v", a, b, c.rb))
		}
	case "Atoi":
		body := a
		if len(body) > 0 && (body[0] == '+' || body[0] == '-') {
			body = body[1:]
		}
		digits := body != ""
		for _, ch := range []byte(body) {
			if ch < '0' || ch > '9' {
				digits = false
			}
		}
		if !digits {
			if !c.err {
				fs = append(fs, fmt.Sprintf("Atoi(%q) = %s without an error", a, c.rn))
			}
		} else {
			v := bigOf(strings.TrimPrefix(a, "+"))
			fits := v.Cmp(big.NewInt(math.MinInt64)) >= 0 && v.Cmp(big.NewInt(math.MaxInt64)) <= 0
			if fits == c.err || (fits && v.String() != c.rn) {
				fs = append(fs, fmt.Sprintf("Atoi(%q) = %s err=%v, the value is %s", a, c.rn, c.err, v))
			}
		}
	}
	return fs
}

// ---------------------------------------------------------------------------------------------------------------
// generation

var alpha = []string{"a", "a", "a", "b", "b", " ", ":", "ab", "\x00", "é", "\xc3", "\xa9", "\xff", "日", "="}

func genS(r *hutil.Rand, max int) string {
	n := r.Intn(max + 1)
	var sb strings.Builder
	for sb.Len() < n {
		sb.WriteString(hutil.Pick(r, alpha))
	}
	return sb.String()
}

// a short string, often cut out of s
func genSep(r *hutil.Rand, s string, max int) string {
	switch r.Intn(6) {
	case 0:
		return ""
	case 1, 2, 3:
		if len(s) > 0 {
			i := r.Intn(len(s))
			l := 1 + r.Intn(max)
			if i+l > len(s) {
				l = len(s) - i
			}
			return s[i : i+l]
		}
	}
	return genS(r, max)
}

var edgePairs = [][2]string{{"aaa", "aa"}, {"aaaa", "aa"}, {"", ""}, {"abc", ""}, {"", "a"}, {"a", "a"}, {"ab", "abc"}, {"abab", "ab"}, {"aab", "ab"}, {"a:b::c", ":"},
	{"a::b", "::"}, {":::", "::"}, {"  x ", " "}, {"é", "\xa9"}, {"é日", ""}, {"\xff\xfe", ""}, {"x\n", "\n"}, {"ababa", "aba"}, {"aaa", "a"}, {"abc", "abc"}, {"abc", "c"}, {"abc", "bc"}}

var u64Edges = []string{"0", "1", "2", "9", "10", "255", "2147483647", "2147483648", "4294967295", "4294967296", "9223372036854775807", "9223372036854775808",
	"18446744073709551615", "18446744073709551614", "1844674407370955161", "1844674407370955162", "12345678901234567"}

var i32Edges = []string{"0", "1", "-1", "48", "57", "2147483647", "-2147483648", "2147483646", "-2147483647", "1073741824", "-1073741824", "65533", "127"}

var atoiEdges = []string{"", "+", "-", "0", "-0", "+0", "00", "007", "9223372036854775807", "9223372036854775808", "-9223372036854775808", "-9223372036854775809",
	"+9223372036854775807", "+9223372036854775808", "09223372036854775807", "000000000000000000000000001", "99999999999999999999", "-99999999999999999999",
	"18446744073709551616", "1_000", "1 ", " 1", "1\n", "0x10", "1e3", "１", "٣", "+-1", "--1", "-+1", "1-", "1+1", "12a", "a12", "1.0", "\x001", "999999999999999999",
	"1000000000000000000", "-999999999999999999", "123456789012345678", "2147483648", "-2147483649", "4294967296", "22", "50482", "65535", "-", "+a", "\xff"}

func genAtoi(r *hutil.Rand, i int) string {
	if i < len(atoiEdges) {
		return atoiEdges[i]
	}
	var sb strings.Builder
	switch r.Intn(6) {
	case 0:
		sb.WriteByte('-')
	case 1:
		sb.WriteByte('+')
	}
	n := r.Intn(26)
	if r.Chance(1, 3) {
		n = 17 + r.Intn(4)
	}
	for k := 0; k < n; k++ {
		sb.WriteByte(byte('0' + r.Intn(10)))
	}
	s := sb.String()
	if r.Chance(1, 8) && len(s) > 0 {
		k := r.Intn(len(s))
		s = s[:k] + hutil.Pick(r, []string{"_", " ", "a", "-", "+", ".", "\x00", "é"}) + s[k:]
	}
	if r.Chance(1, 6) {
		// next to the int64 limits
		v := new(big.Int).Add(big.NewInt(math.MaxInt64), big.NewInt(int64(r.Intn(5)-2)))
		if r.Bool() {
			v.Neg(v)
			v.Sub(v, big.NewInt(1))
		}
		s = v.String()
	}
	return s
}

func genNum(r *hutil.Rand, edges []string, signed bool) string {
	if r.Chance(2, 3) {
		return hutil.Pick(r, edges)
	}
	if signed {
		return strconv.FormatInt(int64(int32(r.U64())), 10)
	}
	v := r.U64()
	if r.Bool() {
		v >>= uint(r.Intn(64))
	}
	return strconv.FormatUint(v, 10)
}

var fns = []string{"HasPrefix", "HasSuffix", "TrimPrefix", "TrimSuffix", "Index", "Cut", "Split", "Join", "TrimLeft", "Lt", "U64Add", "U64Mul", "U64Sub",
	"I32Add", "I32Sub", "U64OfI32", "Atoi", "Nth", "SliceFrom", "SliceTo", "Slice"}

func genStrCase(r *hutil.Rand, fn string, i int) *strCase {
	c := &strCase{Fn: fn}
	pair := func() (string, string) {
		if i < len(edgePairs) {
			return edgePairs[i][0], edgePairs[i][1]
		}
		s := genS(r, 14)
		return s, genSep(r, s, 3)
	}
	switch fn {
	case "HasPrefix", "TrimPrefix":
		s, p := pair()
		if i >= len(edgePairs) && r.Chance(1, 2) && len(s) > 0 {
			p = s[:r.Intn(len(s)+1)]
		}
		c.A, c.B = hx(s), hx(p)
	case "HasSuffix", "TrimSuffix":
		s, p := pair()
		if i >= len(edgePairs) && r.Chance(1, 2) && len(s) > 0 {
			p = s[r.Intn(len(s)+1):]
		}
		c.A, c.B = hx(s), hx(p)
	case "Index", "Cut", "Split", "TrimLeft":
		s, p := pair()
		c.A, c.B = hx(s), hx(p)
	case "Lt":
		s, p := pair()
		if i >= len(edgePairs) {
			switch r.Intn(4) {
			case 0:
				p = s
			case 1:
				p = s + genS(r, 2)
			case 2:
				if len(s) > 0 {
					k := r.Intn(len(s))
					p = s[:k] + string([]byte{s[k] + byte(1+r.Intn(3))}) + s[k+1:]
				}
			default:
				p = genS(r, 14)
			}
		}
		c.A, c.B = hx(s), hx(p)
	case "Join":
		n := r.Intn(5)
		if i < 3 {
			n = i
		}
		for k := 0; k < n; k++ {
			c.Parts = append(c.Parts, hx(genS(r, 5)))
		}
		c.B = hx(genS(r, 3))
	case "U64Add", "U64Mul", "U64Sub":
		c.X, c.Y = genNum(r, u64Edges, false), genNum(r, u64Edges, false)
	case "I32Add", "I32Sub":
		c.X, c.Y = genNum(r, i32Edges, true), genNum(r, i32Edges, true)
	case "U64OfI32":
		c.X = genNum(r, i32Edges, true)
	case "Atoi":
		c.A = hx(genAtoi(r, i))
	case "Nth", "SliceFrom", "SliceTo":
		s := genS(r, 8)
		c.A, c.I = hx(s), r.Intn(len(s)+3)
	case "Slice":
		s := genS(r, 8)
		c.A, c.I, c.J = hx(s), r.Intn(len(s)+3), r.Intn(len(s)+3)
	}
	return c
}

func runStrings(sum *hutil.Summary, out string, seed uint64, n int) {
	r := hutil.NewRand(seed ^ 0x57a1)
	total := len(fns) * n
	per := (total + 7) / 8
	if per < 100 {
		per = 100
	}
	cases := &hutil.CaseFile{Dir: out, Stem: "cases_strings", PerFile: per,
		Header: "From Coq Require Import Ascii String List Bool Arith NArith ZArith.\nImport ListNotations.\nFrom AM Require Import Lib.Bytes Model.PrimsCheck.\n",
		Footer: func(int) string { return "Definition M := Eval vm_compute in strings_mismatches cases.\nPrint M.\n" }}
	for _, fn := range fns {
		m := n
		if fn == "Atoi" {
			m = 3*n + len(atoiEdges)
		}
		if fn == "Index" || fn == "Split" || fn == "Cut" {
			m = 2*n + len(edgePairs)
		}
		for i := 0; i < m; i++ {
			c := genStrCase(r, fn, i)
			runStrCase(c)
			rp := replayDoc{Strings: c}
			for _, f := range judgeStr(c) {
				sum.FailKey("oracle", "strings:"+fn, f, rp)
			}
			cases.AddDesc(c.coq(), rp)
			sum.Count(fn+"\x00"+c.A+"\x00"+c.B+"\x00"+strings.Join(c.Parts, ",")+"\x00"+c.X+"\x00"+c.Y+fmt.Sprint(c.I, c.J), true)
			sum.Dist("fn_" + fn)
			if !c.dom {
				sum.Dist("outside_domain_" + fn)
			}
			if c.panic {
				sum.Dist("panic_" + fn)
			}
			if fn == "Atoi" {
				if c.err {
					sum.Dist("atoi_error")
				} else {
					sum.Dist("atoi_value")
				}
			}
			if fn == "Index" && c.ri >= 0 {
				sum.Dist("index_found")
			}
			if fn == "Split" && len(c.rss) > 2 {
				sum.Dist("split_3_or_more_pieces")
			}
			if i == 0 && len(sum.Samples) < 5 && (fn == "Split" || fn == "Atoi" || fn == "Cut") {
				sum.Sample(map[string]any{"fn": fn, "case": c.coq()})
			}
		}
	}
	cases.Flush()
	sum.CaseFiles = append(sum.CaseFiles, cases.Files...)
}
