//go:build verif

// Harness "prims": function-level correspondence for the primitives under the sshd / syslog models.
//
//	-mode regex   (C06, also listed for C11 C17): every pattern of processors/sshd/openssh_regex.go - the package's own
//	              compiled *regexp.Regexp values, handed over by the verif-tagged accessor VerifRegexes - is run with
//	              FindStringSubmatchIndex and MatchString on texts generated FROM the pattern's structure; every case
//	              goes to Coq (Model/PrimsCheck.v) where the regenerated Gen/SshdRegexes.v entry of the same name is
//	              matched by the model (find_idx: all indices; Lib.Regex.find: the captured strings; matches).
//	-mode strings (C07): every function of coq/Lib/GoStrings.v against the real strings function, atoi against
//	              strconv.Atoi, on generated argument pairs.
//
// Oracles (independent of the Coq model) are evaluated on the real functions' results; a failing one is reported with
// the input as replay (-replay <file> re-runs it).
package main

import (
	"encoding/hex"
	"encoding/json"
	"flag"
	"fmt"
	"os"
	"runtime"
	"time"

	"github.com/metal-toolbox/audito-maldito/internal/verifharness/hutil"
)

type replayDoc struct {
	Regex   *regexReplay `json:"regex,omitempty"`
	Strings *strCase     `json:"strings,omitempty"`
}

type regexReplay struct {
	Name    string `json:"name"`
	Kind    string `json:"kind"`
	TextHex string `json:"text_hex"`
	Text    string `json:"text_printable"`
}

func printable(b []byte) string {
	out := make([]byte, 0, len(b))
	for _, c := range b {
		if c >= 0x20 && c < 0x7f && c != '\\' {
			out = append(out, c)
		} else {
			out = append(out, []byte(fmt.Sprintf("\\x%02x", c))...)
		}
	}
	return string(out)
}

func main() {
	out := flag.String("out", "", "output directory")
	mode := flag.String("mode", "regex", "regex | strings")
	prop := flag.String("prop", "", "property id for the summary (default C06 for regex, C07 for strings)")
	n := flag.Int("n", 30, "regex: texts per pattern; strings: cases per function")
	maxLen := flag.Int("maxlen", 260, "regex: longest generated text handed to the model")
	replay := flag.String("replay", "", "replay file")
	flag.Parse()
	if *out == "" {
		*out = "."
	}
	if *replay != "" {
		os.Exit(doReplay(*replay))
	}
	seed := hutil.SeedFromEnv()
	if *prop == "" {
		if *mode == "strings" {
			*prop = "C07"
		} else {
			*prop = "C06"
		}
	}
	t0 := time.Now()
	var sum *hutil.Summary
	switch *mode {
	case "regex":
		sum = hutil.NewSummary(*prop, seed, regexRule)
		runRegex(sum, *out, seed, *n, *maxLen)
	case "strings":
		sum = hutil.NewSummary(*prop, seed, stringsRule)
		runStrings(sum, *out, seed, *n)
	default:
		fmt.Println("unknown mode", *mode)
		os.Exit(2)
	}
	sum.Notes = append(sum.Notes, fmt.Sprintf("prims -mode %s: %s, wall time %.1fs", *mode, runtime.Version(), time.Since(t0).Seconds()))
	sum.Write(*out)
}

func doReplay(path string) int {
	raw, err := os.ReadFile(path)
	if err != nil {
		fmt.Println("cannot read replay:", err)
		return 2
	}
	var rp struct {
		Replay replayDoc `json:"replay"`
	}
	if err := json.Unmarshal(raw, &rp); err != nil || (rp.Replay.Regex == nil && rp.Replay.Strings == nil) {
		fmt.Println("replay file carries no case (no failing input was found)")
		return 2
	}
	var fs []string
	if c := rp.Replay.Regex; c != nil {
		pats, problems := loadPatterns()
		for _, p := range problems {
			fmt.Println("pattern table:", p)
		}
		text, err := hex.DecodeString(c.TextHex)
		if err != nil {
			fmt.Println("bad text_hex:", err)
			return 2
		}
		var p *pat
		for _, q := range pats {
			if q.name == c.Name {
				p = q
			}
		}
		if p == nil {
			fmt.Println("unknown pattern", c.Name)
			return 2
		}
		o := observe(p, text)
		fmt.Printf("pattern %s text %q -> %v match=%v\n", p.name, text, o.idx, o.ms)
		fs = judgeRegex(p, genText{kind: c.Kind, text: text}, o)
	} else {
		c := rp.Replay.Strings
		runStrCase(c)
		fmt.Printf("%s -> %s\n", c.Fn, c.coq())
		fs = judgeStr(c)
	}
	for _, f := range fs {
		fmt.Println("REPRODUCED", f)
	}
	if len(fs) > 0 {
		return 1
	}
	fmt.Println("not reproduced")
	return 0
}
