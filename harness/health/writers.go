//go:build verif

package main

// Writer / writer schedules for C18.
//
// One registration or ready-mark (the victim) is paused just before its k-th acquisition of the readiness
// map's lock — for every k it has — while one to three other registrations / ready-marks run to completion;
// then the victim finishes.  The calls overlap, so the property allows the outcome of ANY order in which the
// victim takes effect before, between or after the others; it allows nothing else.  Once everything is
// quiescent, the three ways of asking — IsReady(), a WaitForReady started now, and a /readyz request — must
// ALL be the answers of the sequential model for ONE such order.  In addition: a WaitForReady that was
// started before the calls and polled all the way through may have completed only if some state some order
// passes through satisfies "every registered component has been marked ready"; and IsReady() polled inside
// the window (victim paused, others done) must be the answer of a state the model allows there.

import (
	"context"
	"fmt"
	"time"

	"github.com/metal-toolbox/audito-maldito/internal/common"
	"github.com/metal-toolbox/audito-maldito/internal/health"
	"github.com/metal-toolbox/audito-maldito/internal/verifharness/hutil"
)

const (
	wwTick       = 200 * time.Microsecond // WaitForReady's polling interval during this stage
	wwNotReady   = 5 * time.Millisecond   // a wait that must NOT complete is watched for this long (25 polls)
	wwMustFinish = 2 * time.Second        // a wait that must complete is given this long
)

type wwCase struct {
	Mode   string   `json:"mode"` // "writers"
	Pre    []op     `json:"pre"`
	Victim op       `json:"victim"`
	K      int      `json:"paused_before_lock_index"`
	Others []op     `json:"run_while_paused"`
	Dwell  bool     `json:"dwell"`           // stay in the window for a few polling intervals
	Names  []string `json:"names,omitempty"` // component number -> name (names.go); absent: plain names
}

type wwObs struct {
	Paused    bool   `json:"victim_paused"`
	Final     obs    `json:"final"`
	FinalErr  string `json:"final_err,omitempty"`
	MidReady  bool   `json:"is_ready_in_window"`
	EarlyDone bool   `json:"early_wait_completed"`
	EarlyErr  string `json:"early_wait_err,omitempty"`
	LateDone  bool   `json:"late_wait_completed"`
	LateErr   string `json:"late_wait_err,omitempty"`
}

// modelReady: "every component registered for readiness has since been marked ready".
func modelReady(hist []op) bool {
	last := map[int]bool{}
	registered := map[int]bool{}
	for _, x := range hist {
		last[x.Name] = x.Ready
		if !x.Ready {
			registered[x.Name] = true
		}
	}
	for n := range registered {
		if !last[n] {
			return false
		}
	}
	return true
}

// waitOutcome watches a WaitForReady channel: completed = closed without a value.
func waitOutcome(ch <-chan error, d time.Duration) (completed bool, errText string) {
	select {
	case err, open := <-ch:
		if !open {
			return true, ""
		}
		return false, fmt.Sprintf("yielded %v although its context is live", err)
	case <-time.After(d):
		return false, ""
	}
}

// release ends a waiter that is still polling and waits until it is gone (its goroutine sends the context's
// error, or has closed the channel meanwhile), so that no poller of an earlier case shows up in a later trace.
func release(cancel context.CancelFunc, ch <-chan error) {
	cancel()
	select {
	case <-ch:
	case <-time.After(wwMustFinish):
	}
}

// hooksOf counts the lock acquisitions the victim makes when it runs alone after pre.
func hooksOf(ctl *hutil.Ctl, pre []op, v op) int {
	h := health.NewHealth()
	for _, o := range pre {
		apply(h, o)
	}
	ctl.ResetTrace()
	apply(h, v)
	return len(ctl.ResetTrace())
}

func runWriters(ctl *hutil.Ctl, c wwCase) wwObs {
	var w wwObs
	nameTab = c.Names
	h := health.NewHealth()
	for _, o := range c.Pre {
		apply(h, o)
	}
	ectx, ecancel := context.WithCancel(context.Background())
	early := h.WaitForReady(ectx)
	ctl.ResetTrace()
	w.Paused = ctl.StartVictim(func() { apply(h, c.Victim) }, c.K)
	for _, o := range c.Others {
		apply(h, o)
	}
	if w.Paused {
		if c.Dwell {
			time.Sleep(4 * wwTick)
		}
		w.MidReady = h.IsReady()
		ctl.Resume()
		ctl.WaitVictim()
	}
	ctl.ResetTrace()
	// quiescent from here on
	ob, err := observe(h, true)
	w.Final = ob
	if err != nil {
		w.FinalErr = err.Error()
	}
	lctx, lcancel := context.WithCancel(context.Background())
	late := h.WaitForReady(lctx)
	d := wwNotReady
	if ob.IsReady || ob.Overall {
		d = wwMustFinish // some answer says ready: give the wait every chance to agree
	}
	w.LateDone, w.LateErr = waitOutcome(late, d)
	w.EarlyDone, w.EarlyErr = waitOutcome(early, time.Millisecond)
	if !w.EarlyDone && w.LateDone {
		w.EarlyDone, w.EarlyErr = waitOutcome(early, wwMustFinish)
	}
	if !w.LateDone {
		release(lcancel, late)
	} else {
		lcancel()
	}
	if !w.EarlyDone {
		release(ecancel, early)
	} else {
		ecancel()
	}
	ctl.ResetTrace()
	return w
}

// orders: the victim takes effect before, between or after the calls that ran while it was paused.  When it was
// not paused (it never reached its k-th acquisition) it simply ran first.
func wwOrders(c wwCase, paused bool) [][]op {
	if !paused {
		return [][]op{append([]op{c.Victim}, c.Others...)}
	}
	var res [][]op
	for cut := 0; cut <= len(c.Others); cut++ {
		o := append([]op{}, c.Others[:cut]...)
		o = append(o, c.Victim)
		o = append(o, c.Others[cut:]...)
		res = append(res, o)
	}
	return res
}

// judgeWriters returns "" when the observations are those of one admissible order.
func judgeWriters(c wwCase, w wwObs) string {
	if w.FinalErr != "" {
		return "status request after the calls: " + w.FinalErr
	}
	if w.LateErr != "" {
		return "WaitForReady started after the calls " + w.LateErr
	}
	if w.EarlyErr != "" {
		return "WaitForReady started before the calls " + w.EarlyErr
	}
	orders := wwOrders(c, w.Paused)
	var why string
	ok := false
	// every state every admissible order passes through (all orders: not only the one the final answers match)
	someStateReady := modelReady(c.Pre)
	for _, ord := range orders {
		hist := append(append([]op{}, c.Pre...), ord...)
		for j := 1; j <= len(ord); j++ {
			if modelReady(hist[:len(c.Pre)+j]) {
				someStateReady = true
			}
		}
	}
	for _, ord := range orders {
		hist := append(append([]op{}, c.Pre...), ord...)
		msg := oracle(hist, w.Final, true)
		if msg == "" {
			want := modelReady(hist)
			switch {
			case w.LateDone && !want:
				msg = "WaitForReady completed although a registered component has not been marked ready (the status request says so too)"
			case !w.LateDone && want:
				msg = fmt.Sprintf("WaitForReady did not complete within %v although every registered component has been marked ready", wwMustFinish)
			}
		}
		if msg == "" {
			ok = true
			break
		}
		why = msg
	}
	if !ok {
		return fmt.Sprintf("IsReady=%v, WaitForReady completed=%v and /readyz %d %s are not the answers of the history for any order of the overlapping calls: %s",
			w.Final.IsReady, w.LateDone, w.Final.Code, w.Final.Raw, why)
	}
	if w.EarlyDone && !someStateReady {
		return "a WaitForReady started before the calls completed although in no order of the calls there is a moment at which every registered component has been marked ready"
	}
	if w.Paused {
		// inside the window the others have taken effect; the victim has or has not
		a := modelReady(append(append([]op{}, c.Pre...), c.Others...))
		b := modelReady(append(append(append([]op{}, c.Pre...), c.Victim), c.Others...))
		if w.MidReady != a && w.MidReady != b {
			return fmt.Sprintf("IsReady answered %v while one call was paused and the others had returned; the history says %v", w.MidReady, a)
		}
	}
	return ""
}

// genWriters draws a prefix, a victim and the calls that run while it is paused.  Half of the time the calls
// collide on one component name (the interesting case for a check-then-act); ready-marks dominate.
func genWriters(r *hutil.Rand) wwCase {
	names := 1 + r.Intn(4)
	c := wwCase{Mode: "writers"}
	switch r.Intn(3) {
	case 0:
		c.Pre = genOps(r, r.Intn(7), names)
	default:
		// start-up shape: register a few, mark some
		for n := 0; n < names; n++ {
			if r.Chance(4, 5) {
				c.Pre = append(c.Pre, op{Ready: false, Name: n})
			}
		}
		for n := 0; n < names; n++ {
			if r.Chance(1, 3) {
				c.Pre = append(c.Pre, op{Ready: true, Name: n})
			}
		}
	}
	c.Victim = op{Ready: r.Chance(2, 3), Name: r.Intn(names)}
	for k := 1 + r.Intn(3)/2; k > 0; k-- { // one call mostly, two sometimes
		o := op{Ready: r.Chance(2, 3), Name: r.Intn(names)}
		if r.Bool() {
			o.Name = c.Victim.Name
		}
		c.Others = append(c.Others, o)
	}
	c.Dwell = r.Chance(1, 4)
	c.Names, _ = pickNames(r, names)
	return c
}

func writersStage(sum *hutil.Summary, ctl *hutil.Ctl, r *hutil.Rand, n int) {
	old := health.DefaultReadyCheckInterval
	health.DefaultReadyCheckInterval = wwTick
	defer func() { health.DefaultReadyCheckInterval = old }()
	reported := 0
	for i := 0; i < n && reported < 5; i++ { // five failing schedules say enough (each may cost a full wait)
		c := genWriters(r)
		nHooks := hooksOf(ctl, c.Pre, c.Victim)
		if nHooks == 0 {
			nHooks = 1
		}
		for k := 0; k < nHooks; k++ {
			c.K = k
			w := runWriters(ctl, c)
			if msg := judgeWriters(c, w); msg != "" && reported < 5 {
				reported++
				rp := map[string]any{"mode": c.Mode, "pre": c.Pre, "victim": c.Victim, "paused_before_lock_index": c.K,
					"run_while_paused": c.Others, "dwell": c.Dwell, "names": c.Names, "observed": w}
				sum.FailKey("oracle", "writers:overlapping-calls", "overlapping registrations / ready-marks: "+msg, rp)
			}
			same := false
			for _, o := range c.Others {
				if o.Name == c.Victim.Name {
					same = true
				}
			}
			sum.Count("writers:"+fmt.Sprint(c.Pre, c.Victim, c.K, c.Others, c.Names), w.Paused)
			switch {
			case same && c.Victim.Ready:
				sum.Dist("writers_same_name_victim_ready")
			case same:
				sum.Dist("writers_same_name_victim_add")
			default:
				sum.Dist("writers_other_name")
			}
			if w.LateDone {
				sum.Dist("writers_final_ready")
			} else {
				sum.Dist("writers_final_not_ready")
			}
		}
	}
}

func replayWriters(c wwCase) int {
	ctl := hutil.NewCtl()
	setHook(ctl)
	defer setHook(nil)
	old := health.DefaultReadyCheckInterval
	health.DefaultReadyCheckInterval = wwTick
	defer func() { health.DefaultReadyCheckInterval = old }()
	w := runWriters(ctl, c)
	if msg := judgeWriters(c, w); msg != "" {
		fmt.Printf("REPRODUCED writers: %s\n", msg)
		return 1
	}
	fmt.Println("not reproduced")
	return 0
}

func setHook(c *hutil.Ctl) {
	if c == nil {
		common.VerifHook = nil
		return
	}
	common.VerifHook = c.Hook
}
