//go:build verif

package main

// Request histories for C18.
//
// The readiness endpoint is asked by many kinds of clients: GET polls, HEAD probes (curl -I, load balancers), other
// methods, clients that go away while the answer is written (the ResponseWriter's Write fails, or accepts only a part),
// connections reset in the middle of a response.  What such a request leaves behind in the handler (a buffer, a cached
// rendering, a half-written answer) must not show up in a later answer: after each registration / ready-mark every
// answer that is observed has the status code, the verdict and the component list of the HISTORY, and its body is
// exactly ONE JSON document.  A case is a sequence of registrations / ready-marks with requests in between, all against
// ONE handler, issued from one goroutine (per-P caches such as sync.Pool are reused that way), half of the cases with
// GOMAXPROCS 1; requests go directly to the handler (httptest.ResponseRecorder, or a writer whose k-th Write fails or is
// short) or through a real httptest.Server connection (keep-alive client, or a raw connection reset after the request).
//
// What is judged: every GET answer that was received completely - strictly, as in the sequential stage; for other
// methods only what the property can be read to say: a 200 claims readiness, a 503 denies it, and a body sent along with
// either is one consistent JSON document (a 405, an empty body etc. are not judged).  Answers written to a failing writer
// are judged by their status code only.  Oracle only, no Coq case files (the model has no requests other than GET).

import (
	"bytes"
	"context"
	"errors"
	"fmt"
	"io"
	"net"
	"net/http"
	"net/http/httptest"
	"runtime"
	"strings"
	"sync/atomic"
	"time"

	"github.com/metal-toolbox/audito-maldito/internal/health"
	"github.com/metal-toolbox/audito-maldito/internal/verifharness/hutil"
)

type reqSpec struct {
	Method string `json:"method"`
	Via    string `json:"via"`                     // recorder | failing-writer | server | server-abort
	FailAt int    `json:"fail_at_write,omitempty"` // failing-writer: the Write call (1-based) from which on writes fail
	Short  bool   `json:"short_write,omitempty"`   // ... the first failing Write accepts half of its bytes
	Peek   int    `json:"read_before_reset,omitempty"`
}

type reqStep struct {
	Op  *op      `json:"op,omitempty"`
	Req *reqSpec `json:"request,omitempty"`
}

type reqCase struct {
	Mode  string    `json:"mode"` // "requests"
	Steps []reqStep `json:"steps"`
	Names []string  `json:"names,omitempty"`
	OneP  bool      `json:"gomaxprocs_1,omitempty"`
}

var errClientGone = errors.New("write: broken pipe (client gone)")

type failWriter struct {
	hdr    http.Header
	code   int
	calls  int
	failAt int
	short  bool
	got    bytes.Buffer
}

func (w *failWriter) Header() http.Header {
	if w.hdr == nil {
		w.hdr = http.Header{}
	}
	return w.hdr
}

func (w *failWriter) WriteHeader(c int) {
	if w.code == 0 {
		w.code = c
	}
}

func (w *failWriter) Write(p []byte) (int, error) {
	if w.code == 0 {
		w.code = http.StatusOK
	}
	w.calls++
	if w.calls >= w.failAt {
		if w.short && w.calls == w.failAt && len(p) > 1 {
			n := len(p) / 2
			w.got.Write(p[:n])
			return n, io.ErrShortWrite
		}
		return 0, errClientGone
	}
	w.got.Write(p)
	return len(p), nil
}

const reqWait = 20 * time.Second // bound for anything that involves the loopback connection (generous: loaded machine)

type reqEnv struct {
	h       *health.Health
	handler http.Handler
	srv     *httptest.Server
	handled atomic.Int64
}

func (e *reqEnv) server() *httptest.Server {
	if e.srv == nil {
		e.srv = httptest.NewServer(http.HandlerFunc(func(w http.ResponseWriter, r *http.Request) {
			defer e.handled.Add(1)
			e.handler.ServeHTTP(w, r)
		}))
	}
	return e.srv
}

func (e *reqEnv) close() {
	if e.srv != nil {
		e.srv.CloseClientConnections()
		e.srv.Close()
	}
}

// waitHandled: until the server has finished n requests (or a while has passed: a request that never reached the
// handler is simply no disturbance).
func (e *reqEnv) waitHandled(n int64, d time.Duration) {
	for t0 := time.Now(); e.handled.Load() < n && time.Since(t0) < d; {
		time.Sleep(50 * time.Microsecond)
	}
}

// answer of one request: observed = the client has the complete answer (code and body).
type reqAnswer struct {
	Observed bool   `json:"observed"`
	CodeOnly bool   `json:"code_only,omitempty"`
	Code     int    `json:"code"`
	Body     string `json:"body,omitempty"`
	Note     string `json:"note,omitempty"`
	body     []byte
}

func (e *reqEnv) do(q reqSpec) reqAnswer {
	switch q.Via {
	case "failing-writer":
		w := &failWriter{failAt: q.FailAt, short: q.Short}
		if w.failAt < 1 {
			w.failAt = 1
		}
		e.handler.ServeHTTP(w, httptest.NewRequest(q.Method, "/readyz", nil))
		return reqAnswer{Observed: w.code != 0, CodeOnly: true, Code: w.code}
	case "server":
		srv := e.server()
		before := e.handled.Load()
		ctx, cancel := context.WithTimeout(context.Background(), reqWait)
		defer cancel()
		rq, err := http.NewRequestWithContext(ctx, q.Method, srv.URL+"/readyz", nil)
		if err != nil {
			return reqAnswer{Note: err.Error()}
		}
		resp, err := srv.Client().Do(rq)
		if err != nil {
			e.waitHandled(before+1, 2*time.Second)
			return reqAnswer{Note: "transport: " + err.Error()}
		}
		b, rerr := io.ReadAll(resp.Body)
		resp.Body.Close()
		e.waitHandled(before+1, reqWait)
		if rerr != nil {
			return reqAnswer{Code: resp.StatusCode, Note: "reading the body: " + rerr.Error()}
		}
		return reqAnswer{Observed: true, Code: resp.StatusCode, body: b}
	case "server-abort":
		srv := e.server()
		before := e.handled.Load()
		conn, err := net.DialTimeout("tcp", srv.Listener.Addr().String(), reqWait)
		if err != nil {
			return reqAnswer{Note: err.Error()}
		}
		_ = conn.SetDeadline(time.Now().Add(reqWait))
		fmt.Fprintf(conn, "%s /readyz HTTP/1.1\r\nHost: readyz\r\n\r\n", q.Method)
		if q.Peek > 0 {
			_, _ = io.ReadFull(conn, make([]byte, q.Peek))
		}
		if tc, ok := conn.(*net.TCPConn); ok {
			_ = tc.SetLinger(0) // reset, not an orderly close
		}
		conn.Close()
		e.waitHandled(before+1, 2*time.Second)
		return reqAnswer{Note: "connection reset by the client"}
	}
	rec := httptest.NewRecorder()
	e.handler.ServeHTTP(rec, httptest.NewRequest(q.Method, "/readyz", nil))
	return reqAnswer{Observed: true, Code: rec.Code, body: rec.Body.Bytes()}
}

// judgeAnswer: "" when the answer is what the history determines (see the head of this file for what is judged).
func judgeAnswer(hist []op, q reqSpec, a reqAnswer) string {
	if !a.Observed {
		return ""
	}
	ready := modelReady(hist)
	if q.Method == http.MethodGet && !a.CodeOnly {
		ob, err := parseAnswer(a.Code, a.body)
		if err != nil {
			return err.Error()
		}
		return oracle(hist, ob, false)
	}
	switch {
	case a.Code == http.StatusOK && !ready:
		return "a registered component is not ready but the status code is 200"
	case a.Code == http.StatusServiceUnavailable && ready:
		return "every registered component is ready but the status code is 503"
	}
	if (a.Code == http.StatusOK || a.Code == http.StatusServiceUnavailable) && !a.CodeOnly && len(bytes.TrimSpace(a.body)) > 0 {
		ob, err := parseAnswer(a.Code, a.body)
		if err != nil {
			return err.Error()
		}
		return oracle(hist, ob, false)
	}
	return ""
}

// runReqCase runs the case on a fresh Health; returns the index of the first step whose answer is wrong (or -1).
func runReqCase(c reqCase) (int, string, reqAnswer) {
	nameTab = c.Names
	if c.OneP {
		defer runtime.GOMAXPROCS(runtime.GOMAXPROCS(1))
	}
	h := health.NewHealth()
	e := &reqEnv{h: h, handler: h.ReadyzHandler()}
	defer e.close()
	var hist []op
	for i, s := range c.Steps {
		if s.Op != nil {
			apply(h, *s.Op)
			hist = append(hist, *s.Op)
			continue
		}
		if s.Req == nil {
			continue
		}
		a := e.do(*s.Req)
		if msg := judgeAnswer(hist, *s.Req, a); msg != "" {
			a.Body = clip(string(a.body))
			return i, msg, a
		}
	}
	return -1, "", reqAnswer{}
}

var otherMethods = []string{http.MethodPost, http.MethodOptions, http.MethodPut, http.MethodDelete, "PROPFIND"}

func genReq(r *hutil.Rand) reqSpec {
	switch r.Intn(20) {
	case 8, 9:
		return reqSpec{Method: http.MethodHead, Via: "recorder"}
	case 10:
		return reqSpec{Method: hutil.Pick(r, otherMethods), Via: "recorder"}
	case 11, 12, 13:
		return reqSpec{Method: http.MethodGet, Via: "failing-writer", FailAt: 1 + r.Intn(2), Short: r.Bool()}
	case 14:
		return reqSpec{Method: hutil.Pick(r, append([]string{http.MethodHead}, otherMethods...)), Via: "failing-writer", FailAt: 1 + r.Intn(2), Short: r.Bool()}
	case 15:
		return reqSpec{Method: http.MethodGet, Via: "server"}
	case 16:
		return reqSpec{Method: http.MethodHead, Via: "server"}
	case 17:
		return reqSpec{Method: hutil.Pick(r, otherMethods), Via: "server"}
	case 18:
		return reqSpec{Method: hutil.Pick(r, []string{http.MethodGet, http.MethodGet, http.MethodHead}), Via: "server-abort", Peek: []int{0, 1, 12, 40}[r.Intn(4)]}
	}
	return reqSpec{Method: http.MethodGet, Via: "recorder"}
}

func genReqCase(r *hutil.Rand, i int) (reqCase, string) {
	names := 1 + r.Intn(4)
	c := reqCase{Mode: "requests", OneP: i%2 == 0}
	var nkind string
	c.Names, nkind = pickNames(r, names)
	reqs := func(max int) {
		for k := r.Intn(max + 1); k > 0; k-- {
			q := genReq(r)
			c.Steps = append(c.Steps, reqStep{Req: &q})
		}
	}
	reqs(2) // nothing registered yet
	for _, o := range genOps(r, 1+r.Intn(9), names) {
		o := o
		c.Steps = append(c.Steps, reqStep{Op: &o})
		reqs(3)
		if r.Chance(1, 3) { // and a plain poll, whatever came before
			c.Steps = append(c.Steps, reqStep{Req: &reqSpec{Method: http.MethodGet, Via: hutil.Pick(r, []string{"recorder", "recorder", "recorder", "server"})}})
		}
	}
	c.Steps = append(c.Steps, reqStep{Req: &reqSpec{Method: http.MethodGet, Via: "recorder"}})
	return c, nkind
}

// disturbedThenPolled: the case holds a request other than a completed GET, later a change of state, later a GET.
func disturbedThenPolled(c reqCase) bool {
	st := 0
	for _, s := range c.Steps {
		switch {
		case st == 0 && s.Req != nil && !(s.Req.Method == http.MethodGet && (s.Req.Via == "recorder" || s.Req.Via == "server")):
			st = 1
		case st == 1 && s.Op != nil:
			st = 2
		case st == 2 && s.Req != nil && s.Req.Method == http.MethodGet && s.Req.Via != "failing-writer" && s.Req.Via != "server-abort":
			return true
		}
	}
	return false
}

func requestsStage(sum *hutil.Summary, r *hutil.Rand, n int) {
	reported := 0
	for i := 0; i < n && reported < 3; i++ {
		c, nkind := genReqCase(r, i)
		at, msg, a := runReqCase(c)
		if at >= 0 {
			reported++
			q := c.Steps[at].Req
			sum.FailKey("oracle", "requests:"+q.Via, fmt.Sprintf("request history, step %d (%s through %s): %s", at, q.Method, q.Via, msg),
				map[string]any{"mode": c.Mode, "steps": c.Steps[:at+1], "names": c.Names, "gomaxprocs_1": c.OneP, "observed": a})
		}
		sum.Count("requests:"+fmt.Sprint(i, len(c.Steps), c.Names), disturbedThenPolled(c))
		sum.Dist("requests_names_" + nkind)
		for _, s := range c.Steps {
			if s.Req != nil {
				sum.Dist("request_" + s.Req.Via + "_" + strings.ToLower(s.Req.Method))
			}
		}
		if i < 1 {
			sum.Sample(map[string]any{"mode": c.Mode, "steps": c.Steps, "names": clipAll(c.Names)})
		}
	}
}

// replayReqCase: what a disturbed request leaves behind may live in a per-P cache and be dropped by the garbage
// collector: a few attempts, the later ones on a single P whatever the case says.
func replayReqCase(c reqCase) int {
	for try := 0; try < 8; try++ {
		if try >= 3 {
			c.OneP = true
		}
		if at, msg, a := runReqCase(c); at >= 0 {
			fmt.Printf("REPRODUCED requests (step %d, %s through %s): %s (answer %d %s)\n", at, c.Steps[at].Req.Method, c.Steps[at].Req.Via, msg, a.Code, strings.TrimSpace(clip(string(a.body))))
			return 1
		}
	}
	fmt.Println("not reproduced")
	return 0
}
