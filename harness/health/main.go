//go:build verif

// Harness for C18: drives the real internal/health.Health (and its HTTP
// handler) with generated operation sequences, records what it answered, and
// evaluates the property's oracle on every observation.
package main

import (
	"context"
	"encoding/json"
	"errors"
	"flag"
	"fmt"
	"net/http/httptest"
	"os"
	"sort"
	"strings"
	"time"

	"github.com/metal-toolbox/audito-maldito/internal/common"
	"github.com/metal-toolbox/audito-maldito/internal/health"
	"github.com/metal-toolbox/audito-maldito/internal/verifharness/hutil"
)

type op struct {
	Ready bool `json:"ready"`
	Name  int  `json:"name"`
}

type obs struct {
	Code    int          `json:"code"`
	Overall bool         `json:"overall"`
	Comps   map[int]bool `json:"comps"`
	IsReady bool         `json:"is_ready"`
	Raw     string       `json:"raw,omitempty"`
}

// nameTab is the name table of the case being run: component number -> the name it is registered under.
// The model works on the numbers; the names are an input of their own (names.go).  Numbers beyond the table
// (and every number of a replay stored without a table) get the plain "component-<n>".
var nameTab []string

func nameOf(i int) string {
	if i >= 0 && i < len(nameTab) {
		return nameTab[i]
	}
	return fmt.Sprintf("component-%d", i)
}

// shadowed: the component numbers of the current table whose NAME is the key under which the implementation
// reports its verdict.  The answer's body cannot list such a component (one JSON object, one entry per key);
// status code, verdict and IsReady are to be right all the same.
func shadowed() map[int]bool {
	m := map[int]bool{}
	for i, n := range nameTab {
		if n == health.OverallReady {
			m[i] = true
		}
	}
	return m
}

func coqShadow() string {
	for i := range nameTab {
		if nameTab[i] == health.OverallReady {
			return fmt.Sprintf("Some %d", i)
		}
	}
	return "None"
}

func apply(h *health.Health, o op) {
	if o.Ready {
		h.OnReady(nameOf(o.Name))
	} else {
		h.AddReadiness(nameOf(o.Name))
	}
}

// observe issues one request against the real handler.
func observe(h *health.Health, withIsReady bool) (obs, error) {
	rec := httptest.NewRecorder()
	req := httptest.NewRequest("GET", "/readyz", nil)
	h.ReadyzHandler().ServeHTTP(rec, req)
	o, err := parseAnswer(rec.Code, rec.Body.Bytes())
	if err == nil && withIsReady {
		o.IsReady = h.IsReady()
	}
	return o, err
}

// parseAnswer interprets one answer of the endpoint: the body must be ONE JSON object of strings (json.Unmarshal
// rejects anything after the first document) naming the verdict and components of the case's name table.
func parseAnswer(code int, raw []byte) (obs, error) {
	var body map[string]string
	if err := json.Unmarshal(raw, &body); err != nil {
		return obs{}, fmt.Errorf("body is not a JSON object of strings: %q", clip(string(raw)))
	}
	o := obs{Code: code, Comps: map[int]bool{}, Raw: clip(strings.TrimSpace(string(raw)))}
	ov, ok := body[health.OverallReady]
	if !ok {
		return o, fmt.Errorf("no overall key in %q", o.Raw)
	}
	switch ov {
	case health.ComponentReady:
		o.Overall = true
	case health.ComponentNotReady:
	default:
		return o, fmt.Errorf("overall has unknown value %q", clip(ov))
	}
	rev := map[string]int{}
	for i, n := range nameTab {
		rev[n] = i
	}
	for k, v := range body {
		if k == health.OverallReady {
			continue
		}
		idx, known := rev[k]
		if !known {
			var rest string
			if n, _ := fmt.Sscanf(k, "component-%d%s", &idx, &rest); n != 1 || k != fmt.Sprintf("component-%d", idx) || idx < len(nameTab) {
				return o, fmt.Errorf("unknown component name %q", clip(k))
			}
		}
		switch v {
		case health.ComponentReady:
			o.Comps[idx] = true
		case health.ComponentNotReady:
			o.Comps[idx] = false
		default:
			return o, fmt.Errorf("component %q has unknown value %q", clip(k), clip(v))
		}
	}
	return o, nil
}

// oracle: the property, computed from the operation history alone.
func oracle(hist []op, o obs, checkIsReady bool) string {
	last := map[int]bool{}
	registered := map[int]bool{}
	for _, x := range hist {
		last[x.Name] = x.Ready
		if !x.Ready {
			registered[x.Name] = true
		}
	}
	allReady := true
	for n := range registered {
		if !last[n] {
			allReady = false
		}
	}
	if allReady && !(o.Code == 200 && o.Overall) {
		return fmt.Sprintf("every registered component is ready but answer is %d overall=%v", o.Code, o.Overall)
	}
	if !allReady && !(o.Code == 503 && !o.Overall) {
		return fmt.Sprintf("a registered component is not ready but answer is %d overall=%v", o.Code, o.Overall)
	}
	// a component named like the verdict key has no entry of its own in the body (the verdict is there); the
	// status code and the verdict checked above are what the property states, with that component counted
	sh := shadowed()
	nShadowed := 0
	for n := range last {
		if sh[n] {
			nShadowed++
		}
	}
	if len(o.Comps) != len(last)-nShadowed {
		return fmt.Sprintf("body lists %d components, %d were touched (%d of them named like the verdict key)", len(o.Comps), len(last), nShadowed)
	}
	listedAll := true
	for n, v := range o.Comps {
		want, ok := last[n]
		if !ok || want != v {
			return fmt.Sprintf("component %d listed as %v, last operation says %v (touched=%v)", n, v, want, ok)
		}
		if !v {
			listedAll = false
		}
	}
	if nShadowed == 0 && listedAll != o.Overall {
		return fmt.Sprintf("overall=%v but conjunction of listed components is %v", o.Overall, listedAll)
	}
	if checkIsReady && o.IsReady != o.Overall {
		return fmt.Sprintf("IsReady=%v but overall=%v", o.IsReady, o.Overall)
	}
	return ""
}

// seqRequests: requests per state in the sequential stage; concRepeats: runs of one forced schedule.
const (
	seqRequests    = 4
	concRepeats    = 3
	replayRequests = 64
)

func clipAll(xs []string) []string {
	res := make([]string, len(xs))
	for i, x := range xs {
		res[i] = clip(x)
	}
	return res
}

func coqOp(o op) string {
	if o.Ready {
		return fmt.Sprintf("HReady %d", o.Name)
	}
	return fmt.Sprintf("HAdd %d", o.Name)
}

func coqObs(o obs) string {
	keys := make([]int, 0, len(o.Comps))
	for k := range o.Comps {
		keys = append(keys, k)
	}
	sort.Ints(keys)
	items := make([]string, 0, len(keys))
	for _, k := range keys {
		items = append(items, fmt.Sprintf("(%d, %s)", k, hutil.CoqBool(o.Comps[k])))
	}
	return fmt.Sprintf("{| o_code := %d; o_overall := %s; o_comps := %s; o_isready := %s |}",
		o.Code, hutil.CoqBool(o.Overall), hutil.CoqList(items), hutil.CoqBool(o.IsReady))
}

func genOps(r *hutil.Rand, n, names int) []op {
	ops := make([]op, n)
	for i := range ops {
		// mostly-valid: registrations early, ready-marks later, plus re-registration
		// and ready-marks for unregistered names
		ops[i] = op{Ready: r.Chance(1+2*i, 2+2*n), Name: r.Intn(names)}
	}
	return ops
}

func main() {
	out := flag.String("out", "", "output directory")
	n := flag.Int("n", 300, "number of sequential cases")
	nc := flag.Int("nc", 150, "number of concurrent cases")
	replay := flag.String("replay", "", "replay file (JSON) to re-run instead of generating")
	flag.Parse()
	seed := hutil.SeedFromEnv()
	r := hutil.NewRand(seed)
	sum := hutil.NewSummary("C18", seed,
		"sequential: random Add/Ready sequences (length 0-14, 1-5 names, re-registration and ready-marks of unregistered names), one handler request + IsReady after every op; "+
			"concurrent: a status request paused at its Len and Iterate lock acquisitions with stores run in between; "+
			"requests: registrations / ready-marks with GET / HEAD / POST / OPTIONS / ... requests in between against ONE handler, through a recorder, a writer whose 1st or 2nd Write fails or is short, a real httptest.Server connection (keep-alive client; raw connection reset after the request), one goroutine, half of the cases with GOMAXPROCS 1: every completely received answer has the code, verdict, components of the history and exactly one JSON document; "+
			"writers: a registration / ready-mark paused before each of its lock acquisitions while one or two others (same or other component) run completely, then IsReady, WaitForReady and /readyz against the sequential model for some order; "+
			"non-trivial = sequence touches >=2 names and passes through both a ready and a not-ready answer; distinct by op sequence")

	if *replay != "" {
		os.Exit(doReplay(*replay))
	}

	seqCases := &hutil.CaseFile{Dir: *out, Stem: "cases_seq", PerFile: 1000,
		Header: "From Coq Require Import List Arith Bool.\nImport ListNotations.\nFrom AM Require Import Model.Health.\n",
		Footer: func(int) string { return "Definition M := Eval vm_compute in mismatches_sh cases.\nPrint M.\n" }}

	for i := 0; i < *n; i++ {
		names := 1 + r.Intn(5)
		ln := r.Intn(15)
		ops := genOps(r, ln, names)
		var nkind string
		nameTab, nkind = pickNames(r, names)
		h := health.NewHealth()
		items := []string{}
		sawReady, sawNot := false, false
		touched := map[int]bool{}
		failed := false
		for j, o := range ops {
			apply(h, o)
			touched[o.Name] = true
			// several requests per state: the order in which the implementation visits its map differs from
			// request to request (Go randomises it); every answer must be the one the history determines
			var ob obs
			for q := 0; q < seqRequests; q++ {
				obq, err := observe(h, true)
				if q == 0 {
					ob = obq
				}
				if err == nil {
					if msg := oracle(ops[:j+1], obq, true); msg != "" {
						err = errors.New(msg)
					}
				}
				if err != nil && !failed {
					failed = true
					sum.Fail("oracle", err.Error(), map[string]any{"mode": "seq", "ops": ops[:j+1], "names": namesForReplay(), "observed": obq})
				}
			}
			if ob.Overall {
				sawReady = true
			} else {
				sawNot = true
			}
			ob.Raw = ""
			items = append(items, fmt.Sprintf("(%s, %s)", coqOp(o), coqObs(ob)))
		}
		seqCases.AddDesc(fmt.Sprintf("(%s, %s)", coqShadow(), hutil.CoqList(items)), map[string]any{"mode": "seq", "ops": ops, "names": clipAll(nameTab)})
		key := fmt.Sprint(ops, nameTab)
		sum.Count(key, len(touched) >= 2 && sawReady && sawNot)
		sum.Dist(fmt.Sprintf("seq_len_%02d", ln))
		sum.Dist("seq_names_" + nkind)
		if len(shadowed()) > 0 {
			sum.Dist("seq_component_named_like_verdict_key")
		}
		if i < 2 {
			sum.Sample(map[string]any{"mode": "seq", "ops": ops, "names": clipAll(nameTab)})
		}
	}
	seqCases.Flush()

	// ---- request histories: other methods, failing writers, real connections (see requests.go) ----
	requestsStage(sum, r, *n)

	// ---- concurrent: pause the request at Len / Iterate, run stores in between ----
	concCases := &hutil.CaseFile{Dir: *out, Stem: "cases_conc", PerFile: 1000,
		Header: "From Coq Require Import List Arith Bool.\nImport ListNotations.\nFrom AM Require Import Model.Health.\n",
		Footer: func(int) string { return "Definition M := Eval vm_compute in mismatches_conc_sh cases.\nPrint M.\n" }}
	ctl := hutil.NewCtl()
	common.VerifHook = ctl.Hook
	for i := 0; i < *nc; i++ {
		names := 1 + r.Intn(4)
		pre := genOps(r, r.Intn(6), names)
		a := genOps(r, r.Intn(3), names)
		b := genOps(r, r.Intn(4), names)
		c := genOps(r, r.Intn(3), names)
		var nkind string
		nameTab, nkind = pickNames(r, names)
		hist := append(append([]op{}, pre...), a...)
		// the same forced schedule several times: the map's iteration order is the implementation's own choice
		for rep := 0; rep < concRepeats; rep++ {
			h := health.NewHealth()
			for _, o := range hist {
				apply(h, o)
			}
			var ob obs
			var oerr error
			// dry run: how many lock acquisitions does one request make on this state?
			ctl.ResetTrace()
			_, _ = observe(h, false)
			nHooks := len(ctl.ResetTrace())
			if nHooks == 0 {
				nHooks = 1
			}
			// pause the request just before its k-th lock acquisition and run the stores b there
			k := i % nHooks
			lockTrace := []string{}
			paused := ctl.StartVictim(func() { ob, oerr = observe(h, false) }, k)
			bb := b
			if paused {
				for _, o := range bb {
					apply(h, o)
				}
				ctl.Resume()
				ctl.WaitVictim()
			} else {
				bb = nil
			}
			for _, e := range ctl.ResetTrace() {
				lockTrace = append(lockTrace, e.Op)
			}
			for _, o := range c {
				apply(h, o)
			}
			// Per the property the answer must be a consistent snapshot: it must equal the
			// status of the map at SOME point between the start and the end of the request.
			okAt := -1
			var lastMsg string
			for cut := 0; cut <= len(bb); cut++ {
				hh := append(append([]op{}, hist...), bb[:cut]...)
				if oerr != nil {
					break
				}
				if msg := oracle(hh, ob, false); msg == "" {
					okAt = cut
				} else {
					lastMsg = msg
				}
			}
			if okAt < 0 {
				if oerr != nil {
					lastMsg = oerr.Error()
				}
				sum.Fail("oracle", "answer is not a consistent snapshot: "+lastMsg,
					map[string]any{"mode": "conc", "pre": hist, "stores_while_paused": bb, "paused_before_lock_index": k, "names": namesForReplay(), "observed": ob, "lock_trace": lockTrace})
			}
			if rep > 0 {
				if okAt < 0 {
					break
				}
				continue
			}
			// model case: events and answer
			evs := []string{}
			for _, o := range hist {
				evs = append(evs, "EvOp ("+coqOp(o)+")")
			}
			// lock trace of the request as observed: Len ... Iterate, with b's stores in between
			if k == 0 {
				for _, o := range bb {
					evs = append(evs, "EvOp ("+coqOp(o)+")")
				}
			}
			evs = append(evs, "EvLen")
			if k == 1 {
				for _, o := range bb {
					evs = append(evs, "EvOp ("+coqOp(o)+")")
				}
			}
			evs = append(evs, "EvIter")
			if k >= 2 {
				for _, o := range bb {
					evs = append(evs, "EvOp ("+coqOp(o)+")")
				}
			}
			for _, o := range c {
				evs = append(evs, "EvOp ("+coqOp(o)+")")
			}
			ob.Raw = ""
			concCases.AddDesc(fmt.Sprintf("(%s, (%s, %s))", coqShadow(), hutil.CoqList(evs), coqObs(ob)),
				map[string]any{"mode": "conc", "pre": hist, "between_len_and_iterate": bb, "post": c, "names": clipAll(nameTab)})
			// the decomposition [Len; Iterate] itself is part of the correspondence
			reqLocks := []string{}
			for _, l := range lockTrace {
				if l == "Len" || l == "Iterate" {
					reqLocks = append(reqLocks, l)
				}
			}
			if strings.Join(reqLocks, ",") != "Len,Iterate" {
				sum.Fail("harness", "status request no longer acquires the map as [Len; Iterate]: "+strings.Join(lockTrace, ","),
					map[string]any{"mode": "conc", "lock_trace": lockTrace})
			}
			sum.Count("conc:"+fmt.Sprint(hist, bb, c, nameTab), len(bb) > 0)
			sum.Dist(fmt.Sprintf("conc_mid_%d", len(bb)))
			sum.Dist("conc_names_" + nkind)
			if i < 2 {
				sum.Sample(map[string]any{"mode": "conc", "pre": hist, "between_len_and_iterate": bb, "post": c, "names": clipAll(nameTab)})
			}
		}
	}
	concCases.Flush()

	// ---- readiness polled while a registration / ready-mark is in flight ----
	// A store (AddReadiness / OnReady) is paused just before it takes the map's lock; meanwhile another goroutine
	// polls IsReady and asks for the status; then the store completes.  Once everything is quiescent, IsReady and
	// the status must be those of the sequential history: nothing answered during the window may stick.
	for i := 0; i < *nc/3+1; i++ {
		names := 1 + r.Intn(4)
		pre := genOps(r, r.Intn(7), names)
		o := genOps(r, 1, names)[0]
		nameTab, _ = pickNames(r, names)
		h := health.NewHealth()
		for _, x := range pre {
			apply(h, x)
		}
		ctl.ResetTrace()
		paused := ctl.StartVictim(func() { apply(h, o) }, 0)
		polled := false
		if paused {
			polled = h.IsReady()
			_, _ = observe(h, false)
			ctl.Resume()
			ctl.WaitVictim()
		}
		ctl.ResetTrace()
		hist := append(append([]op{}, pre...), o)
		for q := 0; q < seqRequests; q++ {
			ob, oerr := observe(h, true)
			msg := ""
			if oerr != nil {
				msg = oerr.Error()
			} else {
				msg = oracle(hist, ob, true)
			}
			if msg != "" {
				sum.Fail("oracle", "after a readiness poll that ran while a store was in flight, the quiescent answers are not those of the history: "+msg,
					map[string]any{"mode": "poll-during-store", "pre": pre, "store": o, "names": namesForReplay(), "polled_is_ready": polled, "observed": ob})
				break
			}
		}
		sum.Count("poll:"+fmt.Sprint(pre, o, nameTab), paused)
		sum.Dist("poll_during_store")
	}
	// ---- two writers overlapping (see writers.go) ----
	writersStage(sum, ctl, r, *nc)
	common.VerifHook = nil

	// ---- WaitForReady ----
	waitChecks(sum)

	sum.CaseFiles = append(seqCases.Files, concCases.Files...)
	sum.Write(*out)
}

func waitChecks(sum *hutil.Summary) {
	old := health.DefaultReadyCheckInterval
	health.DefaultReadyCheckInterval = time.Millisecond
	defer func() { health.DefaultReadyCheckInterval = old }()

	// (a) completes only after readiness holds
	for k := 0; k < 5; k++ {
		h := health.NewHealth()
		h.AddReadiness("a")
		h.AddReadiness("b")
		h.OnReady("a")
		ctx, cancel := context.WithCancel(context.Background())
		ch := h.WaitForReady(ctx)
		select {
		case err, open := <-ch:
			sum.Fail("oracle", fmt.Sprintf("WaitForReady completed (open=%v err=%v) while component b was not ready", open, err),
				map[string]any{"mode": "wait", "scenario": "not-ready"})
		case <-time.After(30 * time.Millisecond):
		}
		h.OnReady("b")
		select {
		case err, open := <-ch:
			if open || err != nil {
				sum.Fail("oracle", fmt.Sprintf("WaitForReady yielded %v instead of closing after readiness", err),
					map[string]any{"mode": "wait", "scenario": "ready"})
			}
		case <-time.After(2 * time.Second):
			sum.Fail("oracle", "WaitForReady did not complete within 2s after every component became ready",
				map[string]any{"mode": "wait", "scenario": "ready"})
		}
		cancel()
		sum.Count(fmt.Sprintf("wait-ready-%d", k), k == 0)
		sum.Dist("wait_ready")
	}
	// (b) cancelled first: yields the context's error
	for k := 0; k < 5; k++ {
		h := health.NewHealth()
		h.AddReadiness("a")
		ctx, cancel := context.WithCancel(context.Background())
		ch := h.WaitForReady(ctx)
		time.Sleep(5 * time.Millisecond)
		cancel()
		select {
		case err, open := <-ch:
			if !open || !errors.Is(err, context.Canceled) {
				sum.Fail("oracle", fmt.Sprintf("cancelled WaitForReady yielded open=%v err=%v, want context.Canceled", open, err),
					map[string]any{"mode": "wait", "scenario": "cancel"})
			}
		case <-time.After(2 * time.Second):
			sum.Fail("oracle", "cancelled WaitForReady yielded nothing within 2s", map[string]any{"mode": "wait", "scenario": "cancel"})
		}
		sum.Count(fmt.Sprintf("wait-cancel-%d", k), k == 0)
		sum.Dist("wait_cancel")
	}
}

func doReplay(path string) int {
	raw, err := os.ReadFile(path)
	if err != nil {
		fmt.Println("cannot read replay:", err)
		return 2
	}
	var rp struct {
		Replay struct {
			Mode string    `json:"mode"`
			Ops  []op      `json:"ops"`
			Pre  []op      `json:"pre"`
			Mid  []op      `json:"stores_while_paused"`
			K    int       `json:"paused_before_lock_index"`
			St   *op       `json:"store"`
			Vic  *op       `json:"victim"`
			Oth  []op      `json:"run_while_paused"`
			Dw   bool      `json:"dwell"`
			Nm   []string  `json:"names"`
			Stp  []reqStep `json:"steps"`
			OneP bool      `json:"gomaxprocs_1"`
		} `json:"replay"`
	}
	if err := json.Unmarshal(raw, &rp); err != nil {
		fmt.Println("bad replay:", err)
		return 2
	}
	nameTab = rp.Replay.Nm // absent in older replays: plain names
	switch rp.Replay.Mode {
	case "seq":
		h := health.NewHealth()
		for j, o := range rp.Replay.Ops {
			apply(h, o)
			// the answer may depend on the order in which the implementation visits its map: many requests
			for q := 0; q < replayRequests; q++ {
				ob, err := observe(h, true)
				if err == nil {
					if msg := oracle(rp.Replay.Ops[:j+1], ob, true); msg != "" {
						err = errors.New(msg)
					}
				}
				if err != nil {
					fmt.Printf("REPRODUCED after op %d (request %d): %v (answer %s)\n", j, q, err, ob.Raw)
					return 1
				}
			}
		}
		fmt.Println("not reproduced")
		return 0
	case "conc":
		ctl := hutil.NewCtl()
		common.VerifHook = ctl.Hook
		for q := 0; q < replayRequests; q++ {
			h := health.NewHealth()
			for _, o := range rp.Replay.Pre {
				apply(h, o)
			}
			var ob obs
			var oerr error
			if ctl.StartVictim(func() { ob, oerr = observe(h, false) }, rp.Replay.K) {
				for _, o := range rp.Replay.Mid {
					apply(h, o)
				}
				ctl.Resume()
				ctl.WaitVictim()
			}
			if oerr != nil {
				fmt.Println("REPRODUCED:", oerr)
				return 1
			}
			msg := ""
			ok := false
			for cut := 0; cut <= len(rp.Replay.Mid); cut++ {
				hh := append(append([]op{}, rp.Replay.Pre...), rp.Replay.Mid[:cut]...)
				if msg = oracle(hh, ob, false); msg == "" {
					ok = true
					break
				}
			}
			if !ok {
				fmt.Printf("REPRODUCED (run %d): answer %s is not a consistent snapshot: %s\n", q, ob.Raw, msg)
				return 1
			}
		}
		fmt.Println("not reproduced")
		return 0
	case "poll-during-store":
		if rp.Replay.St == nil {
			fmt.Println("replay carries no store")
			return 2
		}
		ctl := hutil.NewCtl()
		common.VerifHook = ctl.Hook
		h := health.NewHealth()
		for _, o := range rp.Replay.Pre {
			apply(h, o)
		}
		if ctl.StartVictim(func() { apply(h, *rp.Replay.St) }, 0) {
			_ = h.IsReady()
			_, _ = observe(h, false)
			ctl.Resume()
			ctl.WaitVictim()
		}
		common.VerifHook = nil
		for q := 0; q < replayRequests; q++ {
			ob, err := observe(h, true)
			if err == nil {
				if msg := oracle(append(append([]op{}, rp.Replay.Pre...), *rp.Replay.St), ob, true); msg != "" {
					err = errors.New(msg)
				}
			}
			if err != nil {
				fmt.Printf("REPRODUCED poll-during-store: %v (answer %s)\n", err, ob.Raw)
				return 1
			}
		}
		fmt.Println("not reproduced")
		return 0
	case "requests":
		return replayReqCase(reqCase{Mode: "requests", Steps: rp.Replay.Stp, Names: rp.Replay.Nm, OneP: rp.Replay.OneP})
	case "writers":
		if rp.Replay.Vic == nil {
			fmt.Println("replay carries no victim call")
			return 2
		}
		return replayWriters(wwCase{Mode: "writers", Pre: rp.Replay.Pre, Victim: *rp.Replay.Vic, K: rp.Replay.K, Others: rp.Replay.Oth, Dwell: rp.Replay.Dw, Names: rp.Replay.Nm})
	default:
		fmt.Println("unknown replay mode", rp.Replay.Mode)
		return 2
	}
}
